import PedVerif.Spec.Utility
/-!
# C18 — utility decorators are transparent and their own effect is exact

Every theorem below is about the wrapper texts in `PedVerif.Gen.Wrappers` (`dTrace`, `dTimer`, … — regenerated from the
source on every run) as interpreted by `PedVerif.Utility` (Model/Utility.lean).  The proofs evaluate the interpreter on
the generated text with a *symbolic* callable underneath, so they hold for every stack of decorators below, every body
script, every flavour (def / async def), every argument tuple and every world; "call the function twice", "return None",
"await twice / not at all", "swallow the exception", "increment by 2", "drop the un-listed keywords", "compare with `is`",
a missing `@wraps` change the generated text and break the corresponding proof.

Reading guide
* `TransparentOn d P`: for all parameters, all callables `inner` (any stack), all arguments and worlds satisfying `P`,
  calling (and awaiting) `d(inner)` yields the same result / exception object, the same invocations of the decorated body
  with the same bound arguments, and the same number of body runs as calling (and awaiting) `inner`.
* `transparent_on_body` spells that out against the undecorated function: exactly one body event, with the caller's
  arguments, and the script's outcome handed to the caller — for sync and async bodies alike.
-/
namespace PedVerif.Utility
open PedVerif.Gen.Wrappers

local macro "usimp" : tactic => `(tactic| simp [invoke, call, callLayer, select, findWrapper, runWrapper, execL, exec, execCall, calleeSem,
    mkFrame, mkArgs, bindVar, evalExpr, evalCond, evalCmp, lookup, awaitVal, bodyObs, isBodyOf, Res.tag, Val.pyEq, Val.pyIs, gap, runBody, World.count, World.bump, outcRes,
    fmtRaises, fmtOneRaises, valFmtRaises, idsReprRaise, condRaises, cmpRaises, objCmpRaises, *])

/- the predicates of the call layer that the guard of `require_kwargs` is made of are the generated ones (`Gen/CallTables.lean`,
   translated from `DecoratedFunction.should_have_kwargs` / `FunctionCall.args_without_self`): unfolded wherever the guard is evaluated -/
attribute [local simp] PedVerif.Gen.CallTables.shouldHaveKwargs PedVerif.Gen.CallTables.stripsFirst PedVerif.Gen.CallTables.usesMultiple
  PedVerif.Gen.CallTables.maxAllowed PedVerif.Gen.CallTables.stripFrom PedVerif.Gen.CallTables.assertUsesKwargsRaises
  PedVerif.Gen.CallTables.kwargsOnlyInvocation Guard.strips

theorem call_coro_shape : ∀ (f : Fn), f.isCoro = true → ∀ a w,
    (∃ run, call f a w = (.ret (.coro run), [], w)) ∨ (∃ c, call f a w = (.exc (.lib c), [], w)) := by
  intro f
  induction f with
  | body b =>
    intro h a w
    simp only [Fn.isCoro] at h
    simp only [call, callBody]
    split
    · right; exact ⟨_, rfl⟩
    · left; simp [h]
  | gen g => intro h; simp [Fn.isCoro] at h
  | bound s i ih =>
    intro h a w
    simp only [Fn.isCoro] at h
    simp only [call]
    exact ih h _ w
  | deco d p i ih =>
    intro h a w
    simp only [Fn.isCoro] at h
    simp only [call, callLayer]
    split at h
    · rename_i wr hs
      simp only [hs]
      cases hb : wr.body with
      | none => right; exact ⟨_, rfl⟩
      | some ss =>
        simp at h
        left; simp [h.1]
    · rename_i hs
      simp only [hs]; exact ih h a w
    · simp at h

def TransparentOn (d : Deco) (P : Params → Fn → Args → World → Prop) : Prop :=
  ∀ p inner a w, P p inner a w → bodyObs (invoke (.deco d p inner) a w) = bodyObs (invoke inner a w)

def Always : Params → Fn → Args → World → Prop := fun _ _ _ _ => True

/-- case analysis on what the decorated callable does, then evaluation of the wrapper text -/
local macro "transparency" d:ident : tactic => `(tactic| (
  intro p inner a w _
  cases hc : inner.isCoro
  · rcases h : call inner a w with ⟨r, evs, w1⟩
    cases r with
    | exc e => simp [$d:ident]; usimp
    | ret v => cases v <;> (simp [$d:ident]; usimp)
  · rcases call_coro_shape inner hc a w with ⟨run, h⟩ | ⟨c, h⟩
    · rcases h2 : run w with ⟨r, evs, w1⟩
      cases r with
      | exc e => simp [$d:ident]; usimp
      | ret v => cases v <;> (simp [$d:ident]; usimp)
    · simp [$d:ident]; usimp))

/-- the result the wrapper gets to see: of the call for a plain function, of the awaited call for a coroutine function -/
def seenResult (inner : Fn) (a : Args) (w : World) : Out := if inner.isCoro then invoke inner a w else call inner a w

/-- **trace, timer, count_calls, deprecated are transparent** — unconditionally: over every callable, for all arguments, outcomes and
    flavours (the sync wrapper over a coroutine function hands the coroutine through un-awaited, the async wrapper awaits exactly
    once).  What they print formats nothing of the user's with the user's own methods: `timer` / `count_calls` print names, times and
    counters, and `trace` formats the arguments and the result through the never-raising display wrapper `helper_methods._Shown`
    (generated: `.print []` everywhere, `no_wrapper_formats_raw`, `display_wrapper_facts`; repair of finding
    `traceFormatsArgumentsAndResults`) — a `__repr__` / `__str__` that raises cannot escape from the decorated call any more
    (`fixed_trace_unformattable_argument`, `fixed_trace_unformattable_result`). -/
theorem transparent_trace : TransparentOn dTrace Always := by transparency dTrace
theorem transparent_timer : TransparentOn dTimer Always := by transparency dTimer
theorem transparent_count_calls : TransparentOn dCountCalls Always := by transparency dCountCalls
theorem transparent_deprecated : TransparentOn dDeprecated Always := by transparency dDeprecated

/-! ### trace_if_returns (and does_same_as_function below): they COMPARE the objects of the caller

`trace_if_returns` evaluates `result == return_value`: `__eq__` of the caller's object runs inside the wrapper; when it raises, the
decorated call raises where the undecorated one does not.  The full statement is therefore FALSE of the code (witness below, finding
`comparisonsCallUserEq`: a decorator that compares results has to call the objects' own comparison); what holds is transparency under
the decidable guard `EqTotal`.  The message it prints on a match is formatted through the display wrapper and cannot raise. -/

/-- `result == return_value` answers -/
def EqTotal : Params → Fn → Args → World → Prop := fun p inner a w =>
  -- a result that is no object of the user's class (`None`, a coroutine or generator object) answers `NotImplemented`: the reflected
  -- `return_value.__eq__` runs
  (p.traits p.param.id).eqRaises = false ∧
  ∀ o evs w1, seenResult inner a w = (.ret (.obj o), evs, w1) → (p.traits o.id).eqRaises = false

theorem transparent_trace_if_returns_partial : TransparentOn dTraceIfReturns EqTotal := by
  intro p inner a w hP
  obtain ⟨hpar, hP⟩ := hP
  cases hc : inner.isCoro
  · rcases h : call inner a w with ⟨r, evs, w1⟩
    cases r with
    | exc e => simp [dTraceIfReturns]; usimp
    | ret v =>
      cases v with
      | obj o =>
        have heq := hP o evs w1 (by simp [seenResult, hc, h])
        cases hb : (o.cls == p.param.cls) <;> (simp [dTraceIfReturns]; usimp)
      | _ => simp [dTraceIfReturns]; usimp
  · rcases call_coro_shape inner hc a w with ⟨run, h⟩ | ⟨c, h⟩
    · rcases h2 : run w with ⟨r, evs, w1⟩
      cases r with
      | exc e => simp [dTraceIfReturns]; usimp
      | ret v =>
        cases v with
        | obj o =>
          have heq := hP o evs w1 (by simp [seenResult, hc, invoke, h, h2])
          cases hb : (o.cls == p.param.cls) <;> (simp [dTraceIfReturns]; usimp)
        | _ => simp [dTraceIfReturns]; usimp
    · simp [dTraceIfReturns]; usimp

def transparent_trace_if_returns_full : Prop := TransparentOn dTraceIfReturns Always

/-! overrides, require_kwargs, mock, unimplemented -/
/-- `overrides` returns the function itself -/
theorem transparent_overrides : TransparentOn dOverrides Always := by
  intro p inner a w _
  simp [dOverrides]; usimp

/-- the call gets past the guard statements of the wrapper: `DecoratedFunction(func)` accepts the callable and `assert_uses_kwargs`
    has nothing to complain about — a keyword call (see `keyword_call_passes_guard`), but also every POSITIONAL call the guard lets
    through: a callable taking `*args` (plain function, method, static method, class method, bound method handed to the decorator) -/
def KeywordCall : Params → Fn → Args → World → Prop := fun p _ a _ => p.guard.rejects a = none

theorem transparent_require_kwargs : TransparentOn dRequireKwargs KeywordCall := by
  intro p inner a w hk
  simp only [KeywordCall] at hk
  cases hc : inner.isCoro
  · rcases h : call inner a w with ⟨r, evs, w1⟩
    cases r with
    | exc e => simp [dRequireKwargs]; usimp
    | ret v => cases v <;> (simp [dRequireKwargs]; usimp)
  · rcases call_coro_shape inner hc a w with ⟨run, h⟩ | ⟨c, h⟩
    · rcases h2 : run w with ⟨r, evs, w1⟩
      cases r with
      | exc e => simp [dRequireKwargs]; usimp
      | ret v => cases v <;> (simp [dRequireKwargs]; usimp)
    · simp [dRequireKwargs]; usimp

/-- nothing positional (or only the instance of a method that `DecoratedFunction` recognises): the guard is silent -/
theorem keyword_call_passes_guard (g : Guard) (a : Args) (hf : g.notFunction = false)
    (h : (a.pos = [] ∧ g.isInstanceMethod = false) ∨ (g.isInstanceMethod = true ∧ a.pos.length = 1)) :
    g.rejects a = none := by
  rcases h with ⟨h, hs⟩ | ⟨h1, h2⟩
  · simp [Guard.rejects, Guard.trips, Guard.argsWithoutSelf, h, hf, hs]
  · have : a.pos ≠ [] := by intro h; simp [h] at h2
    simp [Guard.rejects, Guard.trips, Guard.argsWithoutSelf, h1, h2, hf, this]

/-- generated fact, re-read from `DecoratedFunction.is_instance_method` on every run (fix 86bfec9): a bound method object is not an
    "instance method" whose instance would still be among the arguments -/
theorem bound_method_is_no_instance_method (g : Guard) (hm : g.isMethodObj = true) : g.isInstanceMethod = false := by
  have : instanceMethodExcludesBound = true := by decide
  simp [Guard.isInstanceMethod, hm, this]

/-- the one well-formedness condition on a call that is left: the FUNCTION of a method (first parameter spelled `self`, not a bound
    method object) gets its instance as a positional argument — which attribute access on an instance always does (`.bound`, see
    `transparent_require_kwargs_star_args_via_instance`); only `K.method(self=obj, …)` through the class does not -/
def InstancePositional (g : Guard) (a : Args) : Prop := g.isInstanceMethod = true → a.pos ≠ []

/-- a callable whose source spells `*args` is never refused, however many positional arguments the caller passes -/
theorem star_args_call_passes_guard (g : Guard) (a : Args) (hf : g.notFunction = false) (hw : g.wantsArgs = true)
    (hi : InstancePositional g a) :
    g.rejects a = none := by
  have hr : (g.isInstanceMethod && a.pos.isEmpty) = false := by
    cases h : g.isInstanceMethod with
    | false => simp
    | true => have := hi h; cases hp : a.pos with
      | nil => exact absurd hp this
      | cons x xs => simp
  simp [Guard.rejects, Guard.trips, Guard.shouldHaveKwargs, hf, hw, hr]

/-- **positional arguments that `require_kwargs` lets through reach the callable unchanged**: whatever is decorated — `inner` is any
    callable: a plain function, `.bound self …` for a bound method handed to the decorator call, anything stacked — and however
    `DecoratedFunction` classifies it (static method, class / bound method, instance method, several decorators: `p.guard` is
    arbitrary apart from the hypotheses), a callable that takes `*args` receives every positional and keyword argument of the
    caller: same body invocation with the same bound arguments (surplus positionals included), same result / exception object.
    Full statement: every form of callable, every argument tuple in which the function of a method gets its instance positionally. -/
theorem transparent_require_kwargs_star_args_full (p : Params) (inner : Fn) (a : Args) (w : World)
    (hf : p.guard.notFunction = false) (hw : p.guard.wantsArgs = true) (hi : InstancePositional p.guard a) :
    bodyObs (invoke (.deco dRequireKwargs p inner) a w) = bodyObs (invoke inner a w) :=
  transparent_require_kwargs p inner a w (star_args_call_passes_guard p.guard a hf hw hi)

/-- … a BOUND method handed to the decorator call (`require_kwargs(obj.method)`): EVERY argument tuple — keyword-only calls and calls
    without arguments included (the region of the finding repaired by 86bfec9) -/
theorem transparent_require_kwargs_star_args_bound_method (p : Params) (inner : Fn) (a : Args) (w : World)
    (hf : p.guard.notFunction = false) (hw : p.guard.wantsArgs = true) (hm : p.guard.isMethodObj = true) :
    bodyObs (invoke (.deco dRequireKwargs p inner) a w) = bodyObs (invoke inner a w) :=
  transparent_require_kwargs_star_args_full p inner a w hf hw
    (fun h => by rw [bound_method_is_no_instance_method p.guard hm] at h; cases h)

/-- … a decorated method reached through an instance (attribute access binds the instance in front): every argument tuple -/
theorem transparent_require_kwargs_star_args_via_instance (p : Params) (inner : Fn) (s : Nat) (a : Args) (w : World)
    (hf : p.guard.notFunction = false) (hw : p.guard.wantsArgs = true) :
    bodyObs (invoke (.bound s (.deco dRequireKwargs p inner)) a w) = bodyObs (invoke (.bound s inner) a w) := by
  have h := transparent_require_kwargs_star_args_full p inner { a with pos := s :: a.pos } w hf hw (fun _ => by simp)
  simpa [invoke, call] using h

/-- … a callable whose first parameter is not spelled `self` (plain function, static method, class method): every argument tuple -/
theorem transparent_require_kwargs_star_args_no_self (p : Params) (inner : Fn) (a : Args) (w : World)
    (hf : p.guard.notFunction = false) (hw : p.guard.wantsArgs = true) (hs : p.guard.selfFirst = false) :
    bodyObs (invoke (.deco dRequireKwargs p inner) a w) = bodyObs (invoke inner a w) :=
  transparent_require_kwargs_star_args_full p inner a w hf hw (fun h => by simp [Guard.isInstanceMethod, hs] at h)

/-- **`require_kwargs(obj.method)` is transparent for keyword calls**: a bound method handed to the decorator call, whatever its
    signature (with or without `*args`), called without positional arguments -/
theorem transparent_require_kwargs_bound_method_keyword_call (p : Params) (inner : Fn) (a : Args) (w : World)
    (hf : p.guard.notFunction = false) (hm : p.guard.isMethodObj = true) (hk : a.pos = []) :
    bodyObs (invoke (.deco dRequireKwargs p inner) a w) = bodyObs (invoke inner a w) :=
  transparent_require_kwargs p inner a w
    (keyword_call_passes_guard p.guard a hf (Or.inl ⟨hk, bound_method_is_no_instance_method p.guard hm⟩))

/-- … and a positional call of a bound method WITHOUT `*args` (undecorated source: no decorator lines) is refused with
    `PedanticCallWithArgsException` before anything runs — the instance is not mistaken for an argument any more -/
theorem require_kwargs_bound_method_rejects_positional (p : Params) (inner : Fn) (a : Args) (w : World) (hc : inner.isCoro = false)
    (hf : p.guard.notFunction = false) (hm : p.guard.isMethodObj = true) (hw : p.guard.wantsArgs = false)
    (hs : p.guard.isStatic = false) (hn : p.guard.nDecorators = 0) (hp : a.pos ≠ []) :
    invoke (.deco dRequireKwargs p inner) a w = (.exc (.lib "PedanticCallWithArgsException"), [], w) := by
  have hi := bound_method_is_no_instance_method p.guard hm
  have hl : 0 < a.pos.length := by cases h : a.pos with | nil => exact absurd h hp | cons x xs => simp
  have hr : p.guard.rejects a = some "PedanticCallWithArgsException" := by
    simp [Guard.rejects, Guard.trips, Guard.shouldHaveKwargs, Guard.argsWithoutSelf, hf, hi, hw, hs, hn, hl]
  simp [dRequireKwargs, invoke, call, callLayer, select, findWrapper, runWrapper, execL, exec, mkFrame, bindVar, idsReprRaise, hc, hr,
    refusalMessageFormatsRawArguments]

/-- the call sites among the top-level statements of a wrapper body: whom it calls, with which positional and keyword arguments,
    awaited or not -/
def callSites (ss : List Stmt) : List (Callee × PosSrc × KwSrc × Bool) :=
  ss.filterMap (fun s => match s with | .call _ c pos kw aw => some (c, pos, kw, aw) | _ => none)

/-- generated fact, re-read from the source on every run: the wrapper of `require_kwargs` invokes the decorated callable exactly
    once, as `func(*args, **kwargs)` — not through a helper that drops `*args` for some kinds of callable -/
theorem require_kwargs_call_expression :
    (match findWrapper dRequireKwargs "wrapper" with
     | .wrapper w => w.body.map callSites
     | _ => none) = some [(.wrapped, .args, .kwargs, false)] := by decide

/-- a staticmethod / classmethod OBJECT handed to `require_kwargs` (the decorator written above `@staticmethod`) is refused on every
    call, keyword calls included — the reason such programs are outside the claims (`spec` marks them `unspec`) -/
theorem require_kwargs_rejects_non_functions (p : Params) (inner : Fn) (a : Args) (w : World) (hc : inner.isCoro = false)
    (hf : p.guard.notFunction = true) :
    invoke (.deco dRequireKwargs p inner) a w = (.exc (.lib "PedanticTypeCheckException"), [], w) := by
  simp [dRequireKwargs, invoke, call, callLayer, select, findWrapper, runWrapper, execL, exec, Guard.rejects, mkFrame, bindVar, hc, hf]

/-- **mock and unimplemented never run the body**: no event at all, whatever is underneath, for both flavours -/
theorem mock_never_runs_body (p : Params) (inner : Fn) (a : Args) (w : World) :
    invoke (.deco dMock p inner) a w = (.ret (.obj p.param), [], w) := by
  cases hc : inner.isCoro <;> (simp [dMock]; usimp)

theorem unimplemented_never_runs_body (p : Params) (inner : Fn) (a : Args) (w : World) :
    invoke (.deco dUnimplemented p inner) a w = (.exc (.lib "NotImplementedException"), [], w) := by
  cases hc : inner.isCoro <;> (simp [dUnimplemented]; usimp)

/-! does_same_as_function -/

/-- "both agree": `other_func` accepts the same arguments and its next outcome is an object equal to the result (and its `__ne__`
    answers: the comparison runs the object's own method); a coroutine `other_func` is only awaited next to a coroutine function -/
structure OtherAgrees (p : Params) (inner : Fn) (a : Args) (w : World) : Prop where
  flavour : p.other.isCoro = true → inner.isCoro = true
  agrees : ∀ r evs w1, seenResult inner a w = (.ret r, evs, w1) →
    ∃ v u, r = .obj v ∧ (bind p.other.sig a).isSome = true ∧ p.other.script w1.oinv = .ret u ∧ u.cls = v.cls ∧
      (p.traits u.id).neRaises = false          -- `other != result` runs `__ne__` of what `other_func` returned: it answers

/-- the outcome of calling a plain `other_func` that accepts the arguments -/
theorem other_sync_call (p : Params) (a : Args) (w : World) (bd : Bound) (u : Obj)
    (hof : p.other.isCoro = false) (hbd : bind p.other.sig a = some bd) (hs : p.other.script w.oinv = .ret u) :
    callBody .other p.other a w = (.ret (.obj u), [.body .other w.oinv bd], w.bump .other) := by
  simp [callBody, hbd, hof, runBody, World.count, hs, outcRes]

/-- … and of calling a coroutine `other_func`: a coroutine that, awaited, runs the body -/
theorem other_async_call (p : Params) (a : Args) (w : World) (bd : Bound)
    (hof : p.other.isCoro = true) (hbd : bind p.other.sig a = some bd) :
    callBody .other p.other a w = (.ret (.coro (runBody .other p.other bd)), [], w) := by
  simp [callBody, hbd, hof]

/-- **does_same_as_function is transparent when both agree** (all four flavour combinations the wrappers support) -/
theorem transparent_does_same_as_function : TransparentOn dDoesSameAsFunction OtherAgrees := by
  intro p inner a w hag
  cases hc : inner.isCoro
  · have hof : p.other.isCoro = false := by
      cases ho : p.other.isCoro
      · rfl
      · have := hag.flavour ho; simp [hc] at this
    rcases h : call inner a w with ⟨r, evs, w1⟩
    cases r with
    | exc e => simp [dDoesSameAsFunction]; usimp
    | ret r =>
      obtain ⟨v, u, hr, hb, hs, hcls, hne⟩ := hag.agrees r evs w1 (by simp [seenResult, hc, h])
      subst hr
      rcases hbd : bind p.other.sig a with _ | bd
      · simp [hbd] at hb
      · have ho := other_sync_call p a w1 bd u hof hbd hs
        simp [dDoesSameAsFunction]; usimp
  · rcases call_coro_shape inner hc a w with ⟨run, h⟩ | ⟨c, h⟩
    · rcases h2 : run w with ⟨r, evs, w1⟩
      cases r with
      | exc e => simp [dDoesSameAsFunction]; usimp
      | ret r =>
        obtain ⟨v, u, hr, hb, hs, hcls, hne⟩ := hag.agrees r evs w1 (by simp [seenResult, hc, invoke, h, h2])
        subst hr
        rcases hbd : bind p.other.sig a with _ | bd
        · simp [hbd] at hb
        · cases hof : p.other.isCoro
          · have ho := other_sync_call p a w1 bd u hof hbd hs
            simp [dDoesSameAsFunction]; usimp
          · have ho := other_async_call p a w1 bd hof hbd
            simp [dDoesSameAsFunction]; usimp
    · simp [dDoesSameAsFunction]; usimp

/-- what `other_func` yields where the wrapper puts it: awaited next to a coroutine function if it is one itself -/
def otherOut (p : Params) (inner : Fn) (a : Args) (w : World) : Out :=
  let o := callBody .other p.other a w
  if inner.isCoro && p.other.isCoro then
    match o.1 with
    | .ret v =>
      let o2 := awaitVal v o.2.2
      (o2.1, o.2.1 ++ o2.2.1, o2.2.2)
    | .exc _ => o
  else o

/-- **raises iff the two results differ**: when the decorated function yields `v` and `other_func` yields `u`, the caller gets
    `v` itself if `u == v` and an `AssertionError` otherwise — provided `u.__ne__` answers (the message is formatted through the
    never-raising display wrapper) -/
theorem does_same_result (p : Params) (inner : Fn) (a : Args) (w w1 w2 : World) (v u : Obj) (evs evs2 : List Ev)
    (h1 : seenResult inner a w = (.ret (.obj v), evs, w1))
    (h2 : otherOut p inner a w1 = (.ret (.obj u), evs2, w2))
    (hne : (p.traits u.id).neRaises = false) :
    invoke (.deco dDoesSameAsFunction p inner) a w =
      (if u.cls = v.cls then .ret (.obj v) else .exc (.lib "AssertionError"), evs ++ evs2, w2) := by
  have split : (u.cls == v.cls) = true ∧ u.cls = v.cls ∨ (u.cls == v.cls) = false ∧ ¬ u.cls = v.cls := by
    by_cases h : u.cls = v.cls <;> simp [h]
  cases hc : inner.isCoro
  · simp [seenResult, hc] at h1
    simp [otherOut, hc] at h2
    rcases split with ⟨hb, hcls⟩ | ⟨hb, hcls⟩ <;> (simp [dDoesSameAsFunction]; usimp)
  · rcases call_coro_shape inner hc a w with ⟨run, h⟩ | ⟨c, h⟩
    · rcases hr1 : run w with ⟨r1, e1, w1'⟩
      simp [seenResult, hc, invoke, h, hr1] at h1
      obtain ⟨rfl, rfl, rfl⟩ := h1
      cases hof : p.other.isCoro
      · simp [otherOut, hc, hof] at h2
        rcases split with ⟨hb, hcls⟩ | ⟨hb, hcls⟩ <;> (simp [dDoesSameAsFunction]; usimp)
      · rcases ho : callBody .other p.other a w1' with ⟨r, evs3, w3⟩
        simp [otherOut, hc, hof, ho] at h2
        cases r with
        | exc e => simp at h2
        | ret vv =>
          cases vv with
          | coro run3 =>
            rcases hr3 : run3 w3 with ⟨r4, evs4, w4⟩
            simp [awaitVal, hr3] at h2
            obtain ⟨rfl, rfl, rfl⟩ := h2
            rcases split with ⟨hb, hcls⟩ | ⟨hb, hcls⟩ <;> (simp [dDoesSameAsFunction]; usimp)
          | _ => simp [awaitVal] at h2
    · simp [seenResult, hc, invoke, h] at h1


/-! rename_kwargs -/

theorem kwGet?_dictSet (k k' v : Nat) : ∀ d, kwGet? k' (dictSet k v d) = if k' = k then some v else kwGet? k' d := by
  intro d
  induction d with
  | nil => simp only [dictSet, kwGet?]; grind
  | cons kv r ih =>
    obtain ⟨k0, v0⟩ := kv
    simp only [dictSet]
    split <;> simp only [kwGet?] <;> grind

/-- `param_dict` answers like "the last rule for k" -/
theorem paramDictFrom_get (k : Nat) : ∀ (rules acc : List (Nat × Nat)),
    ∃ d, paramDictFrom "from_" "to" acc rules = some d ∧
      kwGet? k d = (match ruleFor k rules with
        | some t => some t
        | none => kwGet? k acc) := by
  intro rules
  induction rules with
  | nil => intro acc; exact ⟨acc, rfl, by simp [ruleFor]⟩
  | cons r rest ih =>
    intro acc
    obtain ⟨f, t⟩ := r
    obtain ⟨d, hd, hg⟩ := ih (dictSet f t acc)
    refine ⟨d, ?_, ?_⟩
    · simp [paramDictFrom, renameField, hd]
    · rw [hg]
      simp only [ruleFor]
      cases ruleFor k rest with
      | some t' => rfl
      | none =>
        simp only [kwGet?_dictSet]
        by_cases h : f = k
        · simp [h]
        · simp [h, Ne.symm h]

theorem paramDict_spec (rules : List (Nat × Nat)) :
    ∃ d, paramDict "from_" "to" rules = some d ∧ ∀ k, kwGet? k d = ruleFor k rules := by
  obtain ⟨d, hd, _⟩ := paramDictFrom_get 0 rules []
  refine ⟨d, hd, ?_⟩
  intro k
  obtain ⟨d', hd', hg⟩ := paramDictFrom_get k rules []
  have : d' = d := by simpa [hd] using hd'.symm
  subst this
  rw [hg]; cases ruleFor k rules <;> simp [kwGet?]

/-- the loop of the wrapper computes exactly the renamed map of the specification -/
theorem renameLoop_eq_spec (rule : RenameRule) (hl : rule.onListed = some .mapped) (ho : rule.onOther = some .same)
    (rules d : List (Nat × Nat)) (hd : ∀ k, kwGet? k d = ruleFor k rules) :
    ∀ kws acc, renameLoop rule d acc kws = some (specRename rules acc kws) := by
  intro kws
  induction kws with
  | nil => intro acc; rfl
  | cons kv rest ih =>
    intro acc
    obtain ⟨k, v⟩ := kv
    simp only [renameLoop, renameStep, hasKey, hd, specRename, renameKey]
    cases hr : ruleFor k rules with
    | none => simp [ho, keyOf, ih]
    | some t => simp [hl, keyOf, hd, hr, ih]

theorem dictOf_rename (p : Params) : ∃ d, dictOf dRenameKwargs p = d ∧ ∀ k, kwGet? k d = ruleFor k p.renames := by
  obtain ⟨d, hd, hg⟩ := paramDict_spec p.renames
  exact ⟨d, by simp [dictOf, dRenameKwargs, hd], hg⟩

/-- **renames exactly the listed keywords**: the decorated callable receives the positional arguments untouched and exactly
    the map the specification prescribes -/
theorem rename_exact (p : Params) (inner : Fn) (a : Args) (w : World) :
    invoke (.deco dRenameKwargs p inner) a w = invoke inner ⟨a.pos, specRename p.renames [] a.kw⟩ w := by
  obtain ⟨d, hd, hg⟩ := dictOf_rename p
  have hloop := renameLoop_eq_spec ⟨some .mapped, some .same⟩ rfl rfl p.renames d hg a.kw []
  subst hd
  simp only [dRenameKwargs] at hloop ⊢
  cases hc : inner.isCoro
  · rcases h : call inner ⟨a.pos, specRename p.renames [] a.kw⟩ w with ⟨r, evs, w1⟩
    cases r with
    | exc e => usimp
    | ret v => cases v <;> usimp
  · rcases call_coro_shape inner hc ⟨a.pos, specRename p.renames [] a.kw⟩ w with ⟨run, h⟩ | ⟨c, h⟩
    · rcases h2 : run w with ⟨r, evs, w1⟩
      cases r with
      | exc e => usimp
      | ret v => cases v <;> usimp
    · usimp

theorem hasKey_append (k : Nat) : ∀ (a b : List (Nat × Nat)), hasKey k (a ++ b) = (hasKey k a || hasKey k b) := by
  intro a b
  induction a with
  | nil => simp [hasKey, kwGet?]
  | cons kv r ih =>
    obtain ⟨k0, v0⟩ := kv
    simp only [hasKey] at ih ⊢
    simp only [List.cons_append, kwGet?]
    split <;> simp_all

theorem dictSet_fresh (k v : Nat) : ∀ (d : List (Nat × Nat)), hasKey k d = false → dictSet k v d = d ++ [(k, v)] := by
  intro d
  induction d with
  | nil => intro _; rfl
  | cons kv r ih =>
    obtain ⟨k0, v0⟩ := kv
    intro h
    simp only [hasKey, kwGet?] at h ih
    by_cases hk : k0 = k
    · simp [hk] at h
    · simp [hk] at h
      simp [dictSet, hk, ih (by simp [h])]

/-- keyword names of a call are pairwise distinct -/
def DistinctKeys : List (Nat × Nat) → Prop
  | [] => True
  | kv :: r => hasKey kv.1 r = false ∧ DistinctKeys r

theorem hasKey_false_ne (k : Nat) : ∀ (d : List (Nat × Nat)), hasKey k d = false → ∀ kv ∈ d, kv.1 ≠ k := by
  intro d
  induction d with
  | nil => intro _ kv h; cases h
  | cons x r ih =>
    obtain ⟨k0, v0⟩ := x
    intro h kv hm
    simp only [hasKey, kwGet?] at h ih
    by_cases hk : k0 = k
    · simp [hk] at h
    · simp [hk] at h
      rcases List.mem_cons.mp hm with rfl | hm
      · exact hk
      · exact ih (by simp [h]) kv hm

theorem specRename_unlisted (rules : List (Nat × Nat)) :
    ∀ (kws acc : List (Nat × Nat)), (∀ kv ∈ kws, ruleFor kv.1 rules = none) → DistinctKeys kws →
      (∀ kv ∈ kws, hasKey kv.1 acc = false) → specRename rules acc kws = acc ++ kws := by
  intro kws
  induction kws with
  | nil => intro acc _ _ _; simp [specRename]
  | cons kv rest ih =>
    intro acc hu hd hf
    obtain ⟨k, v⟩ := kv
    have hk : ruleFor k rules = none := hu (k, v) (List.mem_cons_self ..)
    simp only [specRename, renameKey, hk, Option.getD_none]
    rw [dictSet_fresh k v acc (hf (k, v) (List.mem_cons_self ..))]
    rw [ih (acc ++ [(k, v)]) (fun kv h => hu kv (List.mem_cons_of_mem _ h)) hd.2]
    · simp
    · intro kv hm
      rw [hasKey_append]
      have h1 := hf kv (List.mem_cons_of_mem _ hm)
      have h2 := hasKey_false_ne k rest hd.1 kv hm
      simp only [hasKey] at h1 ⊢
      simp [h1, kwGet?, Ne.symm h2]

/-- no keyword of the call is listed in a `Rename` rule (and, as in every Python call, keyword names are distinct) -/
def NoListedKey : Params → Fn → Args → World → Prop :=
  fun p _ a _ => (∀ kv ∈ a.kw, ruleFor kv.1 p.renames = none) ∧ DistinctKeys a.kw

theorem transparent_rename_kwargs : TransparentOn dRenameKwargs NoListedKey := by
  intro p inner a w h
  rw [rename_exact, specRename_unlisted p.renames a.kw [] h.1 h.2 (by intro kv _; rfl)]
  simp


/-! stacking -/
/-- **stacking**: two transparent decorators stacked are transparent (each under its own side condition, the outer one's stated
    about the inner decorated callable) -/
theorem stacking {d₁ d₂ : Deco} {P₁ P₂ : Params → Fn → Args → World → Prop}
    (h₁ : TransparentOn d₁ P₁) (h₂ : TransparentOn d₂ P₂) :
    ∀ p₁ p₂ inner a w, P₁ p₁ (.deco d₂ p₂ inner) a w → P₂ p₂ inner a w →
      bodyObs (invoke (.deco d₁ p₁ (.deco d₂ p₂ inner)) a w) = bodyObs (invoke inner a w) := by
  intro p₁ p₂ inner a w hp₁ hp₂
  rw [h₁ p₁ _ a w hp₁, h₂ p₂ inner a w hp₂]

/-! the undecorated function -/
theorem invoke_body (b : Body) (a : Args) (w : World) :
    invoke (.body b) a w = (match bind b.sig a with
      | none => (.exc (.lib "TypeError"), [], w)
      | some bd => runBody .wrapped b bd w) := by
  simp only [invoke, call, callBody]
  cases bind b.sig a with
  | none => rfl
  | some bd =>
    cases hc : b.isCoro
    · simp [runBody, World.count]
      cases b.script w.inv <;> simp [outcRes]
    · simp

/-- what "same arguments in, same result / exception out, exactly one invocation" means, spelled out: for every body script,
    every flavour and every argument tuple the signature accepts, a transparent decorator produces exactly one body event — with
    the caller's arguments as bound by the signature — and hands the script's outcome to the caller (after awaiting) -/
theorem transparent_on_body {d : Deco} {P : Params → Fn → Args → World → Prop} (h : TransparentOn d P)
    (p : Params) (b : Body) (a : Args) (w : World) (bd : Bound) (hP : P p (.body b) a w) (hb : bind b.sig a = some bd) :
    bodyObs (invoke (.deco d p (.body b)) a w) =
      ⟨(outcRes (b.script w.inv)).tag, [.body .wrapped w.inv bd], w.inv + 1⟩ := by
  rw [h p _ a w hP, invoke_body, hb]
  simp [bodyObs, runBody, World.count, World.bump, isBodyOf]

/-- **a decorated coroutine function is still awaited to the same result**: the `async def` instance of `transparent_on_body` -/
theorem awaited_same_result {d : Deco} {P : Params → Fn → Args → World → Prop} (h : TransparentOn d P)
    (p : Params) (b : Body) (a : Args) (w : World) (bd : Bound) (_hco : b.isCoro = true) (hP : P p (.body b) a w)
    (hb : bind b.sig a = some bd) :
    (bodyObs (invoke (.deco d p (.body b)) a w)).res = (outcRes (b.script w.inv)).tag ∧
    (bodyObs (invoke (.deco d p (.body b)) a w)).calls = [.body .wrapped w.inv bd] := by
  rw [transparent_on_body h p b a w bd hP hb]; exact ⟨rfl, rfl⟩

/-- … and an argument tuple the signature rejects is rejected the same way (TypeError, no invocation) -/
theorem transparent_on_body_mismatch {d : Deco} {P : Params → Fn → Args → World → Prop} (h : TransparentOn d P)
    (p : Params) (b : Body) (a : Args) (w : World) (hP : P p (.body b) a w) (hb : bind b.sig a = none) :
    bodyObs (invoke (.deco d p (.body b)) a w) = ⟨.exc (.lib "TypeError"), [], w.inv⟩ := by
  rw [h p _ a w hP, invoke_body, hb]
  simp [bodyObs, Res.tag]

/-! trace_class / timer_class -/

def MemberGuard (k : MemberKind) (acc : Access) : Prop := k = .method ∨ k = .prop ∨ acc = .cls

/-- what the wrapper stored by `for_all_methods` is wrapped around, and the arguments it sees (under `MemberGuard`): the plain
    function with the instance in front (method, property getter), the plain function (static method through the class), the method
    bound to the class (class method through the class) -/
def memberInner (k : MemberKind) (cls : Nat) (raw : Fn) : Fn :=
  match k with
  | .classm => .bound cls raw
  | _ => raw

def memberArgs (k : MemberKind) (acc : Access) (self : Nat) (a : Args) : Args :=
  match k, acc with
  | .method, _ => { a with pos := self :: a.pos }
  | .prop, _ => { a with pos := self :: a.pos }
  | _, .instance => { a with pos := self :: a.pos }
  | _, .cls => a

theorem member_transparent {d : Deco} {P : Params → Fn → Args → World → Prop} (h : TransparentOn d P) (k : MemberKind) (acc : Access)
    (hg : MemberGuard k acc) (p : Params) (self cls : Nat) (raw : Fn) (a : Args) (w : World)
    (hP : P p (memberInner k cls raw) (memberArgs k acc self a) w) :
    bodyObs (invoke (decoratedMember d p k acc self cls raw) a w) = bodyObs (invoke (twinMember k acc self cls raw) a w) := by
  cases k <;> cases acc <;> simp [MemberGuard] at hg <;>
    simp only [decoratedMember, twinMember, membersReadWithGetattr, membersStoredAsPlainFunction, Bool.and_self, if_true] <;>
    simp only [memberInner, memberArgs] at hP
  · have := h p raw _ w hP; simpa [invoke, call] using this
  · have := h p raw _ w hP; simpa [invoke, call] using this
  · exact h p raw a w hP
  · have := h p (.bound cls raw) a w hP; simpa [invoke, call] using this
  · have := h p raw _ w hP; simpa [invoke, call] using this
  · have := h p raw _ w hP; simpa [invoke, call] using this


/-- the full-strength statement for a class decorator built on `d` -/
def class_transparent_full (d : Deco) : Prop :=
  ∀ (k : MemberKind) (acc : Access) (p : Params) (self cls : Nat) (raw : Fn) (a : Args) (w : World),
    bodyObs (invoke (decoratedMember d p k acc self cls raw) a w) = bodyObs (invoke (twinMember k acc self cls raw) a w)

/-- `class Base:  def target(self): ...` (name 100 bound to a function in the class body; `object` and the metaclass `type` bind nothing of interest) -/
def basePlain : ClassDesc := ⟨[[⟨100, ⟨false, true, true⟩⟩], []], [[], []], none, none⟩
def p0 : Params := ⟨⟨90, 900⟩, [], ⟨false, ⟨[2, 3], [], [], false, false⟩, fun i => .ret ⟨300 + i, 300 + i⟩⟩, basePlain, 100, ⟨false, false, false, 1, false, false, false⟩, fun _ => Traits.total⟩
def b0 : Body := ⟨false, ⟨[2, 3], [], [], false, false⟩, fun i => .ret ⟨100 + i, 100 + i⟩⟩
def a0 : Args := ⟨[11, 12], []⟩
def w0 : World := ⟨0, 0⟩

theorem trace_class_fails_static_on_instance : ¬ class_transparent_full dTrace := by
  intro h
  have := h .static .instance p0 50 51 (.body b0) a0 w0
  revert this
  decide



/-- a method `def target(self, *args, c=None)` and what `DecoratedFunction` reads off the BOUND method `obj.target` handed to
    `require_kwargs(...)`: `*args` in the source, first parameter `self`, no decorator lines, `inspect.ismethod` -/
def bStarM : Body := ⟨false, ⟨[1], [4], [4], true, false⟩, fun i => .ret ⟨100 + i, 100 + i⟩⟩
def pBound : Params := { p0 with guard := ⟨true, true, false, 0, false, true, false⟩ }

/-- the former failing input of finding `requireKwargsOnBoundMethodNeedsPositionalArgument` (repaired by 86bfec9): `require_kwargs(obj.target)`
    called by keyword only now behaves like `obj.target(c=…)` -/
example : bodyObs (invoke (.deco dRequireKwargs pBound (.bound 50 (.body bStarM))) ⟨[], [(4, 14)]⟩ w0)
    = bodyObs (invoke (.bound 50 (.body bStarM)) ⟨[], [(4, 14)]⟩ w0)
    ∧ (invoke (.deco dRequireKwargs pBound (.bound 50 (.body bStarM))) ⟨[], [(4, 14)]⟩ w0).1.tag = .obj ⟨100, 100⟩ := by decide

/-- what the hypothesis `InstancePositional` of the full statement excludes is still true of the code: the decorated FUNCTION of a
    method reached through the class with the instance passed by keyword (`K.target(self=obj, c=…)`) raises `IndexError` inside
    `FunctionCall.__init__`, where the undecorated `K.target(self=obj, c=…)` returns normally -/
def pMethod : Params := { p0 with guard := ⟨true, true, false, 1, true, false, false⟩ }
theorem require_kwargs_self_by_keyword_witness :
    ¬ InstancePositional pMethod.guard ⟨[], [(1, 50), (4, 14)]⟩
    ∧ (invoke (.deco dRequireKwargs pMethod (.body bStarM)) ⟨[], [(1, 50), (4, 14)]⟩ w0).1.tag = .exc (.lib "IndexError")
    ∧ (invoke (.body bStarM) ⟨[], [(1, 50), (4, 14)]⟩ w0).1.tag = .obj ⟨100, 100⟩ := by
  refine ⟨fun h => h (by decide) rfl, by decide, by decide⟩

/-- … while with a positional argument the same decorated bound method passes every argument on -/
example : bodyObs (invoke (.deco dRequireKwargs pBound (.bound 50 (.body bStarM))) ⟨[11, 12, 13], [(4, 14)]⟩ w0)
    = ⟨.obj ⟨100, 100⟩, [.body .wrapped 0 ⟨[(1, 50), (4, 14)], [11, 12, 13], []⟩], 1⟩ := by decide
/-- a static method below `@staticmethod`: three surplus positional arguments and a keyword reach the body -/
example : bodyObs (invoke (.deco dRequireKwargs { p0 with guard := ⟨true, false, true, 2, true, false, false⟩ }
      (.body ⟨false, ⟨[], [4], [4], true, false⟩, fun i => .ret ⟨100 + i, 100 + i⟩⟩)) ⟨[11, 12, 13], [(4, 14)]⟩ w0)
    = ⟨.obj ⟨100, 100⟩, [.body .wrapped 0 ⟨[(4, 14)], [11, 12, 13], []⟩], 1⟩ := by decide

/-! ## Frame invariant: a stack never emits counter movements or warnings on behalf of a depth it does not reach -/

def evQuiet (L : Nat) (e : Ev) : Prop := incrOf L e = 0 ∧ isWarnAt L e = false

mutual
def ValQuiet (L : Nat) : Val → Prop
  | .coro run => ∀ w, OutQuiet L (run w)
  | _ => True
def OutQuiet (L : Nat) : Res Val × List Ev × World → Prop
  | (r, evs, _) => ResQuiet L r ∧ ∀ e ∈ evs, evQuiet L e
def ResQuiet (L : Nat) : Res Val → Prop
  | .ret v => ValQuiet L v
  | .exc _ => True
end

theorem outQuiet_iff (L : Nat) (o : Out) : OutQuiet L o ↔ ResQuiet L o.1 ∧ ∀ e ∈ o.2.1, evQuiet L e := by
  obtain ⟨r, evs, w⟩ := o; simp [OutQuiet]

def SemQuiet (L : Nat) (s : Sem) : Prop := ∀ a w, OutQuiet L (s a w)
def LocalsQuiet (L : Nat) (l : Locals) : Prop := ∀ x v, lookup x l.vars = some v → ValQuiet L v
def FlowQuiet (L : Nat) : Flow → Prop
  | .next l => LocalsQuiet L l
  | .done r => ResQuiet L r
def StepQuiet (L : Nat) (s : Step) : Prop := FlowQuiet L s.1 ∧ ∀ e ∈ s.2.1, evQuiet L e

theorem awaitVal_quiet (L : Nat) (v : Val) (w : World) (h : ValQuiet L v) : OutQuiet L (awaitVal v w) := by
  cases v <;> simp [awaitVal, OutQuiet, ResQuiet]
  rename_i run
  simp only [ValQuiet] at h
  have := h w
  rcases hr : run w with ⟨r, evs, w'⟩
  simpa [hr, OutQuiet] using this

theorem bindVar_quiet (L : Nat) (x : Option String) (v : Val) (l : Locals) (hv : ValQuiet L v) (hl : LocalsQuiet L l) :
    LocalsQuiet L (bindVar x v l) := by
  cases x with
  | none => simpa [bindVar] using hl
  | some x =>
    intro y u hy
    simp only [bindVar, lookup] at hy
    split at hy
    · cases hy; exact hv
    · exact hl y u hy

theorem callBody_quiet (L : Nat) (c : Callee) (b : Body) : SemQuiet L (callBody c b) := by
  intro a w
  simp only [callBody]
  cases bind b.sig a with
  | none => simp [OutQuiet, ResQuiet]
  | some bd =>
    have hrun : ∀ w, OutQuiet L (runBody c b bd w) := by
      intro w
      simp only [runBody, OutQuiet]
      refine ⟨?_, ?_⟩
      · cases b.script (w.count c) <;> simp [outcRes, ResQuiet, ValQuiet]
      · intro e he; simp at he; subst he; simp [evQuiet, incrOf, isWarnAt]
    cases b.isCoro
    · simpa using hrun w
    · simp [OutQuiet, ResQuiet, ValQuiet]; exact hrun

theorem execCall_quiet (L : Nat) (fr : Frame) (hc : SemQuiet L fr.callee) (x : Option String) (c : Callee) (a : Args) (aw : Bool)
    (l : Locals) (w : World) (hl : LocalsQuiet L l) : StepQuiet L (execCall fr x c a aw l w) := by
  have hs : OutQuiet L (calleeSem fr c a w) := by
    cases c
    · exact hc a w
    · exact callBody_quiet L .other fr.p.other a w
  rw [outQuiet_iff] at hs
  simp only [execCall]
  cases hr : (calleeSem fr c a w).1 with
  | exc e => simp [StepQuiet, FlowQuiet, ResQuiet]; exact hs.2
  | ret v =>
    have hv : ValQuiet L v := by simpa [hr, ResQuiet] using hs.1
    cases aw
    · simp [StepQuiet, FlowQuiet]; exact ⟨bindVar_quiet L x v l hv hl, hs.2⟩
    · have h2 := awaitVal_quiet L v (calleeSem fr c a w).2.2 hv
      rw [outQuiet_iff] at h2
      simp only [if_true]
      cases hr2 : (awaitVal v (calleeSem fr c a w).2.2).1 with
      | exc e =>
        simp [StepQuiet, FlowQuiet, ResQuiet]
        intro e he; rcases he with he | he
        · exact hs.2 e he
        · exact h2.2 e he
      | ret v2 =>
        have hv2 : ValQuiet L v2 := by simpa [hr2, ResQuiet] using h2.1
        simp [StepQuiet, FlowQuiet]
        refine ⟨bindVar_quiet L x v2 l hv2 hl, ?_⟩
        intro e he; rcases he with he | he
        · exact hs.2 e he
        · exact h2.2 e he


theorem evalExpr_quiet (L : Nat) (fr : Frame) (l : Locals) (hl : LocalsQuiet L l) (e : Expr) (v : Val)
    (h : evalExpr fr l e = some v) : ValQuiet L v := by
  cases e with
  | var x => exact hl x v h
  | param => simp [evalExpr] at h; subst h; simp [ValQuiet]
  | none => simp [evalExpr] at h; subst h; simp [ValQuiet]
  | «opaque» => simp [evalExpr] at h; subst h; simp [ValQuiet]

theorem step_seq (L : Nat) (r r2 : Step) (h1 : ∀ e ∈ r.2.1, evQuiet L e) (h2 : StepQuiet L r2) :
    StepQuiet L (r2.1, r.2.1 ++ r2.2.1, r2.2.2) := by
  refine ⟨h2.1, ?_⟩
  intro e he
  rcases List.mem_append.mp he with he | he
  · exact h1 e he
  · exact h2.2 e he

/-- every statement keeps the invariant: a wrapper at another depth than `L`, over a callable that is quiet at `L`, is quiet at `L` -/
theorem exec_quiet (L : Nat) (fr : Frame) (hne : fr.layer ≠ L) (hc : SemQuiet L fr.callee) :
    (∀ (s : Stmt) (l : Locals) (w : World), LocalsQuiet L l → StepQuiet L (exec fr s l w)) ∧
    (∀ (ss : List Stmt) (l : Locals) (w : World), LocalsQuiet L l → StepQuiet L (execL fr ss l w)) := by
  have own : ∀ (e : Ev), (e = .print fr.layer ∨ (∃ c, e = .warn fr.layer c) ∨ (∃ k, e = .incr fr.layer k)) → evQuiet L e := by
    intro e he
    rcases he with rfl | ⟨c, rfl⟩ | ⟨k, rfl⟩ <;> simp [evQuiet, incrOf, isWarnAt, hne]
  let m1 : Stmt → Prop := fun s => ∀ (l : Locals) (w : World), LocalsQuiet L l → StepQuiet L (exec fr s l w)
  let m2 : List Stmt → Prop := fun ss => ∀ (l : Locals) (w : World), LocalsQuiet L l → StepQuiet L (execL fr ss l w)
  have hprint : ∀ u, m1 (.print u) := by
    intro u l w hl; simp only [exec]
    cases fmtRaises fr l u with
    | some c => simp [StepQuiet, FlowQuiet, ResQuiet]
    | none => exact ⟨hl, by intro e he; simp at he; exact own e (Or.inl he)⟩
  have hwarn : ∀ c, m1 (.warn c) := by
    intro c l w hl; simp only [exec]; exact ⟨hl, by intro e he; simp at he; exact own e (Or.inr (Or.inl ⟨c, he⟩))⟩
  have hincr : ∀ k, m1 (.incr k) := by
    intro k l w hl; simp only [exec]; exact ⟨hl, by intro e he; simp at he; exact own e (Or.inr (Or.inr ⟨k, he⟩))⟩
  have hpure : ∀ x, m1 (.pure x) := by
    intro x l w hl; simp only [exec]
    exact ⟨bindVar_quiet L (some x) .opaque l (by simp [ValQuiet]) hl, by simp⟩
  have hcall : ∀ x c pos kw aw, m1 (.call x c pos kw aw) := by
    intro x c pos kw aw l w hl; simp only [exec]; exact execCall_quiet L fr hc x c _ aw l w hl
  have hawait : ∀ x y, m1 (.await x y) := by
    intro x y l w hl; simp only [exec]
    cases hy : lookup y l.vars with
    | none => simp [unbound, StepQuiet, FlowQuiet, ResQuiet]
    | some v =>
      have hv := hl y v hy
      have h2 := awaitVal_quiet L v w hv
      rw [outQuiet_iff] at h2
      simp only
      cases hr : (awaitVal v w).1 with
      | exc e => simp [StepQuiet, FlowQuiet, ResQuiet]; exact h2.2
      | ret v2 =>
        have hv2 : ValQuiet L v2 := by simpa [hr, ResQuiet] using h2.1
        simp [StepQuiet, FlowQuiet]
        exact ⟨bindVar_quiet L x v2 _ hv2 (bindVar_quiet L (some y) .spent l (by simp [ValQuiet]) hl), h2.2⟩
  have hrename : ∀ r, m1 (.rename r) := by
    intro r l w hl; simp only [exec]
    cases renameLoop r fr.dict [] fr.args.kw with
    | none => simp [StepQuiet, FlowQuiet, ResQuiet]
    | some d => simp [StepQuiet, FlowQuiet]; exact hl
  have hguard : m1 .kwargsGuard := by
    intro l w hl; simp only [exec]
    split
    · split
      · split <;> simp [StepQuiet, FlowQuiet, ResQuiet]
      · simp [StepQuiet, FlowQuiet, ResQuiet]
    · simp [StepQuiet, FlowQuiet]; exact hl
  have hret : ∀ e, m1 (.ret e) := by
    intro e l w hl; simp only [exec]
    cases he : evalExpr fr l e with
    | none => simp [unbound, StepQuiet, FlowQuiet, ResQuiet]
    | some v => simp [StepQuiet, FlowQuiet, ResQuiet]; exact evalExpr_quiet L fr l hl e v he
  have hraise : ∀ c u, m1 (.raise c u) := by
    intro c u l w hl; simp only [exec]
    cases fmtRaises fr l u <;> simp [StepQuiet, FlowQuiet, ResQuiet]
  have hite : ∀ c t e, m2 t → m2 e → m1 (.ite c t e) := by
    intro c t e ht he l w hl; simp only [exec]
    cases condRaises fr l c with
    | some cls => simp [StepQuiet, FlowQuiet, ResQuiet]
    | none =>
      cases evalCond fr l c with
      | none => simp [unbound, StepQuiet, FlowQuiet, ResQuiet]
      | some b =>
        cases b
        · exact he l w hl
        · exact ht l w hl
  have htry : ∀ b k h, m2 b → m2 h → m1 (.tryCatch b k h) := by
    intro b k h hb hh l w hl; simp only [exec]
    have hr := hb l w hl
    split
    · split
      · exact step_seq L _ _ hr.2 (hh l _ hl)
      · exact hr
    · exact hr
  have hnil : m2 [] := by
    intro l w hl; simp only [execL]; exact ⟨hl, by simp⟩
  have hcons : ∀ s rest, m1 s → m2 rest → m2 (s :: rest) := by
    intro s rest hs hrest l w hl; simp only [execL]
    have hr := hs l w hl
    cases hf : (exec fr s l w).1 with
    | done x =>
      simp only
      refine ⟨?_, hr.2⟩
      have := hr.1; rw [hf] at this; exact this
    | next l' =>
      simp only
      have hl' : LocalsQuiet L l' := by have := hr.1; rw [hf] at this; exact this
      exact step_seq L _ _ hr.2 (hrest l' _ hl')
  exact ⟨fun s => Stmt.rec (motive_1 := m1) (motive_2 := m2) hprint hwarn hincr hpure hcall hawait hrename hguard hret hraise hite htry hnil hcons s,
         fun ss => Stmt.rec_1 (motive_1 := m1) (motive_2 := m2) hprint hwarn hincr hpure hcall hawait hrename hguard hret hraise hite htry hnil hcons ss⟩


theorem runWrapper_quiet (L : Nat) (fr : Frame) (hne : fr.layer ≠ L) (hc : SemQuiet L fr.callee) (ss : List Stmt) (w : World) :
    OutQuiet L (runWrapper fr ss w) := by
  have h := (exec_quiet L fr hne hc).2 ss ⟨[], []⟩ w (by intro x v hx; simp [lookup] at hx)
  rw [outQuiet_iff]
  simp only [runWrapper]
  cases hf : (execL fr ss ⟨[], []⟩ w).1 with
  | next l => exact ⟨by simp [ResQuiet, ValQuiet], h.2⟩
  | done r => exact ⟨by have := h.1; rw [hf] at this; exact this, h.2⟩

theorem callLayer_quiet (L : Nat) (d : Deco) (p : Params) (inner : Fn) (callee : Sem) (hne : inner.depth ≠ L)
    (hc : SemQuiet L callee) : SemQuiet L (callLayer d p inner callee) := by
  intro a w
  simp only [callLayer]
  cases select d inner.isCoro with
  | identity => exact hc a w
  | missing => simp [gap, OutQuiet, ResQuiet]
  | wrapper wr =>
    simp only
    cases wr.body with
    | none => simp [gap, OutQuiet, ResQuiet]
    | some ss =>
      have hrun : ∀ w, OutQuiet L (runWrapper (mkFrame d p inner callee a) ss w) :=
        fun w => runWrapper_quiet L _ (by simpa [mkFrame] using hne) (by simpa [mkFrame] using hc) ss w
      simp only
      cases wr.isAsync
      · simpa using hrun w
      · simp [OutQuiet, ResQuiet, ValQuiet]; exact hrun

/-- nothing in a stack emits counter movements / warnings on behalf of a depth the stack does not reach -/
theorem call_quiet : ∀ (f : Fn) (L : Nat), f.depth ≤ L → SemQuiet L (call f) := by
  intro f
  induction f with
  | body b => intro L _; exact callBody_quiet L .wrapped b
  | gen g => intro L _ a w; simp only [call, callGen]; split <;> simp [OutQuiet, ResQuiet, ValQuiet]
  | bound s i ih => intro L h a w; simp only [call]; exact ih L (by simpa [Fn.depth] using h) _ w
  | deco d p i ih =>
    intro L h
    simp only [Fn.depth] at h
    simp only [call]
    exact callLayer_quiet L d p i (call i) (by omega) (ih L (by omega))

theorem invoke_quiet (f : Fn) (L : Nat) (h : f.depth ≤ L) (a : Args) (w : World) : OutQuiet L (invoke f a w) := by
  have hc := call_quiet f L h a w
  rw [outQuiet_iff] at hc
  simp only [invoke]
  split
  · rename_i run hr
    have hv : ∀ w, OutQuiet L (run w) := by simpa [hr, ResQuiet, ValQuiet] using hc.1
    have h2 := hv (call f a w).2.2
    rw [outQuiet_iff] at h2 ⊢
    refine ⟨h2.1, ?_⟩
    intro e he
    rcases List.mem_append.mp he with he | he
    · exact hc.2 e he
    · exact h2.2 e he
  · rw [outQuiet_iff]; exact hc

theorem sumIncr_zero (L : Nat) : ∀ (evs : List Ev), (∀ e ∈ evs, evQuiet L e) → sumIncr L evs = 0 := by
  intro evs
  induction evs with
  | nil => intro _; rfl
  | cons e r ih =>
    intro h
    simp only [sumIncr]
    rw [(h e (List.mem_cons_self ..)).1, ih (fun e he => h e (List.mem_cons_of_mem _ he))]; rfl


/-! count_calls / deprecated: their own effect, exactly -/

/-- one call of a `count_calls`-decorated callable: first the counter moves by one, then the message, then whatever the decorated
    callable does — result, events and world of the callable underneath are passed through unchanged -/
theorem count_calls_call (p : Params) (inner : Fn) (a : Args) (w : World) :
    invoke (.deco dCountCalls p inner) a w =
      ((invoke inner a w).1, .incr inner.depth 1 :: .print inner.depth :: (invoke inner a w).2.1, (invoke inner a w).2.2) := by
  cases hc : inner.isCoro
  · rcases h : call inner a w with ⟨r, evs, w1⟩
    cases r with
    | exc e => simp [dCountCalls]; usimp
    | ret v => cases v <;> (simp [dCountCalls]; usimp)
  · rcases call_coro_shape inner hc a w with ⟨run, h⟩ | ⟨c, h⟩
    · rcases h2 : run w with ⟨r, evs, w1⟩
      cases r with
      | exc e => simp [dCountCalls]; usimp
      | ret v => cases v <;> (simp [dCountCalls]; usimp)
    · simp [dCountCalls]; usimp

theorem deprecated_call (p : Params) (inner : Fn) (a : Args) (w : World) :
    invoke (.deco dDeprecated p inner) a w =
      ((invoke inner a w).1, .warn inner.depth "DeprecationWarning" :: (invoke inner a w).2.1, (invoke inner a w).2.2) := by
  cases hc : inner.isCoro
  · rcases h : call inner a w with ⟨r, evs, w1⟩
    cases r with
    | exc e => simp [dDeprecated]; usimp
    | ret v => cases v <;> (simp [dDeprecated]; usimp)
  · rcases call_coro_shape inner hc a w with ⟨run, h⟩ | ⟨c, h⟩
    · rcases h2 : run w with ⟨r, evs, w1⟩
      cases r with
      | exc e => simp [dDeprecated]; usimp
      | ret v => cases v <;> (simp [dDeprecated]; usimp)
    · simp [dDeprecated]; usimp


/-! ## Metadata, coroutine-ness, overrides -/

/-! metadata -/
/-- **every returned wrapper carries `@wraps(<the decorated function>)`** — over the regenerated table of all decorator modules -/
theorem metadata_preserved : ∀ row ∈ wrapperTable, row.returned = true → row.wraps = true := by decide

/-- what `select` hands out is a wrapper that carries `@wraps`, or the function itself — for every decorator, both flavours -/
def selectedOk (d : Deco) (c : Bool) : Bool :=
  match select d c with
  | .wrapper w => w.wraps
  | .identity => true
  | .missing => false

theorem selected_wrapper_wraps : ∀ d ∈ decos, ∀ c : Bool, selectedOk d c = true := by decide

def Fn.layersIn (ds : List Deco) : Fn → Prop
  | .body _ => True
  | .gen _ => True
  | .bound _ i => i.layersIn ds
  | .deco d _ i => d ∈ ds ∧ i.layersIn ds

theorem stack_metadata_preserved : ∀ (f : Fn), f.layersIn decos → f.metaOk = true := by
  intro f
  induction f with
  | body b => intro _; rfl
  | gen g => intro _; rfl
  | bound s i ih => intro h; simpa [Fn.metaOk] using ih h
  | deco d p i ih =>
    intro h
    have hs := selected_wrapper_wraps d h.1 i.isCoro
    have hi := ih h.2
    simp only [Fn.metaOk]
    simp only [selectedOk] at hs
    split <;> simp_all

/-! coroutine-ness -/
def dedicatedNames : List String := ["pedantic", "validate", "trace", "timer", "trace_if_returns", "does_same_as_function", "mock"]

def keepsCoro (d : Deco) (c : Bool) : Bool :=
  match select d c with
  | .wrapper w => (w.isAsync && !w.isGenerator) == c
  | _ => false

/-- every decorator the property names in the dedicated group exists in the regenerated table … -/
theorem dedicated_all_found : ∀ n ∈ dedicatedNames, decos.any (fun d => d.name == n) = true := by decide

theorem dedicated_dispatch : ∀ d ∈ decos, dedicatedNames.contains d.name = true → ∀ c : Bool, keepsCoro d c = true := by decide

/-- … and keeps a coroutine function a coroutine function and a plain function a plain function, on top of any stack -/
theorem keeps_coroutine (d : Deco) (hd : d ∈ decos) (hn : dedicatedNames.contains d.name = true) (p : Params) (inner : Fn) :
    (Fn.deco d p inner).isCoro = inner.isCoro := by
  have h := dedicated_dispatch d hd hn inner.isCoro
  simp only [keepsCoro] at h
  simp only [Fn.isCoro]
  split <;> simp_all

/-! overrides -/

/-- `dir(cls)` of a class that does not state a listing of its own lists a name iff the class does not lack it: some class body along
    the MRO binds it (whatever the value) -/
theorem dir_lists_iff (c : ClassDesc) (n : Nat) (hd : c.dirOverride = none) : n ∉ c.dir ↔ LacksName c n := by
  unfold ClassDesc.dir LacksName
  simp only [hd, List.mem_map, List.mem_flatten, not_exists, not_and]
  constructor
  · intro h body hb m hm heq
    exact h m ⟨body, hb, hm⟩ heq
  · intro h m ⟨body, hb, hm⟩ heq
    exact h body hb m hm heq

/-- the executable form of the specification is the specification -/
theorem hasName_iff (c : ClassDesc) (n : Nat) : hasName c n = false ↔ LacksName c n := by
  unfold hasName LacksName
  simp only [Bool.eq_false_iff, ne_eq, List.any_eq_true, beq_iff_eq, not_exists, not_and]

instance (c : ClassDesc) (n : Nat) : Decidable (LacksName c n) := decidable_of_iff _ (hasName_iff c n)

/-- **overrides raises iff the base class lacks the name** (at decoration time; `hm`: the function still carries its own name):
    for every class — any depth of inheritance, any bound values, any metaclass — `PedanticOverrideException` is raised iff no
    class body along the MRO binds the name; otherwise the function itself is handed back.  (`hd`: the class does not state a `dir()`
    listing of its own through its metaclass — what "has the name" means there the property text leaves open: `overridesUnspec`.) -/
theorem overrides_iff (p : Params) (inner : Fn) (hm : inner.metaOk = true) (hd : p.base.dirOverride = none) :
    (decorate dOverrides p inner = .error (.lib "PedanticOverrideException") ↔ LacksName p.base p.fname) ∧
    (¬ LacksName p.base p.fname → decorate dOverrides p inner = .ok (.deco dOverrides p inner)) := by
  rw [← dir_lists_iff _ _ hd]
  by_cases hb : p.fname ∈ p.base.dir <;>
    simp [decorate, dOverrides, execL, exec, evalCond, condRaises, fmtRaises, mkFrame, hm, hb]

/-- the unspecified region, as the code behaves there (a fact about the model, not a claim of the property): a class whose metaclass
    overrides `__dir__` is asked through that listing -/
theorem overrides_follows_dir_override (p : Params) (inner : Fn) (hm : inner.metaOk = true) (l : List Nat) (hd : p.base.dirOverride = some l) :
    (decorate dOverrides p inner = .error (.lib "PedanticOverrideException") ↔ p.fname ∉ l) := by
  have hdir : p.base.dir = l := by simp [ClassDesc.dir, hd]
  by_cases hb : p.fname ∈ l <;>
    simp [decorate, dOverrides, execL, exec, evalCond, condRaises, fmtRaises, mkFrame, hm, hb, hdir]

/-- the decoration-time outcome of the generated text is the one the specification prescribes -/
theorem overrides_decorate_meets_spec (p : Params) (b : Body) (hd : p.base.dirOverride = none) :
    (match decorate dOverrides p (.body b) with | .error e => some e | .ok _ => none)
      = specDecorate (.layer .overrides p (.body b)) := by
  have h := overrides_iff p (.body b) rfl hd
  simp only [specDecorate]
  cases hn : hasName p.base p.fname with
  | false =>
    have hl := (hasName_iff _ _).mp hn
    rw [h.1.mpr hl]; simp
  | true =>
    have hl : ¬ LacksName p.base p.fname := fun hl => by simp [(hasName_iff _ _).mpr hl] at hn
    rw [h.2 hl]; simp

/-- a name some class body along the MRO binds is accepted **whatever object is bound to it** — `None` (`__hash__ = None`,
    a `handler = None` placeholder), a falsy value, a property, a static / class method, in the class itself or in any ancestor -/
theorem overrides_accepts_any_bound_value (p : Params) (inner : Fn) (hm : inner.metaOk = true) (hd : p.base.dirOverride = none)
    (body : List Member) (m : Member) (hb : body ∈ p.base.mro) (hmem : m ∈ body) (hn : m.name = p.fname) :
    decorate dOverrides p inner = .ok (.deco dOverrides p inner) := by
  apply (overrides_iff p inner hm hd).2
  intro hl
  exact hl body hb m hmem hn

/-- a name that only the metaclass offers (bound along the metaclass' MRO such as `mro` / `__call__`, or answered by its
    `__getattr__`) is rejected although `getattr(base_class, name)` succeeds -/
theorem overrides_rejects_metaclass_only_names (p : Params) (inner : Fn) (hm : inner.metaOk = true) (hd : p.base.dirOverride = none)
    (hno : ∀ body ∈ p.base.mro, ∀ m ∈ body, m.name ≠ p.fname) :
    decorate dOverrides p inner = .error (.lib "PedanticOverrideException") := by
  exact (overrides_iff p inner hm hd).1.mpr hno

/-! ## count_calls / deprecated over whole call histories -/

theorem counterAfter_shift (k : Int) (L : Nat) : ∀ (outs : List Out) (init : Int),
    counterAfter (init + k) L outs = counterAfter init L outs + k := by
  intro outs
  induction outs with
  | nil => intro init; rfl
  | cons o r ih => intro init; simp only [counterAfter]; rw [← ih]; congr 1; omega

theorem count_calls_starts_at_zero : dCountCalls.counterInit = some 0 := by decide

/-- **count_calls counts every call once.**  After any history of n calls of `count_calls(inner)` — for every stack `inner`
    underneath (further `count_calls` layers included), whatever the arguments, whether the body returns, raises an
    Exception or a BaseException, whether the arguments bind at all (a raising call is counted: the increment precedes the
    call in the source) — the counter stands at its initial value + n. -/
theorem count_calls_counts (p : Params) (inner : Fn) (init : Int) :
    ∀ (hist : List Args) (w : World),
      counterAfter init inner.depth (runHistory (.deco dCountCalls p inner) hist w) = init + hist.length := by
  intro hist
  induction hist with
  | nil => intro w; simp [runHistory, counterAfter]
  | cons a rest ih =>
    intro w
    simp only [runHistory, counterAfter]
    rw [counterAfter_shift, ih, count_calls_call]
    have hq := invoke_quiet inner inner.depth (Nat.le_refl _) a w
    rw [outQuiet_iff] at hq
    simp [sumIncr, incrOf, sumIncr_zero inner.depth _ hq.2]
    omega

/-- generated fact: in `count_calls` the assignment `wrapper.num_calls = 0` runs AFTER the metadata copy of `@wraps` (which brings the
    decorated callable's `__dict__`, a `num_calls` entry included, onto the wrapper) -/
theorem count_calls_init_after_copy : dCountCalls.counterInitAfterCopy = true := by decide

/-- **every decoration starts from zero**: whatever `num_calls` entry the decorated callable carries in its `__dict__` (`carried` is
    arbitrary: none, the count of an already used counted function, a snapshot copied by a wraps-based decorator in between, any
    attribute set by hand) and whatever kind of function it is, the counter of the new wrapper is 0 when `count_calls` returns -/
theorem count_calls_fresh_zero (coro : Bool) (carried : Option Int) : attrAfterDecorate dCountCalls coro carried = some 0 := by
  cases coro <;> simp [attrAfterDecorate, dCountCalls, select, findWrapper]

/-- **count_calls counts every call once, starting from zero for each decoration**: decorate ANY callable (any stack `inner`, carrying
    any `num_calls` entry — e.g. `count_calls(count_calls(f))`, `count_calls(trace(counted))`, re-decoration after `k` calls), then
    call the result `n` times (returning, raising, not binding): its counter stands at `n` -/
theorem count_calls_counts_from_zero (p : Params) (inner : Fn) (carried : Option Int) (hist : List Args) (w : World) :
    ∃ z, attrAfterDecorate dCountCalls inner.isCoro carried = some z ∧
      counterAfter z inner.depth (runHistory (.deco dCountCalls p inner) hist w) = hist.length := by
  refine ⟨0, count_calls_fresh_zero _ _, ?_⟩
  rw [count_calls_counts]; simp

/-- one call moves the entry of a `count_calls` wrapper by exactly one, whatever it held -/
theorem count_calls_attr_step (p : Params) (inner : Fn) (a : Args) (w : World) (v : Int) :
    attrAfterCall dCountCalls inner.depth (invoke (.deco dCountCalls p inner) a w).2.1 (some v) = some (v + 1) := by
  have h := count_calls_counts p inner v [a] w
  simp only [runHistory, counterAfter, List.length_cons, List.length_nil] at h
  have h2 : v + sumIncr inner.depth (invoke (.deco dCountCalls p inner) a w).2.1 = v + 1 := by simpa using h
  have hc : dCountCalls.counterInit = some 0 := by decide
  simp only [attrAfterCall, hc, Option.map_some, h2]

/-- the wraps-based decorators without a counter carry the decorated callable's entry along as a snapshot (`trace(counted).num_calls`
    is what `counted.num_calls` was when `trace` was applied) — the situation `count_calls_fresh_zero` is about -/
theorem wraps_carries_counter_snapshot (coro : Bool) (carried : Option Int) :
    attrAfterDecorate dTrace coro carried = carried ∧ attrAfterDecorate dTimer coro carried = carried
    ∧ attrAfterDecorate dDeprecated coro carried = carried ∧ attrAfterDecorate dRequireKwargs coro carried = carried := by
  cases coro <;> simp [attrAfterDecorate, dTrace, dTimer, dDeprecated, dRequireKwargs, select, findWrapper]

/-! ### Re-entrant calls: recursion and callbacks -/

/-- **one increment per invocation, whatever happens inside**: for ANY meaning `callee` of the callable underneath — it may re-enter this
    very wrapper, emit increments of its own, raise, hand out a coroutine — an invocation of the `count_calls` wrapper adds exactly one
    `incr` (and the message) in front of the callee's events and passes result and world through.  The counter is moved in place
    (`+=`), not written back from a snapshot taken before the call. -/
theorem count_calls_once_per_invocation (p : Params) (inner : Fn) (callee : Sem) (a : Args) (w : World) :
    callLayer dCountCalls p inner callee a w =
      ((callee a w).1, .incr inner.depth 1 :: .print inner.depth :: (callee a w).2.1, (callee a w).2.2) := by
  rcases h : callee a w with ⟨r, evs, w1⟩
  cases r with
  | exc e => simp [dCountCalls, callLayer, select, findWrapper, runWrapper, execL, exec, execCall, calleeSem, mkFrame, mkArgs, fmtRaises, h]
  | ret v => simp [dCountCalls, callLayer, select, findWrapper, runWrapper, execL, exec, execCall, calleeSem, mkFrame, mkArgs, bindVar, evalExpr, lookup, fmtRaises, h]

/-- the re-entrant semantics extends the plain one -/
theorem callWith_none : ∀ (f : Fn), callWith none f = call f := by
  intro f
  induction f with
  | body b =>
    have h : ∀ bd, runBodyRe none .wrapped b bd = runBody .wrapped b bd := by
      intro bd; funext w; simp [runBodyRe, runBody]
    funext a w; simp [callWith, call, callBodyRe, callBody, h]
  | gen g => rfl
  | bound s i ih => funext a w; simp [callWith, call, ih]
  | deco d p i ih => simp [callWith, call, ih]


/-- what the caller of a re-entrant run is shown, against the twin semantics -/
def ReMeets (o : Out) (s : ROut) : Prop :=
  o.1.tag = s.res ∧ o.2.1.filter (isBodyOf .wrapped) = s.calls ∧ sumIncr 0 o.2.1 = s.n ∧ o.2.2 = s.w

theorem specReent_res_not_coro (b : Body) (plan : Nat → List Args) (fuel : Nat) (a : Args) (w : World) :
    (specReent b plan fuel a w).res ≠ .coro := by
  cases fuel <;> simp only [specReent] <;> split <;> (try cases b.script w.inv) <;> simp [outcTag]

theorem invokeSem_of_tag (s : Sem) (a : Args) (w : World) (h : (s a w).1.tag ≠ .coro) : invokeSem s a w = s a w := by
  simp only [invokeSem]
  split
  · rename_i run hr; rw [hr] at h; simp [Res.tag] at h
  · rfl

theorem sumIncr_append (L : Nat) : ∀ (x y : List Ev), sumIncr L (x ++ y) = sumIncr L x + sumIncr L y := by
  intro x y
  induction x with
  | nil => simp [sumIncr]
  | cons e r ih => simp only [List.cons_append, sumIncr, ih]; omega

theorem runPlan_meets (b : Body) (plan : Nat → List Args) (k : Nat) (sem : Sem)
    (ih : ∀ a w, ReMeets (sem a w) (specReent b plan k a w)) :
    ∀ (l : List Args) (w : World),
      (runPlan sem l w).1.filter (isBodyOf .wrapped) = (specPlan (specReent b plan k) l w).1
      ∧ sumIncr 0 (runPlan sem l w).1 = (specPlan (specReent b plan k) l w).2.1
      ∧ (runPlan sem l w).2 = (specPlan (specReent b plan k) l w).2.2 := by
  intro l
  induction l with
  | nil => intro w; simp [runPlan, specPlan, sumIncr]
  | cons a rest ihl =>
    intro w
    obtain ⟨h1, h2, h3, h4⟩ := ih a w
    have hinv : invokeSem sem a w = sem a w :=
      invokeSem_of_tag sem a w (by rw [h1]; exact specReent_res_not_coro b plan k a w)
    simp only [runPlan, specPlan, hinv]
    obtain ⟨r1, r2, r3⟩ := ihl (sem a w).2.2
    rw [h4] at r1 r2 r3
    rw [h4]
    refine ⟨by simp [List.filter_append, h2, r1], ?_, r3⟩
    rw [sumIncr_append, h3, r2]; simp


/-- one level: `count_calls` directly on a (non-coroutine) function whose body re-enters through `re` -/
theorem reent_level (p : Params) (b : Body) (hc : b.isCoro = false) (plan : Nat → List Args) (a : Args) (w : World) :
    -- no re-entrance
    ReMeets (callWith none (.deco dCountCalls p (.body b)) a w) (specReent b plan 0 a w)
    -- re-entrance through a callable that meets the twin semantics one level down
    ∧ ∀ (k : Nat) (sem : Sem), (∀ a w, ReMeets (sem a w) (specReent b plan k a w)) →
        ReMeets (callWith (some ⟨plan, sem⟩) (.deco dCountCalls p (.body b)) a w) (specReent b plan (k + 1) a w) := by
  constructor
  · simp only [callWith, count_calls_once_per_invocation, callBodyRe, specReent, ReMeets]
    cases hb : bind b.sig a with
    | none => simp [Res.tag, sumIncr, incrOf, isBodyOf, Fn.depth]
    | some bd =>
      cases hs : b.script w.inv <;>
        simp [hc, runBodyRe, Res.tag, outcRes, outcTag, sumIncr, incrOf, isBodyOf, Fn.depth, World.count, World.bump, hs]
  · intro k sem ih
    simp only [callWith, count_calls_once_per_invocation, callBodyRe, specReent, ReMeets]
    cases hb : bind b.sig a with
    | none => simp [Res.tag, sumIncr, incrOf, isBodyOf, Fn.depth]
    | some bd =>
      obtain ⟨p1, p2, p3⟩ := runPlan_meets b plan k sem ih (plan w.inv) (w.bump .wrapped)
      have hw : w.bump .wrapped = { w with inv := w.inv + 1 } := rfl
      rw [hw] at p1 p2 p3
      cases hs : b.script w.inv <;>
        simp [hc, runBodyRe, Res.tag, outcRes, outcTag, sumIncr, incrOf, isBodyOf, Fn.depth, World.count, World.bump, hs, p1, p2, p3] <;> omega

/-- **count_calls counts every call once — also calls that start while another call of the same counted function is open**
    (recursion, re-entrance through a callback): for `count_calls` directly on a function whose body calls the decorated callable
    again — any plan of nested calls, any depth `fuel`, any arguments, returning / raising / not binding — result, body invocations
    and world are those of the undecorated recursion, and the counter moves by exactly the number of calls made -/
theorem count_calls_counts_reentrant (p : Params) (b : Body) (hc : b.isCoro = false) (plan : Nat → List Args) :
    ∀ (fuel : Nat) (a : Args) (w : World),
      ReMeets (callFuel (.deco dCountCalls p (.body b)) plan fuel a w) (specReent b plan fuel a w) := by
  intro fuel
  induction fuel with
  | zero => intro a w; exact (reent_level p b hc plan a w).1
  | succ k ih => intro a w; exact (reent_level p b hc plan a w).2 k _ ih


/-- `fact(4)`-like recursion: invocations 0, 1, 2 each call the counted function once more — four calls, the counter stands at 4, four
    body invocations in the order they start -/
example : sumIncr 0 (callFuel (.deco dCountCalls p0 (.body b0)) (fun i => if i < 3 then [a0] else []) 4 a0 w0).2.1 = 4
    ∧ ((callFuel (.deco dCountCalls p0 (.body b0)) (fun i => if i < 3 then [a0] else []) 4 a0 w0).2.1.filter (isBodyOf .wrapped)).length = 4
    ∧ (specReent b0 (fun i => if i < 3 then [a0] else []) 4 a0 w0).n = 4 := by decide

/-- the counter movements are attributed to the right layer: a second `count_calls` underneath keeps its own count -/
example : (runHistory (.deco dCountCalls p0 (.deco dCountCalls p0 (.body b0))) [a0, a0, a0] w0).map (fun o => o.2.1.filter (fun e => incrOf 1 e != 0 || incrOf 0 e != 0))
    = [[.incr 1 1, .incr 0 1], [.incr 1 1, .incr 0 1], [.incr 1 1, .incr 0 1]] := by decide

/-- number of warnings the layer at depth `L` emitted over a history -/
def warnsAt (L : Nat) : List Out → Nat
  | [] => 0
  | o :: r => (o.2.1.filter (isWarnAt L)).length + warnsAt L r

theorem filter_warn_quiet (L : Nat) : ∀ (evs : List Ev), (∀ e ∈ evs, evQuiet L e) → evs.filter (isWarnAt L) = [] := by
  intro evs h
  apply List.filter_eq_nil_iff.mpr
  intro e he
  simp [(h e he).2]

/-- **deprecated emits one DeprecationWarning per call**: in every call exactly one warning is emitted by this layer, its
    category is DeprecationWarning, and it precedes everything the decorated callable does … -/
theorem deprecated_one_warning_per_call (p : Params) (inner : Fn) (a : Args) (w : World) :
    (invoke (.deco dDeprecated p inner) a w).2.1.filter (isWarnAt inner.depth) = [.warn inner.depth "DeprecationWarning"] ∧
    (invoke (.deco dDeprecated p inner) a w).2.1.head? = some (.warn inner.depth "DeprecationWarning") := by
  rw [deprecated_call]
  have hq := invoke_quiet inner inner.depth (Nat.le_refl _) a w
  rw [outQuiet_iff] at hq
  simp [isWarnAt, filter_warn_quiet inner.depth _ hq.2]

/-- … so a history of n calls emits n of them (not only the first call) -/
theorem deprecated_warnings_over_history (p : Params) (inner : Fn) :
    ∀ (hist : List Args) (w : World), warnsAt inner.depth (runHistory (.deco dDeprecated p inner) hist w) = hist.length := by
  intro hist
  induction hist with
  | nil => intro w; rfl
  | cons a rest ih =>
    intro w
    simp only [runHistory, warnsAt, ih, (deprecated_one_warning_per_call p inner a w).1]
    simp; omega

/-! ## does_same_as_function: raises iff the results differ -/

theorem does_same_raises_iff_differ (p : Params) (inner : Fn) (a : Args) (w w1 w2 : World) (v u : Obj) (evs evs2 : List Ev)
    (h1 : seenResult inner a w = (.ret (.obj v), evs, w1))
    (h2 : otherOut p inner a w1 = (.ret (.obj u), evs2, w2))
    (hne : (p.traits u.id).neRaises = false) :
    ((invoke (.deco dDoesSameAsFunction p inner) a w).1.tag = .exc (.lib "AssertionError") ↔ u.cls ≠ v.cls) ∧
    (u.cls = v.cls → (invoke (.deco dDoesSameAsFunction p inner) a w).1.tag = .obj v) := by
  rw [does_same_result p inner a w w1 w2 v u evs evs2 h1 h2 hne]
  by_cases h : u.cls = v.cls <;> simp [h, Res.tag]

/-! ## trace_class / timer_class -/

theorem class_decorators_table : classDecorators.lookup "trace_class" = some "trace" ∧ classDecorators.lookup "timer_class" = some "timer" := by
  decide

/-- the loop of `for_all_methods` still reads members with `getattr` and stores plain functions (what `decoratedMember` models) -/
theorem member_loop_facts : membersReadWithGetattr = true ∧ membersStoredAsPlainFunction = true ∧ propertiesHandled = true ∧
    memberTypes = ["FunctionType", "MethodType"] := by decide

/-- proved part: instance methods, property getters, and static / class methods reached through the class -/
theorem transparent_trace_class_partial (k : MemberKind) (acc : Access) (hg : MemberGuard k acc) (p : Params) (self cls : Nat)
    (raw : Fn) (a : Args) (w : World) :
    bodyObs (invoke (decoratedMember dTrace p k acc self cls raw) a w) = bodyObs (invoke (twinMember k acc self cls raw) a w) :=
  member_transparent transparent_trace k acc hg p self cls raw a w trivial

theorem transparent_timer_class_partial (k : MemberKind) (acc : Access) (hg : MemberGuard k acc) (p : Params) (self cls : Nat)
    (raw : Fn) (a : Args) (w : World) :
    bodyObs (invoke (decoratedMember dTimer p k acc self cls raw) a w) = bodyObs (invoke (twinMember k acc self cls raw) a w) :=
  member_transparent transparent_timer k acc hg p self cls raw a w trivial

/-- the full-strength statements (not provable: see the witnesses) -/
def transparent_trace_class_full : Prop := class_transparent_full dTrace
def transparent_timer_class_full : Prop := class_transparent_full dTimer

/-- region `forAllMethodsRebindsStaticAndClassMethods` = the complement of `MemberGuard` -/
def inRegion (k : MemberKind) (acc : Access) : Bool := (k == .static || k == .classm) && acc == .instance

theorem region_is_guard_complement (k : MemberKind) (acc : Access) : inRegion k acc = true ↔ ¬ MemberGuard k acc := by
  cases k <;> cases acc <;> simp [inRegion, MemberGuard]

theorem timer_class_fails_static_on_instance : ¬ transparent_timer_class_full := by
  intro h
  have := h .static .instance p0 50 51 (.body b0) a0 w0
  revert this
  decide

theorem trace_class_fails_classmethod_on_instance : ¬ transparent_trace_class_full := by
  intro h
  have := h .classm .instance p0 50 51 (.body ⟨false, ⟨[8, 2, 3], [], [], false, false⟩, fun i => .ret ⟨100 + i, 100 + i⟩⟩) a0 w0
  revert this
  decide

/-! ## The specification oracle agrees with the model (single layer over any body)

`spec` (Spec/Utility.lean) is written from the property text and is what `./check` compares the implementation with.  For every
decorator of the transparent and exact groups, every body script, flavour, argument tuple and world, the model of the decorated
function and the specification say the same about: result / exception, body invocations with bound arguments, number of warnings,
counter movement, number of body runs. -/

set_option linter.unusedSimpArgs false

/-- what the specification talks about, read off a model outcome of a single layer (depth 0) over a body -/
structure SObs where
  res : RTag
  calls : List Ev
  warns : Nat
  incr : Int
  inv : Nat
deriving DecidableEq, Repr

def obsModel (o : Out) : SObs :=
  ⟨o.1.tag, o.2.1.filter (isBodyOf .wrapped), (o.2.1.filter (isWarnAt 0)).length, sumIncr 0 o.2.1, o.2.2.inv⟩

def sumInts : List Int → Int
  | [] => 0
  | x :: r => x + sumInts r

def obsSpec (s : SOut) : SObs := ⟨s.res, s.calls, s.warns, sumInts s.incrs, s.w.inv⟩

theorem outc_tag (o : Outc) : (outcRes o).tag = outcTag o := by cases o <;> rfl

theorem body_meets_spec (b : Body) (a : Args) (w : World) : obsModel (invoke (.body b) a w) = obsSpec (specBody b a w) := by
  rw [invoke_body]
  simp only [specBody]
  cases bind b.sig a with
  | none => simp [obsModel, obsSpec, Res.tag, sumIncr, sumInts]
  | some bd => simp [obsModel, obsSpec, runBody, World.count, World.bump, isBodyOf, isWarnAt, sumIncr, incrOf, sumInts, outc_tag]

set_option hygiene false in
local macro "single_layer" d:ident : tactic => `(tactic| (
  simp only [spec, specBody]
  cases hb : bind b.sig a with
  | none => cases hc : b.isCoro <;>
      simp [$d:ident, invoke, call, callLayer, select, findWrapper, runWrapper, execL, exec, execCall, calleeSem, mkFrame, mkArgs, bindVar,
        evalExpr, evalCond, evalCmp, lookup, awaitVal, Res.tag, Val.pyEq, gap, Fn.isCoro, Fn.depth, Fn.metaOk, fmtRaises, fmtOneRaises, valFmtRaises, idsReprRaise,
        condRaises, cmpRaises, objCmpRaises, callBody, hb, hc, obsModel, obsSpec, sumIncr, sumInts, isWarnAt, incrOf, isBodyOf, *]
  | some bd =>
    cases hc : b.isCoro <;> cases hs : b.script w.inv <;>
      simp [$d:ident, invoke, call, callLayer, select, findWrapper, runWrapper, execL, exec, execCall, calleeSem, mkFrame, mkArgs, bindVar,
        evalExpr, evalCond, evalCmp, lookup, awaitVal, Res.tag, Val.pyEq, gap, Fn.isCoro, Fn.depth, Fn.metaOk, fmtRaises, fmtOneRaises, valFmtRaises, idsReprRaise,
        condRaises, cmpRaises, objCmpRaises, callBody, hb, hc, hs, obsModel, obsSpec, sumIncr, sumInts, isWarnAt, incrOf, isBodyOf, runBody, World.count, World.bump, outcRes, outcTag, *]))

theorem trace_meets_spec (p : Params) (b : Body) (a : Args) (w : World) :
    obsModel (invoke (.deco dTrace p (.body b)) a w) = obsSpec (spec (.layer .trace p (.body b)) 0 a w) := by
  single_layer dTrace
theorem timer_meets_spec (p : Params) (b : Body) (a : Args) (w : World) :
    obsModel (invoke (.deco dTimer p (.body b)) a w) = obsSpec (spec (.layer .timer p (.body b)) 0 a w) := by
  single_layer dTimer
theorem count_calls_meets_spec (p : Params) (b : Body) (a : Args) (w : World) :
    obsModel (invoke (.deco dCountCalls p (.body b)) a w) = obsSpec (spec (.layer .countCalls p (.body b)) 0 a w) := by
  single_layer dCountCalls
theorem deprecated_meets_spec (p : Params) (b : Body) (a : Args) (w : World) :
    obsModel (invoke (.deco dDeprecated p (.body b)) a w) = obsSpec (spec (.layer .deprecated p (.body b)) 0 a w) := by
  single_layer dDeprecated
theorem mock_meets_spec (p : Params) (b : Body) (a : Args) (w : World) :
    obsModel (invoke (.deco dMock p (.body b)) a w) = obsSpec (spec (.layer .mock p (.body b)) 0 a w) := by
  rw [mock_never_runs_body]; simp [spec, obsModel, obsSpec, Res.tag, sumIncr, sumInts, SFn.nCounters]
theorem unimplemented_meets_spec (p : Params) (b : Body) (a : Args) (w : World) :
    obsModel (invoke (.deco dUnimplemented p (.body b)) a w) = obsSpec (spec (.layer .unimplemented p (.body b)) 0 a w) := by
  rw [unimplemented_never_runs_body]; simp [spec, obsModel, obsSpec, Res.tag, sumIncr, sumInts, SFn.nCounters]
theorem rename_kwargs_meets_spec (p : Params) (b : Body) (a : Args) (w : World) :
    obsModel (invoke (.deco dRenameKwargs p (.body b)) a w) = obsSpec (spec (.layer .renameKwargs p (.body b)) 0 a w) := by
  rw [rename_exact, body_meets_spec]; simp [spec]
theorem overrides_meets_spec (p : Params) (b : Body) (a : Args) (w : World) :
    obsModel (invoke (.deco dOverrides p (.body b)) a w) = obsSpec (spec (.layer .overrides p (.body b)) 0 a w) := by
  have : invoke (.deco dOverrides p (.body b)) a w = invoke (.body b) a w := by
    simp [dOverrides, invoke, call, callLayer, select]
  rw [this, body_meets_spec]; simp [spec]

/-- `trace_if_returns`: wherever `result == return_value` answers -/
theorem trace_if_returns_meets_spec (p : Params) (b : Body) (a : Args) (w : World) (hpar : (p.traits p.param.id).eqRaises = false)
    (heq : ∀ v, b.script w.inv = .ret v → (p.traits v.id).eqRaises = false) :
    obsModel (invoke (.deco dTraceIfReturns p (.body b)) a w) = obsSpec (spec (.layer .traceIfReturns p (.body b)) 0 a w) := by
  simp only [spec, specBody]
  cases hb : bind b.sig a with
  | none => cases hc : b.isCoro <;>
      simp [dTraceIfReturns, invoke, call, callLayer, select, findWrapper, runWrapper, execL, exec, execCall, calleeSem, mkFrame, mkArgs, bindVar,
        evalExpr, evalCond, evalCmp, lookup, awaitVal, Res.tag, Val.pyEq, gap, Fn.isCoro, Fn.depth, Fn.metaOk,
        callBody, hb, hc, obsModel, obsSpec, sumIncr, sumInts, isWarnAt, incrOf, isBodyOf]
  | some bd =>
    cases hs : b.script w.inv with
    | exc e base => cases hc : b.isCoro <;>
      simp [dTraceIfReturns, invoke, call, callLayer, select, findWrapper, runWrapper, execL, exec, execCall, calleeSem, mkFrame, mkArgs, bindVar,
        evalExpr, evalCond, evalCmp, lookup, awaitVal, Res.tag, Val.pyEq, gap, Fn.isCoro, Fn.depth, Fn.metaOk,
        callBody, hb, hc, hs, obsModel, obsSpec, sumIncr, sumInts, isWarnAt, incrOf, isBodyOf, runBody, World.count, World.bump, outcRes, outcTag]
    | ret v =>
      have he := heq v hs
      cases hv : (v.cls == p.param.cls) <;> cases hc : b.isCoro <;>
        simp [dTraceIfReturns, invoke, call, callLayer, select, findWrapper, runWrapper, execL, exec, execCall, calleeSem, mkFrame, mkArgs, bindVar,
          evalExpr, evalCond, evalCmp, lookup, awaitVal, Res.tag, Val.pyEq, gap, Fn.isCoro, Fn.depth, Fn.metaOk, fmtRaises, fmtOneRaises, valFmtRaises, idsReprRaise, condRaises, cmpRaises, objCmpRaises,
          callBody, hb, hc, hs, hv, he, obsModel, obsSpec, sumIncr, sumInts, isWarnAt, incrOf, isBodyOf, runBody, World.count, World.bump, outcRes, outcTag]

theorem require_kwargs_meets_spec (p : Params) (b : Body) (a : Args) (w : World) (hk : p.guard.rejects a = none) :
    obsModel (invoke (.deco dRequireKwargs p (.body b)) a w) = obsSpec (spec (.layer .requireKwargs p (.body b)) 0 a w) := by
  have h : obsSpec (spec (.layer .requireKwargs p (.body b)) 0 a w) = obsSpec (specBody b a w) := by
    simp only [spec]; split <;> (try split) <;> simp [obsSpec]
  rw [h]
  simp only [specBody]
  cases hb : bind b.sig a with
  | none => cases hc : b.isCoro <;>
      simp [dRequireKwargs, invoke, call, callLayer, select, findWrapper, runWrapper, execL, exec, execCall, calleeSem, mkFrame, mkArgs, bindVar,
        evalExpr, evalCond, evalCmp, lookup, awaitVal, Res.tag, Val.pyEq, gap, Fn.isCoro, Fn.depth, Fn.metaOk,
        callBody, hb, hc, hk, obsModel, obsSpec, sumIncr, sumInts, isWarnAt, incrOf, isBodyOf, fmtRaises, idsReprRaise]
  | some bd =>
    cases hc : b.isCoro <;> cases hs : b.script w.inv <;>
      simp [dRequireKwargs, invoke, call, callLayer, select, findWrapper, runWrapper, execL, exec, execCall, calleeSem, mkFrame, mkArgs, bindVar,
        evalExpr, evalCond, evalCmp, lookup, awaitVal, Res.tag, Val.pyEq, gap, Fn.isCoro, Fn.depth, Fn.metaOk,
        callBody, hb, hc, hs, hk, obsModel, obsSpec, sumIncr, sumInts, isWarnAt, incrOf, isBodyOf, runBody, World.count, World.bump, outcRes, outcTag]

/-- `does_same_as_function` over a body, wherever the specification is determined (the arguments bind for both functions and
    `other_func` returns): all four flavour combinations -/
theorem does_same_meets_spec (p : Params) (b : Body) (a : Args) (w : World) (bd bo : Bound) (u : Obj)
    (hb : bind b.sig a = some bd) (hbo : bind p.other.sig a = some bo) (ho : p.other.script w.oinv = .ret u)
    (hne : (p.traits u.id).neRaises = false)
    -- a plain function next to a coroutine `other_func`: the coroutine object answers `NotImplemented`, `result.__ne__` runs
    (hmixne : ∀ v, b.script w.inv = .ret v → b.isCoro = false → p.other.isCoro = true → (p.traits v.id).neRaises = false) :
    obsModel (invoke (.deco dDoesSameAsFunction p (.body b)) a w) = obsSpec (spec (.layer .doesSame p (.body b)) 0 a w) := by
  obtain ⟨bc, bsig, bscript⟩ := b
  obtain ⟨pp, pr, ⟨oc, osig, oscript⟩, pb, pf, pg, pt⟩ := p
  simp only at hb hbo ho hne hmixne
  simp only [spec, specBody, SFn.isCoro, SFn.bodyIsCoro]
  cases hs : bscript w.inv with
  | exc e base => cases bc <;> cases oc <;>
      simp [dDoesSameAsFunction, invoke, call, callLayer, select, findWrapper, runWrapper, execL, exec, execCall, calleeSem, mkFrame, mkArgs, bindVar,
        evalExpr, evalCond, evalCmp, lookup, awaitVal, Res.tag, Val.pyEq, gap, Fn.isCoro, Fn.depth, Fn.metaOk,
        callBody, hb, hbo, hs, ho, obsModel, obsSpec, sumIncr, sumInts, isWarnAt, incrOf, isBodyOf, runBody, World.count, World.bump, outcRes, outcTag]
  | ret v =>
    have hsplit : ((u.cls == v.cls) = true ∧ u.cls = v.cls) ∨ ((u.cls == v.cls) = false ∧ ¬ u.cls = v.cls) := by
      by_cases h : u.cls = v.cls <;> simp [h]
    have hmn := hmixne v hs
    rcases hsplit with ⟨hv, hv'⟩ | ⟨hv, hv'⟩ <;> cases bc <;> cases oc <;> (try have hm4 := hmn rfl rfl) <;>
      simp [dDoesSameAsFunction, invoke, call, callLayer, select, findWrapper, runWrapper, execL, exec, execCall, calleeSem, mkFrame, mkArgs, bindVar,
        evalExpr, evalCond, evalCmp, lookup, awaitVal, Res.tag, Val.pyEq, gap, Fn.isCoro, Fn.depth, Fn.metaOk, fmtRaises, fmtOneRaises, valFmtRaises, idsReprRaise, condRaises, cmpRaises, objCmpRaises,
        callBody, hb, hbo, hs, ho, hv, hv', hne, obsModel, obsSpec, sumIncr, sumInts, isWarnAt, incrOf, isBodyOf, runBody, World.count, World.bump, outcRes, outcTag, *]

/-! ## Non-vacuity: concrete instances of the hypotheses and of the conclusions -/

/-- `async def target(a, b)` with the same script -/
def b0a : Body := { b0 with isCoro := true }
/-- a body that raises a BaseException on its second invocation -/
def b1 : Body := ⟨false, ⟨[2, 3], [], [], false, false⟩, fun i => if i = 1 then .exc 201 true else .ret ⟨100 + i, 100 + i⟩⟩
/-- keyword call `f(a=A, b=B)` -/
def ak : Args := ⟨[], [(2, 11), (3, 12)]⟩
/-- `other_func` returns an equal, not identical object -/
def pAgree : Params := { p0 with other := ⟨false, ⟨[2, 3], [], [], false, false⟩, fun i => .ret ⟨300 + i, 100 + i⟩⟩ }
def pRename : Params := { p0 with renames := [(6, 2)] }

-- trace: journal of a sync and an async function; the arguments arrive as bound by the signature
example : (invoke (.deco dTrace p0 (.body b0)) a0 w0).2.1 = [.print 0, .body .wrapped 0 ⟨[(2, 11), (3, 12)], [], []⟩, .print 0] := by decide
example : bodyObs (invoke (.deco dTrace p0 (.body b0a)) ak w0) = ⟨.obj ⟨100, 100⟩, [.body .wrapped 0 ⟨[(2, 11), (3, 12)], [], []⟩], 1⟩ := by decide
example : (Fn.deco dTrace p0 (.body b0a)).isCoro = true ∧ (Fn.deco dCountCalls p0 (.body b0a)).isCoro = false := by decide
-- an exception object travels through two layers unchanged
example : (bodyObs (invoke (.deco dTimer p0 (.deco dDeprecated p0 (.body b1))) a0 ⟨1, 0⟩)).res = .exc (.body 201 true) := by decide
-- transparent_on_body: hypotheses are satisfiable (binding succeeds)
example : bind b0.sig a0 = some ⟨[(2, 11), (3, 12)], [], []⟩ ∧ bind b0.sig ak = some ⟨[(2, 11), (3, 12)], [], []⟩ := by decide
example : bind b0.sig ⟨[11], []⟩ = none := by decide
-- require_kwargs: a keyword call passes, a positional call trips the guard
example : KeywordCall p0 (.body b0) ak w0 := by simp only [KeywordCall]; decide
example : p0.guard.rejects a0 = some "PedanticCallWithArgsException" := by decide
example : (invoke (.deco dRequireKwargs p0 (.body b0)) a0 w0).1.tag = .exc (.lib "PedanticCallWithArgsException") := by decide
-- rename_kwargs: hypothesis of transparency, and the exact map with a collision (`zz` → `a` after an explicit `a`: the later one wins)
example : NoListedKey pRename (.body b0) ak w0 := ⟨by decide, by simp [DistinctKeys, ak, hasKey, kwGet?]⟩
example : specRename pRename.renames [] [(6, 11), (3, 12)] = [(2, 11), (3, 12)] := by decide
example : specRename pRename.renames [] [(2, 13), (6, 11), (3, 12)] = [(2, 11), (3, 12)] := by decide
example : (invoke (.deco dRenameKwargs pRename (.body b0)) ⟨[], [(6, 11), (3, 12)]⟩ w0).2.1 = [.body .wrapped 0 ⟨[(2, 11), (3, 12)], [], []⟩] := by decide
-- does_same_as_function: agreeing other (equal, not identical), and a differing one
example : OtherAgrees pAgree (.body b0) a0 w0 := by
  refine ⟨by decide, ?_⟩
  intro r evs w1 h
  simp [seenResult, Fn.isCoro, b0, call, callBody, bind, bindPos, a0, runBody, World.count, w0, outcRes, World.bump, hasKey, kwGet?] at h
  obtain ⟨rfl, _, rfl⟩ := h
  exact ⟨⟨100, 100⟩, ⟨300, 100⟩, rfl, by decide, rfl, rfl, rfl⟩
example : (invoke (.deco dDoesSameAsFunction pAgree (.body b0)) a0 w0).1.tag = .obj ⟨100, 100⟩ := by decide
example : (invoke (.deco dDoesSameAsFunction p0 (.body b0)) a0 w0).1.tag = .exc (.lib "AssertionError") := by decide
example : (invoke (.deco dDoesSameAsFunction pAgree (.body b0a)) a0 w0).1.tag = .obj ⟨100, 100⟩ := by decide
-- mock / unimplemented
example : (invoke (.deco dMock p0 (.body b0a)) a0 w0).1.tag = .obj ⟨90, 900⟩ := by decide
-- overrides
/-- `class Base:  def __eq__(self, o): ...` — Python adds `__hash__ = None` to the class body (names: 103 `__hash__`, 104 `__eq__`,
    105 `mro`); `object` binds both dunders, `type` binds `mro` -/
def baseEq : ClassDesc :=
  ⟨[[⟨103, ⟨true, false, false⟩⟩, ⟨104, ⟨false, true, true⟩⟩], [⟨103, ⟨false, true, true⟩⟩, ⟨104, ⟨false, true, true⟩⟩]],
   [[⟨105, ⟨false, true, true⟩⟩], [⟨103, ⟨false, true, true⟩⟩, ⟨104, ⟨false, true, true⟩⟩]], none, none⟩
/-- `class Meta(type):  def __getattr__(cls, n): return <function>` / `class Base(metaclass=Meta): pass` -/
def baseMetaGetattr : ClassDesc := ⟨[[], []], [[], [⟨105, ⟨false, true, true⟩⟩], []], some ⟨false, true, true⟩, none⟩
example : decorate dOverrides { p0 with base := ⟨[[], []], [[], []], none, none⟩ } (.body b0) = .error (.lib "PedanticOverrideException") :=
  (overrides_iff _ (.body b0) rfl rfl).1.mpr (by decide)
example : decorate dOverrides p0 (.body b0) = .ok (.deco dOverrides p0 (.body b0)) := (overrides_iff p0 (.body b0) rfl rfl).2 (by decide)
-- the base class has `__hash__` although `getattr(Base, '__hash__', None) is None` …
example : baseEq.getattr 103 = some ⟨true, false, false⟩ ∧ ¬ LacksName baseEq 103 := by decide
example : decorate dOverrides { p0 with base := baseEq, fname := 103 } (.body b0) = .ok (.deco dOverrides { p0 with base := baseEq, fname := 103 } (.body b0)) :=
  overrides_accepts_any_bound_value _ _ rfl rfl _ ⟨103, ⟨true, false, false⟩⟩ (List.mem_cons_self ..) (List.mem_cons_self ..) rfl
-- … and lacks `mro` / whatever the metaclass answers although `getattr` finds something
example : (baseEq.getattr 105).isSome = true ∧ LacksName baseEq 105 := by decide
example : (baseMetaGetattr.getattr 100).isSome = true ∧ LacksName baseMetaGetattr 100 := by decide
example : decorate dOverrides { p0 with base := baseEq, fname := 105 } (.body b0) = .error (.lib "PedanticOverrideException") :=
  (overrides_iff _ (.body b0) rfl rfl).1.mpr (by decide)
example : decorate dOverrides { p0 with base := baseMetaGetattr } (.body b0) = .error (.lib "PedanticOverrideException") :=
  overrides_rejects_metaclass_only_names _ _ rfl rfl (by decide)
-- count_calls: three calls, the second raises a BaseException, the third does not bind — all three are counted
example : counterAfter 0 0 (runHistory (.deco dCountCalls p0 (.body b1)) [a0, ak, ⟨[11], []⟩] w0) = 3 := by decide
example : (runHistory (.deco dCountCalls p0 (.body b1)) [a0, ak, ⟨[11], []⟩] w0).map (fun o => o.1.tag) =
    [.obj ⟨100, 100⟩, .exc (.body 201 true), .exc (.lib "TypeError")] := by decide
-- deprecated: two calls, two warnings
example : warnsAt 0 (runHistory (.deco dDeprecated p0 (.body b0)) [a0, a0] w0) = 2 := by decide
-- stacking: count_calls over does_same_as_function (agreeing) over rename_kwargs (no listed key)
example : bodyObs (invoke (.deco dCountCalls p0 (.deco dDoesSameAsFunction pAgree (.deco dRenameKwargs pRename (.body b0)))) ak w0)
    = bodyObs (invoke (.body b0) ak w0) := by decide
-- class decorators: the proved part is inhabited, and so is the region
example : MemberGuard .method .instance ∧ MemberGuard .static .cls ∧ MemberGuard .classm .cls ∧ MemberGuard .prop .instance := by
  simp [MemberGuard]
example : inRegion .static .instance = true ∧ inRegion .classm .instance = true := by decide
example : (invoke (decoratedMember dTrace p0 .static .instance 50 51 (.body b0)) a0 w0).1.tag = .exc (.lib "TypeError") ∧
    (invoke (twinMember .static .instance 50 51 (.body b0)) a0 w0).1.tag = .obj ⟨100, 100⟩ := by decide

/-! ## Generator functions and async generator functions as decorated callables

A generator function hands out a generator object and runs nothing; everything observable happens while the CALLER drives that object
(`next` / `send` / `throw` / `close`, `yield from`).  A transparent decorator must therefore hand out *that very object*: then every
value sent, every exception thrown and `close` reach the decorated generator, and its `return` value reaches the caller — whatever
the caller does.  The theorems evaluate the generated wrapper texts over a callable whose call yields `.gen drive` (or an
exception) for an ARBITRARY `drive`; a wrapper that re-yields the items (`for item in func(…): yield item`), iterates the
generator, or awaits it changes the generated text (or leaves the translated subset) and breaks them. -/

/-- the decorator hands through what a NON-coroutine callable underneath gives back when that is a generator object or an exception:
    the same generator object (the same `drive`), the same exception; the journal of the decorated body and the world are untouched -/
def PassesPlain (d : Deco) (P : Params → Fn → Args → World → Prop) : Prop :=
  ∀ p inner a w, P p inner a w → inner.isCoro = false →
    ∀ r evs w1, call inner a w = (r, evs, w1) → ((∃ drive, r = .ret (.gen drive)) ∨ (∃ e, r = .exc e)) →
      ∃ evs', call (.deco d p inner) a w = (r, evs', w1) ∧ evs'.filter isGenBodyEv = evs.filter isGenBodyEv

local macro "passes_plain" d:ident : tactic => `(tactic| (
  intro p inner a w _ hc r evs w1 h hr
  rcases hr with ⟨drive, rfl⟩ | ⟨e, rfl⟩ <;>
    (simp [$d:ident] <;> usimp <;> try simp [isGenBodyEv, List.filter])))

theorem passes_gen_trace : PassesPlain dTrace Always := by passes_plain dTrace
theorem passes_gen_timer : PassesPlain dTimer Always := by passes_plain dTimer
theorem passes_gen_count_calls : PassesPlain dCountCalls Always := by passes_plain dCountCalls
theorem passes_gen_deprecated : PassesPlain dDeprecated Always := by passes_plain dDeprecated
/-- `trace_if_returns` compares the generator object with `return_value`: the generator answers `NotImplemented`, the reflected
    `return_value.__eq__` runs -/
theorem passes_gen_trace_if_returns : PassesPlain dTraceIfReturns (fun p _ _ _ => (p.traits p.param.id).eqRaises = false) := by
  intro p inner a w hP hc r evs w1 h hr
  rcases hr with ⟨drive, rfl⟩ | ⟨e, rfl⟩ <;>
    (simp [dTraceIfReturns] <;> usimp <;> try simp [isGenBodyEv, List.filter])
theorem passes_gen_overrides : PassesPlain dOverrides Always := by
  intro p inner a w _ hc r evs w1 h _
  exact ⟨evs, by simp [dOverrides, call, callLayer, select, h], rfl⟩
/-- `require_kwargs`: every call the guard statements let through -/
theorem passes_gen_require_kwargs : PassesPlain dRequireKwargs KeywordCall := by
  intro p inner a w hk hc r evs w1 h hr
  simp only [KeywordCall] at hk
  rcases hr with ⟨drive, rfl⟩ | ⟨e, rfl⟩ <;>
    (simp [dRequireKwargs] <;> usimp <;> try simp [isGenBodyEv, List.filter])

/-- **whatever the caller does with the generator** (any list of `next` / `send` / `throw` / `close`): the operations show the same, the
    body of the decorated generator function notes down the same (every sent value, every thrown exception, `close`), it starts as often -/
theorem transparent_gen_of_passes {d : Deco} {P : Params → Fn → Args → World → Prop} (h : PassesPlain d P)
    (p : Params) (inner : Fn) (a : Args) (w : World) (hp : P p inner a w) (hc : inner.isCoro = false)
    (drive : List GenOp → World → List GenObs × List Ev × World) (evs : List Ev) (w1 : World)
    (hi : call inner a w = (.ret (.gen drive), evs, w1)) (ops : List GenOp) :
    genBodyObs (invokeG ops (.deco d p inner) a w) = genBodyObs (invokeG ops inner a w) := by
  obtain ⟨evs', h1, h2⟩ := h p inner a w hp hc _ evs w1 hi (Or.inl ⟨drive, rfl⟩)
  simp [invokeG, h1, hi, genBodyObs, List.filter_append, h2]

/-- the decorators that hand a generator through for every call -/
def genTransparent : List Deco := [dTrace, dTimer, dCountCalls, dDeprecated, dOverrides]

theorem genTransparent_passes : ∀ d ∈ genTransparent, PassesPlain d Always := by
  intro d hd
  simp only [genTransparent, List.mem_cons, List.mem_nil_iff, or_false] at hd
  rcases hd with rfl | rfl | rfl | rfl | rfl
  · exact passes_gen_trace
  · exact passes_gen_timer
  · exact passes_gen_count_calls
  · exact passes_gen_deprecated
  · exact passes_gen_overrides

/-- **a generator function stays a non-coroutine function**: over a callable that is no coroutine function these decorators select
    their plain wrapper — none of them has a dedicated wrapper that would stand between the caller and the generator object
    (generated facts: `dispatch`, `isAsync`, `isGenerator` of every wrapper) -/
theorem gen_layer_not_coro : ∀ d ∈ genTransparent, ∀ (p : Params) (inner : Fn), inner.isCoro = false → (Fn.deco d p inner).isCoro = false := by
  intro d hd p inner hc
  simp only [genTransparent, List.mem_cons, List.mem_nil_iff, or_false] at hd
  rcases hd with rfl | rfl | rfl | rfl | rfl <;> simp [Fn.isCoro, select, findWrapper, hc, dTrace, dTimer, dCountCalls, dDeprecated, dOverrides]

/-- a stack of these decorators (any depth, any parameters) over the generator function `g` -/
inductive GenStack (g : GenBody) : Fn → Prop where
  | base : GenStack g (.gen g)
  | layer {d : Deco} {p : Params} {inner : Fn} : d ∈ genTransparent → GenStack g inner → GenStack g (.deco d p inner)

theorem gen_stack_call (g : GenBody) : ∀ (f : Fn), GenStack g f → f.isCoro = false ∧ ∀ a w,
    ∃ evs, call f a w = ((call (.gen g) a w).1, evs, w) ∧ evs.filter isGenBodyEv = [] := by
  intro f hf
  induction hf with
  | base =>
    refine ⟨rfl, fun a w => ⟨[], ?_, rfl⟩⟩
    simp only [call, callGen]; split <;> rfl
  | @layer d p inner hd _ ih =>
    refine ⟨gen_layer_not_coro d hd p inner ih.1, fun a w => ?_⟩
    obtain ⟨evs, h1, h2⟩ := ih.2 a w
    have hr : (∃ drive, (call (.gen g) a w).1 = .ret (.gen drive)) ∨ (∃ e, (call (.gen g) a w).1 = .exc e) := by
      simp only [call, callGen]; split
      · exact Or.inr ⟨_, rfl⟩
      · exact Or.inl ⟨_, rfl⟩
    obtain ⟨evs', h3, h4⟩ := genTransparent_passes d hd p inner a w trivial ih.1 _ evs w h1 hr
    exact ⟨evs', h3, by rw [h4, h2]⟩

/-- a callable whose call yields what calling `g` yields — without touching the journal of `g`'s body or the world — shows the caller,
    however it drives the result, what `g` itself shows -/
theorem invokeG_of_call (g : GenBody) (f : Fn) (ops : List GenOp) (a : Args) (w : World) (evs : List Ev)
    (h1 : call f a w = ((call (.gen g) a w).1, evs, w)) (h2 : evs.filter isGenBodyEv = []) :
    genBodyObs (invokeG ops f a w) = genBodyObs (invokeG ops (.gen g) a w) := by
  have hg : call (.gen g) a w = ((call (.gen g) a w).1, [], w) := by
    simp only [call, callGen]; split <;> rfl
  rcases hr : (call (.gen g) a w).1 with v | e
  · rw [hr] at h1 hg
    cases v <;> simp [invokeG, h1, hg, genBodyObs, List.filter_append, h2]
    all_goals (simp only [call, callGen] at hr; split at hr <;> simp at hr)
  · rw [hr] at h1 hg
    simp [invokeG, h1, hg, genBodyObs, h2]

/-- **transparent_generator_stack** — for every generator function / async generator function `g`, every stack of trace / timer /
    count_calls / deprecated / trace_if_returns / overrides over it, every argument tuple and EVERY way of driving the result
    (`next`, `send`, `throw`, `close` in any order and number): the caller is shown exactly what the undecorated generator function
    shows, and the generator's body receives exactly what it receives there -/
theorem transparent_generator_stack (g : GenBody) (f : Fn) (hf : GenStack g f) (ops : List GenOp) (a : Args) (w : World) :
    genBodyObs (invokeG ops f a w) = genBodyObs (invokeG ops (.gen g) a w) :=
  let ⟨evs, h1, h2⟩ := (gen_stack_call g f hf).2 a w
  invokeG_of_call g f ops a w evs h1 h2

/-- one more layer `d` on top of such a stack, under the side condition of `d` -/
theorem transparent_generator_layer {d : Deco} {P : Params → Fn → Args → World → Prop} (hpass : PassesPlain d P)
    (g : GenBody) (f : Fn) (hf : GenStack g f) (p : Params) (ops : List GenOp) (a : Args) (w : World) (hP : P p f a w) :
    genBodyObs (invokeG ops (.deco d p f) a w) = genBodyObs (invokeG ops (.gen g) a w) := by
  obtain ⟨hc, hcall⟩ := gen_stack_call g f hf
  obtain ⟨evs, h1, h2⟩ := hcall a w
  have hres : (∃ drive, (call (.gen g) a w).1 = .ret (.gen drive)) ∨ (∃ e, (call (.gen g) a w).1 = .exc e) := by
    simp only [call, callGen]; split
    · exact Or.inr ⟨_, rfl⟩
    · exact Or.inl ⟨_, rfl⟩
  obtain ⟨evs', h3, h4⟩ := hpass p f a w hP hc _ evs w h1 hres
  exact invokeG_of_call g _ ops a w evs' h3 (by rw [h4, h2])

/-- `trace_if_returns` on top: wherever `return_value.__eq__` answers -/
theorem transparent_generator_trace_if_returns (g : GenBody) (f : Fn) (hf : GenStack g f) (p : Params) (ops : List GenOp) (a : Args) (w : World)
    (he : (p.traits p.param.id).eqRaises = false) :
    genBodyObs (invokeG ops (.deco dTraceIfReturns p f) a w) = genBodyObs (invokeG ops (.gen g) a w) :=
  transparent_generator_layer passes_gen_trace_if_returns g f hf p ops a w he

/-- `require_kwargs` on top: every call its guard statements let through -/
theorem transparent_generator_require_kwargs (g : GenBody) (f : Fn) (hf : GenStack g f) (p : Params) (ops : List GenOp) (a : Args) (w : World)
    (hk : p.guard.rejects a = none) :
    genBodyObs (invokeG ops (.deco dRequireKwargs p f) a w) = genBodyObs (invokeG ops (.gen g) a w) :=
  transparent_generator_layer passes_gen_require_kwargs g f hf p ops a w hk

/-- … spelled out against the generator protocol: when the arguments bind, the caller drives the generator of `g` itself -/
theorem generator_stack_meets_spec (g : GenBody) (f : Fn) (hf : GenStack g f) (ops : List GenOp) (a : Args) (w : World) (bd : Bound)
    (hb : bind g.sig a = some bd) :
    genBodyObs (invokeG ops f a w) =
      ⟨.gen, (genRun g .wrapped bd .fresh ops w).1, (genRun g .wrapped bd .fresh ops w).2.1.filter isGenBodyEv, (genRun g .wrapped bd .fresh ops w).2.2.inv⟩ := by
  rw [transparent_generator_stack g f hf]
  simp [invokeG, call, callGen, hb, genBodyObs, Res.tag]

/-- `mock` and `unimplemented` never create the generator -/
theorem mock_never_creates_generator (p : Params) (g : GenBody) (a : Args) (w : World) (ops : List GenOp) :
    genBodyObs (invokeG ops (.deco dMock p (.gen g)) a w) = ⟨.obj p.param, [], [], w.inv⟩ := by
  have hc : (Fn.gen g).isCoro = false := rfl
  simp [dMock, invokeG, genBodyObs, call, callLayer, select, findWrapper, hc]; usimp

theorem unimplemented_never_creates_generator (p : Params) (g : GenBody) (a : Args) (w : World) (ops : List GenOp) :
    genBodyObs (invokeG ops (.deco dUnimplemented p (.gen g)) a w) = ⟨.exc (.lib "NotImplementedException"), [], [], w.inv⟩ := by
  have hc : (Fn.gen g).isCoro = false := rfl
  simp [dUnimplemented, invokeG, genBodyObs, call, callLayer, select, findWrapper, hc]; usimp

/-- the protocol model itself (environment): a value sent into a suspended generator is what the body sees, a thrown `Exception` is seen
    and swallowed, `close` is seen -/
theorem gen_protocol_facts (g : GenBody) (c : Callee) (bd : Bound) (i : Nat) (rest : List Obj) (v e : Nat) (w : World) :
    (genStep g c bd (.susp i rest) (.send v) w).2.2.1 = [.gen i (.got v)] ∧
    (genStep g c bd (.susp i rest) (.throw e false) w).2.2.1 = [.gen i (.thrown e)] ∧
    (genStep g c bd (.susp i rest) .close w) = (.done, .closed, [.gen i .closed], w) ∧
    (genStep g c bd .fresh (.throw e false) w) = (.done, .raised (.body e false), [], w) := by
  refine ⟨rfl, rfl, rfl, rfl⟩

def g0 : GenBody := ⟨false, ⟨[2, 3], [], [], false, false⟩, fun i => [⟨500 + 2 * i, 0⟩, ⟨501 + 2 * i, 0⟩], fun i => .ret ⟨100 + i, 100 + i⟩⟩

example : GenStack g0 (.deco dTimer p0 (.deco dCountCalls p0 (.gen g0))) :=
  .layer (by simp [genTransparent]) (.layer (by simp [genTransparent]) .base)
/-- next, send 11, throw, next: the sent value and the thrown exception reach the generator below `timer`, its return value comes back -/
example : genBodyObs (invokeG [.next, .send 11, .throw 401 false, .next] (.deco dTimer p0 (.gen g0)) a0 w0) =
    ⟨.gen, [.yielded 500, .yielded 501, .stop 100, .stop 0],
     [.body .wrapped 0 ⟨[(2, 11), (3, 12)], [], []⟩, .gen 0 (.got 11), .gen 0 (.thrown 401)], 1⟩ := by decide
example : (invokeG [.next] (.deco dTimer p0 (.gen g0)) ⟨[11], []⟩ w0).1.1.tag = .exc (.lib "TypeError") := by decide

/-! ## Property members of a class under `trace_class` / `timer_class` -/

/-- **every slot of the rebuilt property is made of the same slot of the old one** (generated fact `rebuiltPropertySlots`, read from
    the `property(…)` call of `for_all_methods`: passing only the existing accessors positionally shifts them and breaks this) -/
theorem property_rebuilt_slotwise : ∀ s : Slot, rebuiltSource s = some s := by
  intro s; cases s <;> decide

theorem missing_accessor_stays_missing : missingAccessorStaysMissing = true := by decide

theorem rebuildProp_slot (d : Deco) (p : Params) (old : PropObj) (s : Slot) :
    (rebuildProp d p old).slot s = (old.slot s).map (Fn.deco d p) := by
  have hp : propertiesHandled = true := by decide
  cases s <;> simp [rebuildProp, PropObj.slot, property_rebuilt_slotwise, missing_accessor_stays_missing, hp] <;>
    (split <;> simp_all)

theorem bodyObs_dropValue (op : PropOp) (o1 o2 : Out) (h : bodyObs o1 = bodyObs o2) : bodyObs (dropValue op o1) = bodyObs (dropValue op o2) := by
  obtain ⟨r1, e1, w1⟩ := o1
  obtain ⟨r2, e2, w2⟩ := o2
  simp only [bodyObs, BodyObs.mk.injEq] at h
  obtain ⟨ht, he, hw⟩ := h
  cases op <;> cases r1 <;> cases r2 <;> simp_all [dropValue, bodyObs, Res.tag] <;>
    (rename_i v1 v2; cases v1 <;> cases v2 <;> simp_all [Res.tag])

/-- **transparent_class_property** — for every property, whichever of getter / setter / deleter it has, and every one of reading,
    assigning and deleting the attribute on an instance: the class under `for_all_methods(d)` (d transparent) does what the undecorated
    class does — the same accessor runs once with the same arguments, a missing accessor is the same AttributeError -/
theorem transparent_class_property {d : Deco} {P : Params → Fn → Args → World → Prop} (h : TransparentOn d P) (p : Params) (old : PropObj)
    (self : Nat) (op : PropOp) (w : World) (hP : ∀ f, old.slot op.slot = some f → P p f (op.args self) w) :
    bodyObs (propAccess (rebuildProp d p old) self op w) = bodyObs (propAccess old self op w) := by
  simp only [propAccess, rebuildProp_slot]
  cases hs : old.slot op.slot with
  | none => rfl
  | some f => exact bodyObs_dropValue op _ _ (h p f (op.args self) w (hP f hs))

theorem transparent_trace_class_property (p : Params) (old : PropObj) (self : Nat) (op : PropOp) (w : World) :
    bodyObs (propAccess (rebuildProp dTrace p old) self op w) = bodyObs (propAccess old self op w) :=
  transparent_class_property transparent_trace p old self op w (fun _ _ => trivial)

theorem transparent_timer_class_property (p : Params) (old : PropObj) (self : Nat) (op : PropOp) (w : World) :
    bodyObs (propAccess (rebuildProp dTimer p old) self op w) = bodyObs (propAccess old self op w) :=
  transparent_class_property transparent_timer p old self op w (fun _ _ => trivial)

/-- a getter and a deleter, no setter: `del obj.attr` runs the deleter, `obj.attr = v` is an AttributeError — before and after -/
def bSelf : Body := ⟨false, ⟨[1], [], [], false, false⟩, fun i => .ret ⟨100 + i, 100 + i⟩⟩
example : bodyObs (propAccess (rebuildProp dTrace p0 ⟨some (.body bSelf), none, some (.body bSelf)⟩) 50 .del w0) = ⟨.none, [.body .wrapped 0 ⟨[(1, 50)], [], []⟩], 1⟩ ∧
    bodyObs (propAccess (rebuildProp dTrace p0 ⟨some (.body bSelf), none, some (.body bSelf)⟩) 50 (.set 11) w0) = ⟨.exc (.lib "AttributeError"), [], 0⟩ := by
  decide

/-! ## One decorator object applied to several callables -/

/-- **every application builds its own wrapper** — for every decorator level of the package the wrapper `def`s stand inside the function
    that receives the decorated callable (generated fact `freshWrappers`; hoisting them into the enclosing factory — one wrapper per
    `mock(…)` call, dressed with `update_wrapper` by each application — flips it) -/
theorem every_application_builds_its_own_wrapper : ∀ d ∈ decos, d.freshWrappers = true := by decide

def ownResults (d : Deco) (p : Params) : List Fn → Nat → List (Nat × Nat)
  | [], _ => []
  | _ :: rest, i => (i, i) :: ownResults d p rest (i + 1)

theorem applyOne_fresh (d : Deco) (p : Params) (fs : List Fn) (i : Nat) (f : Fn) (h : d.freshWrappers = true) :
    (applyOne d p fs i f).obj = i ∧ (applyOne d p fs i f).shows = i ∧ (applyOne d p fs i f).fn = .deco d p f := by
  simp only [applyOne]
  split <;> simp [h]

theorem applyFrom_fresh (d : Deco) (p : Params) (all : List Fn) (h : d.freshWrappers = true) : ∀ (l : List Fn) (i : Nat),
    (applyFrom d p all l i).map (fun ap => (ap.obj, ap.shows)) = ownResults d p l i ∧
    ∀ (k : Nat) (ap : Applied), (applyFrom d p all l i)[k]? = some ap → ∃ f, l[k]? = some f ∧ ap.fn = .deco d p f := by
  intro l
  induction l with
  | nil => intro i; simp [applyFrom, ownResults]
  | cons f rest ih =>
    intro i
    have h1 := applyOne_fresh d p all i f h
    refine ⟨by simp [applyFrom, ownResults, h1.1, h1.2.1, (ih (i + 1)).1], ?_⟩
    intro k ap hk
    cases k with
    | zero => simp [applyFrom] at hk; subst hk; exact ⟨f, rfl, h1.2.2⟩
    | succ k => simp [applyFrom] at hk; simpa using (ih (i + 1)).2 k ap hk

/-- **shared_decorator_applications_independent** — one decorator object of the package applied to any list of callables: the i-th
    result is a wrapper object of its own (`obj = i`), shows the metadata of the i-th callable (`shows = i`) and is the decorator
    applied to that callable alone -/
theorem shared_decorator_applications_independent : ∀ d ∈ decos, ∀ (p : Params) (fs : List Fn),
    (applyShared d p fs).map (fun ap => (ap.obj, ap.shows)) = ownResults d p fs 0 ∧
    ∀ (k : Nat) (ap : Applied), (applyShared d p fs)[k]? = some ap → ∃ f, fs[k]? = some f ∧ ap.fn = .deco d p f := by
  intro d hd p fs
  exact applyFrom_fresh d p fs (every_application_builds_its_own_wrapper d hd) fs 0

/-- what the hypothesis excludes: with the wrappers hoisted into the factory, both applications of `stub = mock(…)` hand out ONE object,
    and it shows the metadata of the function decorated last -/
theorem hoisted_wrappers_are_shared :
    (applyShared { dMock with freshWrappers := false } p0 [.body b0, .body b0]).map (fun ap => (ap.obj, ap.shows)) = [(0, 1), (0, 1)] := by
  decide

/-! ## Objects of the caller whose `__repr__` / `__str__` / `__eq__` / `__ne__` raise

Formatting (finding `traceFormatsArgumentsAndResults`, REPAIRED): trace, trace_if_returns and does_same_as_function format arguments and
results through the never-raising display wrapper `helper_methods._Shown`; the inputs that used to fail are now positive instances
(`fixed_*`).  Comparisons (finding `comparisonsCallUserEq`, open): trace_if_returns evaluates `result == return_value`,
does_same_as_function `other != result` — a raising `__eq__` / `__ne__` escapes; what the guards `EqTotal` / the `__ne__` clause of
`OtherAgrees` exclude really fails.  The refusal message of `require_kwargs` (`FunctionCall.assert_uses_kwargs`) still formats the
refused arguments themselves (generated fact `refusalMessageFormatsRawArguments`). -/

/-- the argument `A` (identity 11) has a `__repr__` that raises -/
def pBadArg : Params := { p0 with traits := fun i => if i = 11 then ⟨true, false, false, false⟩ else Traits.total }
/-- the first result (identity 100) has a `__repr__` and a `__str__` that raise / an `__eq__` that raises -/
def pBadResultRepr : Params := { p0 with traits := fun i => if i = 100 then ⟨true, true, false, false⟩ else Traits.total }
def pBadResultEq : Params := { p0 with traits := fun i => if i = 100 then ⟨false, false, true, false⟩ else Traits.total }
/-- what `other_func` returns first (identity 300, equal to the result) has an `__ne__` that raises -/
def pBadOtherNe : Params :=
  { p0 with other := ⟨false, ⟨[2, 3], [], [], false, false⟩, fun i => .ret ⟨300 + i, 100 + i⟩⟩,
            traits := fun i => if i = 300 then ⟨false, false, false, true⟩ else Traits.total }

/-- **no wrapper formats an object of the user with the object's own methods** — over the regenerated text of every decorator level:
    every `print` and every exception message formats arguments / results through the display wrapper or not at all (a `{args}`,
    `{result!r}`, `{result}` written without it reappears as `.args` / `.reprOf` / `.strOf` and breaks this) -/
theorem no_wrapper_formats_raw : ∀ d ∈ decos, decoRawFormats d = [] := by decide

/-- … and that wrapper is the never-raising one (helper text re-read on every run) and is in use -/
theorem display_wrapper_facts : displayWrapperNeverRaises = true ∧ 0 < formattedThroughDisplayWrapper := by decide

/-- REPAIRED (was `trace_fails_on_unformattable_argument`): `trace(f)(A, B)` with an `A` whose `__repr__` raises behaves like `f(A, B)` -/
theorem fixed_trace_unformattable_argument :
    bodyObs (invoke (.deco dTrace pBadArg (.body b0)) a0 w0) = bodyObs (invoke (.body b0) a0 w0) ∧
    bodyObs (invoke (.body b0) a0 w0) = ⟨.obj ⟨100, 100⟩, [.body .wrapped 0 ⟨[(2, 11), (3, 12)], [], []⟩], 1⟩ := by decide

/-- REPAIRED (was `trace_fails_on_unformattable_result`): a result whose `__repr__` raises is handed to the caller -/
theorem fixed_trace_unformattable_result :
    bodyObs (invoke (.deco dTrace pBadResultRepr (.body b0)) a0 w0) = ⟨.obj ⟨100, 100⟩, [.body .wrapped 0 ⟨[(2, 11), (3, 12)], [], []⟩], 1⟩ := by decide

/-- REPAIRED: `trace_if_returns(x)(f)` with a MATCHING result whose `__str__` raises prints and hands the result on -/
theorem fixed_trace_if_returns_unformattable_match :
    bodyObs (invoke (.deco dTraceIfReturns { pBadResultRepr with param := ⟨90, 100⟩ } (.body b0)) a0 w0)
      = ⟨.obj ⟨100, 100⟩, [.body .wrapped 0 ⟨[(2, 11), (3, 12)], [], []⟩], 1⟩ := by decide

/-- REPAIRED: differing results that cannot be formatted are still an `AssertionError` (not the exception of `__str__`) -/
theorem fixed_does_same_unformattable_difference :
    (invoke (.deco dDoesSameAsFunction pBadResultRepr (.body b0)) a0 w0).1.tag = .exc (.lib "AssertionError") := by decide

/-- `trace_if_returns(x)(f)()` with a result whose `__eq__` raises -/
theorem trace_if_returns_fails_on_raising_eq :
    bodyObs (invoke (.deco dTraceIfReturns pBadResultEq (.body b0)) a0 w0) = ⟨.exc (.lib "EqErr"), [.body .wrapped 0 ⟨[(2, 11), (3, 12)], [], []⟩], 1⟩ := by decide

theorem transparent_trace_if_returns_full_fails : ¬ transparent_trace_if_returns_full := by
  intro h
  have := h pBadResultEq (.body b0) a0 w0 trivial
  revert this
  decide

/-- "both agree" as far as the VALUES go (what `OtherAgrees` says without its `__ne__` clause) -/
def OtherAgreesValues (p : Params) (inner : Fn) (a : Args) (w : World) : Prop :=
  (p.other.isCoro = true → inner.isCoro = true) ∧
  ∀ r evs w1, seenResult inner a w = (.ret r, evs, w1) →
    ∃ v u, r = .obj v ∧ (bind p.other.sig a).isSome = true ∧ p.other.script w1.oinv = .ret u ∧ u.cls = v.cls

def transparent_does_same_full : Prop := TransparentOn dDoesSameAsFunction OtherAgreesValues

/-- both functions return equal objects, but `other != result` runs an `__ne__` that raises -/
theorem does_same_fails_on_raising_ne :
    bodyObs (invoke (.deco dDoesSameAsFunction pBadOtherNe (.body b0)) a0 w0) = ⟨.exc (.lib "NeErr"), [.body .wrapped 0 ⟨[(2, 11), (3, 12)], [], []⟩], 1⟩ := by decide

theorem transparent_does_same_full_fails : ¬ transparent_does_same_full := by
  intro h
  have hv : OtherAgreesValues pBadOtherNe (.body b0) a0 w0 := by
    refine ⟨by decide, ?_⟩
    intro r evs w1 h
    simp [seenResult, Fn.isCoro, b0, call, callBody, bind, bindPos, a0, runBody, World.count, w0, outcRes, World.bump, hasKey, kwGet?] at h
    obtain ⟨rfl, _, rfl⟩ := h
    exact ⟨⟨100, 100⟩, ⟨300, 100⟩, rfl, by decide, rfl, rfl⟩
  have := h pBadOtherNe (.body b0) a0 w0 hv
  revert this
  decide

/-- the `flavour` clause of `OtherAgrees` is needed: a plain function next to a COROUTINE `other_func` that would return an equal object
    — the plain wrapper compares the result with a coroutine object and raises `AssertionError` -/
theorem does_same_plain_function_coroutine_other :
    bodyObs (invoke (.deco dDoesSameAsFunction { pAgree with other := { pAgree.other with isCoro := true } } (.body b0)) a0 w0)
      = ⟨.exc (.lib "AssertionError"), [.body .wrapped 0 ⟨[(2, 11), (3, 12)], [], []⟩], 1⟩ ∧
    bodyObs (invoke (.deco dDoesSameAsFunction pAgree (.body b0)) a0 w0)
      = ⟨.obj ⟨100, 100⟩, [.body .wrapped 0 ⟨[(2, 11), (3, 12)], [], []⟩], 1⟩ := by decide

/-- the refusal message of a positional call by `require_kwargs` / `@pedantic` goes through the never-raising description of the
    arguments (generated fact, read from `FunctionCall.assert_uses_kwargs` on every run; since the repair c01300c) -/
theorem refusal_message_through_display_wrapper : refusalMessageFormatsRawArguments = false := by decide

/-- repaired (c01300c): the refusal of a positional call by `require_kwargs` is `PedanticCallWithArgsException` also when a refused
    argument has a `__repr__` that raises (it used to be that exception: the message formatted the raw arguments) -/
theorem fixed_require_kwargs_refusal_unformattable_argument :
    (invoke (.deco dRequireKwargs { pBadArg with guard := ⟨false, false, false, 1, true, false, false⟩ } (.body b0)) a0 w0).1.tag = .exc (.lib "PedanticCallWithArgsException") ∧
    (invoke (.deco dRequireKwargs { p0 with guard := ⟨false, false, false, 1, true, false, false⟩ } (.body b0)) a0 w0).1.tag = .exc (.lib "PedanticCallWithArgsException") := by
  decide

example : EqTotal p0 (.body b0) a0 w0 := ⟨rfl, fun _ _ _ _ => rfl⟩

/-! ## The tables contain every decorator the property names -/

/-- the seventeen decorators of the property statement -/
def namedDecorators : List String :=
  ["trace", "timer", "count_calls", "deprecated", "trace_if_returns", "does_same_as_function", "rename_kwargs", "overrides", "require_kwargs",
   "mock", "unimplemented", "pedantic", "validate", "in_subprocess", "retry", "safe_contextmanager", "safe_async_contextmanager"]

/-- **every decorator the property names is in the regenerated list of decorator levels** — a decorator the translator drops (a wrapper
    that no longer takes `(*args, **kwargs)`, a renamed function) makes this fail instead of leaving `metadata_preserved` /
    `selected_wrapper_wraps` / `every_application_builds_its_own_wrapper` vacuous for it -/
theorem all_named_found : ∀ n ∈ namedDecorators, decos.any (fun d => d.name == n) = true := by decide

/-- … and, except `overrides` (which returns the function itself), has a RETURNED wrapper row in the wrapper table -/
theorem all_named_have_returned_wrapper : ∀ n ∈ namedDecorators, n = "overrides" ∨
    wrapperTable.any (fun r => r.deco == n && r.returned) = true := by decide

/-- the decorators whose wrapper text the transparency theorems evaluate are translated in full (no `body := none`, known dispatch) -/
theorem utility_decorators_translated :
    ∀ d ∈ [dTrace, dTimer, dCountCalls, dDeprecated, dTraceIfReturns, dDoesSameAsFunction, dRenameKwargs, dRequireKwargs, dMock, dUnimplemented],
      d.dispatch ≠ .unknown ∧ d.wrappers.all (fun w => w.body.isSome) = true := by
  intro d hd
  simp only [List.mem_cons, List.mem_nil_iff, or_false] at hd
  rcases hd with rfl | rfl | rfl | rfl | rfl | rfl | rfl | rfl | rfl | rfl <;> decide

end PedVerif.Utility
