import PedVerif.Lemmas.GenWrap
/-!
# Generator clause of C03 and C04 — `GeneratorWrapper`

`callAndDrive conf a script ops` is the model of: call a `@pedantic` generator function whose return annotation is `a`
and whose body behaves as `script`, then perform the consumer operations `ops` (`next` / `send` / `throw` / `close`, any
number, in any order, also after an exception was raised).  `send` and `throw` are *interpreted* from the programs the
translator extracts from the source (`Gen.GenWrap.sendProg`, `throwProg`); the facts the proofs need about them are the
`cfg_*` theorems of `Lemmas/GenWrap.lean` (`decide`), re-proved against the current source on every run.
`conf : Ty → V → Bool` is the type checker, abstract here (C01 / C02).

* C03: `generator_guard_full_proved` - the full clause, `throw` included (through `throw_checked : ThrowChecked`, a `decide` over
  the translated `throw`); `generator_guard` is the former partial form, kept as a corollary.
* C04: `transparent_when_conforming` - no guard on the interaction any more (`send` / `next` on a finished generator and a
  failed priming are transparent: `finished_send_is_bare_stop`, `failed_priming_keeps_wrapper`); the guard that is left says that
  the annotation is an object, not a string (`supportedSpelling`; `transparent_full` is refuted by `transparent_fails_spelling`: open
  finding `generatorAnnotationSpelling`, narrowed to string annotations - the `collections.abc` spellings are accepted since the repair
  of `_set_and_check_return_types`: `fixed_collections_abc_spelling`).
* creation (`_set_and_check_return_types`): `creation_sound`, `creation_complete`, `creation_guard`, `accepted_has_meaning`.
-/
namespace PedVerif.GenWrap
open PedVerif.Gen.GenWrap

/-! ## creation -/

private theorem str_not_accepted : supportedBases.contains "<str>" = false := by decide

private theorem accepted_iff (a : Ann) :
    acceptedBases.contains a.seenBase = true ↔ a.quoted = false ∧ supportedBases.contains a.base = true := by
  rw [cfg_creation.1]
  unfold Ann.seenBase
  cases hq : a.quoted
  · simp
  · simp only [↓reduceIte, str_not_accepted]; simp

private theorem default_types : defaultTypes = ⟨.none, .none, .none⟩ := by
  simp [defaultTypes, defaultTy, cfg_creation.2.2.2.2.2.2.2]

/-- what the library accepts and what it puts into the slots -/
theorem setTypes_eq (a : Ann) :
    setTypes a =
      if a.quoted = false ∧ supportedBases.contains a.base = true then
        match a.args with
        | [y] => some ⟨y, .none, .none⟩
        | [y, s, r] => some ⟨y, s, r⟩
        | _ => none
      else none := by
  unfold setTypes
  by_cases h : acceptedBases.contains a.seenBase = true
  · have h' := (accepted_iff a).1 h
    simp only [h, Bool.not_true, Bool.false_eq_true, ↓reduceIte, h', and_self]
    have hq : a.seenArgs = a.args := by simp [Ann.seenArgs, h'.1]
    rw [hq]
    match hargs : a.args with
    | [] => simp [cfg_creation.2.2.2.1 0 (by decide) (by decide), cfg_creation.2.2.2.2.1]
    | [y] =>
      simp [cfg_creation.2.1, applyAssignments, default_types, Types.set, cfg_creation.2.2.2.2.2.2.1]
    | [y, s] => simp [cfg_creation.2.2.2.1 2 (by decide) (by decide), cfg_creation.2.2.2.2.1]
    | [y, s, r] =>
      simp [cfg_creation.2.2.1, applyAssignments, default_types, Types.set, cfg_creation.2.2.2.2.2.2.1]
    | _ :: _ :: _ :: _ :: rest =>
      have : (rest.length + 1 + 1 + 1 + 1) ≠ 1 ∧ (rest.length + 1 + 1 + 1 + 1) ≠ 3 := by omega
      simp [cfg_creation.2.2.2.1 _ this.1 this.2, cfg_creation.2.2.2.2.1]
  · have h' : ¬(a.quoted = false ∧ supportedBases.contains a.base = true) :=
      fun hh => h ((accepted_iff a).2 hh)
    have hb : acceptedBases.contains a.seenBase = false := by simpa using h
    simp only [hb, Bool.not_false, ↓reduceIte, h']

/-- **creation is sound**: when the library builds a wrapper, its three slots hold what the annotation means -/
theorem creation_sound (a : Ann) (ts ts' : Types) (h : setTypes a = some ts') (hm : annMeaning a = some ts) : ts' = ts := by
  rw [setTypes_eq] at h
  unfold annMeaning at hm
  split at h
  · rcases hargs : a.args with _ | ⟨y, _ | ⟨s, _ | ⟨r, _ | ⟨q, rest⟩⟩⟩⟩ <;> simp only [hargs] at h hm
    · simp at h
    · split at hm <;> simp_all
    · simp at h
    · split at hm <;> simp_all
    · simp at h
  · simp at h

/-- every base `annMeaning` gives a meaning to is one the library accepts -/
private theorem meaning_bases_supported (b : String) (h : generatorNames.contains b = true ∨ iteratorNames.contains b = true) :
    supportedBases.contains b = true := by
  simp only [generatorNames, iteratorNames, supportedBases, List.contains_cons, List.contains_nil, Bool.or_false, Bool.or_eq_true,
    beq_iff_eq] at h ⊢
  rcases h with (h | h) | (h | h | h | h) <;> simp [h]

/-- **creation is complete for every supported spelling**: `typing.Generator[Y, S, R]` / `typing.Iterator[Y]` / `typing.Iterable[Y]`
    and their `collections.abc` counterparts, i.e. every annotation object that means a generator type (not a string annotation) -/
theorem creation_complete (a : Ann) (ts : Types) (hsp : supportedSpelling a = true) (hm : annMeaning a = some ts) :
    setTypes a = some ts := by
  rw [setTypes_eq]
  have hq : a.quoted = false := by simpa [supportedSpelling] using hsp
  unfold annMeaning at hm
  rcases hargs : a.args with _ | ⟨y, _ | ⟨s, _ | ⟨r, _ | ⟨q, rest⟩⟩⟩⟩ <;> simp only [hargs] at hm ⊢
  · simp at hm
  · split at hm
    · rename_i hb
      have hb' : supportedBases.contains a.base = true :=
        meaning_bases_supported a.base (by simpa [Bool.or_eq_true, or_comm] using hb)
      simp only [hq, hb', and_self, ↓reduceIte]; exact hm
    · simp at hm
  · simp at hm
  · split at hm
    · rename_i hb
      have hb' : supportedBases.contains a.base = true := meaning_bases_supported a.base (Or.inl hb)
      simp only [hq, hb', and_self, ↓reduceIte]; exact hm
    · simp at hm
  · simp at hm

/-- the arity `typing` itself enforces on Python 3.12 when the annotation object is built (`Generator[int]`,
    `Iterator[int, int, int]` raise TypeError in the `def` line): three or no arguments for `typing.Generator`, at most one otherwise -/
def typingArityOK (a : Ann) : Bool :=
  if generatorNames.contains a.base then a.args.length == 3 || a.args.length == 1 || a.args.length == 0 else decide (a.args.length ≤ 1)

/-- every well-formed annotation that the library accepts has a meaning, and it is what the slots hold: the guard
    below therefore speaks about every wrapper the library ever builds (`typingArityOK`: the arity the type system demands - `typing`
    enforces it when the annotation object is built, `types.GenericAlias` of the `collections.abc` classes does not) -/
theorem accepted_has_meaning (a : Ann) (ts : Types) (h : setTypes a = some ts) (har : typingArityOK a = true) :
    annMeaning a = some ts := by
  rw [setTypes_eq] at h
  unfold typingArityOK at har
  unfold annMeaning
  split at h
  · rename_i hb
    have hgi : generatorNames.contains a.base = true ∨ iteratorNames.contains a.base = true := by
      have := hb.2
      simp only [generatorNames, iteratorNames, supportedBases, List.contains_cons, List.contains_nil, Bool.or_false, Bool.or_eq_true,
        beq_iff_eq] at this ⊢
      rcases this with h | h | h | h | h | h <;> simp [h]
    rcases hargs : a.args with _ | ⟨y, _ | ⟨s, _ | ⟨r, _ | ⟨q, rest⟩⟩⟩⟩ <;> simp only [hargs] at h har ⊢
    · simp at h
    · rcases hgi with hg | hi <;> simp_all
    · simp at h
    · rcases hgi with hg | hi
      · simp_all
      · cases hg : generatorNames.contains a.base <;> simp_all
    · simp at h
  · simp at h

/-- **C03, creation**: a generator function whose annotation a generator object does not conform to (`-> int`,
    `-> List[int]`, `-> None`, `-> AsyncGenerator[…]`): the call raises, the caller never gets the generator -/
theorem creation_guard (conf : Ty → V → Bool) (a : Ann) (script : List GStep) (ops : List Op) :
    CreationGuard a (callAndDrive conf a script ops) := by
  intro hn
  cases hst : setTypes a with
  | none => simp [callAndDrive, hst]
  | some ts =>
    exfalso
    rw [setTypes_eq] at hst
    split at hst
    · rename_i hb
      have := hb.2
      simp only [supportedBases, List.contains_cons, List.contains_nil, Bool.or_false, Bool.or_eq_true, beq_iff_eq] at this
      unfold annAdmitsGenerator generatorNames iteratorNames at hn
      rcases this with h | h | h | h | h | h <;> simp [h] at hn
    · simp at hst

/-! ## C03: the guard -/

/-- whenever the wrapper hands on what a resume of the body produced through the yield / return checks (`sendObs`), the
    value clauses hold for the step — whichever way the body was resumed -/
theorem resumed_values (conf : Ty → V → Bool) (ts : Types) (g : Gen) (inp : Inp) (op : Op) :
    ValueClauses conf ts ⟨op, sendObs conf ts (resumeGen g inp).1, (resumeGen g inp).2.1⟩ := by
  refine ⟨?_, ?_, ?_, ?_⟩
  · intro v hv
    simp only [sendObs] at hv
    split at hv
    · split at hv
      · rename_i hr; simp only [Obs.got.injEq] at hv; subst hv; exact hr
      · simp at hv
    · split at hv <;> simp at hv
    all_goals simp at hv
  · intro v hv
    simp only [sendObs] at hv
    split at hv
    · split at hv <;> simp at hv
    · split at hv
      · rename_i hr; simp only [Obs.stop.injEq] at hv; subst hv; exact Or.inl hr
      · simp at hv
    all_goals simp at hv
  · intro _ v hv hnc
    have := resumeGen_yielded _ _ _ hv
    simp only [this, sendObs, hnc, Bool.false_eq_true, ↓reduceIte]
  · intro _ v hv hnc
    have := resumeGen_returned _ _ _ hv
    simp only [this, sendObs, hnc, Bool.false_eq_true, ↓reduceIte]

private theorem values_of_ped (conf : Ty → V → Bool) (ts : Types) (op : Op) : ValueClauses conf ts ⟨op, .ped, []⟩ := by
  refine ⟨?_, ?_, ?_, ?_⟩
  · intro v hv; simp at hv
  · intro v hv; simp at hv
  · intro _ v hv; simp at hv
  · intro _ v hv; simp at hv

/-- one `send` (readable form): both clauses hold for the step -/
theorem send_step (conf : Ty → V → Bool) (ts : Types) (w : W) (x : V) (op : Op) :
    SendClause conf ts ⟨op, (refWrapSend conf ts w x).1, (refWrapSend conf ts w x).2.1⟩ ∧
    ValueClauses conf ts ⟨op, (refWrapSend conf ts w x).1, (refWrapSend conf ts w x).2.1⟩ := by
  unfold refWrapSend
  rcases hst : w.gen.st with _ | c | _
  · -- not started: the body receives nothing
    refine ⟨?_, resumed_values conf ts w.gen (.send x) op⟩
    intro y hy
    obtain ⟨_, c, hc⟩ := resumeGen_recv _ _ _ hy
    rw [hst] at hc; simp at hc
  · -- suspended at a yield: the sent value was checked
    by_cases hc : conf ts.sendT x = true
    · simp only [hc, Bool.not_true, Bool.false_eq_true, ↓reduceIte]
      refine ⟨?_, resumed_values conf ts w.gen (.send x) op⟩
      intro y hy
      have hx : x = y := by simpa using (resumeGen_recv _ _ _ hy).1
      subst hx; exact hc
    · simp only [hc, Bool.not_false, ↓reduceIte]
      exact ⟨fun y hy => by simp at hy, values_of_ped conf ts op⟩
  · -- finished before: bare StopIteration, nothing is delivered
    refine ⟨fun y hy => by simp at hy, ?_, ?_, ?_, ?_⟩
    · intro v hv; simp at hv
    · intro v hv
      simp only [Obs.stop.injEq] at hv
      exact Or.inr ⟨hv.symm, fun u hu => by simp at hu⟩
    · intro _ v hv; simp at hv
    · intro _ v hv; simp at hv

/-- one `throw`: nothing is received by the body (whatever `throw` checks or does not check) -/
theorem throw_step (conf : Ty → V → Bool) (ts : Types) (w : W) (k : Nat) :
    SendClause conf ts ⟨.throw k, (wrapResume conf ts throwProg w (.throw k)).1, (wrapResume conf ts throwProg w (.throw k)).2.1⟩ := by
  unfold wrapResume
  simp only [Option.isSome_none]
  have hnorecv : ∀ y, JEv.recv y ∉ (resumeGen w.gen (.throw k)).2.1 := by
    intro y hy
    have := (resumeGen_recv _ _ _ hy).1
    simp at this
  split
  · exact fun y hy => absurd hy (hnorecv y)
  · exact fun y hy => by simp at hy

/-- one `close` -/
theorem close_step (conf : Ty → V → Bool) (ts : Types) (w : W) :
    SendClause conf ts ⟨.close, (wrapOp conf ts w .close).1, (wrapOp conf ts w .close).2.1⟩ ∧
    ValueClauses conf ts ⟨.close, (wrapOp conf ts w .close).1, (wrapOp conf ts w .close).2.1⟩ := by
  have hcd : closeDelegates = true := cfg_protocol.2.1
  simp only [wrapOp, hcd, ↓reduceIte, plainOp, Op.inp]
  refine ⟨?_, ?_, ?_, ?_, ?_⟩
  · intro y hy
    have := (resumeGen_recv _ _ _ hy).1
    simp at this
  · intro v hv; simp only [obsClose] at hv; split at hv <;> simp at hv
  · intro v hv; simp only [obsClose] at hv; split at hv <;> simp at hv
  · intro h; exact absurd rfl h
  · intro h; exact absurd rfl h

/-- the guard along a whole interaction, from any state of wrapper and generator, using nothing about `throw` -/
theorem guard_run (conf : Ty → V → Bool) (ts : Types) : ∀ (ops : List Op) (w : W),
    ∀ s ∈ wrapRun conf ts w ops, SendClause conf ts s ∧ (s.op.isThrow = false → ValueClauses conf ts s) := by
  intro ops
  induction ops with
  | nil => intro w s hs; simp [wrapRun] at hs
  | cons op ops ih =>
    intro w s hs
    simp only [wrapRun, List.mem_cons] at hs
    have hn : nextIsSendNone = true := cfg_protocol.1
    cases op with
    | next =>
      simp only [wrapOp, hn, ↓reduceIte, wrapSend_eq] at hs
      obtain ⟨h2, h3⟩ := send_step conf ts w V.none .next
      rcases hs with rfl | hs
      · exact ⟨h2, fun _ => h3⟩
      · exact ih _ s hs
    | send x =>
      simp only [wrapOp, wrapSend_eq] at hs
      obtain ⟨h2, h3⟩ := send_step conf ts w x (.send x)
      rcases hs with rfl | hs
      · exact ⟨h2, fun _ => h3⟩
      · exact ih _ s hs
    | throw k =>
      simp only [wrapOp] at hs
      rcases hs with rfl | hs
      · exact ⟨throw_step conf ts w k, fun h => by simp [Op.isThrow] at h⟩
      · exact ih _ s hs
    | close =>
      obtain ⟨h2, h3⟩ := close_step conf ts w
      rcases hs with rfl | hs
      · exact ⟨h2, fun _ => h3⟩
      · exact ih _ s hs

private theorem callAndDrive_some (conf : Ty → V → Bool) (a : Ann) (script : List GStep) (ops : List Op) (steps : List Step)
    (h : callAndDrive conf a script ops = some steps) :
    ∃ ts', setTypes a = some ts' ∧ steps = wrapRun conf ts' (W.fresh script) ops := by
  unfold callAndDrive at h
  split at h
  · simp at h
  · split at h
    · simp at h
    · rename_i ts' hts; exact ⟨ts', hts, by simpa using h.symm⟩

/-- the full generator clause of C03: in *every* step of every interaction, values sent in are guarded and values
    handed out conform or are replaced by PedanticTypeCheckException -/
def generator_guard_full : Prop :=
  ∀ (conf : Ty → V → Bool) (a : Ann) (ts : Types) (script : List GStep) (ops : List Op) (steps : List Step),
    annMeaning a = some ts → callAndDrive conf a script ops = some steps →
    ∀ s ∈ steps, SendClause conf ts s ∧ ValueClauses conf ts s

/-- the former partial form (every step for values sent in; every step that is not a `throw` for values handed out),
    which needs nothing about `throw`; now a consequence of `generator_guard_full_proved` as well -/
theorem generator_guard (conf : Ty → V → Bool) (a : Ann) (ts : Types) (script : List GStep) (ops : List Op) (steps : List Step)
    (hm : annMeaning a = some ts) (hrun : callAndDrive conf a script ops = some steps) :
    ∀ s ∈ steps, SendClause conf ts s ∧ (s.op.isThrow = false → ValueClauses conf ts s) := by
  obtain ⟨ts', hts, rfl⟩ := callAndDrive_some conf a script ops steps hrun
  have := creation_sound a ts ts' hts hm
  subst this
  exact guard_run conf ts' ops _

/-- a `send` that fails the check leaves everything where it was: once the body is suspended at a `yield`, a
    non-conforming `send` is answered with PedanticTypeCheckException, the body is not resumed, nothing is journalled,
    and the consumer can go on -/
theorem rejected_send_not_delivered (conf : Ty → V → Bool) (ts : Types) (w : W) (x : V) (c : Catch)
    (hst : w.gen.st = .suspended c) (hx : conf ts.sendT x = false) :
    wrapOp conf ts w (.send x) = (.ped, [], w) := by
  simp [wrapOp, wrapSend_eq, refWrapSend, hst, hx]

theorem bad_send_to_started_body (conf : Ty → V → Bool) (ts : Types) (w : W) (x : V) (c : Catch)
    (hst : w.gen.st = .suspended c) (hx : conf ts.sendT x = false) :
    wrapOp conf ts w (.send x) = (.ped, [], w) :=
  rejected_send_not_delivered conf ts w x c hst hx

/-! ### `throw` -/

/-- `throw` resumes the generator and checks what the body produces in response like `send` does -/
def ThrowChecked : Prop :=
  ∀ (orc : Src → Slot → Bool) (rk : RK) (st : GState) (init : Bool),
    (runStmts orc rk st throwProg avThrow init false).resumed = true ∧
    (runStmts orc rk st throwProg avThrow init false).act = (refThrow orc rk st init).act

/-- `ThrowChecked` is decidable: through the pairs `throw` mentions and the three check outcomes the reference reads -/
theorem throwChecked_of_bits
    (hp : ∀ q ∈ progPairs throwProg, q ∈ refPairs)
    (h : ∀ b y r : Bool, ∀ rk : RK, ∀ st : GState, ∀ init : Bool,
      (runStmts (bits3Orc b y r) rk st throwProg avThrow init false).resumed = true ∧
      (runStmts (bits3Orc b y r) rk st throwProg avThrow init false).act = (refThrow (bits3Orc b y r) rk st init).act) :
    ThrowChecked := by
  intro orc rk st init
  rw [runStmts_congr orc (restrictOrc orc) rk st throwProg avThrow init false
    (fun q hq => restrictOrc_agrees orc q (hp q hq))]
  have hr : refThrow orc rk st init = refThrow (restrictOrc orc) rk st init := by cases rk <;> rfl
  rw [hr]
  exact h _ _ _ rk st init

/-- **the translated `throw` checks** (finding `throwBypassesYieldCheck` is repaired; reverting the repair breaks this `decide`) -/
theorem throw_checked : ThrowChecked := throwChecked_of_bits cfg_throw_pairs (by decide)

/-- the value clauses for a `throw` step of a checked `throw` -/
theorem throw_step_values (hck : ThrowChecked) (conf : Ty → V → Bool) (ts : Types) (w : W) (k : Nat) :
    ValueClauses conf ts ⟨.throw k, (wrapResume conf ts throwProg w (.throw k)).1, (wrapResume conf ts throwProg w (.throw k)).2.1⟩ := by
  have hval := resumed_values conf ts w.gen (.throw k) (.throw k)
  suffices h : wrapResume conf ts throwProg w (.throw k) = refWrapThrow conf ts w k by
    rw [h]; exact hval
  unfold wrapResume refWrapThrow
  simp only [Option.isSome_none]
  have hav : (⟨false, false, false⟩ : Avail) = avThrow := rfl
  rw [hav]
  obtain ⟨hres, hact⟩ := hck (mkOrc conf ts none (resumeGen w.gen (.throw k)).1) (resumeGen w.gen (.throw k)).1.kind
    w.gen.st.toGState w.init
  rw [if_pos hres]
  have hw := wrapThrow_eq conf ts w k
  unfold wrapResume refWrapThrow at hw
  simp only [Option.isSome_none] at hw
  rw [hav, if_pos hres] at hw
  exact hw

/-- the full clause follows from `ThrowChecked`: every step of every interaction, `throw` included -/
theorem generator_guard_full_of_throwChecked (hck : ThrowChecked) : generator_guard_full := by
  intro conf a ts script ops steps hm hrun
  obtain ⟨ts', hts, rfl⟩ := callAndDrive_some conf a script ops steps hrun
  have := creation_sound a ts ts' hts hm
  subst this
  have key : ∀ (ops : List Op) (w : W), ∀ s ∈ wrapRun conf ts' w ops, SendClause conf ts' s ∧ ValueClauses conf ts' s := by
    intro ops
    induction ops with
    | nil => intro w s hs; simp [wrapRun] at hs
    | cons op ops ih =>
      intro w s hs
      have hpart := guard_run conf ts' (op :: ops) w s hs
      simp only [wrapRun, List.mem_cons] at hs
      rcases hs with rfl | hs
      · refine ⟨hpart.1, ?_⟩
        cases op with
        | throw k => simp only [wrapOp]; exact throw_step_values hck conf ts' w k
        | next => exact hpart.2 rfl
        | send x => exact hpart.2 rfl
        | close => exact hpart.2 rfl
      · exact ih _ s hs
  exact key ops _

/-- **C03 (generators), full form.**  For every annotation, every body script, every sequence of consumer operations
    `next` / `send` / `throw` / `close` of any length — including everything the consumer does after it got a
    PedanticTypeCheckException — and every step of the interaction:
    * whatever the body receives from a `yield` expression conforms to the send type (a non-conforming value is never
      delivered);
    * a value handed to the caller conforms to the yield type, a StopIteration value that the body returned conforms to the
      return type, and when the body yields / returns a non-conforming value — in response to `next`, `send` or `throw` —
      the caller gets PedanticTypeCheckException instead. -/
theorem generator_guard_full_proved : generator_guard_full :=
  generator_guard_full_of_throwChecked throw_checked

/-- the interaction that used to refute the full clause: `Generator[int, int, str]`, the body yields an int, catches the
    exception thrown in and yields a *str* — the caller of `throw` now gets PedanticTypeCheckException -/
def throwWitnessScript : List GStep := [.yield_ ⟨.int, 1⟩ .exc, .yield_ ⟨.str, 2⟩ .nothing]
def throwWitnessOps : List Op := [.next, .throw 7]
def genIntIntStr : Ann := ⟨"typing.Generator", [.int, .int, .str], false⟩

theorem throw_checks_yield :
    callAndDrive confC genIntIntStr throwWitnessScript throwWitnessOps =
      some [⟨.next, .got ⟨.int, 1⟩, [.yielded ⟨.int, 1⟩]⟩,
            ⟨.throw 7, .ped, [.thrown 7, .yielded ⟨.str, 2⟩]⟩] := by
  decide

/-- … and likewise a non-conforming StopIteration value (`return 5` for return type `str`) after a `throw` -/
theorem throw_checks_return :
    callAndDrive confC genIntIntStr [.yield_ ⟨.int, 1⟩ .exc, .return_ ⟨.int, 5⟩] [.next, .throw 7] =
      some [⟨.next, .got ⟨.int, 1⟩, [.yielded ⟨.int, 1⟩]⟩,
            ⟨.throw 7, .ped, [.thrown 7, .returned ⟨.int, 5⟩]⟩] := by
  decide

/-! ### non-vacuity -/

/-- continuing after an exception: the first yield is a str (→ PedanticTypeCheckException), then a str is sent
    (→ PedanticTypeCheckException, the body does not receive it), then an int (→ delivered); the last `next` meets the
    finished generator: bare StopIteration -/
example : callAndDrive confC genIntIntStr [.yield_ ⟨.str, 1⟩ .nothing, .yield_ ⟨.int, 2⟩ .nothing, .return_ ⟨.str, 3⟩]
      [.next, .send ⟨.str, 4⟩, .send ⟨.int, 5⟩, .send ⟨.int, 6⟩, .next] =
    some [⟨.next, .ped, [.yielded ⟨.str, 1⟩]⟩,
          ⟨.send ⟨.str, 4⟩, .ped, []⟩,
          ⟨.send ⟨.int, 5⟩, .got ⟨.int, 2⟩, [.recv ⟨.int, 5⟩, .yielded ⟨.int, 2⟩]⟩,
          ⟨.send ⟨.int, 6⟩, .stop ⟨.str, 3⟩, [.recv ⟨.int, 6⟩, .returned ⟨.str, 3⟩]⟩,
          ⟨.next, .stop V.none, []⟩] := by decide

/-- a non-conforming return value: the caller gets PedanticTypeCheckException instead of StopIteration(5) -/
example : callAndDrive confC genIntIntStr [.return_ ⟨.int, 5⟩] [.next] = some [⟨.next, .ped, [.returned ⟨.int, 5⟩]⟩] := by decide

/-- `bool` is an `int` for the checker; `Iterator[int]` leaves send and return type `None` -/
example : callAndDrive confC ⟨"typing.Iterator", [.int], false⟩ [.yield_ ⟨.bool, 1⟩ .nothing, .yield_ ⟨.int, 2⟩ .nothing]
      [.next, .send ⟨.int, 9⟩, .next, .next] =
    some [⟨.next, .got ⟨.bool, 1⟩, [.yielded ⟨.bool, 1⟩]⟩, ⟨.send ⟨.int, 9⟩, .ped, []⟩,
          ⟨.next, .got ⟨.int, 2⟩, [.recv V.none, .yielded ⟨.int, 2⟩]⟩,
          ⟨.next, .stop V.none, [.recv V.none, .returned V.none]⟩] := by decide

example : annMeaning genIntIntStr = some ⟨.int, .int, .str⟩ := by decide

/-- creation: `-> int` on a generator function raises at the call -/
example : annAdmitsGenerator ⟨"int", [], false⟩ = false ∧ callAndDrive confC ⟨"int", [], false⟩ [.yield_ ⟨.int, 1⟩ .nothing] [.next] = none := by
  decide

/-! ## C04: transparency -/

/-- `send` / `next` on a generator that had finished before (returned, raised, closed, killed by `throw`): whatever is
    sent and whatever the return type, the caller gets the bare StopIteration and nothing changes (was: finding
    `exhaustedGeneratorRecheck`) -/
theorem finished_send_is_bare_stop (conf : Ty → V → Bool) (ts : Types) (w : W) (x : V) (h : w.gen.st = .finished) :
    wrapOp conf ts w (.send x) = (.stop V.none, [], w) ∧ wrapOp conf ts w .next = (.stop V.none, [], w) := by
  have hn : nextIsSendNone = true := cfg_protocol.1
  simp [wrapOp, hn, wrapSend_eq, refWrapSend, h]

/-- a non-`None` value sent to a generator that has not started: CPython's TypeError passes through and wrapper and
    generator stay exactly as they were, so the generator can still be started (was: finding `failedPrimingConsumesInit`) -/
theorem failed_priming_keeps_wrapper (conf : Ty → V → Bool) (ts : Types) (w : W) (x : V)
    (h : w.gen.st = .unstarted) (hx : x.ty ≠ .none) :
    wrapOp conf ts w (.send x) = (.typeErr, [], w) := by
  have hne : (x.ty == VTy.none) = false := by simpa using hx
  have hr : resumeGen w.gen (.send x) = (.typeErr, [], w.gen) := by simp [resumeGen, h, hne]
  simp [wrapOp, wrapSend_eq, refWrapSend, h, hr, sendObs]

private theorem conforming_recv {conf : Ty → V → Bool} {ts : Types} {op : Op} {o : Obs} {j : List JEv}
    (h : stepConforming conf ts ⟨op, o, j⟩ = true) (x : V) (hx : JEv.recv x ∈ j) : conf ts.sendT x = true := by
  simp only [stepConforming, List.all_eq_true] at h; exact h _ hx

private theorem conforming_yielded {conf : Ty → V → Bool} {ts : Types} {op : Op} {o : Obs} {j : List JEv}
    (h : stepConforming conf ts ⟨op, o, j⟩ = true) (v : V) (hv : JEv.yielded v ∈ j) : conf ts.yieldT v = true := by
  simp only [stepConforming, List.all_eq_true] at h; exact h _ hv

private theorem conforming_returned {conf : Ty → V → Bool} {ts : Types} {op : Op} {o : Obs} {j : List JEv}
    (h : stepConforming conf ts ⟨op, o, j⟩ = true) (v : V) (hv : JEv.returned v ∈ j) : conf ts.returnT v = true := by
  simp only [stepConforming, List.all_eq_true] at h; exact h _ hv

/-- when everything the body journals during a resume conforms, the checks let the outcome through unchanged -/
theorem sendObs_eq_obsPlain (conf : Ty → V → Bool) (ts : Types) (g : Gen) (inp : Inp) (op : Op) (o : Obs)
    (hc : stepConforming conf ts ⟨op, o, (resumeGen g inp).2.1⟩ = true) (hnf : g.st ≠ .finished ∨ ∀ x, inp ≠ .send x) :
    sendObs conf ts (resumeGen g inp).1 = obsPlain (resumeGen g inp).1 := by
  rcases hr : (resumeGen g inp).1 with v | v | e | _ | _
  · have := conforming_yielded hc v (resumeGen_yielded_mem _ _ _ hr)
    simp [this, obsPlain, sendObs]
  · rcases resumeGen_returned_mem _ _ _ hr with hm | ⟨hf, _, _, x, hx⟩
    · have := conforming_returned hc v hm
      simp [this, obsPlain, sendObs]
    · rcases hnf with h | h
      · exact absurd hf h
      · exact absurd hx (h x)
  · simp [obsPlain, sendObs]
  · simp [obsPlain, sendObs]
  · simp [obsPlain, sendObs]

/-- one conforming `send` (also on a finished generator, also a failed priming) -/
theorem transparent_send (conf : Ty → V → Bool) (ts : Types) (w : W) (x : V) (op : Op)
    (hc : stepConforming conf ts ⟨op, obsPlain (resumeGen w.gen (.send x)).1, (resumeGen w.gen (.send x)).2.1⟩ = true) :
    (refWrapSend conf ts w x).1 = obsPlain (resumeGen w.gen (.send x)).1 ∧
    (refWrapSend conf ts w x).2.1 = (resumeGen w.gen (.send x)).2.1 ∧
    (refWrapSend conf ts w x).2.2.gen = (resumeGen w.gen (.send x)).2.2 := by
  unfold refWrapSend
  rcases hst : w.gen.st with _ | c | _
  · exact ⟨sendObs_eq_obsPlain conf ts w.gen (.send x) op _ hc (Or.inl (by rw [hst]; simp)), rfl, rfl⟩
  · have hmem : JEv.recv x ∈ (resumeGen w.gen (.send x)).2.1 := by simp [resumeGen, hst, prepend]
    have hcx := conforming_recv hc x hmem
    rw [if_neg (by simp [hcx])]
    exact ⟨sendObs_eq_obsPlain conf ts w.gen (.send x) op _ hc (Or.inl (by rw [hst]; simp)), rfl, rfl⟩
  · have hr : resumeGen w.gen (.send x) = (.returned V.none, [], w.gen) := by simp [resumeGen, hst]
    simp [hr, obsPlain]

/-- one conforming `throw` -/
theorem transparent_throw (conf : Ty → V → Bool) (ts : Types) (w : W) (k : Nat)
    (hc : stepConforming conf ts ⟨.throw k, obsPlain (resumeGen w.gen (.throw k)).1, (resumeGen w.gen (.throw k)).2.1⟩ = true) :
    (wrapResume conf ts throwProg w (.throw k)).1 = obsPlain (resumeGen w.gen (.throw k)).1 ∧
    (wrapResume conf ts throwProg w (.throw k)).2.1 = (resumeGen w.gen (.throw k)).2.1 ∧
    (wrapResume conf ts throwProg w (.throw k)).2.2.gen = (resumeGen w.gen (.throw k)).2.2 := by
  rw [wrapThrow_eq]
  unfold refWrapThrow
  exact ⟨sendObs_eq_obsPlain conf ts w.gen (.throw k) _ _ hc (Or.inr (by intro x; simp)), rfl, rfl⟩

/-- one `close` -/
theorem transparent_close (conf : Ty → V → Bool) (ts : Types) (w : W) :
    (wrapOp conf ts w .close).1 = (plainOp w.gen .close).1 ∧ (wrapOp conf ts w .close).2.1 = (plainOp w.gen .close).2.1 ∧
    (wrapOp conf ts w .close).2.2.gen = (plainOp w.gen .close).2.2 := by
  have hcd : closeDelegates = true := cfg_protocol.2.1
  simp only [wrapOp, hcd, ↓reduceIte, and_self]

/-- a whole conforming interaction, from any state -/
theorem transparent_run (conf : Ty → V → Bool) (ts : Types) : ∀ (ops : List Op) (w : W) (g : Gen), w.gen = g →
    allConforming conf ts (plainRun g ops) = true → wrapRun conf ts w ops = plainRun g ops := by
  intro ops
  induction ops with
  | nil => intro w g _ _; simp [wrapRun, plainRun]
  | cons op ops ih =>
    intro w g hg hc
    subst hg
    simp only [plainRun, allConforming, List.all_cons, Bool.and_eq_true] at hc
    simp only [wrapRun, plainRun]
    have hn : nextIsSendNone = true := cfg_protocol.1
    have key : (wrapOp conf ts w op).1 = (plainOp w.gen op).1 ∧ (wrapOp conf ts w op).2.1 = (plainOp w.gen op).2.1 ∧
        (wrapOp conf ts w op).2.2.gen = (plainOp w.gen op).2.2 := by
      cases op with
      | next =>
        simp only [wrapOp, hn, ↓reduceIte, wrapSend_eq]
        simp only [plainOp, Op.inp, reduceCtorEq, ↓reduceIte] at hc ⊢
        exact transparent_send conf ts w V.none .next hc.1
      | send x =>
        simp only [wrapOp, wrapSend_eq]
        simp only [plainOp, Op.inp, reduceCtorEq, ↓reduceIte] at hc ⊢
        exact transparent_send conf ts w x (.send x) hc.1
      | throw k =>
        simp only [wrapOp]
        simp only [plainOp, Op.inp, reduceCtorEq, ↓reduceIte] at hc ⊢
        exact transparent_throw conf ts w k hc.1
      | close => exact transparent_close conf ts w
    obtain ⟨k1, k2, k3⟩ := key
    rw [k1, k2]
    congr 1
    exact ih _ _ k3 hc.2

/-- the full generator clause of C04: whenever every value the body yields, returns or receives conforms, the decorated
    generator function shows the consumer and the body exactly what the undecorated one shows -/
def transparent_full : Prop :=
  ∀ (conf : Ty → V → Bool) (a : Ann) (ts : Types) (script : List GStep) (ops : List Op),
    annMeaning a = some ts → allConforming conf ts (plainRun (Gen.fresh script) ops) = true →
    callAndDrive conf a script ops = some (plainRun (Gen.fresh script) ops)

/-- **C04 (generators).**  The annotation is spelled `typing.Generator[Y, S, R]` / `typing.Iterator[Y]` /
    `typing.Iterable[Y]` and every value the body of the *undecorated* function yields, returns or receives during the
    interaction conforms.  Then the call succeeds and, for every sequence of `next` / `send` / `throw` / `close` of any
    length — also on a generator that has finished, also when the first `send` carries a non-`None` value — every step
    shows the consumer the same object / the same StopIteration value / the same exception, and the body journals the
    same events (it receives exactly the sent objects and the thrown exceptions), as the undecorated generator. -/
theorem transparent_when_conforming (conf : Ty → V → Bool) (a : Ann) (ts : Types) (script : List GStep) (ops : List Op)
    (hm : annMeaning a = some ts) (hsp : supportedSpelling a = true)
    (hc : allConforming conf ts (plainRun (Gen.fresh script) ops) = true) :
    callAndDrive conf a script ops = some (plainRun (Gen.fresh script) ops) := by
  have hts := creation_complete a ts hsp hm
  have hfc := cfg_function_call
  unfold callAndDrive
  simp only [hfc.1, hfc.2.1, hfc.2.2.1, Bool.and_self, Bool.not_true, Bool.false_eq_true, ↓reduceIte, hts, Option.some.injEq]
  exact transparent_run conf ts ops _ _ rfl hc

/-! ### the interactions that used to refute the full clause are transparent now -/

def deadAnn : Ann := ⟨"typing.Generator", [.int, .none, .str], false⟩
def deadScript : List GStep := [.yield_ ⟨.int, 1⟩ .nothing, .return_ ⟨.str, 2⟩]

/-- `Generator[int, None, str]`, body `yield 1; return 's'`; the third `next()` hits the finished generator: bare
    StopIteration on both sides -/
theorem transparent_on_exhausted_generator :
    callAndDrive confC deadAnn deadScript [.next, .next, .next] = some (plainRun (Gen.fresh deadScript) [.next, .next, .next]) ∧
    (plainRun (Gen.fresh deadScript) [.next, .next, .next]).map (·.obs) = [.got ⟨.int, 1⟩, .stop ⟨.str, 2⟩, .stop V.none] := by
  decide

def primingAnn : Ann := ⟨"typing.Generator", [.int, .int, .none], false⟩
def primingScript : List GStep := [.yield_ ⟨.int, 1⟩ .nothing]

/-- `Generator[int, int, None]`; `send(5)` on the fresh generator is CPython's TypeError on both sides and the following
    `next()` starts the generator on both sides -/
theorem transparent_after_failed_priming :
    callAndDrive confC primingAnn primingScript [.send ⟨.int, 5⟩, .next] =
      some (plainRun (Gen.fresh primingScript) [.send ⟨.int, 5⟩, .next]) ∧
    (plainRun (Gen.fresh primingScript) [.send ⟨.int, 5⟩, .next]).map (·.obs) = [.typeErr, .got ⟨.int, 1⟩] := by
  decide

/-! ### where the full clause still fails (a region in which implementation and model agree) -/

/-- finding `generatorAnnotationSpelling` (what is left of it): the string annotation `'Iterator[int]'` means the same as
    `typing.Iterator[int]`, but the call is refused -/
theorem transparent_fails_spelling :
    annMeaning ⟨"typing.Iterator", [.int], true⟩ = some ⟨.int, .none, .none⟩ ∧
    callAndDrive confC ⟨"typing.Iterator", [.int], true⟩ [.yield_ ⟨.int, 1⟩ .nothing] [.next] = none := by
  decide

/-- the `collections.abc` half of the finding is repaired: `collections.abc.Iterator[int]` / `collections.abc.Generator[int, str, None]`
    behave like their `typing` spellings (instances of `transparent_when_conforming`, whose guard is now `supportedSpelling`) -/
theorem fixed_collections_abc_spelling :
    callAndDrive confC ⟨"collections.abc.Iterator", [.int], false⟩ [.yield_ ⟨.int, 1⟩ .nothing] [.next] =
      some (plainRun (Gen.fresh [.yield_ ⟨.int, 1⟩ .nothing]) [.next]) ∧
    callAndDrive confC ⟨"collections.abc.Generator", [.int, .str, .none], false⟩ [.yield_ ⟨.int, 1⟩ .nothing] [.next, .send ⟨.str, 4⟩] =
      some (plainRun (Gen.fresh [.yield_ ⟨.int, 1⟩ .nothing]) [.next, .send ⟨.str, 4⟩]) ∧
    supportedSpelling ⟨"collections.abc.Iterator", [.int], false⟩ = true := by
  decide

/-- **the full clause does not hold** (only because a string annotation is not evaluated) -/
theorem transparent_full_false : ¬ transparent_full := by
  intro h
  obtain ⟨hm, hnone⟩ := transparent_fails_spelling
  have := h confC _ _ [.yield_ ⟨.int, 1⟩ .nothing] [.next] hm (by decide)
  rw [hnone] at this
  simp at this

/-! ### non-vacuity -/

/-- a conforming interaction with send, throw (caught by the body) and close meets every hypothesis -/
example :
    let a : Ann := ⟨"typing.Generator", [.int, .str, .none], false⟩
    let script : List GStep := [.yield_ ⟨.int, 1⟩ .nothing, .yield_ ⟨.bool, 1⟩ .exc, .yield_ ⟨.int, 3⟩ .nothing]
    let ops : List Op := [.next, .send ⟨.str, 4⟩, .throw 9, .close, .close, .next]
    annMeaning a = some ⟨.int, .str, .none⟩ ∧ supportedSpelling a = true ∧
    allConforming confC ⟨.int, .str, .none⟩ (plainRun (Gen.fresh script) ops) = true ∧
    plainRun (Gen.fresh script) ops =
      [⟨.next, .got ⟨.int, 1⟩, [.yielded ⟨.int, 1⟩]⟩,
       ⟨.send ⟨.str, 4⟩, .got ⟨.bool, 1⟩, [.recv ⟨.str, 4⟩, .yielded ⟨.bool, 1⟩]⟩,
       ⟨.throw 9, .got ⟨.int, 3⟩, [.thrown 9, .yielded ⟨.int, 3⟩]⟩,
       ⟨.close, .closed, [.exit]⟩, ⟨.close, .closed, []⟩, ⟨.next, .stop V.none, []⟩] := by decide

/-- a body exception passes through unchanged -/
example : callAndDrive confC ⟨"typing.Iterator", [.int], false⟩ [.yield_ ⟨.int, 1⟩ .nothing, .raise_ 3] [.next, .next] =
    some (plainRun (Gen.fresh [.yield_ ⟨.int, 1⟩ .nothing, .raise_ 3]) [.next, .next]) := by decide

end PedVerif.GenWrap
