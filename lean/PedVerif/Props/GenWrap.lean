import PedVerif.Lemmas.GenWrap
/-!
# Generator clause of C03 and C04 — `GeneratorWrapper`

`callAndDrive conf a script ops` is the model of: call a `@pedantic` generator function whose return annotation is `a`
and whose body behaves as `script`, then perform the consumer operations `ops` (`next` / `send` / `throw` / `close`, any
number, in any order, also after an exception was raised).  `send` and `throw` are *interpreted* from the programs the
translator extracts from the source (`Gen.GenWrap.sendProg`, `throwProg`); the facts the proofs need about them are the
`cfg_*` theorems of `Lemmas/GenWrap.lean` (`decide`), re-proved against the current source on every run.
`conf : Ty → V → Bool` is the type checker, abstract here (C01 / C02).

* C03: `generator_guard` (+ `generator_guard_full`, refuted by `throw`: finding `throwBypassesYieldCheck`).
* C04: `transparent_when_conforming` (+ `transparent_full`, refuted in three regions: `transparent_fails_deadResume`,
  `transparent_fails_failedPriming`, `transparent_fails_spelling`).
* creation (`_set_and_check_return_types`): `creation_sound`, `creation_complete`, `creation_guard`, `accepted_has_meaning`.
* what a repair of `throw` has to show for the full C03 clause: `generator_guard_full_of_throwChecked`.
-/
namespace PedVerif.GenWrap
open PedVerif.Gen.GenWrap

/-! ## creation -/

private theorem str_not_accepted : ["typing.Generator", "typing.Iterable", "typing.Iterator"].contains "<str>" = false := by decide

private theorem accepted_iff (a : Ann) :
    acceptedBases.contains a.seenBase = true ↔
      a.quoted = false ∧ (a.base = "typing.Generator" ∨ a.base = "typing.Iterable" ∨ a.base = "typing.Iterator") := by
  rw [cfg_creation.1]
  unfold Ann.seenBase
  cases hq : a.quoted
  · simp
  · simp only [↓reduceIte, str_not_accepted]; simp

private theorem default_types : defaultTypes = ⟨.none, .none, .none⟩ := by
  simp [defaultTypes, defaultTy, cfg_creation.2.2.2.2.2.2.2]

/-- what the library accepts and what it puts into the slots -/
theorem setTypes_eq (a : Ann) :
    setTypes a =
      if a.quoted = false ∧ (a.base = "typing.Generator" ∨ a.base = "typing.Iterable" ∨ a.base = "typing.Iterator") then
        match a.args with
        | [y] => some ⟨y, .none, .none⟩
        | [y, s, r] => some ⟨y, s, r⟩
        | _ => none
      else none := by
  unfold setTypes
  by_cases h : acceptedBases.contains a.seenBase = true
  · have h' := (accepted_iff a).1 h
    simp only [h, Bool.not_true, Bool.false_eq_true, ↓reduceIte, h', and_self]
    have hq : a.seenArgs = a.args := by simp [Ann.seenArgs, h'.1]
    rw [hq]
    match hargs : a.args with
    | [] => simp [cfg_creation.2.2.2.1 0 (by decide) (by decide), cfg_creation.2.2.2.2.1]
    | [y] =>
      simp [cfg_creation.2.1, applyAssignments, default_types, Types.set, cfg_creation.2.2.2.2.2.2.1]
    | [y, s] => simp [cfg_creation.2.2.2.1 2 (by decide) (by decide), cfg_creation.2.2.2.2.1]
    | [y, s, r] =>
      simp [cfg_creation.2.2.1, applyAssignments, default_types, Types.set, cfg_creation.2.2.2.2.2.2.1]
    | _ :: _ :: _ :: _ :: rest =>
      have : (rest.length + 1 + 1 + 1 + 1) ≠ 1 ∧ (rest.length + 1 + 1 + 1 + 1) ≠ 3 := by omega
      simp [cfg_creation.2.2.2.1 _ this.1 this.2, cfg_creation.2.2.2.2.1]
  · have h' : ¬(a.quoted = false ∧ (a.base = "typing.Generator" ∨ a.base = "typing.Iterable" ∨ a.base = "typing.Iterator")) :=
      fun hh => h ((accepted_iff a).2 hh)
    have hb : acceptedBases.contains a.seenBase = false := by simpa using h
    simp only [hb, Bool.not_false, ↓reduceIte, h']

/-- **creation is sound**: when the library builds a wrapper, its three slots hold what the annotation means -/
theorem creation_sound (a : Ann) (ts ts' : Types) (h : setTypes a = some ts') (hm : annMeaning a = some ts) : ts' = ts := by
  rw [setTypes_eq] at h
  unfold annMeaning at hm
  split at h
  · rcases hargs : a.args with _ | ⟨y, _ | ⟨s, _ | ⟨r, _ | ⟨q, rest⟩⟩⟩⟩ <;> simp only [hargs] at h hm
    · simp at h
    · split at hm <;> simp_all
    · simp at h
    · split at hm <;> simp_all
    · simp at h
  · simp at h

/-- **creation is complete for the documented spelling** `typing.Generator[Y, S, R]` / `typing.Iterator[Y]` / `typing.Iterable[Y]` -/
theorem creation_complete (a : Ann) (ts : Types) (hsp : typingSpelling a = true) (hm : annMeaning a = some ts) :
    setTypes a = some ts := by
  rw [setTypes_eq]
  unfold typingSpelling at hsp
  simp only [Bool.and_eq_true, Bool.not_eq_eq_eq_not, Bool.not_true, List.contains_cons, List.contains_nil, Bool.or_false,
    Bool.or_eq_true, beq_iff_eq] at hsp
  have hb : a.quoted = false ∧ (a.base = "typing.Generator" ∨ a.base = "typing.Iterable" ∨ a.base = "typing.Iterator") := by
    refine ⟨hsp.1, ?_⟩
    rcases hsp.2 with h | h | h <;> simp [h]
  simp only [hb, and_self, ↓reduceIte]
  unfold annMeaning at hm
  rcases hargs : a.args with _ | ⟨y, _ | ⟨s, _ | ⟨r, _ | ⟨q, rest⟩⟩⟩⟩ <;> simp only [hargs] at hm ⊢
  · simp at hm
  · split at hm <;> simp_all
  · simp at hm
  · split at hm <;> simp_all
  · simp at hm

/-- the arity `typing` itself enforces on Python 3.12 when the annotation object is built (`Generator[int]`,
    `Iterator[int, int, int]` raise TypeError in the `def` line): three or no arguments for `typing.Generator`, at most one otherwise -/
def typingArityOK (a : Ann) : Bool :=
  if a.base = "typing.Generator" then a.args.length == 3 || a.args.length == 0 else decide (a.args.length ≤ 1)

/-- every annotation that can exist and that the library accepts has a meaning, and it is what the slots hold: the guard
    below therefore speaks about every wrapper the library ever builds -/
theorem accepted_has_meaning (a : Ann) (ts : Types) (h : setTypes a = some ts) (har : typingArityOK a = true) :
    annMeaning a = some ts := by
  rw [setTypes_eq] at h
  unfold typingArityOK at har
  unfold annMeaning generatorNames iteratorNames
  split at h
  · rename_i hb
    rcases hargs : a.args with _ | ⟨y, _ | ⟨s, _ | ⟨r, _ | ⟨q, rest⟩⟩⟩⟩ <;> simp only [hargs] at h har ⊢
    · simp at h
    · rcases hb.2 with hbase | hbase | hbase <;> simp_all
    · simp at h
    · rcases hb.2 with hbase | hbase | hbase <;> simp_all
    · simp at h
  · simp at h

/-- **C03, creation**: a generator function whose annotation a generator object does not conform to (`-> int`,
    `-> List[int]`, `-> None`, `-> AsyncGenerator[…]`): the call raises, the caller never gets the generator -/
theorem creation_guard (conf : Ty → V → Bool) (a : Ann) (script : List GStep) (ops : List Op) :
    CreationGuard a (callAndDrive conf a script ops) := by
  intro hn
  cases hst : setTypes a with
  | none => simp [callAndDrive, hst]
  | some ts =>
    exfalso
    rw [setTypes_eq] at hst
    split at hst
    · rename_i hb
      unfold annAdmitsGenerator generatorNames iteratorNames at hn
      rcases hb.2 with h | h | h <;> simp [h] at hn
    · simp at hst

/-! ## C03: the guard -/

/-- invariant of the wrapper: a generator that is suspended at a `yield` has been primed through the wrapper -/
def Inv (w : W) : Prop := ∀ c, w.gen.st = .suspended c → w.init = true

theorem inv_fresh (script : List GStep) : Inv (W.fresh script) := by
  intro c h; simp [W.fresh, Gen.fresh] at h

/-- one `send` (readable form): invariant kept, both clauses hold for the step -/
theorem send_step (conf : Ty → V → Bool) (ts : Types) (w : W) (x : V) (op : Op) (hinv : Inv w) :
    Inv (refWrapSend conf ts w x).2.2 ∧
    SendClause conf ts ⟨op, (refWrapSend conf ts w x).1, (refWrapSend conf ts w x).2.1⟩ ∧
    ValueClauses conf ts ⟨op, (refWrapSend conf ts w x).1, (refWrapSend conf ts w x).2.1⟩ := by
  cases hc : (w.init && !conf ts.sendT x)
  · rw [refWrapSend_passed conf ts w x hc]
    refine ⟨fun _ _ => rfl, ?_, ?_, ?_, ?_, ?_⟩
    · intro y hy
      obtain ⟨hi, c, hst⟩ := resumeGen_recv _ _ _ hy
      have hx : x = y := by simpa using hi
      subst hx
      have := hinv c hst
      simpa [this] using hc
    · intro v hv
      simp only [sendObs] at hv
      split at hv
      · split at hv
        · rename_i hr; simp only [Obs.got.injEq] at hv; subst hv; exact hr
        · simp at hv
      · split at hv <;> simp at hv
      all_goals simp at hv
    · intro v hv
      simp only [sendObs] at hv
      split at hv
      · split at hv <;> simp at hv
      · split at hv
        · rename_i hr; simp only [Obs.stop.injEq] at hv; subst hv; exact Or.inl hr
        · simp at hv
      all_goals simp at hv
    · intro _ v hv hnc
      have := resumeGen_yielded _ _ _ hv
      simp only [this, sendObs, hnc, Bool.false_eq_true, ↓reduceIte]
    · intro _ v hv hnc
      have := resumeGen_returned _ _ _ hv
      simp only [this, sendObs, hnc, Bool.false_eq_true, ↓reduceIte]
  · rw [refWrapSend_rejected conf ts w x hc]
    refine ⟨hinv, ?_, ?_, ?_, ?_, ?_⟩
    · intro y hy; simp at hy
    · intro v hv; simp at hv
    · intro v hv; simp at hv
    · intro _ v hv; simp at hv
    · intro _ v hv; simp at hv

/-- the invariant survives any resume that is not a `send`, as long as `_initialized` is not cleared -/
theorem inv_after_not_send (w : W) (inp : Inp) (i' : Bool) (hinv : Inv w) (hi : ∀ x, inp ≠ .send x)
    (hkeep : w.init = true → i' = true) : Inv ⟨i', (resumeGen w.gen inp).2.2⟩ := by
  intro c hc
  obtain ⟨c', hc'⟩ := resumeGen_suspended_of_not_send _ _ _ hi hc
  exact hkeep (hinv c' hc')

/-- one `throw`: the invariant is kept and nothing is received by the body (whatever `throw` checks or does not check) -/
theorem throw_step (conf : Ty → V → Bool) (ts : Types) (w : W) (k : Nat) (hinv : Inv w) :
    Inv (wrapResume conf ts throwProg w (.throw k)).2.2 ∧
    SendClause conf ts ⟨.throw k, (wrapResume conf ts throwProg w (.throw k)).1, (wrapResume conf ts throwProg w (.throw k)).2.1⟩ := by
  unfold wrapResume
  simp only [Option.isSome_none]
  have hkeep : w.init = true →
      (runStmts (mkOrc conf ts none (resumeGen w.gen (.throw k)).1) (resumeGen w.gen (.throw k)).1.kind throwProg
        ⟨false, false, false⟩ w.init false).init = true := by
    intro hi; rw [hi]; exact cfg_throw_keeps_init _ _
  have hnorecv : ∀ y, JEv.recv y ∉ (resumeGen w.gen (.throw k)).2.1 := by
    intro y hy
    have := (resumeGen_recv _ _ _ hy).1
    simp at this
  split
  · exact ⟨inv_after_not_send w (.throw k) _ hinv (by intro x; simp) hkeep, fun y hy => absurd hy (hnorecv y)⟩
  · exact ⟨fun c hc => hkeep (hinv c hc), fun y hy => by simp at hy⟩

/-- one `close` -/
theorem close_step (conf : Ty → V → Bool) (ts : Types) (w : W) (hinv : Inv w) :
    Inv (wrapOp conf ts w .close).2.2 ∧
    SendClause conf ts ⟨.close, (wrapOp conf ts w .close).1, (wrapOp conf ts w .close).2.1⟩ ∧
    ValueClauses conf ts ⟨.close, (wrapOp conf ts w .close).1, (wrapOp conf ts w .close).2.1⟩ := by
  have hcd : closeDelegates = true := cfg_protocol.2.1
  simp only [wrapOp, hcd, ↓reduceIte, plainOp, Op.inp]
  refine ⟨?_, ?_, ?_, ?_, ?_, ?_⟩
  · intro c hc
    obtain ⟨c', hc'⟩ := resumeGen_suspended_of_not_send _ _ _ (by intro x; simp) hc
    exact hinv c' hc'
  · intro y hy
    have := (resumeGen_recv _ _ _ hy).1
    simp at this
  · intro v hv; simp only [obsClose] at hv; split at hv <;> simp at hv
  · intro v hv; simp only [obsClose] at hv; split at hv <;> simp at hv
  · intro h; exact absurd rfl h
  · intro h; exact absurd rfl h

/-- the guard along a whole interaction, from any state that satisfies the invariant -/
theorem guard_run (conf : Ty → V → Bool) (ts : Types) : ∀ (ops : List Op) (w : W), Inv w →
    ∀ s ∈ wrapRun conf ts w ops, SendClause conf ts s ∧ (s.op.isThrow = false → ValueClauses conf ts s) := by
  intro ops
  induction ops with
  | nil => intro w _ s hs; simp [wrapRun] at hs
  | cons op ops ih =>
    intro w hinv s hs
    simp only [wrapRun, List.mem_cons] at hs
    have hn : nextIsSendNone = true := cfg_protocol.1
    cases op with
    | next =>
      simp only [wrapOp, hn, ↓reduceIte, wrapSend_eq] at hs
      obtain ⟨h1, h2, h3⟩ := send_step conf ts w V.none .next hinv
      rcases hs with rfl | hs
      · exact ⟨h2, fun _ => h3⟩
      · exact ih _ h1 s hs
    | send x =>
      simp only [wrapOp, wrapSend_eq] at hs
      obtain ⟨h1, h2, h3⟩ := send_step conf ts w x (.send x) hinv
      rcases hs with rfl | hs
      · exact ⟨h2, fun _ => h3⟩
      · exact ih _ h1 s hs
    | throw k =>
      simp only [wrapOp] at hs
      obtain ⟨h1, h2⟩ := throw_step conf ts w k hinv
      rcases hs with rfl | hs
      · exact ⟨h2, fun h => by simp [Op.isThrow] at h⟩
      · exact ih _ h1 s hs
    | close =>
      obtain ⟨h1, h2, h3⟩ := close_step conf ts w hinv
      rcases hs with rfl | hs
      · exact ⟨h2, fun _ => h3⟩
      · exact ih _ h1 s hs

private theorem callAndDrive_some (conf : Ty → V → Bool) (a : Ann) (script : List GStep) (ops : List Op) (steps : List Step)
    (h : callAndDrive conf a script ops = some steps) :
    ∃ ts', setTypes a = some ts' ∧ steps = wrapRun conf ts' (W.fresh script) ops := by
  unfold callAndDrive at h
  split at h
  · simp at h
  · split at h
    · simp at h
    · rename_i ts' hts; exact ⟨ts', hts, by simpa using h.symm⟩

/-- the full generator clause of C03: in *every* step of every interaction, values sent in are guarded and values
    handed out conform or are replaced by PedanticTypeCheckException -/
def generator_guard_full : Prop :=
  ∀ (conf : Ty → V → Bool) (a : Ann) (ts : Types) (script : List GStep) (ops : List Op) (steps : List Step),
    annMeaning a = some ts → callAndDrive conf a script ops = some steps →
    ∀ s ∈ steps, SendClause conf ts s ∧ ValueClauses conf ts s

/-- **C03 (generators), partial form.**  For every annotation, every body script, every sequence of consumer operations
    `next` / `send` / `throw` / `close` of any length — including everything the consumer does after it got a
    PedanticTypeCheckException — and every step of the interaction:
    * whatever the body receives from a `yield` expression conforms to the send type (a non-conforming value is never
      delivered), **in every step**;
    * in every step that is not a `throw`: a value handed to the caller conforms to the yield type, a StopIteration value
      conforms to the return type, and when the body yields / returns a non-conforming value the caller gets
      PedanticTypeCheckException instead. -/
theorem generator_guard (conf : Ty → V → Bool) (a : Ann) (ts : Types) (script : List GStep) (ops : List Op) (steps : List Step)
    (hm : annMeaning a = some ts) (hrun : callAndDrive conf a script ops = some steps) :
    ∀ s ∈ steps, SendClause conf ts s ∧ (s.op.isThrow = false → ValueClauses conf ts s) := by
  obtain ⟨ts', hts, rfl⟩ := callAndDrive_some conf a script ops steps hrun
  have := creation_sound a ts ts' hts hm
  subst this
  exact guard_run conf ts' ops _ (inv_fresh script)

/-- a `send` that fails the check leaves the generator where it was: the body is not resumed, nothing is journalled -/
theorem rejected_send_not_delivered (conf : Ty → V → Bool) (ts : Types) (w : W) (x : V)
    (hi : w.init = true) (hx : conf ts.sendT x = false) :
    wrapOp conf ts w (.send x) = (.ped, [], w) := by
  simp [wrapOp, wrapSend_eq, refWrapSend, hi, hx]

/-- … in consumer terms: once the body is suspended at a `yield`, a non-conforming `send` is answered with
    PedanticTypeCheckException and the wrapper, the generator and the journal stay as they were (the consumer can go on) -/
theorem bad_send_to_started_body (conf : Ty → V → Bool) (ts : Types) (w : W) (x : V) (c : Catch)
    (hinv : Inv w) (hst : w.gen.st = .suspended c) (hx : conf ts.sendT x = false) :
    wrapOp conf ts w (.send x) = (.ped, [], w) :=
  rejected_send_not_delivered conf ts w x (hinv c hst) hx

/-- the interaction that refutes the full clause: `Generator[int, int, str]`, the body yields an int, catches the
    exception thrown in and yields a *str* — `throw` hands the str to the caller -/
def throwWitnessScript : List GStep := [.yield_ ⟨.int, 1⟩ .exc, .yield_ ⟨.str, 2⟩ .nothing]
def throwWitnessOps : List Op := [.next, .throw 7]
def genIntIntStr : Ann := ⟨"typing.Generator", [.int, .int, .str], false⟩

theorem throw_bypasses_yield_check :
    callAndDrive confC genIntIntStr throwWitnessScript throwWitnessOps =
      some [⟨.next, .got ⟨.int, 1⟩, [.yielded ⟨.int, 1⟩]⟩,
            ⟨.throw 7, .got ⟨.str, 2⟩, [.thrown 7, .yielded ⟨.str, 2⟩]⟩] := by
  decide

/-- … and likewise a non-conforming StopIteration value (`return 5` for return type `str`) after a `throw` -/
theorem throw_bypasses_return_check :
    callAndDrive confC genIntIntStr [.yield_ ⟨.int, 1⟩ .exc, .return_ ⟨.int, 5⟩] [.next, .throw 7] =
      some [⟨.next, .got ⟨.int, 1⟩, [.yielded ⟨.int, 1⟩]⟩,
            ⟨.throw 7, .stop ⟨.int, 5⟩, [.thrown 7, .returned ⟨.int, 5⟩]⟩] := by
  decide

/-- **the full clause does not hold** (finding `throwBypassesYieldCheck`) -/
theorem generator_guard_full_false : ¬ generator_guard_full := by
  intro h
  have := h confC genIntIntStr ⟨.int, .int, .str⟩ throwWitnessScript throwWitnessOps _ (by decide) throw_bypasses_yield_check
    ⟨.throw 7, .got ⟨.str, 2⟩, [.thrown 7, .yielded ⟨.str, 2⟩]⟩ (by simp)
  have h2 := this.2.1 ⟨.str, 2⟩ rfl
  simp [confC] at h2

/-! ### what a repair of `throw` has to establish -/

/-- `throw` resumes the generator and checks what it produces in response like `send` does -/
def ThrowChecked : Prop :=
  ∀ (orc : Src → Slot → Bool) (rk : RK) (init : Bool),
    (runStmts orc rk throwProg avThrow init false).resumed = true ∧
    (runStmts orc rk throwProg avThrow init false).act = refThrowChecked orc rk

/-- `ThrowChecked` is decidable through the nine check outcomes (`fun h => throwChecked_of_bits (by decide)` once `throw` is repaired) -/
theorem throwChecked_of_bits
    (h : ∀ a b c d e f g h i : Bool, ∀ rk : RK, ∀ init : Bool,
      (runStmts (bitsOrc a b c d e f g h i) rk throwProg avThrow init false).resumed = true ∧
      (runStmts (bitsOrc a b c d e f g h i) rk throwProg avThrow init false).act = refThrowChecked (bitsOrc a b c d e f g h i) rk) :
    ThrowChecked := by
  intro orc rk init
  rw [orc_eta orc]
  exact h _ _ _ _ _ _ _ _ _ rk init

/-- the current `throw` is not of that kind -/
theorem throw_not_checked : ¬ ThrowChecked := by
  intro h
  have := (h (fun _ _ => false) .yielded false).2
  rw [cfg_throw_unchecked] at this
  simp [refThrowPassthrough, refThrowChecked] at this

/-- the value clauses for a `throw` step of a checked `throw` -/
theorem throw_step_values (hck : ThrowChecked) (conf : Ty → V → Bool) (ts : Types) (w : W) (k : Nat) :
    ValueClauses conf ts ⟨.throw k, (wrapResume conf ts throwProg w (.throw k)).1, (wrapResume conf ts throwProg w (.throw k)).2.1⟩ := by
  unfold wrapResume
  simp only [Option.isSome_none]
  have hav : (⟨false, false, false⟩ : Avail) = avThrow := rfl
  rw [hav]
  obtain ⟨hres, hact⟩ := hck (mkOrc conf ts none (resumeGen w.gen (.throw k)).1) (resumeGen w.gen (.throw k)).1.kind w.init
  rw [if_pos hres]
  simp only [hact]
  refine ⟨?_, ?_, ?_, ?_⟩
  · intro v hv
    rcases hr : (resumeGen w.gen (.throw k)).1 with u | u | e | _ | _ <;>
      simp only [hr, Res.kind, refThrowChecked, mkOrc, Types.get] at hv
    · by_cases hc : conf ts.yieldT u = true
      · simp [hc, obsOf] at hv; subst hv; exact hc
      · simp [hc, obsOf] at hv
    · by_cases hc : conf ts.returnT u = true <;> simp [hc, obsOf] at hv
    all_goals simp [obsOf] at hv
  · intro v hv
    rcases hr : (resumeGen w.gen (.throw k)).1 with u | u | e | _ | _ <;>
      simp only [hr, Res.kind, refThrowChecked, mkOrc, Types.get] at hv
    · by_cases hc : conf ts.yieldT u = true <;> simp [hc, obsOf] at hv
    · by_cases hc : conf ts.returnT u = true
      · simp [hc, obsOf] at hv; subst hv; exact Or.inl hc
      · simp [hc, obsOf] at hv
    all_goals simp [obsOf] at hv
  · intro _ v hv hnc
    have hr := resumeGen_yielded _ _ _ hv
    simp [hr, Res.kind, refThrowChecked, mkOrc, Types.get, hnc, obsOf]
  · intro _ v hv hnc
    have hr := resumeGen_returned _ _ _ hv
    simp [hr, Res.kind, refThrowChecked, mkOrc, Types.get, hnc, obsOf]

/-- **the full clause follows as soon as `throw` checks** (what remains to be re-proved after a repair is the `decide`-able
    `ThrowChecked`): every step of every interaction, `throw` included -/
theorem generator_guard_full_of_throwChecked (hck : ThrowChecked) : generator_guard_full := by
  intro conf a ts script ops steps hm hrun
  obtain ⟨ts', hts, rfl⟩ := callAndDrive_some conf a script ops steps hrun
  have := creation_sound a ts ts' hts hm
  subst this
  have key : ∀ (ops : List Op) (w : W), Inv w → ∀ s ∈ wrapRun conf ts' w ops, SendClause conf ts' s ∧ ValueClauses conf ts' s := by
    intro ops
    induction ops with
    | nil => intro w _ s hs; simp [wrapRun] at hs
    | cons op ops ih =>
      intro w hinv s hs
      have hpart := guard_run conf ts' (op :: ops) w hinv s hs
      simp only [wrapRun, List.mem_cons] at hs
      rcases hs with rfl | hs
      · refine ⟨hpart.1, ?_⟩
        cases op with
        | throw k => simp only [wrapOp]; exact throw_step_values hck conf ts' w k
        | next => exact hpart.2 rfl
        | send x => exact hpart.2 rfl
        | close => exact hpart.2 rfl
      · have hinv' : Inv (wrapOp conf ts' w op).2.2 := by
          have hn : nextIsSendNone = true := cfg_protocol.1
          cases op with
          | next => simp only [wrapOp, hn, ↓reduceIte, wrapSend_eq]; exact (send_step conf ts' w V.none .next hinv).1
          | send x => simp only [wrapOp, wrapSend_eq]; exact (send_step conf ts' w x (.send x) hinv).1
          | throw k => simp only [wrapOp]; exact (throw_step conf ts' w k hinv).1
          | close => exact (close_step conf ts' w hinv).1
        exact ih _ hinv' s hs
  exact key ops _ (inv_fresh script)

/-! ### non-vacuity -/

/-- continuing after an exception: the first yield is a str (→ PedanticTypeCheckException), then a str is sent
    (→ PedanticTypeCheckException, the body does not receive it), then an int (→ delivered) -/
example : callAndDrive confC genIntIntStr [.yield_ ⟨.str, 1⟩ .nothing, .yield_ ⟨.int, 2⟩ .nothing, .return_ ⟨.str, 3⟩]
      [.next, .send ⟨.str, 4⟩, .send ⟨.int, 5⟩, .send ⟨.int, 6⟩, .next] =
    some [⟨.next, .ped, [.yielded ⟨.str, 1⟩]⟩,
          ⟨.send ⟨.str, 4⟩, .ped, []⟩,
          ⟨.send ⟨.int, 5⟩, .got ⟨.int, 2⟩, [.recv ⟨.int, 5⟩, .yielded ⟨.int, 2⟩]⟩,
          ⟨.send ⟨.int, 6⟩, .stop ⟨.str, 3⟩, [.recv ⟨.int, 6⟩, .returned ⟨.str, 3⟩]⟩,
          ⟨.next, .ped, []⟩] := by decide

/-- a non-conforming return value: the caller gets PedanticTypeCheckException instead of StopIteration(5) -/
example : callAndDrive confC genIntIntStr [.return_ ⟨.int, 5⟩] [.next] = some [⟨.next, .ped, [.returned ⟨.int, 5⟩]⟩] := by decide

/-- `bool` is an `int` for the checker; `Iterator[int]` leaves send and return type `None` -/
example : callAndDrive confC ⟨"typing.Iterator", [.int], false⟩ [.yield_ ⟨.bool, 1⟩ .nothing, .yield_ ⟨.int, 2⟩ .nothing]
      [.next, .send ⟨.int, 9⟩, .next, .next] =
    some [⟨.next, .got ⟨.bool, 1⟩, [.yielded ⟨.bool, 1⟩]⟩, ⟨.send ⟨.int, 9⟩, .ped, []⟩,
          ⟨.next, .got ⟨.int, 2⟩, [.recv V.none, .yielded ⟨.int, 2⟩]⟩,
          ⟨.next, .stop V.none, [.recv V.none, .returned V.none]⟩] := by decide

example : annMeaning genIntIntStr = some ⟨.int, .int, .str⟩ := by decide

/-- creation: `-> int` on a generator function raises at the call -/
example : annAdmitsGenerator ⟨"int", [], false⟩ = false ∧ callAndDrive confC ⟨"int", [], false⟩ [.yield_ ⟨.int, 1⟩ .nothing] [.next] = none := by
  decide

/-! ## C04: transparency -/

/-- wrapper and undecorated twin in step: same generator state; not primed yet iff the generator has not started -/
def Sync (w : W) (g : Gen) : Prop := w.gen = g ∧ (g.st = .unstarted → w.init = false) ∧ Inv w

private theorem conforming_recv {conf : Ty → V → Bool} {ts : Types} {op : Op} {o : Obs} {j : List JEv}
    (h : stepConforming conf ts ⟨op, o, j⟩ = true) (x : V) (hx : JEv.recv x ∈ j) : conf ts.sendT x = true := by
  simp only [stepConforming, List.all_eq_true] at h; exact h _ hx

private theorem conforming_yielded {conf : Ty → V → Bool} {ts : Types} {op : Op} {o : Obs} {j : List JEv}
    (h : stepConforming conf ts ⟨op, o, j⟩ = true) (v : V) (hv : JEv.yielded v ∈ j) : conf ts.yieldT v = true := by
  simp only [stepConforming, List.all_eq_true] at h; exact h _ hv

private theorem conforming_returned {conf : Ty → V → Bool} {ts : Types} {op : Op} {o : Obs} {j : List JEv}
    (h : stepConforming conf ts ⟨op, o, j⟩ = true) (v : V) (hv : JEv.returned v ∈ j) : conf ts.returnT v = true := by
  simp only [stepConforming, List.all_eq_true] at h; exact h _ hv

/-- one conforming `send` -/
theorem transparent_send (conf : Ty → V → Bool) (ts : Types) (w : W) (g : Gen) (x : V) (op : Op) (hop : op.sendLike = some x)
    (hs : Sync w g)
    (hc : stepConforming conf ts ⟨op, obsPlain (resumeGen g (.send x)).1, (resumeGen g (.send x)).2.1⟩ = true)
    (hd : Step.deadResume ⟨op, obsPlain (resumeGen g (.send x)).1, (resumeGen g (.send x)).2.1⟩ = false)
    (hp : obsPlain (resumeGen g (.send x)).1 ≠ .typeErr) :
    (refWrapSend conf ts w x).1 = obsPlain (resumeGen g (.send x)).1 ∧
    (refWrapSend conf ts w x).2.1 = (resumeGen g (.send x)).2.1 ∧
    Sync (refWrapSend conf ts w x).2.2 (resumeGen g (.send x)).2.2 := by
  obtain ⟨hg, hun, hinv⟩ := hs
  subst hg
  -- a dead resume is excluded: if the generator is finished the plain step is (StopIteration(None), no journal)
  have hnotfin : w.gen.st ≠ .finished := by
    intro hf
    have : resumeGen w.gen (.send x) = (.returned V.none, [], w.gen) := by simp [resumeGen, hf]
    simp [Step.deadResume, this, obsPlain, hop] at hd
  have hcheck : (w.init && !conf ts.sendT x) = false := by
    cases hi : w.init
    · simp
    · cases hst : w.gen.st with
      | unstarted => have := hun hst; simp [hi] at this
      | finished => exact absurd hst hnotfin
      | suspended c =>
        have hmem : JEv.recv x ∈ (resumeGen w.gen (.send x)).2.1 := by simp [resumeGen, hst, prepend]
        simp [conforming_recv hc x hmem]
  have hnt : (resumeGen w.gen (.send x)).1 ≠ .typeErr := by
    intro h; rw [h] at hp; exact hp rfl
  rw [refWrapSend_passed conf ts w x hcheck]
  refine ⟨?_, rfl, ⟨rfl, fun h => absurd h (resumeGen_not_unstarted _ _ hnt), fun _ _ => rfl⟩⟩
  show sendObs conf ts (resumeGen w.gen (.send x)).1 = obsPlain (resumeGen w.gen (.send x)).1
  rcases hr : (resumeGen w.gen (.send x)).1 with v | v | e | _ | _
  · have := conforming_yielded hc v (resumeGen_yielded_mem _ _ _ hr)
    simp [this, obsPlain, sendObs]
  · rcases resumeGen_returned_mem _ _ _ hr with hm | ⟨hf, _⟩
    · have := conforming_returned hc v hm
      simp [this, obsPlain, sendObs]
    · exact absurd hf hnotfin
  · simp [obsPlain, sendObs]
  · simp [obsPlain, sendObs]
  · simp [obsPlain, sendObs]

/-- one conforming `throw` -/
theorem transparent_throw (conf : Ty → V → Bool) (ts : Types) (w : W) (g : Gen) (k : Nat) (hs : Sync w g)
    (hc : stepConforming conf ts ⟨.throw k, obsPlain (resumeGen g (.throw k)).1, (resumeGen g (.throw k)).2.1⟩ = true) :
    (wrapResume conf ts throwProg w (.throw k)).1 = obsPlain (resumeGen g (.throw k)).1 ∧
    (wrapResume conf ts throwProg w (.throw k)).2.1 = (resumeGen g (.throw k)).2.1 ∧
    Sync (wrapResume conf ts throwProg w (.throw k)).2.2 (resumeGen g (.throw k)).2.2 := by
  obtain ⟨hg, hun, hinv⟩ := hs
  subst hg
  have hinv' := (throw_step conf ts w k hinv).1
  -- what the generator produces conforms, hence `throw` passes it through
  have hy : (resumeGen w.gen (.throw k)).1.kind = .yielded →
      mkOrc conf ts none (resumeGen w.gen (.throw k)).1 .yielded .yieldT = true := by
    intro hk
    rcases hr1 : (resumeGen w.gen (.throw k)).1 with v | v | e | _ | _ <;> simp [hr1, Res.kind] at hk
    have hmem := resumeGen_yielded_mem _ _ _ hr1
    simp [mkOrc, Types.get, conforming_yielded hc v hmem]
  have hret : (resumeGen w.gen (.throw k)).1.kind = .stopped →
      mkOrc conf ts none (resumeGen w.gen (.throw k)).1 .stopVal .returnT = true := by
    intro hk
    rcases hr1 : (resumeGen w.gen (.throw k)).1 with v | v | e | _ | _ <;> simp [hr1, Res.kind] at hk
    have hmem : JEv.returned v ∈ (resumeGen w.gen (.throw k)).2.1 := by
      rcases resumeGen_returned_mem _ _ _ hr1 with h | ⟨_, _, _, x, hx⟩
      · exact h
      · simp at hx
    simp [mkOrc, Types.get, conforming_returned hc v hmem]
  obtain ⟨hact, hres, _⟩ := cfg_throw_transparent (mkOrc conf ts none (resumeGen w.gen (.throw k)).1)
    (resumeGen w.gen (.throw k)).1.kind w.init hy hret
  unfold wrapResume at hinv' ⊢
  simp only [Option.isSome_none] at hinv' ⊢
  have hav : (⟨false, false, false⟩ : Avail) = avThrow := rfl
  rw [hav] at hinv' ⊢
  rw [if_pos hres] at hinv' ⊢
  refine ⟨?_, rfl, ⟨rfl, fun h => ?_, hinv'⟩⟩
  · show obsOf _ _ = _
    rw [hact]
    rcases hr1 : (resumeGen w.gen (.throw k)).1 with v | v | e | _ | _ <;> simp [Res.kind, refThrowPassthrough, obsOf, obsPlain]
  · exact absurd h (resumeGen_not_unstarted _ _ (resumeGen_ne_typeErr _ _ (by intro x; simp)))

/-- one `close` -/
theorem transparent_close (conf : Ty → V → Bool) (ts : Types) (w : W) (g : Gen) (hs : Sync w g) :
    (wrapOp conf ts w .close).1 = (plainOp g .close).1 ∧ (wrapOp conf ts w .close).2.1 = (plainOp g .close).2.1 ∧
    Sync (wrapOp conf ts w .close).2.2 (plainOp g .close).2.2 := by
  obtain ⟨hg, hun, hinv⟩ := hs
  subst hg
  have hcl := (close_step conf ts w hinv).1
  have hcd : closeDelegates = true := cfg_protocol.2.1
  have hw : wrapOp conf ts w .close =
      ((plainOp w.gen .close).1, (plainOp w.gen .close).2.1, ⟨w.init, (plainOp w.gen .close).2.2⟩) := by
    simp only [wrapOp, hcd, ↓reduceIte]
  rw [hw] at hcl ⊢
  refine ⟨rfl, rfl, ⟨rfl, fun h => ?_, hcl⟩⟩
  simp only [plainOp, Op.inp] at h
  exact absurd h (resumeGen_not_unstarted _ _ (resumeGen_ne_typeErr _ _ (by intro x; simp)))

/-- a whole conforming interaction, from any pair of states in step -/
theorem transparent_run (conf : Ty → V → Bool) (ts : Types) : ∀ (ops : List Op) (w : W) (g : Gen), Sync w g →
    allConforming conf ts (plainRun g ops) = true → noDeadResume (plainRun g ops) = true →
    noFailedPriming (plainRun g ops) = true → wrapRun conf ts w ops = plainRun g ops := by
  intro ops
  induction ops with
  | nil => intro w g _ _ _ _; simp [wrapRun, plainRun]
  | cons op ops ih =>
    intro w g hs hc hd hp
    simp only [plainRun, allConforming, noDeadResume, noFailedPriming, List.all_cons, Bool.and_eq_true,
      Bool.not_eq_eq_eq_not, Bool.not_true, bne_iff_ne, ne_eq] at hc hd hp
    simp only [wrapRun, plainRun]
    have hn : nextIsSendNone = true := cfg_protocol.1
    have key : (wrapOp conf ts w op).1 = (plainOp g op).1 ∧ (wrapOp conf ts w op).2.1 = (plainOp g op).2.1 ∧
        Sync (wrapOp conf ts w op).2.2 (plainOp g op).2.2 := by
      cases op with
      | next =>
        simp only [wrapOp, hn, ↓reduceIte, wrapSend_eq]
        simp only [plainOp, Op.inp, reduceCtorEq, ↓reduceIte] at hc hd hp ⊢
        exact transparent_send conf ts w g V.none .next rfl hs hc.1 hd.1 hp.1
      | send x =>
        simp only [wrapOp, wrapSend_eq]
        simp only [plainOp, Op.inp, reduceCtorEq, ↓reduceIte] at hc hd hp ⊢
        exact transparent_send conf ts w g x (.send x) rfl hs hc.1 hd.1 hp.1
      | throw k =>
        simp only [wrapOp]
        simp only [plainOp, Op.inp, reduceCtorEq, ↓reduceIte] at hc hd hp ⊢
        exact transparent_throw conf ts w g k hs hc.1
      | close => exact transparent_close conf ts w g hs
    obtain ⟨k1, k2, k3⟩ := key
    rw [k1, k2]
    congr 1
    exact ih _ _ k3 hc.2 hd.2 hp.2

/-- the full generator clause of C04: whenever every value the body yields, returns or receives conforms, the decorated
    generator function shows the consumer and the body exactly what the undecorated one shows -/
def transparent_full : Prop :=
  ∀ (conf : Ty → V → Bool) (a : Ann) (ts : Types) (script : List GStep) (ops : List Op),
    annMeaning a = some ts → allConforming conf ts (plainRun (Gen.fresh script) ops) = true →
    callAndDrive conf a script ops = some (plainRun (Gen.fresh script) ops)

/-- **C04 (generators), partial form.**  The annotation is spelled `typing.Generator[Y, S, R]` / `typing.Iterator[Y]` /
    `typing.Iterable[Y]`; every value the body of the *undecorated* function yields, returns or receives during the
    interaction conforms; the consumer does not `send` / `next` on a generator that had already finished and does not
    send a non-`None` value to a generator that has not started.  Then the call succeeds and, for every sequence of
    `next` / `send` / `throw` / `close` of any length, every step shows the consumer the same object / the same
    StopIteration value / the same exception, and the body journals the same events (it receives exactly the sent
    objects and the thrown exceptions), as the undecorated generator. -/
theorem transparent_when_conforming (conf : Ty → V → Bool) (a : Ann) (ts : Types) (script : List GStep) (ops : List Op)
    (hm : annMeaning a = some ts) (hsp : typingSpelling a = true)
    (hc : allConforming conf ts (plainRun (Gen.fresh script) ops) = true)
    (hd : noDeadResume (plainRun (Gen.fresh script) ops) = true)
    (hp : noFailedPriming (plainRun (Gen.fresh script) ops) = true) :
    callAndDrive conf a script ops = some (plainRun (Gen.fresh script) ops) := by
  have hts := creation_complete a ts hsp hm
  have hfc := cfg_function_call
  unfold callAndDrive
  simp only [hfc.1, hfc.2.1, hfc.2.2.1, Bool.and_self, Bool.not_true, Bool.false_eq_true, ↓reduceIte, hts, Option.some.injEq]
  refine transparent_run conf ts ops _ _ ⟨rfl, fun _ => ?_, inv_fresh script⟩ hc hd hp
  simp [W.fresh, cfg_protocol.2.2.2.2.1]

/-! ### where the full clause fails (each is a region in which implementation and model agree) -/

/-- finding `exhaustedGeneratorRecheck`: `Generator[int, None, str]`, body `yield 1; return 's'`; the third `next()` hits
    the finished generator: the twin raises StopIteration, the wrapper checks that `None` against `str` -/
def deadAnn : Ann := ⟨"typing.Generator", [.int, .none, .str], false⟩
def deadScript : List GStep := [.yield_ ⟨.int, 1⟩ .nothing, .return_ ⟨.str, 2⟩]

theorem transparent_fails_deadResume :
    annMeaning deadAnn = some ⟨.int, .none, .str⟩ ∧
    allConforming confC ⟨.int, .none, .str⟩ (plainRun (Gen.fresh deadScript) [.next, .next, .next]) = true ∧
    (plainRun (Gen.fresh deadScript) [.next, .next, .next]).map (·.obs) = [.got ⟨.int, 1⟩, .stop ⟨.str, 2⟩, .stop V.none] ∧
    (callAndDrive confC deadAnn deadScript [.next, .next, .next]).map (·.map (·.obs)) =
      some [.got ⟨.int, 1⟩, .stop ⟨.str, 2⟩, .ped] := by
  decide

/-- finding `failedPrimingConsumesInit`: `Generator[int, int, None]`; `send(5)` on the fresh generator is CPython's
    TypeError on both sides, but the wrapper now counts as primed: the following `next()` is rejected (None is no int) -/
def primingAnn : Ann := ⟨"typing.Generator", [.int, .int, .none], false⟩
def primingScript : List GStep := [.yield_ ⟨.int, 1⟩ .nothing]

theorem transparent_fails_failedPriming :
    annMeaning primingAnn = some ⟨.int, .int, .none⟩ ∧
    allConforming confC ⟨.int, .int, .none⟩ (plainRun (Gen.fresh primingScript) [.send ⟨.int, 5⟩, .next]) = true ∧
    (plainRun (Gen.fresh primingScript) [.send ⟨.int, 5⟩, .next]).map (·.obs) = [.typeErr, .got ⟨.int, 1⟩] ∧
    (callAndDrive confC primingAnn primingScript [.send ⟨.int, 5⟩, .next]).map (·.map (·.obs)) = some [.typeErr, .ped] := by
  decide

/-- finding `generatorAnnotationSpelling`: `collections.abc.Iterator[int]` and the string annotation `'Iterator[int]'`
    mean the same as `typing.Iterator[int]`, but the call is refused -/
theorem transparent_fails_spelling :
    annMeaning ⟨"collections.abc.Iterator", [.int], false⟩ = some ⟨.int, .none, .none⟩ ∧
    callAndDrive confC ⟨"collections.abc.Iterator", [.int], false⟩ [.yield_ ⟨.int, 1⟩ .nothing] [.next] = none ∧
    annMeaning ⟨"typing.Iterator", [.int], true⟩ = some ⟨.int, .none, .none⟩ ∧
    callAndDrive confC ⟨"typing.Iterator", [.int], true⟩ [.yield_ ⟨.int, 1⟩ .nothing] [.next] = none := by
  decide

/-- **the full clause does not hold** -/
theorem transparent_full_false : ¬ transparent_full := by
  intro h
  obtain ⟨hm, hc, hpl, hwr⟩ := transparent_fails_deadResume
  have := h confC _ _ _ _ hm hc
  rw [this] at hwr
  simp only [Option.map_some, Option.some.injEq] at hwr
  rw [hpl] at hwr
  simp at hwr

/-! ### non-vacuity -/

/-- a conforming interaction with send, throw (caught by the body) and close meets every hypothesis -/
example :
    let a : Ann := ⟨"typing.Generator", [.int, .str, .none], false⟩
    let script : List GStep := [.yield_ ⟨.int, 1⟩ .nothing, .yield_ ⟨.bool, 1⟩ .exc, .yield_ ⟨.int, 3⟩ .nothing]
    let ops : List Op := [.next, .send ⟨.str, 4⟩, .throw 9, .close, .close]
    annMeaning a = some ⟨.int, .str, .none⟩ ∧ typingSpelling a = true ∧
    allConforming confC ⟨.int, .str, .none⟩ (plainRun (Gen.fresh script) ops) = true ∧
    noDeadResume (plainRun (Gen.fresh script) ops) = true ∧ noFailedPriming (plainRun (Gen.fresh script) ops) = true ∧
    plainRun (Gen.fresh script) ops =
      [⟨.next, .got ⟨.int, 1⟩, [.yielded ⟨.int, 1⟩]⟩,
       ⟨.send ⟨.str, 4⟩, .got ⟨.bool, 1⟩, [.recv ⟨.str, 4⟩, .yielded ⟨.bool, 1⟩]⟩,
       ⟨.throw 9, .got ⟨.int, 3⟩, [.thrown 9, .yielded ⟨.int, 3⟩]⟩,
       ⟨.close, .closed, [.exit]⟩, ⟨.close, .closed, []⟩] := by decide

/-- a body exception passes through unchanged -/
example : callAndDrive confC ⟨"typing.Iterator", [.int], false⟩ [.yield_ ⟨.int, 1⟩ .nothing, .raise_ 3] [.next, .next] =
    some (plainRun (Gen.fresh [.yield_ ⟨.int, 1⟩ .nothing, .raise_ 3]) [.next, .next]) := by decide

end PedVerif.GenWrap
