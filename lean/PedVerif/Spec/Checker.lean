import PedVerif.Model.Checker
/-!
Independent specification of "the value conforms to the annotation under runtime typing semantics" (C01/C02), written
from the property text: isinstance for classes, every element / key / value conforming for containers (after the
container itself is an instance of the origin), exact arity for fixed tuples, membership (Python `==`) for Literal, the
supertype for NewType, issubclass (member-wise for a Union argument) for Type[C], the class named by a forward reference
or string annotation *resolved in the context*.
-/
namespace PedVerif.Checker

/-- class-level subtype relation used for `Type[C]` -/
def memberSpec (env : Env) (c : ClsId) : Ann → Bool
  | .any => true
  | .cls d => env.sub c d
  | .clsF d _ _ => env.sub c d
  -- a parametrised generic as a member: a class object can only be compared with it at class level (its origin class)
  | .seq _ o _ => env.sub c (env.seqCls o)
  | .map _ o _ _ => env.sub c (env.mapCls o)
  | .tuple _ _ => env.sub c env.tupleCls
  | .tupleVar _ _ => env.sub c env.tupleCls
  | .typeOf _ _ => env.sub c env.typeCls
  | _ => false
def subSpec (env : Env) (c : ClsId) : Ann → Bool
  | .any => true
  | .cls d => env.sub c d
  | .clsF d _ _ => env.sub c d
  | .union _ ms => ms.any (memberSpec env c)
  | _ => false

mutual
def conforms (env : Env) : Ann → Val → Bool
  | .none, v => v.isNone
  | .cls c, v => env.sub (v.typeOf env) c
  | .clsF c _ _, v => env.sub (v.typeOf env) c
  | .any, _ => true
  | .union _ ms, v => conformsAny env ms v
  | .literal ls, v => (match v with | .lit l => ls.any (litEq l) | _ => false)
  | .newType s, v => env.sub (v.typeOf env) s
  | .typeOf _ a, v => (match v with | .clsObj c => subSpec env c a | _ => false)
  | .fwd n, v => (match env.ctx n with | some c => env.sub (v.typeOf env) c | Option.none => false)
  | .strAnn n, v => (match env.ctx n with | some c => env.sub (v.typeOf env) c | Option.none => false)
  | .seq _ o a, v => env.sub (v.typeOf env) (env.seqCls o) &&
      (match v.iter with | some xs => xs.all (fun x => conforms env a x) | Option.none => false)
  | .map _ o k w, v => env.sub (v.typeOf env) (env.mapCls o) &&
      (match v.items with | some kvs => kvs.all (fun kv => conforms env k kv.1 && conforms env w kv.2) | Option.none => false)
  | .tuple _ items, v => env.sub (v.typeOf env) env.tupleCls &&
      (match v.tupleItems with | some xs => conformsZip env items xs | Option.none => false)
  | .tupleVar _ a, v => env.sub (v.typeOf env) env.tupleCls &&
      (match v.tupleItems with | some xs => xs.all (fun x => conforms env a x) | Option.none => false)
  | .bare _, _ => false
  | .special _, _ => false
def conformsAny (env : Env) : List Ann → Val → Bool
  | [], _ => false
  | a :: as, v => conforms env a v || conformsAny env as v
def conformsZip (env : Env) : List Ann → List Val → Bool
  | [], [] => true
  | a :: as, x :: xs => conforms env a x && conformsZip env as xs
  | _, _ => false
end

/-- the vocabulary the properties C01/C02 speak about: no bare generic and no unsupported object anywhere -/
def Ann.inVocab : Ann → Bool
  | .bare _ | .special _ => false
  | .clsF _ _ anns => inVocabL anns
  | .union _ ms => inVocabL ms
  | .typeOf _ a => a.inVocab
  | .seq _ _ a => a.inVocab
  | .map _ _ k v => k.inVocab && v.inVocab
  | .tuple _ items => inVocabL items
  | .tupleVar _ a => a.inVocab
  | _ => true
where inVocabL : List Ann → Bool
  | [] => true
  | a :: as => a.inVocab && inVocabL as

end PedVerif.Checker
