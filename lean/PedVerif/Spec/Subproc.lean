import PedVerif.Model.Subproc
/-!
# Specification of C17, written from the property text (not from the code)

"Awaiting an @in_subprocess function yields exactly what the function returns or raises, computed in a different
process; … any number of concurrent invocations each receive their own result.  Every invocation terminates — including
when the child process dies without reporting a result — and leaves no open pipe ends and no un-reaped child behind."
-/
namespace PedVerif.Subproc

/-- what the awaiting caller observes -/
inductive Obs where
  | returns (v : Nat)            -- the object with id v
  | raises (e : Nat)             -- the exception with id e
  | raisesChildProcessError      -- "the subprocess terminated without returning a result"
  | raisesOther                  -- any other error
  | returnsOther                 -- a value that is not the callee's result
  | cancelled                    -- CancelledError (for the caller of `wait_for`: TimeoutError): the awaiting task was cancelled
deriving DecidableEq, Repr

/-- the observations the property allows for a callee behaviour.  A function that returns or raises is reproduced
    exactly; a child that ends without reporting (exit, signal, SystemExit/KeyboardInterrupt — which end the process —
    or a value that cannot be sent) must surface as an error, never as a value and never as a hang; a child killed in
    the middle of a transfer either got its value through or surfaces as an error. -/
def Spec.allowed : Callee → List Obs
  | .ret v => [.returns v]
  | .raiseExc e => [.raises e]
  | .raiseBase _ => [.raisesChildProcessError]
  | .hardDeath _ => [.raisesChildProcessError]
  | .unpicklable => [.raisesChildProcessError, .raisesOther]
  | .afterSendDeath v => [.returns v]
  | .midSendDeath v => [.returns v, .raisesChildProcessError, .raisesOther]
  | .spawns v => [.returns v]      -- "exactly what the function returns when run with the same arguments": run directly it returns v

/-- … for a call: "exactly what the function returns or raises when run with the same arguments" — arguments the callable does
    not accept make the call itself raise (a TypeError, id `e`), and that is then what the caller must get; arguments it accepts give
    the callee's behaviour.  What `inspect.signature` reports about the callable is not part of the question. -/
def Spec.allowedCall (fits : Bool) (c : Callee) (e : Nat) : List Obs :=
  if fits then Spec.allowed c else [.raises e]

/-- translation of the model's outcome into an observation: "the object the child sent" is the callee's value / exception -/
def observe (c : Callee) : Outcome → Obs
  | .retOk => match c with
      | .ret v => .returns v
      | .afterSendDeath v => .returns v
      | .midSendDeath v => .returns v
      | .spawns v => .returns v
      | _ => .returnsOther
  | .retForeign => .returnsOther
  | .raisedCallee => match c with
      | .raiseExc e => .raises e
      | .raiseBase e => .raises e
      | _ => .raisesOther
  | .raisedCPE => .raisesChildProcessError
  | .raisedEof => .raisesOther
  | .raisedErr => .raisesOther
  | .cancelled => .cancelled

/-- an invocation whose awaiting task the environment cancels while it is pending (task.cancel(), `asyncio.wait_for` running out):
    the property's first clause has nothing to yield — the caller gets the cancellation —, its last clause applies in full: the
    invocation ends, and no pipe end and no un-reaped child is left behind. -/
def Spec.allowedCancelled : List Obs := [.cancelled]

/-- "every invocation terminates": the specification names, for every callee behaviour, at least one observation the caller must
    get, and none of them is "still pending" — an invocation that hangs meets none (this is what the driver reports as the
    specification's `terminates`; "leaves nothing behind" is demanded of every invocation, whatever it observed) -/
def Spec.mustTerminate (cs : List Callee) : Bool := cs.all (fun c => !(Spec.allowed c).isEmpty) && !Spec.allowedCancelled.isEmpty

end PedVerif.Subproc
