import PedVerif.Model.Subproc
/-!
# Specification of C17, written from the property text (not from the code)

"Awaiting an @in_subprocess function yields exactly what the function returns or raises, computed in a different
process; … any number of concurrent invocations each receive their own result.  Every invocation terminates — including
when the child process dies without reporting a result — and leaves no open pipe ends and no un-reaped child behind."
-/
namespace PedVerif.Subproc

/-- what the awaiting caller observes -/
inductive Obs where
  | returns (v : Nat)            -- the object with id v
  | raises (e : Nat)             -- the exception with id e
  | raisesChildProcessError      -- "the subprocess terminated without returning a result"
  | raisesOther                  -- any other error
  | returnsOther                 -- a value that is not the callee's result
deriving DecidableEq, Repr

/-- the observations the property allows for a callee behaviour.  A function that returns or raises is reproduced
    exactly; a child that ends without reporting (exit, signal, SystemExit/KeyboardInterrupt — which end the process —
    or a value that cannot be sent) must surface as an error, never as a value and never as a hang; a child killed in
    the middle of a transfer either got its value through or surfaces as an error. -/
def Spec.allowed : Callee → List Obs
  | .ret v => [.returns v]
  | .raiseExc e => [.raises e]
  | .raiseBase _ => [.raisesChildProcessError]
  | .hardDeath _ => [.raisesChildProcessError]
  | .unpicklable => [.raisesChildProcessError, .raisesOther]
  | .afterSendDeath v => [.returns v]
  | .midSendDeath v => [.returns v, .raisesChildProcessError, .raisesOther]
  | .spawns v => [.returns v]      -- "exactly what the function returns when run with the same arguments": run directly it returns v

/-- translation of the model's outcome into an observation: "the object the child sent" is the callee's value / exception -/
def observe (c : Callee) : Outcome → Obs
  | .retOk => match c with
      | .ret v => .returns v
      | .afterSendDeath v => .returns v
      | .midSendDeath v => .returns v
      | .spawns v => .returns v
      | _ => .returnsOther
  | .retForeign => .returnsOther
  | .raisedCallee => match c with
      | .raiseExc e => .raises e
      | .raiseBase e => .raises e
      | _ => .raisesOther
  | .raisedCPE => .raisesChildProcessError
  | .raisedEof => .raisesOther
  | .raisedErr => .raisesOther

/-- besides the per-invocation observation the property demands of every scenario: all invocations end (no hang), and
    afterwards no pipe end, reader registration or child process is left (`terminates = true`, `released = true` — the
    driver reports these two constants as the specification's verdict). -/
def Spec.mustTerminate : Bool := true
def Spec.mustRelease : Bool := true

end PedVerif.Subproc
