import PedVerif.Model.Utility
/-!
Independent specification of C18, written from the property text — not from the wrapper bodies and not through the
effect language.  A decorated function is described by the *names* of the decorators in the stack; the specification
says what the caller must observe after awaiting: which invocations of the decorated body happen (with which bound
arguments), which result / exception comes out, how many `DeprecationWarning`s are emitted, by how much every
`count_calls` counter moves.  It says nothing about printing.  Where the property text is silent the outcome is marked
`unspec` and only the correspondence between model and implementation is checked.  A positional call through `require_kwargs` is
marked `mayReject`: the layer may refuse it (C05 says when), but a call it lets through must be transparent.

Shared with the model (environment, not decorator code): Python's argument binding `bind`, body scripts, `World`.
-/
namespace PedVerif.Utility
open PedVerif.Gen.Wrappers (Callee)

inductive Kind where
  | trace | timer | countCalls | deprecated | traceIfReturns | doesSame | renameKwargs | overrides | requireKwargs
  | mock | unimplemented
deriving DecidableEq, Repr

def Kind.ofName (s : String) : Option Kind :=
  if s = "trace" then some .trace else if s = "timer" then some .timer else if s = "count_calls" then some .countCalls
  else if s = "deprecated" then some .deprecated else if s = "trace_if_returns" then some .traceIfReturns
  else if s = "does_same_as_function" then some .doesSame else if s = "rename_kwargs" then some .renameKwargs
  else if s = "overrides" then some .overrides else if s = "require_kwargs" then some .requireKwargs
  else if s = "mock" then some .mock else if s = "unimplemented" then some .unimplemented else none

/-- "those that provide a dedicated coroutine wrapper … keep a coroutine function a coroutine function" -/
def Kind.dedicated : Kind → Bool
  | .trace | .timer | .traceIfReturns | .doesSame | .mock => true
  | _ => false

inductive SFn where
  | body (b : Body)
  | gen (g : GenBody)
  | bound (self : Nat) (inner : SFn)
  | layer (k : Kind) (p : Params) (inner : SFn)

def SFn.bodyIsCoro : SFn → Bool
  | .body b => b.isCoro
  | .gen _ => false
  | .bound _ i => i.bodyIsCoro
  | .layer _ _ i => i.bodyIsCoro

/-- is the callable a coroutine function?  Only the dedicated group promises to keep it (`overrides` returns the function
    itself); the others return a plain function -/
def SFn.isCoro : SFn → Bool
  | .body b => b.isCoro
  | .gen _ => false
  | .bound _ i => i.isCoro
  | .layer k _ i => if k = .overrides then i.isCoro else k.dedicated && i.isCoro

def SFn.nCounters : SFn → Nat
  | .body _ => 0
  | .gen _ => 0
  | .bound _ i => i.nCounters
  | .layer k _ i => (if k = .countCalls then 1 else 0) + i.nCounters

/-- what the caller must observe for one call (after awaiting) -/
structure SOut where
  res : RTag
  calls : List Ev                 -- invocations of the decorated body
  warns : Nat                     -- DeprecationWarnings emitted
  incrs : List Int                -- movement of every count_calls counter, outermost first
  unspec : Bool                   -- the property text does not determine this call
  w : World
  /-- a positional call reached a `require_kwargs` layer: that layer may refuse it with `PedanticCallWithArgsException` before anything
      underneath runs (which calls it refuses is C05's subject); if it lets the call through, everything above describes the call —
      the decorated callable receives every argument of the caller, positional ones included -/
  mayReject : Bool := false
deriving Repr

def outcTag : Outc → RTag
  | .ret v => .obj v
  | .exc e b => .exc (.body e b)

/-- the undecorated function: bind the arguments, run the body once -/
def specBody (b : Body) (a : Args) (w : World) : SOut :=
  match bind b.sig a with
  | none => ⟨.exc (.lib "TypeError"), [], 0, [], false, w, false⟩
  | some bd => ⟨outcTag (b.script w.inv), [.body .wrapped w.inv bd], 0, [], false, { w with inv := w.inv + 1 }, false⟩

/-- the last rule for `k` decides (the rules form a dict keyed by `from_`) -/
def ruleFor (k : Nat) : List (Nat × Nat) → Option Nat
  | [] => none
  | (f, t) :: rest =>
    match ruleFor k rest with
    | some t' => some t'
    | none => if f = k then some t else none

def renameKey (rules : List (Nat × Nat)) (k : Nat) : Nat := (ruleFor k rules).getD k

/-- "renames exactly the listed keywords": every keyword travels under its new name, values untouched; when two
    keywords end up under the same name the later one wins (they are one dict) -/
def specRename (rules : List (Nat × Nat)) : List (Nat × Nat) → List (Nat × Nat) → List (Nat × Nat)
  | acc, [] => acc
  | acc, (k, v) :: rest => specRename rules (dictSet (renameKey rules k) v acc) rest

/-- calling a generator function: the arguments are bound, a generator object comes back, nothing has run -/
def specGenCall (g : GenBody) (a : Args) (w : World) : SOut :=
  match bind g.sig a with
  | none => ⟨.exc (.lib "TypeError"), [], 0, [], false, w, false⟩
  | some _ => ⟨.gen, [], 0, [], false, w, false⟩

/-- `nSelf`: how many leading positional arguments were bound by attribute access (the instance) -/
def spec : SFn → Nat → Args → World → SOut
  | .body b, _, a, w => specBody b a w
  | .gen g, _, a, w => specGenCall g a w
  | .bound s i, n, a, w => spec i (n + 1) { a with pos := s :: a.pos } w
  | .layer k p i, n, a, w =>
    match k with
    | .trace | .timer | .traceIfReturns | .overrides => spec i n a w
    | .requireKwargs =>
      let r := spec i n a w
      -- a staticmethod / classmethod object (the decorator written above `@staticmethod`) is not a function: outside the property
      if p.guard.notFunction then { r with unspec := true }
      -- a positional call is either refused by this layer or goes through unchanged
      else if a.pos.length > n then { r with mayReject := true } else r
    | .countCalls =>
      let r := spec i n a w
      { r with incrs := 1 :: r.incrs }
    | .deprecated =>
      let r := spec i n a w
      { r with warns := r.warns + 1 }
    | .renameKwargs => spec i n { a with kw := specRename p.renames [] a.kw } w
    | .mock => ⟨.obj p.param, [], 0, List.replicate i.nCounters 0, false, w, false⟩
    | .unimplemented => ⟨.exc (.lib "NotImplementedException"), [], 0, List.replicate i.nCounters 0, false, w, false⟩
    | .doesSame =>
      let r := spec i n a w
      if !i.isCoro && i.bodyIsCoro then { r with unspec := true }    -- a plain wrapper hands a coroutine object up: not two results that could agree
      else
        match r.res with
        | .obj v =>
          match bind p.other.sig a with
          | none => { r with unspec := true }
          | some _ =>
            if !i.isCoro && p.other.isCoro then { r with res := .exc (.lib "AssertionError") }   -- other's result is a coroutine object: differs
            else
              match p.other.script r.w.oinv with
              | .ret u =>
                if u.cls = v.cls then { r with w := { r.w with oinv := r.w.oinv + 1 } }
                else { r with res := .exc (.lib "AssertionError"), w := { r.w with oinv := r.w.oinv + 1 } }
              | .exc _ _ => { r with unspec := true, w := { r.w with oinv := r.w.oinv + 1 } }    -- "when both agree": other raising is not covered
        | .gen => { r with unspec := true }            -- two generator objects never compare equal: nothing to agree on
        | _ => r

/-! ### Generator functions under the decorators

"Do not alter the observable behaviour of the decorated callable": the caller of a decorated generator function holds a generator it
can drive exactly like the one the undecorated function hands out — every `send` value and every thrown exception reaches the body,
`close` closes it, the `return` value comes back.  The specification names the generator the caller must end up driving: the decorated
function's own, with the caller's (renamed) arguments bound; `none`: the call hands out no generator (TypeError, mock, unimplemented). -/

/-- which generator body, with which bound arguments, the caller of the stack must end up driving -/
def specGenTarget : SFn → Args → Option (GenBody × Bound)
  | .body _, _ => none
  | .gen g, a => (bind g.sig a).map (fun bd => (g, bd))
  | .bound s i, a => specGenTarget i { a with pos := s :: a.pos }
  | .layer k p i, a =>
    match k with
    | .mock | .unimplemented => none
    | .renameKwargs => specGenTarget i { a with kw := specRename p.renames [] a.kw }
    | _ => specGenTarget i a

/-- what driving the result of the call shows, and what the body of the generator notes down meanwhile -/
def specDrive (f : SFn) (a : Args) (ops : List GenOp) (w : World) : Option (List GenObs × List Ev × World) :=
  (specGenTarget f a).map (fun gb => genRun gb.1 .wrapped gb.2 .fresh ops w)

/-! ### Property members of a class under `trace_class` / `timer_class`

Written from the property text: the decorated class behaves like the undecorated one — reading calls the getter with the instance,
assigning the setter with the instance and the value, `del` the deleter with the instance; an accessor the property does not have
is an AttributeError, before and after. -/

def specPropAccess (fget fset fdel : Option Body) (self : Nat) (op : PropOp) (w : World) : SOut :=
  let slot : Option Body := match op with
    | .get => fget
    | .set _ => fset
    | .del => fdel
  match slot with
  | none => ⟨.exc (.lib "AttributeError"), [], 0, [], false, w, false⟩
  | some b =>
    let r := specBody b (match op with | .get => ⟨[self], []⟩ | .set v => ⟨[self, v], []⟩ | .del => ⟨[self], []⟩) w
    match op, r.res with
    | .get, _ => r
    | _, .exc _ => r
    | _, _ => { r with res := .none }

/-! ### Re-entrant calls (recursion, callbacks): what the UNDECORATED function does, and how many calls were made

Written from the property text, without wrappers: every call of the function binds, journals one body invocation, makes the
planned nested calls and returns the script's outcome; `n` counts the calls made (the outer one, the nested ones, calls that fail
to bind included) — "count_calls counts every call once" says that this is what the counter moves by. -/

structure ROut where
  res : RTag
  calls : List Ev          -- body invocations in the order they start
  n : Nat                  -- calls of the function made, this one included
  w : World
deriving Repr

def specPlan (f : Args → World → ROut) : List Args → World → List Ev × Nat × World
  | [], w => ([], 0, w)
  | a :: rest, w =>
    let o := f a w
    let r := specPlan f rest o.w
    (o.calls ++ r.1, o.n + r.2.1, r.2.2)

def specReent (b : Body) (plan : Nat → List Args) : Nat → Args → World → ROut
  | fuel, a, w =>
    match bind b.sig a with
    | none => ⟨.exc (.lib "TypeError"), [], 1, w⟩
    | some bd =>
      let i := w.inv
      let w1 : World := { w with inv := w.inv + 1 }
      match fuel with
      | 0 => ⟨outcTag (b.script i), [.body .wrapped i bd], 1, w1⟩
      | k + 1 =>
        let r := specPlan (specReent b plan k) (plan i) w1
        ⟨outcTag (b.script i), .body .wrapped i bd :: r.1, 1 + r.2.1, r.2.2⟩

/-- "the base class lacks the name": no class body along its MRO — its own or an ancestor's — binds the name (whatever object is
    bound there: a method, a property, `None`, `0`, …); what merely the *metaclass* binds or answers (`mro`, `__call__`, a `__getattr__`
    hook) is not a name of the class.  A class whose metaclass overrides `__dir__` states a listing of its own: the property text does
    not say whether that listing or the class bodies decide there — such classes are left unspecified (`overridesUnspec`), only the
    correspondence between model and implementation is checked for them. -/
def LacksName (c : ClassDesc) (n : Nat) : Prop := ∀ body ∈ c.mro, ∀ m ∈ body, m.name ≠ n

/-- the same, executable -/
def hasName (c : ClassDesc) (n : Nat) : Bool := c.mro.any (fun body => body.any (fun m => m.name == n))

/-- some `overrides` layer of the stack names a class that states its own `dir()` listing: decoration is not specified -/
def overridesUnspec : SFn → Bool
  | .body _ => false
  | .gen _ => false
  | .bound _ i => overridesUnspec i
  | .layer k p i => (k == .overrides && p.base.dirOverride.isSome) || overridesUnspec i

/-- applying the decorators, innermost first: `overrides` fails iff the base class lacks the name -/
def specDecorate : SFn → Option Exc
  | .body _ => none
  | .gen _ => none
  | .bound _ i => specDecorate i
  | .layer k p i =>
    match specDecorate i with
    | some e => some e
    | none => if k = .overrides && !hasName p.base p.fname then some (.lib "PedanticOverrideException") else none

def specHistory (f : SFn) (n : Nat) : List Args → World → List SOut
  | [], _ => []
  | a :: rest, w =>
    let o := spec f n a w
    o :: specHistory f n rest o.w

/-- coroutine-ness the property promises: kept when every layer is of the dedicated group (or is `overrides`) -/
def SFn.allDedicated : SFn → Bool
  | .body _ => true
  | .gen _ => true
  | .bound _ i => i.allDedicated
  | .layer k _ i => (k.dedicated || k = .overrides) && i.allDedicated

end PedVerif.Utility
