import PedVerif.Model.CallLayer
/-!
Specification side of the call-layer properties (C03 C04 C05, call level of C06 C08), written from the property texts:
which supplied values count, when a call is "keyword" / "positional", which callables are exempt, and the *truth* the
source-text heuristics stand for.
-/
namespace PedVerif.Call
open PedVerif.Checker

/-- ground truth about the callable that the library only guesses from the source text (supplied by whoever built it) -/
structure Truth where
  realStatic : Bool            -- the function really is a static method
  realSetter : Bool            -- the function really is a property setter
  realPedantic : Bool          -- the function carries a decorator line spelled @pedantic / @require_kwargs
  implicit : Nat               -- how many leading positional arguments of the call are the implicit self / cls
deriving Repr

def hasVarPos (f : Fn) : Bool := f.params.any (fun p => p.kind == .varPos)

/-- each source-text flag equals the fact it stands for -/
def truthful (f : Fn) (t : Truth) : Bool :=
  f.wantsArgs == hasVarPos f && f.isStatic == t.realStatic && f.isSetter == t.realSetter && f.isPedantic == t.realPedantic

/-- the declared default or explicit keyword value that the call uses for a declared parameter -/
def usedValue (kw : List (NameId × Val)) (p : Param) : Option Val :=
  match lookup kw p.name with
  | some v => some v
  | none => p.dflt

/-- an annotated declared parameter whose used value (explicit keyword, else declared default) does not conform -/
def badParam (env : Env) (kw : List (NameId × Val)) (p : Param) : Bool :=
  match p.ann, usedValue kw p with
  | some a, some v => !conforms env a v
  | _, _ => false

def badStar (env : Env) (f : Fn) (args : List Val) : Bool :=
  match f.star with
  | some p => (match p.ann with | some a => (args.drop f.nPositional).any (fun v => !conforms env a v) | none => false)
  | none => false

def badDStar (env : Env) (f : Fn) (kw : List (NameId × Val)) : Bool :=
  match f.dstar with
  | some p => (match p.ann with | some a => (extraKw f kw).any (fun kv => !conforms env a kv.2) | none => false)
  | none => false

/-- C03: some supplied value (explicit keyword, omitted-but-defaulted, *args element, **kwargs value) does not conform -/
def anyNonConforming (env : Env) (f : Fn) (args : List Val) (kw : List (NameId × Val)) : Bool :=
  f.plain.any (badParam env kw) || badStar env f args || badDStar env f kw

/-- C03 for callables that Python itself calls positionally (property setters: `obj.x = v`): some value bound positionally
    to a declared parameter (after the implicit self / cls) does not conform -/
def positionalBad (env : Env) (f : Fn) (t : Truth) (args : List Val) : Bool :=
  ((args.drop t.implicit).zip f.plain).any (fun vp => match vp.2.ann with | some a => !conforms env a vp.1 | none => false)

/-- C03 for positional calls (dunder methods such as `__call__` / `__getitem__`, functions with `*args`, positional-only
    parameters): the first `k` declared parameters take the `k` positional values (Python's own binding), none of them has a
    default or is also given by keyword, and one of the values does not conform.  (A positional value for a *defaulted*
    parameter is outside the enumeration of C03's statement and outside this predicate: DESIGN §I.7.) -/
def positionalPrefixBad (env : Env) (f : Fn) (t : Truth) (args : List Val) (kw : List (NameId × Val)) : Bool :=
  let pos := args.drop t.implicit
  ((f.plain.take pos.length).all fun p => p.dflt.isNone && (lookup kw p.name).isNone) &&
  (pos.zip f.plain).any (fun vp => match vp.2.ann with | some a => !conforms env a vp.1 | none => false)

/-- C03, `*args` clause by Python's own binding: the positional values left over after the implicit receiver and the declared
    positional parameters are the elements of `*args`; one of them does not conform to its annotation -/
def starValues (f : Fn) (t : Truth) (args : List Val) : List Val :=
  (args.drop t.implicit).drop (f.plain.filter fun p => p.kind == .posOnly || p.kind == .posOrKw).length
def badStarSpec (env : Env) (f : Fn) (t : Truth) (args : List Val) : Bool :=
  match f.star with
  | some p => (match p.ann with | some a => (starValues f t args).any (fun v => !conforms env a v) | none => false)
  | none => false

/-- C03: the produced value does not conform to the return annotation -/
def badProduced (env : Env) (f : Fn) (body : BodyOut) : Bool :=
  match body, f.retAnn with
  | .ret v, some a => f.flavour != .generator && !conforms env a v
  | _, _ => false

/-- C04: every annotated parameter has a conforming used value, star values conform, the result conforms -/
def goodParam (env : Env) (kw : List (NameId × Val)) (p : Param) : Bool :=
  match p.ann, usedValue kw p with
  | some a, some v => conforms env a v
  | _, _ => false
def starAnnotated (f : Fn) : Bool :=
  (match f.star with | some p => p.ann.isSome | none => true) && (match f.dstar with | some p => p.ann.isSome | none => true)
def allConforming (env : Env) (f : Fn) (args : List Val) (kw : List (NameId × Val)) (body : BodyOut) : Bool :=
  f.plain.all (goodParam env kw) && starAnnotated f &&
  !badStar env f args && !badDStar env f kw &&
  (match body, f.retAnn with
   | .ret v, some a => f.flavour == .generator || conforms env a v
   | .raises _, some _ => true
   | _, none => false)

/-- C06: the annotation is missing or is a generic without type arguments -/
def incompleteAnn : Option Ann → Bool
  | none => true
  | some (.bare _) => true
  | _ => false
/-- C06: some parameter (declared, *args or **kwargs) has an incomplete annotation -/
def incompleteParam (f : Fn) : Bool :=
  f.plain.any (fun p => incompleteAnn p.ann) ||
  (match f.star with | some p => incompleteAnn p.ann | none => false) ||
  (match f.dstar with | some p => incompleteAnn p.ann | none => false)
def incompleteReturn (f : Fn) : Bool := incompleteAnn f.retAnn

/-- the call passes no declared parameter positionally -/
def keywordCall (t : Truth) (args : List Val) : Bool := args.length ≤ t.implicit

/-- C05: the documented list of operator methods that stay subject to the keyword-only discipline, transcribed from the documentation of
    the property (NOT read from the code: `documented_list_is_code_list` in Props/C05.lean proves that the generated
    `requireKwargsDunders` equals it, so deleting an entry in the source breaks that theorem instead of moving the spec along) -/
def documentedKwargsDunders : List String :=
  ["__new__", "__init__", "__str__", "__del__", "__int__", "__float__", "__complex__", "__oct__", "__hex__", "__index__", "__trunc__",
   "__repr__", "__unicode__", "__hash__", "__nonzero__", "__dir__", "__sizeof__"]
/-- C05: the callable is exempt from the keyword-only discipline (operator methods outside the documented list, property
    setters) -/
def exempt (f : Fn) (t : Truth) : Bool :=
  t.realSetter || (f.startsDunder && f.endsDunder && !documentedKwargsDunders.contains f.name)

/-- region `receiverNotNamedSelf` (C05): the call has an implicit receiver (`obj.m(…)`: harness truth `implicit = 1`) and nothing else
    positional, but the library does not recognise a receiver - it knows instance methods by the NAME of the first parameter (`self`), static
    methods by the decorator text, and otherwise only a second decorator line makes it drop the first argument -/
def regionReceiverNotNamedSelf (f : Fn) (t : Truth) (args : List Val) : Bool :=
  t.implicit == 1 && args.length == 1 && !f.strips
/-- region `positionalForDefaulted` (C03): a positional value (after the implicit receiver) that binds to a declared parameter WITH a default
    and does not conform to its annotation.  `_check_type_param` never looks at a positional value for a defaulted parameter (it checks the
    keyword or the declared default), so such a value is outside the enumeration "explicit keyword, omitted-but-defaulted, *args element,
    **kwargs value" of C03 and outside `anyNonConforming`; this predicate names the region -/
def positionalForDefaultedBad (env : Env) (f : Fn) (t : Truth) (args : List Val) : Bool :=
  ((args.drop t.implicit).zip f.plain).any (fun vp => vp.2.dflt.isSome &&
    (match vp.2.ann with | some a => !conforms env a vp.1 | none => false))

/-- region: the first positional argument is stripped as if it were `self`/`cls` although the call has no implicit
    argument, it is the only positional, and nothing later notices (the first declared parameter has a default, or the
    decorator is `require_kwargs`, which checks nothing else) -/
def regionStripped (f : Fn) (t : Truth) (args : List Val) : Bool :=
  f.strips && t.implicit == 0 && args.length == 1 &&
  (f.mode == .requireKwargs || (match f.plain.head? with | some p => p.dflt.isSome | none => true))


end PedVerif.Call
