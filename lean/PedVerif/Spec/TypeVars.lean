import PedVerif.Model.TypeVars
/-!
Independent specification of C07, written from the property text (it shares only the syntax `A`, `Val`, `Env`, `Call`
with the model).

* `conforms`: a value conforms to a TypeVar-free annotation.
* `walk`: what the property demands of one call — every TypeVar is tied to the runtime class of the first value matched
  against it; a later value of the identical class is compatible, a later value of an unrelated class demands
  PedanticTypeVarMismatchException, constraints and bounds must hold, everything TypeVar-free must conform.
  Values whose class is a proper sub- or superclass of the first one are not claimed (`unclaimed`), except for a
  contravariant TypeVar, where a superclass is compatible.
* for an instance created as `Cls[X]()`, the class parameters are replaced by `X` first (`subst`), so a value at a
  `T`-annotated position is demanded to be accepted iff it conforms to `X`.
* the specification has no state between calls: bindings of one call never influence another call or instance.
-/
namespace PedVerif.TypeVars.Spec
open PedVerif.TypeVars

inductive Verdict where
  | accept          -- the call must be accepted
  | tvm             -- the call must raise PedanticTypeVarMismatchException
  | tvmInUnion      -- ... and the offending value sits at a TypeVar that is a direct member of an Optional
  | reject          -- the call must be rejected with a PedanticException (type check or TypeVar mismatch)
  | unclaimed       -- the property does not say
deriving DecidableEq, Repr

mutual
def closed : A → Bool
  | .tv _ => false
  | .cls _ => true
  | .any => true
  | .listOf a => closed a
  | .dictOf k w => closed k && closed w
  | .tupleOf items => closedL items
  | .tupleVar a => closed a
  | .union ms => closedL ms
  | .typeOf a => closed a
def closedL : List A → Bool
  | [] => true
  | a :: as => closed a && closedL as
end

mutual
/-- `v` conforms to the TypeVar-free annotation -/
def conforms (env : Env) : A → Val → Bool
  | .cls c, v => env.sub (v.typeOf env) c
  | .any, _ => true
  | .tv _, _ => false
  | .listOf a, v => (match v with | .list xs => xs.all (conforms env a) | _ => false)
  | .dictOf k w, v => (match v with | .dict kvs => kvs.all (fun kv => conforms env k kv.1 && conforms env w kv.2) | _ => false)
  | .tupleOf items, v => (match v with | .tuple xs => xs.length == items.length && conformsZip env items xs | _ => false)
  | .tupleVar a, v => (match v with | .tuple xs => xs.all (conforms env a) | _ => false)
  | .union ms, v => conformsAny env ms v
  | .typeOf a, v =>
      (match v with
       | .clsObj c => (match a with | .any => true | .cls d => env.sub c d | _ => false)
       | _ => false)
def conformsZip (env : Env) : List A → List Val → Bool
  | a :: as, x :: xs => conforms env a x && conformsZip env as xs
  | _, _ => true
def conformsAny (env : Env) : List A → Val → Bool
  | [], _ => false
  | a :: as, v => conforms env a v || conformsAny env as v
end

/-- first runtime class seen per TypeVar in this call -/
abbrev Seen := List (TVId × ClsId)
def Seen.get? : Seen → TVId → Option ClsId
  | [], _ => none
  | (k, c) :: r, t => if k == t then some c else Seen.get? r t

inductive W where
  | cont (s : Seen)
  | stop (v : Verdict)

/-- a value met at a position annotated with the TypeVar `t` -/
def walkTV (env : Env) (t : TVId) (v : Val) (s : Seen) : W :=
  let c := v.typeOf env
  let info := env.tv t
  if !info.constraints.isEmpty && !info.constraints.contains c then .stop .reject else       -- constraints are honoured
  if (match info.bound with | some b => !env.sub c b | none => false) then .stop .reject else -- the bound is honoured
  match s.get? t with
  | none => .cont ((t, c) :: s)
  | some c0 =>
      if c == c0 then .cont s                                                               -- identical runtime class
      else if info.variance == .contra && env.sub c0 c then .cont s                         -- contravariant: a superclass
      else if !env.sub c c0 && !env.sub c0 c then .stop .tvm                                -- unrelated classes
      else .stop .unclaimed

def walkAllWith (f : Val → Seen → W) : List Val → Seen → W
  | [], s => .cont s
  | x :: xs, s => match f x s with
      | .cont s' => walkAllWith f xs s'
      | w => w
def walkPairsWith (fk fw : Val → Seen → W) : List (Val × Val) → Seen → W
  | [], s => .cont s
  | (x, y) :: rest, s => match fk x s with
      | .cont s' => (match fw y s' with
          | .cont s'' => walkPairsWith fk fw rest s''
          | w => w)
      | w => w

def isNoneCls (env : Env) : A → Bool
  | .cls c => c == env.noneCls
  | _ => false

/-- the Optional member of `Optional[a]`: a mismatch at a TypeVar that is the member itself is the union region -/
def inOptional (isTV : Bool) : W → W
  | .stop .tvm => if isTV then .stop .tvmInUnion else .stop .tvm
  | w => w

mutual
/-- positions are visited left to right, depth first; the first offence decides -/
def walk (env : Env) : A → Val → Seen → W
  | .cls c, v, s => if env.sub (v.typeOf env) c then .cont s else .stop .reject
  | .any, _, s => .cont s
  | .tv t, v, s => walkTV env t v s
  | .listOf a, v, s => (match v with | .list xs => walkAllWith (walk env a) xs s | _ => .stop .reject)
  | .dictOf k w, v, s => (match v with | .dict kvs => walkPairsWith (walk env k) (walk env w) kvs s | _ => .stop .reject)
  | .tupleOf items, v, s =>
      (match v with
       | .tuple xs => if xs.length != items.length then .stop .reject else walkZip env items xs s
       | _ => .stop .reject)
  | .tupleVar a, v, s => (match v with | .tuple xs => walkAllWith (walk env a) xs s | _ => .stop .reject)
  | .union ms, v, s => walkUnion env ms v s
  | .typeOf a, v, s =>
      if closed a then (if conforms env (.typeOf a) v then .cont s else .stop .reject)
      else .stop .unclaimed                                    -- Type[T]: not in the property's vocabulary
def walkZip (env : Env) : List A → List Val → Seen → W
  | a :: as, x :: xs, s => (match walk env a x s with
      | .cont s' => walkZip env as xs s'
      | w => w)
  | _, _, s => .cont s
/-- a TypeVar-free union: conformance.  `Optional[a]` with TypeVars in `a`: `None`, or a value for `a`.
    Any other union that mentions a TypeVar is not in the property's vocabulary. -/
def walkUnion (env : Env) : List A → Val → Seen → W
  | [a, b], v, s =>
      if closed a && closed b then (if conforms env a v || conforms env b v then .cont s else .stop .reject)
      else if isNoneCls env b && !closed a then
        (if v.typeOf env == env.noneCls then .cont s else inOptional a.isTV (walk env a v s))
      else if isNoneCls env a && !closed b then
        (if v.typeOf env == env.noneCls then .cont s else inOptional b.isTV (walk env b v s))
      else .stop .unclaimed
  | ms, v, s => if closedL ms then (if conformsAny env ms v then .cont s else .stop .reject) else .stop .unclaimed
end

mutual
/-- class parameters of `Cls[X]` replaced by `X` (not below `Type[...]`, which is not claimed) -/
def subst (g : TVMap) : A → A
  | .tv t => (match g.get? t with | some x => x | none => .tv t)
  | .cls c => .cls c
  | .any => .any
  | .listOf a => .listOf (subst g a)
  | .dictOf k w => .dictOf (subst g k) (subst g w)
  | .tupleOf items => .tupleOf (substL g items)
  | .tupleVar a => .tupleVar (subst g a)
  | .union ms => .union (substL g ms)
  | .typeOf a => .typeOf a
def substL (g : TVMap) : List A → List A
  | [] => []
  | a :: as => subst g a :: substL g as
end

def optionalForm (env : Env) : List A → Bool
  | [a, b] => isNoneCls env a || isNoneCls env b
  | _ => false

mutual
/-- the annotation is in the property's vocabulary: every union is TypeVar-free or an `Optional[...]` -/
def claimable (env : Env) : A → Bool
  | .tv _ => true
  | .cls _ => true
  | .any => true
  | .listOf a => claimable env a
  | .dictOf k w => claimable env k && claimable env w
  | .tupleOf items => claimableL env items
  | .tupleVar a => claimable env a
  | .union ms => (closedL ms || optionalForm env ms) && claimableL env ms
  | .typeOf _ => true
def claimableL (env : Env) : List A → Bool
  | [] => true
  | a :: as => claimable env a && claimableL env as
end

def claimableChecks (env : Env) : List (A × Val) → Bool
  | [] => true
  | (a, _) :: rest => claimable env a && claimableChecks env rest

/-- the checks of one call (parameters in order, then the result) -/
def specChecks (env : Env) : List (A × Val) → Seen → Verdict
  | [], _ => .accept
  | (a, v) :: rest, s => match walk env a v s with
      | .cont s' => specChecks env rest s'
      | .stop r => r

def substChecks (g : TVMap) : List (A × Val) → List (A × Val)
  | [] => []
  | (a, v) :: rest => (subst g a, v) :: substChecks g rest

/-- what the property demands of one call; it depends on nothing but the call itself -/
def specCall (env : Env) (c : Call) : Verdict :=
  if c.scanFails then .unclaimed else
  if !claimableChecks env c.checks then .unclaimed else
  match c.kind with
  | .perCall => specChecks env c.checks []
  | .resetEachAccess => specChecks env c.checks []
  | .genericInstance _ g =>
      if g.isEmpty then .unclaimed                     -- not created as `Cls[X](...)` (or still inside `__init__`)
      else specChecks env (substChecks g c.checks) []

def specHistory (env : Env) (h : List Call) : List Verdict := h.map (specCall env)

/-! ### regions of recorded (also: formerly recorded) findings — classification only, never used to decide a verdict.
    A failure in a region whose finding is no longer listed as open is reported as a violation under its old name. -/

mutual
/-- TypeVars at positions where a value can be bound (not below `Type[...]`) -/
def tvsOf : A → List TVId
  | .tv t => [t]
  | .cls _ => []
  | .any => []
  | .listOf a => tvsOf a
  | .dictOf k w => tvsOf k ++ tvsOf w
  | .tupleOf items => tvsOfL items
  | .tupleVar a => tvsOf a
  | .union ms => tvsOfL ms
  | .typeOf _ => []
def tvsOfL : List A → List TVId
  | [] => []
  | a :: as => tvsOf a ++ tvsOfL as
end

def callTVs (c : Call) : List TVId := c.checks.flatMap (fun av => tvsOf av.1)

def keysOf (g : TVMap) : List TVId := g.map (·.1)

/-- some TypeVar occurs in two different checks (two parameters, or a parameter and the result) -/
def sharedAcrossChecks : List (A × Val) → Bool
  | [] => false
  | (a, _) :: rest => (tvsOf a).any (fun t => rest.any (fun bw => (tvsOf bw.1).contains t)) || sharedAcrossChecks rest

def regions (env : Env) (earlier : List Call) (c : Call) : List String :=
  let r1 := if specCall env c == .tvmInUnion then ["mismatchInsideUnionIsTypeCheck"] else []
  let r2 := match c.kind with
    | .resetEachAccess => if sharedAcrossChecks c.checks then ["nonGenericPedanticClassResetsBindings"] else []
    | _ => []
  let r3 := match c.kind with
    | .genericInstance _ g =>
        if !g.isEmpty && (callTVs c).any (fun t => !(keysOf g).contains t &&
              earlier.any (fun e => e.inst == c.inst && (callTVs e).contains t))
        then ["methodLevelTypeVarLeaks"] else []
    | _ => []
  r1 ++ r2 ++ r3

def regionsHistory (env : Env) : List Call → List Call → List (List String)
  | _, [] => []
  | earlier, c :: rest => regions env earlier c :: regionsHistory env (earlier ++ [c]) rest

/-! ### call trees: the specification of a call does not look at what its body does, nor at who called it -/

def _root_.PedVerif.TypeVars.Tree.call : Tree → Call
  | .node c _ _ => c

mutual
/-- what the property demands of the calls made below a call (pre-order, aligned with `TRes.log`) -/
def specBelow (env : Env) : Tree → List Verdict
  | .node _ _ body => specBody env body
def specBody (env : Env) : List Tree → List Verdict
  | [] => []
  | t :: ts => specCall env t.call :: (specBelow env t ++ specBody env ts)
end

mutual
def regionsBelow (env : Env) (earlier : List Call) : Tree → List (List String)
  | .node _ _ body => regionsBody env earlier body
def regionsBody (env : Env) (earlier : List Call) : List Tree → List (List String)
  | [] => []
  | t :: ts => regions env earlier t.call :: (regionsBelow env earlier t ++ regionsBody env earlier ts)
end

end PedVerif.TypeVars.Spec
