import PedVerif.Model.TypeVars
/-!
Independent specification of C07, written from the property text (it shares only the syntax `A`, `Val`, `Env`, `Call`
with the model).

* `conforms`: a value conforms to a TypeVar-free annotation.
* `walk`: what the property demands of one call — every TypeVar is tied to the runtime class of the first value matched
  against it; a later value of the identical class is compatible, a later value of an unrelated class demands
  PedanticTypeVarMismatchException, constraints and bounds must hold, everything TypeVar-free must conform.
  Values whose class is a proper sub- or superclass of the first one are not claimed (`unclaimed`), except for a
  contravariant TypeVar, where a superclass is compatible.
* for an instance created as `Cls[X]()`, the class parameters are replaced by `X` first (`subst`), so a value at a
  `T`-annotated position is demanded to be accepted iff it conforms to `X`.
* the specification has no state between calls: bindings of one call never influence another call or instance.
* a `Union` whose TypeVars all sit inside ONE container alternative (`Union[List[N], List[str]]`): the alternatives are
  looked at one by one, each from the bindings the call had when the union was reached.  Only an alternative that accepts
  the value matches its elements against TypeVars; an alternative that fails (wrong container, constraint, bound, class)
  contributes nothing — no binding is left behind (`altVerdict`).
-/
namespace PedVerif.TypeVars.Spec
open PedVerif.TypeVars

inductive Verdict where
  | accept          -- the call must be accepted
  | tvm             -- the call must raise PedanticTypeVarMismatchException
  | tvmInUnion      -- ... and the offending value sits at a TypeVar that is a direct member of an Optional
  | reject          -- the call must be rejected with a PedanticException (type check or TypeVar mismatch)
  | unclaimed       -- the property does not say
deriving DecidableEq, Repr

mutual
def closed : A → Bool
  | .tv _ => false
  | .cls _ => true
  | .any => true
  | .listOf a => closed a
  | .dictOf k w => closed k && closed w
  | .tupleOf items => closedL items
  | .tupleVar a => closed a
  | .union ms => closedL ms
  | .typeOf a => closed a
def closedL : List A → Bool
  | [] => true
  | a :: as => closed a && closedL as
end

mutual
/-- `v` conforms to the TypeVar-free annotation -/
def conforms (env : Env) : A → Val → Bool
  | .cls c, v => env.sub (v.typeOf env) c
  | .any, _ => true
  | .tv _, _ => false
  | .listOf a, v => (match v with | .list xs => xs.all (conforms env a) | _ => false)
  | .dictOf k w, v => (match v with | .dict kvs => kvs.all (fun kv => conforms env k kv.1 && conforms env w kv.2) | _ => false)
  | .tupleOf items, v => (match v with | .tuple xs => xs.length == items.length && conformsZip env items xs | _ => false)
  | .tupleVar a, v => (match v with | .tuple xs => xs.all (conforms env a) | _ => false)
  | .union ms, v => conformsAny env ms v
  | .typeOf a, v =>
      (match v with
       | .clsObj c => (match a with | .any => true | .cls d => env.sub c d | _ => false)
       | _ => false)
def conformsZip (env : Env) : List A → List Val → Bool
  | a :: as, x :: xs => conforms env a x && conformsZip env as xs
  | _, _ => true
def conformsAny (env : Env) : List A → Val → Bool
  | [], _ => false
  | a :: as, v => conforms env a v || conformsAny env as v
end

/-- the TypeVar-free alternatives of a union -/
def closedOnly : List A → List A
  | [] => []
  | a :: as => if closed a then a :: closedOnly as else closedOnly as

/-- first runtime class seen per TypeVar in this call -/
abbrev Seen := List (TVId × ClsId)
def Seen.get? : Seen → TVId → Option ClsId
  | [], _ => none
  | (k, c) :: r, t => if k == t then some c else Seen.get? r t

inductive W where
  | cont (s : Seen)
  | stop (v : Verdict)

/-- a `Union` outside the TypeVar-free and the `Optional[...]` forms, `ws` the walks of its alternatives, each started from `s`.
    Claimed when exactly one alternative `x` mentions TypeVars and `x` is a container (not a bare TypeVar):
    * `x` accepts: its bindings count — unless a TypeVar-free alternative accepts as well and `x` bound something
      (two readings, not claimed);
    * `x` fails on a constraint / bound / class / shape: it contributes NOTHING, the TypeVar-free alternatives decide;
    * `x` meets a value of an unrelated class for an already tied TypeVar: mismatch when no other alternative accepts
      (not claimed when one does). -/
def altVerdict (isClosed : A → Bool) (isTV : A → Bool) (closedAccepts : Bool) (ms : List A) (s : Seen) (ws : List W) : W :=
  match (ms.zip ws).filter (fun p => !isClosed p.1) with
  | [(x, w)] =>
      if isTV x then .stop .unclaimed else
      match w with
      | .cont s' => if closedAccepts && s' != s then .stop .unclaimed else .cont s'
      | .stop .reject => if closedAccepts then .cont s else .stop .reject
      | .stop .tvm => if closedAccepts then .stop .unclaimed else .stop .tvm
      | .stop .tvmInUnion => if closedAccepts then .stop .unclaimed else .stop .tvmInUnion
      | .stop _ => .stop .unclaimed
  | _ => .stop .unclaimed

/-- a value met at a position annotated with the TypeVar `t`.
    CHOICE (the property text says only "constraints ... are honoured"): for a constrained TypeVar the runtime class of the value must BE
    one of the constraints — a `bool` at `TypeVar('TC', int, str)` is demanded to be rejected.  This is the reading of the library's
    own documentation and tests (`type(obj) in constraints`); a static checker following PEP 484 would solve `TC := int` for a `bool`.
    A change of the library to the subclass reading would show up as a violation of THIS specification and has to be decided then. -/
def walkTV (env : Env) (t : TVId) (v : Val) (s : Seen) : W :=
  let c := v.typeOf env
  let info := env.tv t
  if !info.constraints.isEmpty && !info.constraints.contains c then .stop .reject else       -- constraints are honoured
  if (match info.bound with | some b => !env.sub c b | none => false) then .stop .reject else -- the bound is honoured
  match s.get? t with
  | none => .cont ((t, c) :: s)
  | some c0 =>
      if c == c0 then .cont s                                                               -- identical runtime class
      else if info.variance == .contra && env.sub c0 c then .cont s                         -- contravariant: a superclass
      else if !env.sub c c0 && !env.sub c0 c then .stop .tvm                                -- unrelated classes
      else .stop .unclaimed

def walkAllWith (f : Val → Seen → W) : List Val → Seen → W
  | [], s => .cont s
  | x :: xs, s => match f x s with
      | .cont s' => walkAllWith f xs s'
      | w => w
def walkPairsWith (fk fw : Val → Seen → W) : List (Val × Val) → Seen → W
  | [], s => .cont s
  | (x, y) :: rest, s => match fk x s with
      | .cont s' => (match fw y s' with
          | .cont s'' => walkPairsWith fk fw rest s''
          | w => w)
      | w => w

def isNoneCls (env : Env) : A → Bool
  | .cls c => c == env.noneCls
  | _ => false

/-- the Optional member of `Optional[a]`: a mismatch at a TypeVar that is the member itself is the union region -/
def inOptional (isTV : Bool) : W → W
  | .stop .tvm => if isTV then .stop .tvmInUnion else .stop .tvm
  | w => w

mutual
/-- positions are visited left to right, depth first; the first offence decides -/
def walk (env : Env) : A → Val → Seen → W
  | .cls c, v, s => if env.sub (v.typeOf env) c then .cont s else .stop .reject
  | .any, _, s => .cont s
  | .tv t, v, s => walkTV env t v s
  | .listOf a, v, s => (match v with | .list xs => walkAllWith (walk env a) xs s | _ => .stop .reject)
  | .dictOf k w, v, s => (match v with | .dict kvs => walkPairsWith (walk env k) (walk env w) kvs s | _ => .stop .reject)
  | .tupleOf items, v, s =>
      (match v with
       | .tuple xs => if xs.length != items.length then .stop .reject else walkZip env items xs s
       | _ => .stop .reject)
  | .tupleVar a, v, s => (match v with | .tuple xs => walkAllWith (walk env a) xs s | _ => .stop .reject)
  | .union ms, v, s => walkUnion env ms v s
  | .typeOf a, v, s =>
      if closed a then (if conforms env (.typeOf a) v then .cont s else .stop .reject)
      else .stop .unclaimed                                    -- Type[T]: not in the property's vocabulary
def walkZip (env : Env) : List A → List Val → Seen → W
  | a :: as, x :: xs, s => (match walk env a x s with
      | .cont s' => walkZip env as xs s'
      | w => w)
  | _, _, s => .cont s
/-- a TypeVar-free union: conformance.  `Optional[a]` with TypeVars in `a`: `None`, or a value for `a`.
    Any other union that mentions a TypeVar is not in the property's vocabulary. -/
def walkUnion (env : Env) : List A → Val → Seen → W
  | [], _, _ => .stop .reject
  | [a, b], v, s =>
      if closed a && closed b then (if conforms env a v || conforms env b v then .cont s else .stop .reject)
      else if isNoneCls env b && !closed a then
        (if v.typeOf env == env.noneCls then .cont s else inOptional a.isTV (walk env a v s))
      else if isNoneCls env a && !closed b then
        (if v.typeOf env == env.noneCls then .cont s else inOptional b.isTV (walk env b v s))
      else altVerdict closed A.isTV (conformsAny env (closedOnly [a, b]) v) [a, b] s [walk env a v s, walk env b v s]
  | a :: rest, v, s =>
      if closedL (a :: rest) then (if conformsAny env (a :: rest) v then .cont s else .stop .reject)
      else altVerdict closed A.isTV (conformsAny env (closedOnly (a :: rest)) v) (a :: rest) s (walk env a v s :: walkEach env rest v s)
/-- every alternative of a union walked on its own, each from the same bindings -/
def walkEach (env : Env) : List A → Val → Seen → List W
  | [], _, _ => []
  | a :: as, v, s => walk env a v s :: walkEach env as v s
end

mutual
/-- class parameters of `Cls[X]` replaced by `X` (not below `Type[...]`, which is not claimed) -/
def subst (g : TVMap) : A → A
  | .tv t => (match g.get? t with | some x => x | none => .tv t)
  | .cls c => .cls c
  | .any => .any
  | .listOf a => .listOf (subst g a)
  | .dictOf k w => .dictOf (subst g k) (subst g w)
  | .tupleOf items => .tupleOf (substL g items)
  | .tupleVar a => .tupleVar (subst g a)
  | .union ms => .union (substL g ms)
  | .typeOf a => .typeOf a
def substL (g : TVMap) : List A → List A
  | [] => []
  | a :: as => subst g a :: substL g as
end

def optionalForm (env : Env) : List A → Bool
  | [a, b] => isNoneCls env a || isNoneCls env b
  | _ => false

/-- exactly one alternative mentions TypeVars, and it is a container (not a bare TypeVar, not a union) -/
def altForm (ms : List A) : Bool :=
  match ms.filter (fun a => !closed a) with
  | [x] => !x.isTV && (match x with | .union _ => false | _ => true)
  | _ => false

mutual
/-- the annotation is in the property's vocabulary: every union is TypeVar-free, an `Optional[...]`, or has its TypeVars inside
    one container alternative -/
def claimable (env : Env) : A → Bool
  | .tv _ => true
  | .cls _ => true
  | .any => true
  | .listOf a => claimable env a
  | .dictOf k w => claimable env k && claimable env w
  | .tupleOf items => claimableL env items
  | .tupleVar a => claimable env a
  | .union ms => (closedL ms || optionalForm env ms || altForm ms) && claimableL env ms
  | .typeOf _ => true
def claimableL (env : Env) : List A → Bool
  | [] => true
  | a :: as => claimable env a && claimableL env as
end

def claimableChecks (env : Env) : List (A × Val) → Bool
  | [] => true
  | (a, _) :: rest => claimable env a && claimableChecks env rest

/-- the checks of one call (parameters in order, then the result) -/
def specChecks (env : Env) : List (A × Val) → Seen → Verdict
  | [], _ => .accept
  | (a, v) :: rest, s => match walk env a v s with
      | .cont s' => specChecks env rest s'
      | .stop r => r

def substChecks (g : TVMap) : List (A × Val) → List (A × Val)
  | [] => []
  | (a, v) :: rest => (subst g a, v) :: substChecks g rest

/-- what the property demands of one call; it depends on nothing but the call itself -/
def specCall (env : Env) (c : Call) : Verdict :=
  if c.scanFails then .unclaimed else
  if !claimableChecks env c.checks then .unclaimed else
  match c.kind with
  | .perCall => specChecks env c.checks []
  | .resetEachAccess => specChecks env c.checks []
  | .genericInstance _ g =>
      if g.isEmpty then .unclaimed                     -- not created as `Cls[X](...)` (or still inside `__init__`)
      else specChecks env (substChecks g c.checks) []

def specHistory (env : Env) (h : List Call) : List Verdict := h.map (specCall env)

/-! ### regions of recorded (also: formerly recorded) findings — classification only, never used to decide a verdict.
    A failure in a region whose finding is no longer listed as open is reported as a violation under its old name. -/

mutual
/-- TypeVars at positions where a value can be bound (not below `Type[...]`) -/
def tvsOf : A → List TVId
  | .tv t => [t]
  | .cls _ => []
  | .any => []
  | .listOf a => tvsOf a
  | .dictOf k w => tvsOf k ++ tvsOf w
  | .tupleOf items => tvsOfL items
  | .tupleVar a => tvsOf a
  | .union ms => tvsOfL ms
  | .typeOf _ => []
def tvsOfL : List A → List TVId
  | [] => []
  | a :: as => tvsOf a ++ tvsOfL as
end

def callTVs (c : Call) : List TVId := c.checks.flatMap (fun av => tvsOf av.1)

def keysOf (g : TVMap) : List TVId := g.map (·.1)

/-- some TypeVar occurs in two different checks (two parameters, or a parameter and the result) -/
def sharedAcrossChecks : List (A × Val) → Bool
  | [] => false
  | (a, _) :: rest => (tvsOf a).any (fun t => rest.any (fun bw => (tvsOf bw.1).contains t)) || sharedAcrossChecks rest

/-! #### union alternatives (classification only)
    `walkEnd`: the bindings the walk of one annotation has made when it ends or stops.  `leaks`: somewhere in the walk a union is
    reached whose TypeVar alternative FAILS after it has tied a TypeVar, while a TypeVar-free alternative accepts the value:
    the specification forgets what the failed alternative tied, the code keeps it (`_check_union` hands one dict to every member). -/

def endAllWith (w : Val → Seen → W) (e : Val → Seen → Seen) : List Val → Seen → Seen
  | [], s => s
  | x :: xs, s => match w x s with
      | .cont s' => endAllWith w e xs s'
      | .stop _ => e x s
def endPairsWith (wk : Val → Seen → W) (ek : Val → Seen → Seen) (ww : Val → Seen → W) (ew : Val → Seen → Seen) :
    List (Val × Val) → Seen → Seen
  | [], s => s
  | (x, y) :: rest, s => match wk x s with
      | .cont s' => (match ww y s' with
          | .cont s'' => endPairsWith wk ek ww ew rest s''
          | .stop _ => ew y s')
      | .stop _ => ek x s

mutual
def walkEnd (env : Env) : A → Val → Seen → Seen
  | .tv t, v, s => (match walkTV env t v s with | .cont s' => s' | .stop _ => s)
  | .listOf a, v, s => (match v with | .list xs => endAllWith (walk env a) (walkEnd env a) xs s | _ => s)
  | .tupleVar a, v, s => (match v with | .tuple xs => endAllWith (walk env a) (walkEnd env a) xs s | _ => s)
  | .dictOf k w, v, s =>
      (match v with | .dict kvs => endPairsWith (walk env k) (walkEnd env k) (walk env w) (walkEnd env w) kvs s | _ => s)
  | .tupleOf items, v, s =>
      (match v with | .tuple xs => if xs.length != items.length then s else endZip env items xs s | _ => s)
  | .union ms, v, s => (match walkUnion env ms v s with | .cont s' => s' | .stop _ => s)
  | .cls _, _, s => s
  | .any, _, s => s
  | .typeOf _, _, s => s
def endZip (env : Env) : List A → List Val → Seen → Seen
  | a :: as, x :: xs, s => (match walk env a x s with
      | .cont s' => endZip env as xs s'
      | .stop _ => walkEnd env a x s)
  | _, _, s => s
end

/-- at this union: the one TypeVar alternative fails on a constraint / bound / class after having tied a TypeVar, and a
    TypeVar-free alternative accepts -/
def altLeak (env : Env) (ms : List A) (v : Val) (s : Seen) : Bool :=
  altForm ms && conformsAny env (closedOnly ms) v &&
  (ms.filter (fun a => !closed a)).any (fun x =>
    (match walk env x v s with | .stop .reject => true | _ => false) && walkEnd env x v s != s)

def leaksAllWith (w : Val → Seen → W) (l : Val → Seen → Bool) : List Val → Seen → Bool
  | [], _ => false
  | x :: xs, s => l x s || (match w x s with | .cont s' => leaksAllWith w l xs s' | .stop _ => false)
def leaksPairsWith (wk : Val → Seen → W) (lk : Val → Seen → Bool) (ww : Val → Seen → W) (lw : Val → Seen → Bool) :
    List (Val × Val) → Seen → Bool
  | [], _ => false
  | (x, y) :: rest, s => lk x s || (match wk x s with
      | .cont s' => lw y s' || (match ww y s' with
          | .cont s'' => leaksPairsWith wk lk ww lw rest s''
          | .stop _ => false)
      | .stop _ => false)

mutual
def leaks (env : Env) : A → Val → Seen → Bool
  | .listOf a, v, s => (match v with | .list xs => leaksAllWith (walk env a) (leaks env a) xs s | _ => false)
  | .tupleVar a, v, s => (match v with | .tuple xs => leaksAllWith (walk env a) (leaks env a) xs s | _ => false)
  | .dictOf k w, v, s =>
      (match v with | .dict kvs => leaksPairsWith (walk env k) (leaks env k) (walk env w) (leaks env w) kvs s | _ => false)
  | .tupleOf items, v, s =>
      (match v with | .tuple xs => if xs.length != items.length then false else leaksZip env items xs s | _ => false)
  | .union ms, v, s => altLeak env ms v s || leaksMembers env ms v s
  | .tv _, _, _ => false
  | .cls _, _, _ => false
  | .any, _, _ => false
  | .typeOf _, _, _ => false
def leaksZip (env : Env) : List A → List Val → Seen → Bool
  | a :: as, x :: xs, s => leaks env a x s || (match walk env a x s with
      | .cont s' => leaksZip env as xs s'
      | .stop _ => false)
  | _, _, _ => false
/-- a leak inside an alternative -/
def leaksMembers (env : Env) : List A → Val → Seen → Bool
  | [], _, _ => false
  | a :: as, v, s => leaks env a v s || leaksMembers env as v s
end

def leaksChecks (env : Env) : List (A × Val) → Seen → Bool
  | [], _ => false
  | (a, v) :: rest, s => leaks env a v s || (match walk env a v s with
      | .cont s' => leaksChecks env rest s'
      | .stop _ => false)

mutual
/-- a union with a TypeVar alternative that mentions one of the TypeVars `ks` -/
def altMentions (ks : List TVId) : A → Bool
  | .listOf a => altMentions ks a
  | .tupleVar a => altMentions ks a
  | .dictOf k w => altMentions ks k || altMentions ks w
  | .tupleOf items => altMentionsL ks items
  | .union ms => (altForm ms && (tvsOfL ms).any ks.contains) || altMentionsL ks ms
  | .tv _ => false
  | .cls _ => false
  | .any => false
  | .typeOf _ => false
def altMentionsL (ks : List TVId) : List A → Bool
  | [] => false
  | a :: as => altMentions ks a || altMentionsL ks as
end

def regions (env : Env) (earlier : List Call) (c : Call) : List String :=
  let r1 := if specCall env c == .tvmInUnion then ["mismatchInsideUnionIsTypeCheck"] else []
  let r2 := match c.kind with
    | .resetEachAccess => if sharedAcrossChecks c.checks then ["nonGenericPedanticClassResetsBindings"] else []
    | _ => []
  let r3 := match c.kind with
    | .genericInstance _ g =>
        if !g.isEmpty && (callTVs c).any (fun t => !(keysOf g).contains t &&
              earlier.any (fun e => e.inst == c.inst && (callTVs e).contains t))
        then ["methodLevelTypeVarLeaks"] else []
    | _ => []
  -- what a FAILED alternative of a union tied stays in the dict of the call
  let r4 := if leaksChecks env (substChecks (match c.kind with | .genericInstance _ g => g | _ => []) c.checks) []
            then ["failedUnionAlternativeLeavesBinding"] else []
  -- `Cls[X]()`: a value that does not conform to `X` inside the `T` alternative raises the mismatch although another alternative accepts
  let r5 := match c.kind with
    | .genericInstance _ g =>
        if !g.isEmpty && c.checks.any (fun av => altMentions (keysOf g) av.1) then ["mismatchInUnionAlternativeAborts"] else []
    | _ => []
  r1 ++ r4 ++ r5 ++ r2 ++ r3

def regionsHistory (env : Env) : List Call → List Call → List (List String)
  | _, [] => []
  | earlier, c :: rest => regions env earlier c :: regionsHistory env (earlier ++ [c]) rest

/-! ### call trees: the specification of a call does not look at what its body does, nor at who called it -/

def _root_.PedVerif.TypeVars.Tree.call : Tree → Call
  | .node c _ _ => c

mutual
/-- what the property demands of the calls made below a call (pre-order, aligned with `TRes.log`) -/
def specBelow (env : Env) : Tree → List Verdict
  | .node _ _ body => specBody env body
def specBody (env : Env) : List Tree → List Verdict
  | [] => []
  | t :: ts => specCall env t.call :: (specBelow env t ++ specBody env ts)
end

mutual
def regionsBelow (env : Env) (earlier : List Call) : Tree → List (List String)
  | .node _ _ body => regionsBody env earlier body
def regionsBody (env : Env) (earlier : List Call) : List Tree → List (List String)
  | [] => []
  | t :: ts => regions env earlier t.call :: (regionsBelow env earlier t ++ regionsBody env earlier ts)
end

/-! ### variadic keyword parameters, class shapes -/

/-- every keyword argument that names no named parameter is a value of the `**` parameter — whatever it is called -/
def kwChecks (k : VarKw) : List (A × Val) := (k.items.filter (fun kv => !k.named.contains kv.1)).map (fun kv => (k.ann, kv.2))

def spliceSpec (checks : List (A × Val)) : Option VarKw → List (A × Val)
  | none => checks
  | some k => checks.take k.pos ++ kwChecks k ++ checks.drop k.pos

def zipX : List TVId → List A → TVMap
  | t :: ts, x :: xs => (t, x) :: zipX ts xs
  | _, _ => []

/-- an instance created as `Cls[X1, ..](...)`: the i-th type parameter of the class (`__parameters__`) stands for `Xi` — however the
    class came by its parameters (an explicit `Generic[...]`, a typing alias base, a user generic base, several bases), and from the
    first checked call on: the parameters of `__init__` and the calls `__init__` makes included.  Read off the DECLARATIONS (class
    statement, creating expression), not off what the library finds on the instance. -/
def shapeKind (sh : Shape) : StoreKind :=
  if sh.params.isEmpty then .resetEachAccess else                      -- not a generic class
  .genericInstance sh.params (match sh.declared with | some acts => zipX sh.params acts | none => [])

/-- regions of recorded findings, read off the declarations alone (not off the translated code).  The former regions
    `genericParamsFromFirstBase` (first original base does not list the parameters) and `genericSubclassNotRecognised` (generic only
    through a user base) are repaired: a failure there is a violation again. -/
def shapeRegions (sh : Shape) : List String :=
  if sh.declared.isNone || sh.params.isEmpty then [] else
  if sh.inInit then ["initOfGenericInstanceUnchecked"]                 -- `__orig_class__` is set after `__init__` has returned
  else []

end PedVerif.TypeVars.Spec
