import PedVerif.Model.Mixins
/-!
Independent specification of C20, written from the property text (not from the code).  It shares only the *data types*
(class tables, applications of decorators) with the model; it never looks at `__orig_bases__`, the MRO or `dir()`.

* `expectedOutcome`: recognises the supported class shapes by their declarations and says what `type_vars` must be
  (by substitution `Ti ↦ Xi`), where it must refuse with AssertionError, and where the property says nothing.
  "A class that declares `Generic[T1..Tn]` together with `GenericMixin`" is a class that lists `Generic[T1..Tn]` among its
  bases — whatever extra mixin bases stand before or after it: plain non-generic classes, and parametrised classes that have
  nothing to do with `GenericMixin` (`class Box(Labelled[str], Generic[T], GenericMixin)` with `class Labelled(Generic[L])`);
  the type arguments of such a mixin are never what `type_vars` reports.  "Subclasses that bind all parameters of their
  generic base" list no `Generic[…]` themselves and have exactly one subscripted base that is a GenericMixin class (a class of
  the first kind, or a plain subclass of one) — "their generic base" — with all of its parameters bound to types; further
  subscripted bases that have nothing to do with GenericMixin (`class Odd(Labelled[str], Box[int])`,
  `class SeqBox(Sequence[int], Box[int])`) may stand anywhere, before or after it, like the plain mixins: the answer is
  `{Ti: Xi}` of the GenericMixin base.  A class that has no subscripted GenericMixin base but lists `GenericMixin` itself among
  its plain bases and binds all parameters of an ordinary generic class — `class IntL(Labelled[int], GenericMixin)` — is such a
  subclass too: its generic base is the one subscripted base whose origin is a generic class; further subscripted bases whose
  origins have no subscripted base anywhere in their ancestry (`Sequence[int]`, `list[int]`) may stand anywhere.
  A class that declares `Generic[K1..Km]` may also stand on a plain base that is a GenericMixin class with all parameters bound
  (`class CachedUserRepo(UserRepo, Generic[K])` over `class UserRepo(Repo[User])`): it is a class that declares `Generic[K1..Km]`
  together with GenericMixin, its answer is `{Ki: Xi}` of its own instantiation; to any depth (a subclass may bind it again, a
  further subclass may declare `Generic[…]` again).
  Not claimed: two subscripted GenericMixin bases, several subscripted bases with generic-class origins where none is a
  GenericMixin class, partially bound parameters, a `Generic[…]` re-declared over a GenericMixin base, generic classes listed as
  plain (unsubscripted) mixins, diamonds.
* `expectedDecorated`: for every member of the enum, the methods (by defining class and name) that are visible on the
  instance and were decorated through `create_decorator(member)`, with the argument of the outermost such application — the
  plain, class and static methods of the classes alike, whatever their names (dunder names included).  "The bound methods" of
  the property text is read as "the methods as the instance sees them": a plain method bound to the instance, a class method
  bound to the class; a static method has no bound form — `instance.s` is the function, and that stands for it.  A name that the
  instance `__dict__` defines itself is no method of the instance.
-/
namespace PedVerif.Mixins

/-! ## type arguments -/

inductive Expect where
  | ok (m : List (TArg × TArg))     -- `type_vars` must be exactly this mapping
  | mustAssert                      -- AssertionError instead of an answer
  | unsupported                     -- outside the supported shapes: nothing claimed
deriving DecidableEq, Repr

inductive Kind where
  | nonGeneric                                  -- no class in the ancestry has a subscripted base
  | direct (tvs : List Nat)                     -- declares `Generic[tvs]` (or is a plain subclass of such a class)
  | bound (m : List (TArg × TArg))              -- binds all parameters of its generic base (or plain subclass thereof)
  | unsupported
deriving DecidableEq, Repr

/-- all parameters are bound: a fully binding subclass, or a plain subclass of one -/
def Kind.isBound : Kind → Bool
  | .bound _ => true
  | _ => false

def genericOf : BaseRef → Option (List Nat)
  | .generic tvs => some tvs
  | _ => none

def paramOf : BaseRef → Option (Nat × List TArg)
  | .param c args => some (c, args)
  | _ => none

def plainOf : BaseRef → Option Nat
  | .plain c => some c
  | _ => none

def TArg.isTy : TArg → Bool
  | .ty _ => true
  | .tv _ => false

/-- `{T1: X1, …, Tn: Xn}` -/
def pairUp : List Nat → List TArg → List (TArg × TArg)
  | t :: ts, x :: xs => (.tv t, x) :: pairUp ts xs
  | _, _ => []

/-- neither the class nor any ancestor has a subscripted base -/
def nonGeneric (t : Table) : Nat → Nat → Bool
  | 0, _ => false
  | d + 1, c => (basesOf t c).all fun b =>
      match b with
      | .plain p => nonGeneric t d p
      | _ => false

/-- class id of `GenericMixin` in a class table (0 = `typing.Generic`, 1 = `GenericMixin`; user classes follow the library's) -/
def mixinId : Nat := 1

/-- the class knows nothing about `GenericMixin`: neither the class nor any of its ancestors lists it — an ordinary generic
    class (`class Labelled(Generic[L])`), a subscriptable class of another library (`Sequence`, `list`), a plain class -/
def foreign (t : Table) : Nat → Nat → Bool
  | 0, _ => false
  | d + 1, c => c != mixinId && (basesOf t c).all fun b =>
      match b with
      | .generic _ => true
      | .param p _ => foreign t d p
      | .plain p => foreign t d p

/-- `GenericMixin` is the class or one of its ancestors: "a GenericMixin class" -/
def usesMixin (t : Table) : Nat → Nat → Bool
  | 0, _ => false
  | d + 1, c => c == mixinId || (basesOf t c).any fun b =>
      match b with
      | .generic _ => false
      | .param p _ => usesMixin t d p
      | .plain p => usesMixin t d p

def kindOf (t : Table) : Nat → Nat → Kind
  | 0, _ => .unsupported
  | d + 1, c =>
    let bs := basesOf t c
    let mixinsOk := (bs.filterMap plainOf).all (nonGeneric t d)
    match bs.filterMap genericOf, bs.filterMap paramOf with
    | [tvs], ps =>                       -- class C(…mixins…, Generic[T1..Tn], …mixins…): "declares Generic[T1..Tn]"
      -- the extra mixin bases may be plain non-generic classes and *parametrised* classes that know nothing about GenericMixin
      -- (`Labelled[str]`, `Sequence[T1]`), any number, before or after `Generic[…]`.  A parametrised base that is itself a
      -- GenericMixin class (`class C(A[int], Generic[T])`) makes both sentences of the property apply with different answers:
      -- nothing is claimed there.
      -- A plain base may also be a GenericMixin class whose parameters are ALL BOUND already — a fully binding subclass, or a plain
      -- subclass of one: `class CachedUserRepo(UserRepo, Generic[K])` over `class UserRepo(Repo[User])`.  Nothing of the bound base is
      -- left open, so the class declares exactly `Generic[K]` together with the (inherited) GenericMixin: `CachedUserRepo[str]()`
      -- answers `{K: str}` — never the `{T: User}` of its base, whoever was asked before —, `CachedUserRepo()` is refused.
      if (bs.filterMap plainOf).all (fun p => nonGeneric t d p || (kindOf t d p).isBound)
          && decide tvs.Nodup && ps.all (fun p => foreign t d p.1) then .direct tvs else .unsupported
    | [], p :: ps' =>                    -- class C(…mixins…, B[X1..Xn], …mixins…): no `Generic[…]`, subscripted bases
      -- "their generic base" is the ONE subscripted base that is a GenericMixin class declaring `Generic[T1..Tn]`; every other
      -- subscripted base — any number, at any position, before or after it — has nothing to do with GenericMixin (an ordinary
      -- generic class `Labelled[str]`, a typing alias `Sequence[int]`, `list[int]`) and contributes nothing.  Two subscripted
      -- GenericMixin bases, or a subscripted base about which neither can be said: nothing is claimed.
      let ps := p :: ps'
      (match ps.filter (fun q => usesMixin t d q.1) with
       | [(b, args)] =>
         (match kindOf t d b with
          | .direct tvs =>
            if mixinsOk && ps.all (fun q => usesMixin t d q.1 || foreign t d q.1)
                && decide (args.length = tvs.length) && args.all TArg.isTy then .bound (pairUp tvs args)
            else .unsupported
          | _ => .unsupported)
       | [] =>
         -- no subscripted base is a GenericMixin class: the class adds `GenericMixin` itself, as a plain base (directly or through a
         -- plain non-generic class), at any position, and binds all parameters of an ordinary generic class —
         -- `class IntL(Labelled[int], GenericMixin)`, `class IntL2(GenericMixin, Labelled[int])`.  "Their generic base" is the ONE
         -- subscripted base whose origin is a generic class (declares `Generic[T1..Tn]`, or is a plain subclass of such a class); the
         -- other subscripted bases — any number, at any position — have origins in whose ancestry nothing is subscripted at all
         -- (`Sequence[int]`, `list[int]`).  Several subscripted generic-class bases: nothing is claimed.
         (match ps.filter (fun q => !nonGeneric t d q.1) with
          | [(b, args)] =>
            (match kindOf t d b with
             | .direct tvs =>
               if mixinsOk && (bs.filterMap plainOf).any (usesMixin t d) && ps.all (fun q => foreign t d q.1)
                   && decide (args.length = tvs.length) && args.all TArg.isTy then .bound (pairUp tvs args)
               else .unsupported
             | _ => .unsupported)
          | _ => .unsupported)
       | _ => .unsupported)
    | [], [] =>
      (match bs with
       | [.plain b] => kindOf t d b       -- plain subclass: same parameters / same binding
       | _ => if mixinsOk then .nonGeneric else .unsupported)
    | _, _ => .unsupported

/-- what `type_vars` of an instance of class `c` created as `Cls[orig…]()` (`none`: `Cls()`) has to be -/
def expectedOutcome (t : Table) (d c : Nat) (orig : Option (List TArg)) : Expect :=
  match kindOf t d c with
  | .nonGeneric => .mustAssert
  | .direct tvs =>
    (match orig with
     | none => .mustAssert
     | some args => if args.length = tvs.length then .ok (pairUp tvs args) else .unsupported)
  | .bound m => .ok m
  | .unsupported => .unsupported

/-- `type_var`: the single type argument -/
def expectedTypeVar : Expect → Option TArg
  | .ok [(_, x)] => some x
  | _ => none

/-! ## decorated methods -/

/-- the argument of the outermost (= last applied) `create_decorator(k)` application -/
def outermost (k : Key) : List App → Option Val
  | [] => none
  | a :: rest =>
    match outermost k rest with
    | some v => some v
    | none => if a.ty = k then some a.val else none

def definesName (t : Table) (n : Name) (c : Nat) : Bool := (nsOf t c).any fun p => p.1 = n

def isDunder (n : Name) : Bool := decide (2 ≤ n.unders)

/-- the method definitions of class `c` (position `pre.length` in the MRO `pre ++ c :: _`) that the instance sees
    and that carry key `k` — plain methods, class methods and static methods alike: "the methods of a class" that were decorated.
    (Through the instance a plain method is a method bound to the instance, a class method a method bound to the class; a static
    method has no bound form — `instance.s` is the function itself, and that is what stands for it in the result.) -/
def decoratedIn (t : Table) (k : Key) (pre : List Nat) (c : Nat) : List ((Nat × Name) × Val) :=
  (nsOf t c).filterMap fun p =>
    match p.2 with
    | .func _ apps =>
      if pre.any (definesName t p.1) then none
      else (outermost k apps).map fun v => ((c, p.1), v)
    | _ => none

def decoratedAlong (t : Table) (k : Key) : List Nat → List Nat → List ((Nat × Name) × Val)
  | _, [] => []
  | pre, c :: rest => decoratedIn t k pre c ++ decoratedAlong t k (pre ++ [c]) rest

/-- the bound methods of an instance whose `__dict__` defines the names `shadow` itself (`self.cb = f` in `__init__`): a name the
    instance defines is no method of the instance any more -/
def visibleDecorated (t : Table) (k : Key) (mro : List Nat) (shadow : List Name) : List ((Nat × Name) × Val) :=
  (decoratedAlong t k [] mro).filter fun e => !shadow.contains e.1.2

/-- for every member: exactly the visible decorated methods with the decorator argument -/
def expectedDecorated (t : Table) (mro : List Nat) (members : List Key) (shadow : List Name) :
    List (Key × List ((Nat × Name) × Val)) :=
  members.map fun k => (k, visibleDecorated t k mro shadow)

/-- the function object a transformation must receive, the type and the value: one entry per application that has a
    transformation, in application order -/
def expectedCalls : Nat → List App → List (List Arg)
  | _, [] => []
  | gen, a :: rest =>
    match a.tr with
    | .none => expectedCalls gen rest
    | .ident => [.fn gen, .ty a.ty, .val a.val] :: expectedCalls gen rest
    | _ => [.fn gen, .ty a.ty, .val a.val] :: expectedCalls (gen + 1) rest

/-! ## the region in which "exactly the decorated methods" is claimed -/

def keyFree (members : List Key) (attrs : List (Key × Val)) : Bool := attrs.all fun kv => !members.contains kv.1

/-- a member of a class namespace stays inside the property's vocabulary:
    * transformations keep the function attributes (return the function or a functools.wraps wrapper);
    * no enum value is the name of something that function objects define by themselves (`__doc__`, `__name__`): `create_decorator`
      marks a function by setting an attribute of that name, and for these names that is a slot of the function, not a mark.
    Everything else may live in the class: properties (raising or not), static and class methods, dunder-named methods, objects that
    carry attributes named like enum values, enum values that are attribute names of `str` / `dict` / the enum class. -/
def memberOk (members : List Key) (ia : Intr) (_n : Name) : MemberDef → Bool
  | .func _ apps => apps.all (fun a => a.tr != Tr.fresh) && keyFree members ia.fn
  | _ => true

def decoGuard (t : Table) (mro : List Nat) (members : List Key) (ia : Intr) (inst : InstNs) : Bool :=
  decide members.Nodup && (mro.all fun c =>
    decide ((nsOf t c).map (·.1)).Nodup && (nsOf t c).all fun p => memberOk members ia p.1 p.2) &&
  decide (inst.map (·.1)).Nodup

/-! ### the regions outside the guard, by name (finding ids of `known_findings.json`) -/

/-- which clause of the guard a class member breaks -/
def memberRegions (members : List Key) (ia : Intr) (_n : Name) : MemberDef → List String
  | .func _ apps =>
    (if apps.all (fun a => a.tr != Tr.fresh) then [] else ["transformationDropsDecoratorAttribute"]) ++
    (if keyFree members ia.fn then [] else ["enumValueNamesFunctionSlot"])
  | _ => []

/-- the named regions a program lies in (empty inside the guard, see `guard_iff_no_region`) -/
def guardRegions (t : Table) (mro : List Nat) (members : List Key) (ia : Intr) : List String :=
  mro.flatMap fun c => (nsOf t c).flatMap fun p => memberRegions members ia p.1 p.2

end PedVerif.Mixins
