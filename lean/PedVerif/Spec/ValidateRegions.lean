import PedVerif.Spec.Validate
/-!
Decidable guards of the `_partial` theorems of C12 — their complements are the *regions* of the recorded findings; the driver
(`Drv/Validate.lean`) evaluates them for every case, so that the judge attributes a property failure to a finding only inside the
region that the Lean side names.

* `surplusGuard` — finding `varPositionalSurplusDropped`: the zip branch of `_wrapper_content` sees exactly the surplus positionals
  (what `bind_partial` bound to the VAR_POSITIONAL parameter), and under `strict` refuses a surplus positional that no declared
  parameter is left to take.  False in the former shape of the source (`[a for a in args if a not in used_args]`, no strict test)
  for calls with a surplus positional EQUAL to a validated named positional, for methods (the receiver is a positional not in
  `used_args`) and for strict calls with more surplus positionals than Parameters left.
* `handOverGuard` — finding `varArgsHandOverInArrivalOrder`: the hand-over to the decorated function is by name.  False for a
  plain function with a VAR_POSITIONAL parameter in ARGS mode (`list(result.values())`, insertion order: keywords first) whenever
  the keys of the dict do not start with the named positional parameters in signature order.
-/
namespace PedVerif.Validate
open PedVerif.Gen.Validate

/-- `used_args` after the positional loop over `bd`: the raw values of the branches that record them (generated `Write`s) -/
def recorded (ps : List VParam) (bd : List (Name × PV)) : List PV :=
  bd.flatMap fun kv =>
    match findP ps kv.1 with
    | some _ => writeRecord posDeclaredWrite [] kv.2
    | Option.none => writeRecord posUndeclaredWrite [] kv.2

def surplusGuard (c : Cfg) (args : List PV) (kw : List (Name × PV)) : Bool :=
  !c.sig.varArgs || decide (args.length ≤ c.sig.pos.length) ||
  (surplusOf args (args.drop c.sig.pos.length) (recorded c.ps (c.sig.posNames.zip args)) == args.drop c.sig.pos.length &&
   zipStrictTest c.strict (args.drop c.sig.pos.length).length (unsupplied c args kw).length
     == (c.strict && decide ((args.drop c.sig.pos.length).length > (unsupplied c args kw).length)))

/-- the keys of the dict start with the named positional parameters, in signature order -/
def keysFollowSignature (sig : Sig) (res : Assoc) : Bool :=
  (res.map (·.1)).take sig.pos.length == sig.posNames.take res.length

/-- the hand-over of this dict binds by name: no VAR_POSITIONAL parameter, or not ARGS mode (`func(**result)`), or the receiver
    is popped and the rest passed by name, or the values happen to stand in signature order -/
def handOverByName (c : Cfg) (m : Mode) (res : Assoc) : Bool :=
  !c.sig.varArgs || m != .args || res.hasKey (specReceiver c.sig) ||
  (keysFollowSignature c.sig res && (res.drop c.sig.pos.length).all (fun kv => !c.sig.named.any (·.name == kv.1)))

def handOverGuard (c : Cfg) (m : Mode) (args : List PV) (kw : List (Name × PV)) : Bool :=
  match wrapperContent c args kw with
  | .ok res => handOverByName c m res
  | .error _ => true

end PedVerif.Validate
