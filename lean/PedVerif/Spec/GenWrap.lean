import PedVerif.Model.GenWrap
/-!
Independent statement of the generator clauses of C03 and C04, written from the property text.

It talks about *interactions*: a list of `Step`s (consumer operation, what the consumer observed, what the body
journalled meanwhile) — the same record the harness takes from the real library — and about what the return annotation
*means* (`annMeaning`, typing conventions), not about how `GeneratorWrapper` takes it apart.
The only things shared with the model are the data types and the environment (CPython's generator protocol, `plainRun`).
-/
namespace PedVerif.GenWrap

/-! ## what the annotation of a generator function means -/

def generatorNames : List String := ["typing.Generator", "collections.abc.Generator"]
def iteratorNames : List String := ["typing.Iterator", "typing.Iterable", "collections.abc.Iterator", "collections.abc.Iterable"]

/-- (yield, send, return) types: `Generator[Y, S, R]`; `Iterator[Y]` / `Iterable[Y]` = `Generator[Y, None, None]`, and so is
    `Generator[Y]` (the defaults of PEP 696 / Python 3.13; on 3.12 only `collections.abc.Generator[Y]` can be written at all).
    A string annotation (`-> 'Iterator[int]'`, every annotation under `from __future__ import annotations`) means what
    it evaluates to. -/
def annMeaning (a : Ann) : Option Types :=
  match a.args with
  | [y, s, r] => if generatorNames.contains a.base then some ⟨y, s, r⟩ else none
  | [y] => if iteratorNames.contains a.base || generatorNames.contains a.base then some ⟨y, .none, .none⟩ else none
  | _ => none

/-- does a generator object conform to the annotation at all (if not, C03 demands that the caller never gets it) -/
def annAdmitsGenerator (a : Ann) : Bool :=
  generatorNames.contains a.base || iteratorNames.contains a.base
    || ["typing.Any", "object", "typing.Optional", "typing.Union"].contains a.base

/-- the spellings the library supports: the annotation *object* in the `typing` or in the `collections.abc` spelling
    (`typing.Generator[…]`, `collections.abc.Iterator[…]`, …) - everything `annMeaning` knows except a string annotation,
    which is handed over unevaluated (open finding `generatorAnnotationSpelling`, narrowed to strings by the repair that
    made `_set_and_check_return_types` accept the collections.abc classes) -/
def supportedSpelling (a : Ann) : Bool := !a.quoted

/-! ## C03 (generator clause), per step of an interaction -/

/-- "any value … sent into … a generator function" that does not conform never reaches the body:
    everything the body receives from a `yield` expression conforms to the send type -/
def SendClause (conf : Ty → V → Bool) (ts : Types) (s : Step) : Prop :=
  ∀ x, JEv.recv x ∈ s.jev → conf ts.sendT x = true

/-- "any value yielded by … or finally returned from a generator function" that does not conform: "the caller receives
    PedanticTypeCheckException instead of that value".
    (`close()` hands no value over: what the body yields / returns while it is being closed is dropped by CPython.
    The bare `StopIteration` of a generator that had finished before is not a returned value.) -/
def ValueClauses (conf : Ty → V → Bool) (ts : Types) (s : Step) : Prop :=
  (∀ v, s.obs = .got v → conf ts.yieldT v = true) ∧
  (∀ v, s.obs = .stop v → conf ts.returnT v = true ∨ (v = V.none ∧ ∀ u, JEv.returned u ∉ s.jev)) ∧
  (s.op ≠ .close → ∀ v, JEv.yielded v ∈ s.jev → conf ts.yieldT v = false → s.obs = .ped) ∧
  (s.op ≠ .close → ∀ v, JEv.returned v ∈ s.jev → conf ts.returnT v = false → s.obs = .ped)

/-- a decorated generator function whose annotation a generator object does not conform to: the call itself raises -/
def CreationGuard (a : Ann) (result : Option (List Step)) : Prop :=
  annAdmitsGenerator a = false → result = none

/-! ## C04 (generator clause) -/

/-- every value the body yields, returns or receives in this interaction conforms -/
def stepConforming (conf : Ty → V → Bool) (ts : Types) (s : Step) : Bool :=
  s.jev.all fun
    | .recv x => conf ts.sendT x
    | .yielded v => conf ts.yieldT v
    | .returned v => conf ts.returnT v
    | _ => true

def allConforming (conf : Ty → V → Bool) (ts : Types) (steps : List Step) : Bool := steps.all (stepConforming conf ts)

/-- values occurring in a case -/
def GStep.vals : GStep → List V
  | .yield_ v _ => [v] | .return_ v => [v] | .raise_ _ => []
def Op.vals : Op → List V
  | .send x => [x] | _ => []
def caseVals (script : List GStep) (ops : List Op) : List V :=
  V.none :: (script.flatMap GStep.vals ++ ops.flatMap Op.vals)

end PedVerif.GenWrap
