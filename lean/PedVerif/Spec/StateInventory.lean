import PedVerif.Gen.StateAudit
/-!
# The state the library is allowed to keep (hand-written, one justification per site)

Every model in `PedVerif/Model` is a pure function of its arguments plus the state it carries explicitly.  This file lists
every **state site** that the state-inventory translator (`harness/gen/stateaudit.py` → `Gen/StateAudit.lean`) finds in the
unchanged tree and says, site by site, which model component carries that state - or why it is not state between calls
(written once at import / at decoration, a per-call object, ...).  `Props/StateAudit/*.lean` prove, module by module, that the
generated inventory *is* this list; `Props/StateAudit.lean` proves it for the whole library.

Reading a site: `⟨module, scope, kind, name⟩`; in `name` the root of a store is printed by role (`self`, `cls`, `<argN>` = N-th
parameter, `<local>` = a local that is not freshly created in that function, `<outer>.x` = variable `x` of an enclosing function);
the list is a multiset in the translator's order (module, scope, kind name, name).

A site that is **not** in this file - an `lru_cache`, a module-level dict, a `func._memo = ...`, a class attribute used as
memo, an object made once per decoration and used by every call - breaks `only_expected_state_<module>`.  Adding it here
means: extend the model (histories, twins) so that it carries that state, then justify it.
-/
namespace PedVerif.Spec.StateInventory
open PedVerif.Gen.StateAudit (Site Kind)

/-- the modules of the library (everything below `pedantic/` except `tests/`, `examples/`) -/
def expectedModules : List String := [
  "pedantic/__init__.py",
  "pedantic/constants.py",
  "pedantic/decorators/__init__.py",
  "pedantic/decorators/class_decorators.py",
  "pedantic/decorators/cls_deco_frozen_dataclass.py",
  "pedantic/decorators/fn_deco_context_manager.py",
  "pedantic/decorators/fn_deco_count_calls.py",
  "pedantic/decorators/fn_deco_deprecated.py",
  "pedantic/decorators/fn_deco_does_same_as_function.py",
  "pedantic/decorators/fn_deco_in_subprocess.py",
  "pedantic/decorators/fn_deco_mock.py",
  "pedantic/decorators/fn_deco_overrides.py",
  "pedantic/decorators/fn_deco_pedantic.py",
  "pedantic/decorators/fn_deco_rename_kwargs.py",
  "pedantic/decorators/fn_deco_require_kwargs.py",
  "pedantic/decorators/fn_deco_retry.py",
  "pedantic/decorators/fn_deco_timer.py",
  "pedantic/decorators/fn_deco_trace.py",
  "pedantic/decorators/fn_deco_trace_if_returns.py",
  "pedantic/decorators/fn_deco_unimplemented.py",
  "pedantic/decorators/fn_deco_validate/__init__.py",
  "pedantic/decorators/fn_deco_validate/convert_value.py",
  "pedantic/decorators/fn_deco_validate/exceptions.py",
  "pedantic/decorators/fn_deco_validate/fn_deco_validate.py",
  "pedantic/decorators/fn_deco_validate/parameters/__init__.py",
  "pedantic/decorators/fn_deco_validate/parameters/abstract_external_parameter.py",
  "pedantic/decorators/fn_deco_validate/parameters/abstract_parameter.py",
  "pedantic/decorators/fn_deco_validate/parameters/deserializable.py",
  "pedantic/decorators/fn_deco_validate/parameters/environment_variable_parameter.py",
  "pedantic/decorators/fn_deco_validate/parameters/flask_parameters.py",
  "pedantic/decorators/fn_deco_validate/validators/__init__.py",
  "pedantic/decorators/fn_deco_validate/validators/abstract_validator.py",
  "pedantic/decorators/fn_deco_validate/validators/composite_validator.py",
  "pedantic/decorators/fn_deco_validate/validators/datetime_isoformat.py",
  "pedantic/decorators/fn_deco_validate/validators/datetime_unix_timestamp.py",
  "pedantic/decorators/fn_deco_validate/validators/email.py",
  "pedantic/decorators/fn_deco_validate/validators/enum.py",
  "pedantic/decorators/fn_deco_validate/validators/for_each.py",
  "pedantic/decorators/fn_deco_validate/validators/is_uuid.py",
  "pedantic/decorators/fn_deco_validate/validators/match_pattern.py",
  "pedantic/decorators/fn_deco_validate/validators/max.py",
  "pedantic/decorators/fn_deco_validate/validators/max_length.py",
  "pedantic/decorators/fn_deco_validate/validators/min.py",
  "pedantic/decorators/fn_deco_validate/validators/min_length.py",
  "pedantic/decorators/fn_deco_validate/validators/not_empty.py",
  "pedantic/env_var_logic.py",
  "pedantic/exceptions.py",
  "pedantic/get_context.py",
  "pedantic/helper_methods.py",
  "pedantic/mixins/__init__.py",
  "pedantic/mixins/generic_mixin.py",
  "pedantic/mixins/with_decorated_methods.py",
  "pedantic/models/__init__.py",
  "pedantic/models/decorated_function.py",
  "pedantic/models/function_call.py",
  "pedantic/models/generator_wrapper.py",
  "pedantic/type_checking_logic/__init__.py",
  "pedantic/type_checking_logic/check_docstring.py",
  "pedantic/type_checking_logic/check_generic_classes.py",
  "pedantic/type_checking_logic/check_types.py",
  "pedantic/type_checking_logic/resolve_forward_ref.py"]

/-! ## Modules that keep something -/

def m_class_decorators := "pedantic/decorators/class_decorators.py"
/-- `pedantic/decorators/class_decorators.py` -/
def class_decorators : List Site := [
  -- `setattr(cls, '__pedantic_m42__', type_vars)`: the accessor is installed once, at decoration, on the class being decorated.
  -- Carried by: Gen/TypeVars `instanceAccessorSwitch` + Model/TypeVars `StoreKind` (calls on instances of a decorated class use the
  -- accessor), Model/Switch (`DecoOut` / `Effect`: what decoration does to the class dict).
  ⟨m_class_decorators, "_add_type_var_attr_and_method_to_class", .attrStoreOnForeign, "<arg0>.{TYPE_VAR_METHOD_NAME} (setattr)"⟩,
  -- `setattr(self, '__pedantic_a42__', {...})` (generic branch): THE per-instance TypeVar store.
  -- Carried by: Model/TypeVars `Stores.attrs` (instance ↦ bindings, `runCall` / `runHistory`; C07 `no_cross_instance`,
  -- `instance_history_independent`, Gen/TypeVars `storeOnInstance`, `genericMergeOrder`, `fifoOnlyClassParams`).
  ⟨m_class_decorators, "_add_type_var_attr_and_method_to_class.type_vars", .attrStoreOnForeign, "<arg0>.{TYPE_VAR_ATTR_NAME} (setattr)"⟩,
  -- the same store, non-generic branch (`{TYPE_VAR_SELF: cls}` only): `StoreKind.resetEachAccess`, Gen/TypeVars `nonGenericFresh`.
  ⟨m_class_decorators, "_add_type_var_attr_and_method_to_class.type_vars", .attrStoreOnForeign, "<arg0>.{TYPE_VAR_ATTR_NAME} (setattr)"⟩,
  -- `setattr(cls, attr, decorator(attr_value))`: members are replaced by their wrappers once, at decoration.
  -- Carried by: Gen/CallTables `classDecoratorWrapsFunctions` / `classDecoratorWrapsProperties`, Model/Switch (`classBody`).
  ⟨m_class_decorators, "for_all_methods.decorate", .attrStoreOnForeign, "<arg0>.{<local>} (setattr)"⟩,
  -- `setattr(cls, attr, new_prop)`: the same for property accessors.
  ⟨m_class_decorators, "for_all_methods.decorate", .attrStoreOnForeign, "<arg0>.{<local>} (setattr)"⟩]

def m_cls_deco_frozen_dataclass := "pedantic/decorators/cls_deco_frozen_dataclass.py"
/-- `pedantic/decorators/cls_deco_frozen_dataclass.py` -/
def cls_deco_frozen_dataclass : List Site := [
  -- `setattr(cls_, '__post_init__', new_post_init)`: installed once at decoration, before `dataclass()`.
  -- Carried by: Gen/TypeSafe `postInitInstalledBeforeDataclass`, Model/TypeSafe (construction = old post-init, then validation).
  ⟨m_cls_deco_frozen_dataclass, "frozen_dataclass.decorator", .attrStoreOnForeign, "<arg0>.{'__post_init__'} (setattr)"⟩,
  -- `setattr(new_class, method.__name__, method)`: copy_with / deep_copy_with / validate_types added once at decoration.
  -- Carried by: Gen/Frozen `methodsAdded`, Gen/TypeSafe `methodsAdded` (the three methods every decorated class has).
  ⟨m_cls_deco_frozen_dataclass, "frozen_dataclass.decorator", .attrStoreOnForeign, "<local>.{<expr>} (setattr)"⟩,
  -- `new_class` read by validate_types (`fields(new_class)`): the class itself, made once per decoration, never written.
  -- Carried by: Model/TypeSafe (`Field` list of the class is a parameter of the model), Gen/TypeSafe `validateOverAllFields`.
  ⟨m_cls_deco_frozen_dataclass, "frozen_dataclass.decorator", .closureState, "new_class (captured by validate_types)"⟩,
  -- `old_post_init = getattr(cls_, '__post_init__', lambda _: None)`: read once at decoration, called, never written.
  -- Carried by: Model/TypeSafe `UserPost`, Gen/TypeSafe `postInitOrder`, Gen/Frozen `postInitCallsOld` / `postInitOldFirst`.
  ⟨m_cls_deco_frozen_dataclass, "frozen_dataclass.decorator", .closureState, "old_post_init (captured by new_post_init)"⟩,
  -- `{**_context, **globals, self.__class__.__name__: self.__class__}`: key of a dict display built per call (a fresh context).
  -- Carried by: Gen/TypeSafe `contextMergeOrder` = caller, globals, own.  Not state between calls.
  ⟨m_cls_deco_frozen_dataclass, "frozen_dataclass.decorator.validate_types", .idOrReprKey, "<arg0>.__class__.__name__ as dict key"⟩]

def m_fn_deco_count_calls := "pedantic/decorators/fn_deco_count_calls.py"
/-- `pedantic/decorators/fn_deco_count_calls.py` -/
def fn_deco_count_calls : List Site := [
  -- `wrapper.num_calls += 1`: THE counter of count_calls, per decorated function.
  -- Carried by: Model/Utility `World.count` / `Ev.incr` (C18 `count_calls_counts`, `count_calls_counts_reentrant`).
  ⟨m_fn_deco_count_calls, "count_calls.wrapper", .closureState, "<outer>.wrapper.num_calls"⟩]

def m_fn_deco_overrides := "pedantic/decorators/fn_deco_overrides.py"
/-- `pedantic/decorators/fn_deco_overrides.py` -/
def fn_deco_overrides : List Site := [
  -- `name = func.__name__; name not in dir(base_class)`: a membership test in a list computed on the spot, at decoration.
  -- Carried by: Model/Utility `ClassDesc` (attribute lookup on the base class object).  Nothing is stored.
  ⟨m_fn_deco_overrides, "overrides.decorator", .idOrReprKey, "<arg0>.__name__ as in (through a local)"⟩]

def m_fn_deco_pedantic := "pedantic/decorators/fn_deco_pedantic.py"
/-- `pedantic/decorators/fn_deco_pedantic.py` -/
def fn_deco_pedantic : List Site := [
  -- `decorated_func = DecoratedFunction(func=f)` is made once per decoration and read by every call of the wrapper.
  -- Carried by: Model/CallLayer `Fn` (signature, annotations, `SrcFlags` are parameters of the call model, fixed per function);
  -- DecoratedFunction has no store outside `__init__` (`only_expected_state_decorated_function`: just the constant list).
  ⟨m_fn_deco_pedantic, "pedantic.decorator", .closureState, "decorated_func (captured by async_wrapper)"⟩,
  ⟨m_fn_deco_pedantic, "pedantic.decorator", .closureState, "decorated_func (captured by wrapper)"⟩]

def m_fn_deco_rename_kwargs := "pedantic/decorators/fn_deco_rename_kwargs.py"
/-- `pedantic/decorators/fn_deco_rename_kwargs.py` -/
def fn_deco_rename_kwargs : List Site := [
  -- `param_dict = {p.from_: p.to for p in params}`: built once per `rename_kwargs(...)`, only read by the wrappers.
  -- Carried by: Model/Utility (the rename table is a parameter of the rename_kwargs wrapper model).
  ⟨m_fn_deco_rename_kwargs, "rename_kwargs", .closureState, "param_dict (captured by decorator)"⟩]

def m_fn_deco_validate := "pedantic/decorators/fn_deco_validate/fn_deco_validate.py"
/-- `pedantic/decorators/fn_deco_validate/fn_deco_validate.py` -/
def fn_deco_validate : List Site := [
  -- `result.pop('self')`: `result` is the dict that `_wrapper_content` builds for this very call (a fresh dict per call).
  -- Carried by: Model/Validate `Binding` (the receiver is taken out of the per-call binding; `VExc.keyError`).  Not state between calls.
  ⟨m_fn_deco_validate, "validate.validator.async_wrapper", .attrStoreOnForeign, "<local>.pop()"⟩,
  ⟨m_fn_deco_validate, "validate.validator.async_wrapper", .attrStoreOnForeign, "<local>.pop()"⟩,
  ⟨m_fn_deco_validate, "validate.validator.wrapper", .attrStoreOnForeign, "<local>.pop()"⟩,
  ⟨m_fn_deco_validate, "validate.validator.wrapper", .attrStoreOnForeign, "<local>.pop()"⟩]

def m_abstract_validator := "pedantic/decorators/fn_deco_validate/validators/abstract_validator.py"
/-- `pedantic/decorators/fn_deco_validate/validators/abstract_validator.py` -/
def abstract_validator : List Site := [
  -- `ex.parameter_name = parameter_name` on the exception that is in flight (created by this very validation).
  -- Carried by: Model/Validate `validateParam` / `Rej.rejected carried`.  Not state between calls.
  ⟨m_abstract_validator, "Validator.validate_param", .attrStoreOnForeign, "<local>.parameter_name"⟩]

def m_env_var_logic := "pedantic/env_var_logic.py"
/-- `pedantic/env_var_logic.py` -/
def env_var_logic : List Site := [
  -- `os.environ['ENABLE_PEDANTIC'] = '0' / '1'`: THE process-wide switch.
  -- Carried by: Model/Switch `St.env` (`Op.enable` / `disable` / `setenv` / `unsetenv`; every C09 theorem is about histories of it).
  ⟨m_env_var_logic, "disable_pedantic", .attrStoreOnForeign, "os.environ[]"⟩,
  ⟨m_env_var_logic, "enable_pedantic", .attrStoreOnForeign, "os.environ[]"⟩]

def m_with_decorated_methods := "pedantic/mixins/with_decorated_methods.py"
/-- `pedantic/mixins/with_decorated_methods.py` -/
def with_decorated_methods : List Site := [
  -- `setattr(f, decorator_type, value)`: THE registry of WithDecoratedMethods - the mark lives on the decorated function.
  -- Carried by: Model/Mixins `FState.dict` (the function's `__dict__` after each `App`; `get_decorated_functions` scans it).
  ⟨m_with_decorated_methods, "create_decorator.decorator.fun", .attrStoreOnForeign, "<arg0>.{<outer>.decorator_type} (setattr)"⟩]

def m_decorated_function := "pedantic/models/decorated_function.py"
/-- `pedantic/models/decorated_function.py` -/
def decorated_function : List Site := [
  -- a list literal of dunder names, written once at import, only read (`in`).
  -- Carried by: Gen/CallTables `requireKwargsDunders` (translated on every run).
  ⟨m_decorated_function, "<module>", .moduleMutable, "FUNCTIONS_THAT_REQUIRE_KWARGS"⟩]

def m_function_call := "pedantic/models/function_call.py"
/-- `pedantic/models/function_call.py` -/
def function_call : List Site := [
  -- `self._already_checked_kwargs.append(key)`: a list made in `FunctionCall.__init__`, i.e. once per CALL.
  -- Carried by: Model/CallLayer `extraKw` (the `**kwargs` check sees the keywords that are not parameters); a fresh FunctionCall
  -- per wrapper invocation is what the fn_deco_pedantic sites above say (only `decorated_func` is shared between calls).
  ⟨m_function_call, "FunctionCall._check_type_param", .attrStoreOnForeign, "self._already_checked_kwargs.append()"⟩,
  -- `res[TYPE_VAR_SELF] = self.clazz` where `res` is the binding dict of this call / of the receiving instance.
  -- Carried by: Model/TypeVars (`Src.self` of the merged map; per-call map or per-instance `Stores.attrs`).
  ⟨m_function_call, "FunctionCall.type_vars", .attrStoreOnForeign, "<local>[]"⟩,
  -- `self._get_type_vars = getattr(instance, '__pedantic_m42__')`, `self._resolved_type_vars = res`: resolved once per CALL object.
  -- Carried by: Gen/TypeVars `resolveOncePerCall`, `instanceAccessorSwitch`, `perCallFreshMap` (Model/TypeVars `runCall`).
  ⟨m_function_call, "FunctionCall.type_vars", .attrStoreOnForeign, "self._get_type_vars"⟩,
  ⟨m_function_call, "FunctionCall.type_vars", .attrStoreOnForeign, "self._resolved_type_vars"⟩]

def m_generator_wrapper := "pedantic/models/generator_wrapper.py"
/-- `pedantic/models/generator_wrapper.py` -/
def generator_wrapper : List Site := [
  -- `_set_and_check_return_types` is the tail of `__init__` (called from there only): yield / send / return types of THIS wrapper,
  -- one wrapper per generator call.  Carried by: Model/GenWrap `Types` (`yieldT` / `sendT` / `returnT`), Gen/GenWrap creation IR.
  ⟨m_generator_wrapper, "GeneratorWrapper._set_and_check_return_types", .attrStoreOnForeign, "self._return_type"⟩,
  ⟨m_generator_wrapper, "GeneratorWrapper._set_and_check_return_types", .attrStoreOnForeign, "self._send_type"⟩,
  ⟨m_generator_wrapper, "GeneratorWrapper._set_and_check_return_types", .attrStoreOnForeign, "self._yield_type"⟩,
  ⟨m_generator_wrapper, "GeneratorWrapper._set_and_check_return_types", .attrStoreOnForeign, "self._yield_type"⟩]

def m_check_docstring := "pedantic/type_checking_logic/check_docstring.py"
/-- `pedantic/type_checking_logic/check_docstring.py` -/
def check_docstring : List Site := [
  -- `context[type_] = type_`, `context[type_.__name__] = type_`: the context dict handed in is the one `_check_docstring` builds
  -- for this one decoration.  Carried by: Model/Docstring `updateContext` / `Ctx` (newest binding of a name first).
  ⟨m_check_docstring, "_update_context", .attrStoreOnForeign, "<arg0>[]"⟩,
  ⟨m_check_docstring, "_update_context", .attrStoreOnForeign, "<arg0>[]"⟩,
  -- the `__name__` key of that per-decoration dict (two classes of one name shadow each other *within one signature*: modelled,
  -- Docstring near-name cases); nothing survives the decoration.
  ⟨m_check_docstring, "_update_context", .idOrReprKey, "<arg1>.__name__ as index"⟩]

def m_check_generic_classes := "pedantic/type_checking_logic/check_generic_classes.py"
/-- `pedantic/type_checking_logic/check_generic_classes.py` -/
def check_generic_classes : List Site := [
  -- `setattr(instance, '__pedantic_g42__', True)`: a "checked once" flag on the INSTANCE of a generic class (the constructor-call
  -- source scan is skipped afterwards).  Carried by: Model/TypeVars `Call.scanFails` (a failing scan raises before anything is
  -- stored, a passing one is idempotent: the flag only saves the re-scan).
  ⟨m_check_generic_classes, "_assert_constructor_called_with_generics", .attrStoreOnForeign, "<arg0>.{ATTR_NAME_GENERIC_INSTANCE_ALREADY_CHECKED} (setattr)"⟩]

def m_check_types := "pedantic/type_checking_logic/check_types.py"
/-- `pedantic/type_checking_logic/check_types.py` -/
def check_types : List Site := [
  -- four dispatch tables, written at import only (no store in any function: `only_expected_state_check_types` would list it),
  -- translated on every run.  Carried by: Gen/TypeTables `requiredExact`, `requiredMin`, `originCheckers`, `specialCheckers`.
  ⟨m_check_types, "<module>", .moduleMutable, "NUM_OF_REQUIRED_TYPE_ARGS_EXACT"⟩,
  ⟨m_check_types, "<module>", .moduleMutable, "NUM_OF_REQUIRED_TYPE_ARGS_MIN"⟩,
  ⟨m_check_types, "<module>", .moduleMutable, "_ORIGIN_TYPE_CHECKERS"⟩,
  ⟨m_check_types, "<module>", .moduleMutable, "_SPECIAL_INSTANCE_CHECKERS"⟩,
  -- `class_ = eval(class_path)`: the loop variable of the import-time loop that fills `_ORIGIN_TYPE_CHECKERS`; never read later.
  ⟨m_check_types, "<module>", .moduleMutable, "class_"⟩,
  -- `type_vars[type_] = type(obj)`: THE TypeVar binding, written into the dict the caller hands in (per call / per instance).
  -- Carried by: Model/TypeVars `TVMap.set` in `tvArm .bind` (the map is threaded through `isInst`), Gen/TypeVars `bindOnlyWhenUnbound`.
  ⟨m_check_types, "_is_instance", .attrStoreOnForeign, "<arg2>[]"⟩]

/-! ## The whole inventory, in the translator's order -/

def expected : List Site :=
  class_decorators ++ cls_deco_frozen_dataclass ++ fn_deco_count_calls ++ fn_deco_overrides ++ fn_deco_pedantic ++
  fn_deco_rename_kwargs ++ fn_deco_validate ++ abstract_validator ++ env_var_logic ++ with_decorated_methods ++
  decorated_function ++ function_call ++ generator_wrapper ++ check_docstring ++ check_generic_classes ++ check_types

/-- every module that is not named above keeps nothing: no mutable module / class value, no cache decorator, no `global` /
`nonlocal`, no mutable default, no store onto anything but fresh locals and `self` in `__init__`, no closure state, no identity key -/
def expectedOf (m : String) : List Site := expected.filter (fun s => s.mod == m)

/-- an import of a library module that is not in `expectedModules` (a new helper module: `pedantic/_cache.py`) is not expected -/
def importsKnown (l : List String) : Bool := l.all (fun i => expectedModules.contains i)

end PedVerif.Spec.StateInventory
