import PedVerif.Model.Frozen
/-!
Independent specification of C11, written from the property text.  It talks about a receiver `self`, the keyword
arguments `kw`, and the instance `res` that a copy method returned; the class-description vocabulary (`fieldsOf`,
`Obj.seq`, `Obj.veq`, `Obj.ident`, `Obj.hashable`, `mutIds`) is shared with the model, the copy machinery is not.
-/
namespace PedVerif.Frozen

/-- what the property demands of one field of the copy -/
inductive Expect where
  | replaced      -- named in `kw`: the copy holds the very object that was passed
  | sameObject    -- `copy_with`, not named: the copy holds the very object the original holds (shallow)
  | deepEqual     -- `deep_copy_with`, not named: the same value (`Obj.seq`), no mutable node — list / dict / set / instance of a
                  -- plain class, at any depth, also inside tuples and frozensets — shared with the original
  | equalOnly     -- `init=False` field: `__init__` recomputes it; equal value
deriving DecidableEq, Repr

def specExpect (deep : Bool) (kw : List (Name × Obj)) (f : FieldR) : Expect :=
  if (kw.lookup f.name).isSome then .replaced
  else if !f.init then .equalOnly
  else if deep then .deepEqual else .sameObject

/-- the keyword arguments name fields that `__init__` accepts (otherwise the call must raise) -/
def specKwValid (c : Cls) (kw : List (Name × Obj)) : Bool :=
  kw.all (fun kv => (initNames (fieldsOf c)).contains kv.1)

/-- can the receiver be deep-copied at all?  Not if an init field holds — at the top or anywhere inside its value — an object that
    `copy.deepcopy` cannot duplicate (a lock, a generator, an object whose `__deepcopy__` raises).  Then no instance that "shares no mutable
    field object with the original" can be produced for that field; the property demands nothing of a call that returns no instance, and
    **everything of every instance that is returned** (`CopyMeets`): a `deep_copy_with` that hands back an instance sharing such a value — and
    the ordinary lists / dicts next to the uncopyable object inside it — violates C11 -/
def specDeepCopyable (self : Inst) : Bool :=
  (fieldsOf self.cls).all (fun f => !f.init || (match self.fields.lookup f.name with | some v => v.copyable | none => true))

/-- **region `deepCopySharesInitFalseDefault`.**  The property text says of `deep_copy_with`: "shares no mutable field object".  For an
    `init=False` field that is read literally: the copy's value must not share a mutable node with the original's.  `specExpect` demands less
    (`equalOnly`), because the generated `__init__` — not `deep_copy_with` — decides what such a field holds: a `default_factory` builds a new
    object per instance, but a plain `default=<object>` is ONE object that `dataclasses` hands to every instance (like a class attribute).
    The fields of the region: not an init field, plain default, and that default object holds (or is) something mutable. -/
def inSharedDefaultRegion (f : FieldR) : Bool :=
  !f.init && (match f.dflt with | .value o => !o.mutIds.isEmpty | _ => false)

def specSharedDefaultFields (c : Cls) : List Name := ((fieldsOf c).filter inSharedDefaultRegion).map (·.name)

/-- the relation between original, arguments and copy for one field -/
def FieldMeets (deep : Bool) (self : Inst) (kw : List (Name × Obj)) (res : Inst) (f : FieldR) : Prop :=
  match specExpect deep kw f with
  | .replaced => res.fields.lookup f.name = kw.lookup f.name
  | .sameObject => res.fields.lookup f.name = self.fields.lookup f.name ∧ (self.fields.lookup f.name).isSome
  | .deepEqual => ∃ s r, self.fields.lookup f.name = some s ∧ res.fields.lookup f.name = some r ∧
      s.seq r = true ∧ ∀ i ∈ r.mutIds, i ∉ self.mutIds
  | .equalOnly => ∃ s r, self.fields.lookup f.name = some s ∧ res.fields.lookup f.name = some r ∧ s.seq r = true

/-- **copy contract**: same class, every field as demanded -/
def CopyMeets (deep : Bool) (self : Inst) (kw : List (Name × Obj)) (res : Inst) : Prop :=
  res.cls = self.cls ∧ ∀ f ∈ fieldsOf self.cls, FieldMeets deep self kw res f

/-- the tuple of (compared) fields of an instance -/
def specTuple (i : Inst) : List Obj := (cmpFields i.cls).filterMap (fun f => i.fields.lookup f.name)

/-- equality is that of (class, tuple of fields) -/
def specEq (a b : Inst) : Bool := headCid a.cls == headCid b.cls && veqL (specTuple a) (specTuple b)

/-- hashable iff the field tuple is (no list / dict / set directly or inside tuples); the hash is then the tuple's -/
def specHashable (a : Inst) : Bool := hashableL (specTuple a)

/-- the `order` argument written at the decorator of the instance's (nearest decorated) class -/
def declaredOrder (c : Cls) : Bool :=
  match decoratedPart c with
  | [] => false
  | l :: _ => l.order

/-- `some r`: the property demands `a < b` to behave like the tuple comparison `r` (`none` inside = TypeError);
    `none`: no claim (order was not requested, or the classes differ) -/
def specLt (a b : Inst) : Option (Option Bool) :=
  if declaredOrder a.cls && headCid a.cls == headCid b.cls then some (lexLt (specTuple a) (specTuple b)) else none

/-- `<=`: the field tuple is smaller or equal (`>` and `>=` are `<` / `<=` with the sides exchanged) -/
def specLe (a b : Inst) : Option (Option Bool) :=
  (specLt a b).map fun r => match r with
    | some true => some true
    | some false => some (veqL (specTuple a) (specTuple b))
    | none => none

end PedVerif.Frozen
