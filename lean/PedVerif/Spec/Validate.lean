import PedVerif.Model.Validate
/-!
Independent specifications of C12 (gate) and C13 (binding by name), written from the property text.

* `specValidate`  — what one Parameter does with one value: the None rule, then the full chain (conversion, then the
  validators) as a left fold, each step receiving its predecessor's output.
* `gate`          — C12: the items of a call in processing order (keywords in the caller's order, positionals in signature
  order, for a function with a VAR_POSITIONAL parameter the surplus positionals paired with the declared parameters the caller
  did not supply, then the remaining declared parameters, in declaration order); the first failing item decides;
  the journal lists every validator invocation that the property allows to happen.
* `specFindP`, `specDefault`, `specFlask` — the specification's own reading of "the Parameter declared for a name", "the default
  the signature gives a name" and of the trailing strict block for Flask JSON requests (nothing of the model is called; the
  equations with the model's `findP`, `Sig.default?`, `flaskCheck` are proved in `Props/C12.lean`).
* `byName`        — C13: the binding the body must observe, parameter by parameter: caller value (unless ignore_input),
  else external value, else Parameter default, else signature default; then Python's own defaults.
-/
namespace PedVerif.Validate
open PedVerif.Gen.Validate

/-! ### one Parameter, one value -/

/-- the full chain of a parameter: conversion (when a `value_type` is given) followed by the validators, in order -/
def VParam.chain (p : VParam) : List Step := p.conv.toList ++ p.validators

/-- position in the chain ↦ the reason reported -/
def VParam.whyAt (p : VParam) (i : Nat) : Why :=
  match p.conv with
  | some _ => if i = 0 then .convert else .validator (i - 1)
  | Option.none => .validator i

/-- a parameter is required iff `required=True` and no default was given -/
def VParam.specRequired (p : VParam) : Bool := p.requiredArg && p.dflt.isNone

def specStep (p : VParam) (a : PV) (fi : Step × Nat) : Except VExc PV :=
  match fi.1 a with
  | .ok w => .ok w
  -- whatever name the rejecting step's own exception carries: the exception raised names the Parameter whose chain this is
  | .error (.rejected _) => .error (.parameter p.name (p.whyAt fi.2))
  | .error (.crash e) => .error (.foreign e)

def specValidate (p : VParam) (v : PV) : Except VExc PV :=
  if v = .none then (if p.specRequired then .error (.parameter p.name .required) else .ok .none)
  else p.chain.zipIdx.foldlM (specStep p) v

/-! ### C12: the gate -/

/-- the Parameter declared for a name: `@validate(Parameter('a', …), Parameter('a', …))` — the last declaration wins -/
def specFindP (ps : List VParam) (k : Name) : Option VParam := ps.reverse.find? (·.name == k)

/-- the default value the signature gives the parameter called `n` (none: no such parameter, or no default) -/
def specDefault (sig : Sig) (n : Name) : Option PV :=
  match (sig.pos ++ sig.kwOnly).filter (·.name == n) with
  | s :: _ => s.dflt
  | [] => Option.none

/-- a validator invocation: (parameter name, index of the validator in `validators`, the value it received) -/
abbrev JEntry := Name × Nat × PV

/-- the inputs the validators of one chain receive until one of them fails -/
def validatorTrace (name : Name) : List Step → Nat → PV → List JEntry
  | [], _, _ => []
  | f :: fs, j, v => (name, j, v) :: (match f v with | .ok w => validatorTrace name fs (j + 1) w | .error _ => [])

def specJournal (p : VParam) (v : PV) : List JEntry :=
  if v = .none then [] else
  match p.conv with
  | Option.none => validatorTrace p.name p.validators 0 v
  | some c => match c v with | .ok w => validatorTrace p.name p.validators 0 w | .error _ => []

inductive Item where
  | kw (k : Name) (v : PV)          -- a keyword argument
  | surplusPos                      -- more positionals than the signature takes (no VAR_POSITIONAL parameter)
  | pos (k : Name) (v : PV)         -- a positional argument, bound to signature parameter `k`
  | surplusLeft                     -- `strict`: more surplus positionals than declared parameters left to take them
  | zip (p : VParam) (v : PV)       -- a surplus positional (`*args`), validated by and filed under declared parameter `p`
  | absent (p : VParam)             -- a declared parameter the caller did not supply

/-- the caller supplied a value for this name -/
def supplied (sig : Sig) (args : List PV) (kw : List (Name × PV)) (n : Name) : Bool :=
  (kw.any (·.1 == n)) || ((sig.posNames.take args.length).contains n)

/-- the surplus positionals of a call of a function with a VAR_POSITIONAL parameter: what does not fit the named positional
    parameters, in order — all of them, equal values and all -/
def surplusArgs (sig : Sig) (args : List PV) : List PV := if sig.varArgs then args.drop sig.pos.length else []

/-- the declared parameters the caller supplied neither by keyword nor positionally, in declaration order -/
def unsupplied (c : Cfg) (args : List PV) (kw : List (Name × PV)) : List VParam :=
  c.ps.filter (fun p => !supplied c.sig args kw p.name)

/-- the surplus positionals are handed, in order, to the unsupplied declared parameters, in declaration order -/
def zipped (c : Cfg) (args : List PV) (kw : List (Name × PV)) : List (PV × VParam) :=
  (surplusArgs c.sig args).zip (unsupplied c args kw)

def gateItems (c : Cfg) (args : List PV) (kw : List (Name × PV)) : List Item :=
  if c.ignoreInput then c.ps.map .absent else
    kw.map (fun kv => .kw kv.1 kv.2)
    ++ (if args.length > c.sig.pos.length && !c.sig.varArgs then [.surplusPos] else [])
    ++ (c.sig.posNames.zip args).map (fun kv => .pos kv.1 kv.2)
    -- `strict`: a surplus positional that no declared parameter is left to take is an argument without declared Parameter
    ++ (if c.strict && (surplusArgs c.sig args).length > (unsupplied c args kw).length then [.surplusLeft] else [])
    ++ (zipped c args kw).map (fun ap => .zip ap.2 ap.1)
    ++ (((unsupplied c args kw).filter (fun p => !((zipped c args kw).map (·.2.name)).contains p.name)).map .absent)

/-- the first parameter of the signature `def f(<pos…>, [*<var>,] [<kwOnly…>])` -/
def firstParameter (sig : Sig) : Option Name :=
  match sig.pos, sig.varArgs, sig.kwOnly with
  | s :: _, _, _ => some s.name
  | [], true, _ => some sig.varName
  | [], false, s :: _ => some s.name
  | [], false, [] => Option.none

/-- the *receiver* of a method: what is bound to the first parameter of the signature when that parameter is called `self`.
    Python binds it when the method is called on an object; it is the one positional value that needs no declared Parameter
    under `strict`.  A function whose first parameter is not called `self` has no receiver — whatever else is called `self`
    (another parameter, a keyword of the call) is an argument like every other. -/
def specReceiver (sig : Sig) : Option Name :=
  if firstParameter sig = some selfName then some selfName else Option.none

/-- the validator invocations the property allows for one item -/
def itemJournal (c : Cfg) : Item → List JEntry
  | .kw k v | .pos k v => match specFindP c.ps k with | some p => specJournal p v | Option.none => []
  | .surplusPos | .surplusLeft => []
  | .zip p v => specJournal p v
  | .absent p => match p.ext with | some v => specJournal p v | Option.none => []

/-- effect of one item: `.ok (some (n, v))` = the body may see `v` under `n` -/
def itemOut (c : Cfg) : Item → Except VExc (Option (Name × PV))
  | .kw k v =>
    match specFindP c.ps k with
    | some p => (specValidate p v).map (fun w => some (k, w))
    | Option.none => if c.strict then .error .tooMany else .ok (some (k, v))
  | .surplusPos => .error .validate
  | .pos k v =>
    match specFindP c.ps k with
    | some p => (specValidate p v).map (fun w => some (k, w))
    | Option.none => if c.strict && some k != specReceiver c.sig then .error .tooMany else .ok (some (k, v))
  | .surplusLeft => .error .tooMany
  | .zip p v => (specValidate p v).map (fun w => some (p.name, w))
  | .absent p =>
    match p.ext with
    | some v => (specValidate p v).map (fun w => some (p.name, w))
    | Option.none =>
      if p.specRequired then .error (.parameter p.name .required) else
      match p.dflt with
      | some d => .ok (some (p.name, d))
      | Option.none =>
        match specDefault c.sig p.name with
        | some d => .ok (some (p.name, d))
        | Option.none => .error .validate

/-- the trailing strict block: under `strict`, when every declared Parameter is a `FlaskJsonParameter` and the request carries a
    JSON body, a key of that body for which no Parameter is declared raises `TooManyArguments`; touching the request outside a
    request context is Flask's `RuntimeError` -/
def specFlask (c : Cfg) (res : Assoc) : Except VExc Assoc :=
  if c.strict && c.ps.all (fun p => (specFindP c.ps p.name).all (·.flaskJson)) then
    match c.req with
    | .noContext => .error .flaskOutsideContext
    | .notJson => .ok res
    | .json keys => if keys.all (fun k => (specFindP c.ps k).isSome) then .ok res else .error .tooMany
  else .ok res

/-- the items in processing order; the first failing item decides -/
def gateOut (c : Cfg) : List Item → Assoc → Except VExc Assoc
  | [], res => specFlask c res
  | it :: rest, res =>
    match itemOut c it with
    | .error e => .error e
    | .ok Option.none => gateOut c rest res
    | .ok (some (n, v)) => gateOut c rest (res.set n v)

/-- validators run for the items up to and including the first failing one, and for no later item -/
def gateJournal (c : Cfg) : List Item → List JEntry
  | [] => []
  | it :: rest =>
    match itemOut c it with
    | .error _ => itemJournal c it
    | .ok _ => itemJournal c it ++ gateJournal c rest

structure GateOut where
  journal : List JEntry
  out : Except VExc Assoc

/-- C12: validator invocations and the dict handed over (or the exception raised) -/
def gate (c : Cfg) (args : List PV) (kw : List (Name × PV)) : GateOut :=
  ⟨gateJournal c (gateItems c args kw), gateOut c (gateItems c args kw) []⟩

/-- every value that may reach the body, whatever the call style (also for `*args` functions, where the surplus
    positionals are validated by the parameters not used so far): chain outputs of caller / external values, defaults and
    signature defaults of non-required parameters; what the caller supplied *under a name without declared Parameter*
    (non-strict mode, the receiver) unchanged; the function's own defaults -/
def allowedValues (c : Cfg) (args : List PV) (kw : List (Name × PV)) : List PV :=
  let inputs := args ++ kw.map (·.2) ++ c.ps.filterMap (·.ext)
  (c.ps.flatMap fun p =>
      (inputs.filterMap fun a => match specValidate p a with | .ok w => some w | .error _ => Option.none)
      ++ (if p.specRequired then [] else p.dflt.toList ++ (specDefault c.sig p.name).toList))
    ++ (kw.filter (fun kv => (specFindP c.ps kv.1).isNone)).map (·.2)
    ++ ((c.sig.posNames.zip args).filter (fun kv => (specFindP c.ps kv.1).isNone)).map (·.2)
    ++ c.sig.named.filterMap (·.dflt)

/-! ### C13: binding by name -/

/-- what the caller supplied for a signature parameter (positional prefix first, else keyword) -/
def callerInput (sig : Sig) (args : List PV) (kw : List (Name × PV)) (name : Name) : Option PV :=
  match (sig.posNames.zip args).find? (·.1 == name) with
  | some kv => some kv.2
  | Option.none => (kw.find? (·.1 == name)).map (·.2)

/-- the caller supplied the value for this name positionally -/
def passedPositionally (sig : Sig) (args : List PV) (name : Name) : Bool :=
  ((sig.posNames.zip args).find? (·.1 == name)).isSome

/-- `strict` refuses a caller value for a name without declared Parameter — except the receiver a method is called on
    (bound positionally by Python; the same object passed by keyword, `K.f(self=obj)`, is an argument like every other) -/
def strictRefuses (c : Cfg) (args : List PV) (name : Name) : Bool :=
  c.strict && !(some name == specReceiver c.sig && passedPositionally c.sig args name)

/-- per-parameter result: `none` = nothing is handed over for this name -/
def byNameOne (c : Cfg) (args : List PV) (kw : List (Name × PV)) (s : SParam) : Except VExc (Option PV) :=
  let inp := if c.ignoreInput then Option.none else callerInput c.sig args kw s.name
  match specFindP c.ps s.name with
  | some p =>
    match inp with
    | some v => (specValidate p v).map some
    | Option.none =>
      match p.ext with
      | some v => (specValidate p v).map some
      | Option.none =>
        if p.specRequired then .error (.parameter p.name .required) else
        match p.dflt with
        | some d => .ok (some d)
        | Option.none =>
          match s.dflt with
          | some d => .ok (some d)
          | Option.none => .error .validate
  | Option.none =>
    match inp with
    | some v => if strictRefuses c args s.name then .error .tooMany else .ok (some v)
    | Option.none => .ok Option.none

/-- the value a named parameter is bound to -/
def byNameBind (c : Cfg) (m : Mode) (args : List PV) (kw : List (Name × PV)) (s : SParam) : Except VExc (Name × PV) := do
  let r ← byNameOne c args kw s
  -- KWARGS_WITHOUT_NONE omits None values so that signature defaults apply
  let r := if m == Mode.kwWithoutNone && r == some PV.none then Option.none else r
  match r with
  | some v => pure (s.name, v)
  | Option.none =>
    match s.dflt with
    | some d => pure (s.name, d)
    | Option.none => throw .bodyTypeError

/-- the binding the body must observe: by name, independent of call style and `return_as` mode -/
def byName (c : Cfg) (m : Mode) (args : List PV) (kw : List (Name × PV)) : Except VExc Assoc :=
  c.sig.named.mapM (byNameBind c m args kw)

end PedVerif.Validate
