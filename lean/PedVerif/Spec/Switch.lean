import PedVerif.Model.Switch
/-!
Independent specification of C09, written from the property text (it shares only the vocabulary — `Op`, `Deco`,
`Target`, `CallKind`, `Obs` — with the model; it never looks at `PedVerif.Gen.Switch`).

* the variable `"0"` (or `disable_pedantic()`) at decoration time: the decorator returns the very object it was given,
  unmodified, and nothing is imposed on any later call;
* unset or `"1"` (or `enable_pedantic()`): the decorators check;
* whatever happens to the variable afterwards changes nothing for what is already decorated;
* "the very object they were given" is whatever object is handed in — a fresh function, or one that was handed to a
  decorator before (`redecorate` / `reapply`): only the present value of the variable matters, not the object's past.

* "already decorated callables" are the members of a decorated class too, by whatever route they are reached: a class
  created later as a sub class of a decorated class inherits the members *as they were decided when the base class was
  decorated* — through the sub class or through one of its instances, instance methods, class methods, static methods and
  properties alike, whether the sub class is used for the first time before or after the variable changes.

* "return the very object they were given" does not depend on what the object is: switched off, ANY object handed to any of the
  decorators comes back as it is — a function without source text, a builtin, a `functools.partial`, an instance with
  `__call__`, a lambda, a function with a wrong docstring, a class handed to a function decorator, a function handed to a class
  decorator, an `Enum`, a dataclass — and nothing is imposed (no check: in particular the decoration cannot raise).  What the
  decorators do to such an object when switched ON is not the subject of this property (`unclaimed`).

* "they check" includes, for the checking decorators of the pedantic family on a class that lists `typing.Generic[…]`, that an
  instance created WITHOUT type arguments is turned away when a checked method is called on it (PedanticTypeVarMismatchException)
  — decided, like every other check, when the class is decorated: toggling the variable afterwards changes nothing.  A plain sub
  class `class S(Base): pass` lists no `Generic[…]` itself; nothing of that kind is asked of its instances.

Other values of the variable are not claimed (`unclaimed`).
-/
namespace PedVerif.Switch

/-- the property's reading of the variable: `some false` = switched off, `some true` = on, `none` = not claimed -/
def claim : Option String → Option Bool
  | none => some true
  | some s => if s = "1" then some true else if s = "0" then some false else none

/-- what "they check" means for each decorator -/
def Inner.effect : Inner → Effect
  | .pedantic | .pedanticDoc => .checks
  | .trace | .timer => .prints
  | .mark => .marks

def Deco.effect : Deco → Effect
  | .pedantic | .pedanticDoc | .pedanticClass | .pedanticClassDoc => .checks
  | .traceClass | .timerClass => .prints
  | .forAll i => i.effect

/-- … for this target: the pedantic family on a generic class also insists on type arguments for every instance -/
def Deco.effectOn (d : Deco) (t : Target) : Effect :=
  match d.effect with
  | .checks => if d.onClass && t.generic then .checksGeneric else .checks
  | e => e

def Deco.requiresDoc : Deco → Bool
  | .pedanticDoc | .pedanticClassDoc | .forAll .pedanticDoc => true
  | _ => false

/-- what the property says about one decoration result -/
inductive SHandle where
  | identity               -- decorated while switched off: the original object
  | active (e : Effect)    -- decorated while switched on
  | dead                   -- no callable came out
  | unclaimed
deriving DecidableEq, Repr

/-- what the property says about one observation -/
inductive SObs where
  | exact (o : Obs)        -- must be observed exactly
  | enabledDeco            -- a decoration that succeeds; identity bits of the result are not claimed
  | unclaimed
deriving DecidableEq, Repr

structure SSt where
  env : Option String
  handles : List SHandle
  factories : List Deco
  targets : List (Option Target) := []   -- the object each decoration was applied to
deriving DecidableEq, Repr

def sinit (e : Option String) : SSt := ⟨e, [], [], []⟩

def srecord (t : Option Target) (p : SSt × SObs) : SSt × SObs := ({ p.1 with targets := p.1.targets ++ [t] }, p.2)

/-- the function object an earlier decoration was applied to (classes are modified in place when decorated: handing the
    same class object in again is not claimed) -/
def sagain (targets : List (Option Target)) (h : Nat) : Option Target :=
  match targets[h]? with
  | some (some t) => if t.isClass then none else some t
  | _ => none


def spush (s : SSt) (h : SHandle) : SSt := { s with handles := s.handles ++ [h] }

/-- the decorator is applied now: only the present value of the variable matters -/
def specDecorate (s : SSt) (d : Deco) (t : Target) : SSt × SObs :=
  match claim s.env with
  | none => (spush s .unclaimed, .unclaimed)
  | some false => (spush s .identity, .exact (.decorated true true))          -- whatever the object is
  | some true =>
    if t.odd || d.onClass != t.isClass then (spush s .unclaimed, .unclaimed)   -- not an object the decorator is made for
    else if d.requiresDoc && !t.hasDoc then (spush s .dead, .exact .decoRaised)
    else (spush s (.active (d.effectOn t)), .enabledDeco)

def specApply (s : SSt) (k : Nat) (t : Target) : SSt × SObs :=
  match s.factories[k]? with
  | none => (spush s .dead, .exact .bad)
  | some d => specDecorate s d t

def specCall (h : SHandle) (k : CallKind) : SObs :=
  match h with
  | .identity => .exact (.called false false false)
  | .active .checks => .exact (.called (match k with | .positional => true | .wrongType => true | _ => false) false false)
  | .active .checksGeneric =>
    .exact (.called (match k with | .positional => true | .wrongType => true | .unparamInst => true | _ => false) false false)
  | .active .prints => .exact (.called false true false)
  | .active .marks => .exact (.called false false true)
  | .dead => .exact .bad
  | .unclaimed => .unclaimed

/-- one form of access only for a property -/
def specKind (m : Member) (k : CallKind) : CallKind :=
  match k with
  | .unparamInst | .paramInst => .good       -- the instance is the harness' own: a conforming call
  | k =>
    match m with
    | .propGet | .propSet => (match k with | .positional => .good | k => k)
    | _ => k

/-- a member of a class, reached through the class object or an instance.  Not claimed here: a class method / static method
    of a class whose members were wrapped by trace / timer / a foreign decorator, called through an instance (what
    `for_all_methods` does to the binding of such members is the subject of C18, whatever the switch says). -/
def specCallM (h : SHandle) (m : Member) (v : Via) (k : CallKind) : SObs :=
  match h with
  | .identity => .exact (.called false false false)
  | .active .checks | .active .checksGeneric => .exact (.called (match specKind m k with | .good => false | _ => true) false false)
  | .active e =>
    match m, v with
    | .classMethod, .inst => .unclaimed
    | .staticMethod, .inst => .unclaimed
    | _, _ => (match e with | .marks => .exact (.called false false true) | _ => .exact (.called false true false))
  | .dead => .exact .bad
  | .unclaimed => .unclaimed

def specStep (s : SSt) : Op → SSt × SObs
  | .setenv v => ({ s with env := some v }, .exact .none)
  | .unsetenv => ({ s with env := none }, .exact .none)
  | .enable => ({ s with env := some "1" }, .exact .none)
  | .disable => ({ s with env := some "0" }, .exact .none)
  | .factory d => ({ s with factories := s.factories ++ [d] }, .exact .none)
  | .decorate d t => srecord (some t) (specDecorate s d t)
  | .apply k t => srecord (some t) (specApply s k t)
  | .redecorate d h =>
    match sagain s.targets h with
    | none => srecord none (spush s .dead, .exact .bad)
    | some t => srecord (some t) (specDecorate s d t)       -- the object's past does not matter
  | .reapply k h =>
    match sagain s.targets h with
    | none => srecord none (spush s .dead, .exact .bad)
    | some t => srecord (some t) (specApply s k t)
  | .call h k =>
    match s.handles[h]? with
    | none => (s, .exact .bad)
    | some hd => (s, specCall hd k)
  | .subclass h =>
    -- a sub class inherits what was decided for its base; a function, or a decoration that produced nothing, has no sub class
    match s.handles[h]?, s.targets[h]? with
    | some hd, some (some t) =>
      if t.isClass && !t.odd then
        srecord (some { t with generic := false }) (match hd with
          | .dead => (spush s .dead, .exact .bad)
          | .unclaimed => (spush s .unclaimed, .unclaimed)
          | .active .checksGeneric => (spush s (.active .checks), .exact .derived)   -- the sub class itself lists no `Generic[…]`
          | hd => (spush s hd, .exact .derived))
      else srecord none (spush s .dead, .exact .bad)
    | _, _ => srecord none (spush s .dead, .exact .bad)
  | .callm h m v k =>
    match s.handles[h]?, s.targets[h]? with
    | some hd, some (some t) => if hasMember t m then (s, specCallM hd m v k) else (s, .exact .bad)
    | _, _ => (s, .exact .bad)

def specRun (s : SSt) : List Op → List SObs
  | [] => []
  | op :: rest => (specStep s op).2 :: specRun (specStep s op).1 rest

/-- an observation is what the property allows -/
def agrees (o : Obs) : SObs → Bool
  | .exact o' => o == o'
  | .enabledDeco => match o with | .decorated _ _ => true | _ => false
  | .unclaimed => true

def agreesAll : List Obs → List SObs → Bool
  | [], [] => true
  | o :: os, s :: ss => agrees o s && agreesAll os ss
  | _, _ => false

end PedVerif.Switch
