import PedVerif.Model.Docstring
/-!
Independent specification of C19, written from the property text.

The docstring is seen as the list of documented parameters and the optional Returns entry; every documented type has
already been given its *meaning* (the type object it denotes, or nothing when the entry has no type / the text denotes no
type).  "Equal" is typing-object equality `annEq` (environment, shared with the model).  Nothing here mentions loops,
contexts, exception plumbing or the order of checks.
-/
namespace PedVerif.Docstring

structure SParam where
  name : Sym
  ty : Option Val            -- the type the entry documents; none: no type / not a type
deriving Repr

structure SDoc where
  present : Bool                    -- the function has a non-empty docstring
  params : List SParam              -- the documented parameters
  returns : Option (Option Val)     -- none: no Returns entry; some none: a Returns entry without a type; some (some v)
deriving Repr

/-- the documented type exists and equals the annotation -/
def typeMatches (annotation : Val) (documented : Option Val) : Bool :=
  match documented with
  | some v => annEq annotation v && annEq v annotation
  | Option.none => false

/-- the type the function returns: `-> None` and a missing return annotation both mean "returns nothing" -/
def returnedType (f : FnD) : Option Val := f.ret.join

/-- the Returns entry equals the return annotation and is absent iff the function returns `None` -/
def returnsOk (f : FnD) (s : SDoc) : Bool :=
  match returnedType f, s.returns with
  | some r, some t => typeMatches r t
  | Option.none, Option.none => true
  | _, _ => false

/-- **consistent**: the docstring exists, documents exactly the annotated parameters (each one exactly once, nothing else),
    each with a type equal to its annotation, and its Returns entry is as `returnsOk` says -/
def Consistent (f : FnD) (s : SDoc) : Prop :=
  s.present = true ∧
  (∀ na ∈ f.anns, (s.params.filter (fun p => p.name == na.1)).length = 1) ∧
  (∀ p ∈ s.params, ∃ na ∈ f.anns, na.1 = p.name ∧ typeMatches na.2 p.ty = true) ∧
  returnsOk f s = true

instance (f : FnD) (s : SDoc) : Decidable (Consistent f s) := by unfold Consistent; infer_instance

/-- docstring checking **applies**: required, or the docstring documents parameters -/
def Applies (requireDocstring : Bool) (s : SDoc) : Prop := requireDocstring = true ∨ s.params ≠ []

instance (r : Bool) (s : SDoc) : Decidable (Applies r s) := by unfold Applies; infer_instance

/-- the outcome of decoration the property prescribes (pedantic enabled) -/
def expected (requireDocstring : Bool) (f : FnD) (s : SDoc) : Out :=
  if Applies requireDocstring s then
    (if Consistent f s then .ok else .raised "PedanticDocstringException")
  else .ok

/-- a class decorated with `pedantic_class_require_docstring`: every function of the class is checked — methods, static and class
    methods, and the getter, setter and deleter of every property alike (the specification does not distinguish them); decoration
    succeeds iff all are consistent -/
def expectedClass : List (FnD × SDoc) → Out
  | [] => .ok
  | (f, s) :: rest => if Consistent f s ∧ expectedClass rest = .ok then .ok else .raised "PedanticDocstringException"

/-- a class decorated with `pedantic_class`: every method is a `@pedantic` function — checked when its docstring documents
    parameters; decoration succeeds iff every method to which checking applies is consistent.  (Whether a base class of the class
    has been decorated before does not occur: the property speaks about the methods the decorated class defines.) -/
def expectedClassPlain : List (FnD × SDoc) → Out
  | [] => .ok
  | (f, s) :: rest =>
    if expected false f s = .ok ∧ expectedClassPlain rest = .ok then .ok else .raised "PedanticDocstringException"

/-- several functions decorated one after the other (`requireDocstring` per decoration): every one of them is judged on its own
    signature and docstring, however often the same `def` has been executed before -/
def expectedSeq : List (Bool × FnD × SDoc) → Out
  | [] => .ok
  | (r, f, s) :: rest => if expected r f s = .ok ∧ expectedSeq rest = .ok then .ok else .raised "PedanticDocstringException"

/-! ### the views the specification is applied to -/

def DT.meaning : DT → Option Val
  | .parsed v => some v
  | _ => Option.none

/-- the model's input seen through the specification's eyes: a documented type means the object `_parse_documented_type`
    obtained for it; a Returns entry has a type iff `docstring_parser` gave it two `args` (`['returns', <type>]`) -/
def sdocOf (f : FnD) (d : Doc) : SDoc :=
  { present := f.rawDoc == .text
    params := d.params.map (fun p => ⟨p.name, p.ty.meaning⟩)
    returns := d.returns.map (fun (n, ty) => if n == 2 then ty.meaning else Option.none) }

/-- the docstring as written (before `docstring_parser` saw it) -/
structure Intended where
  params : List RawParam
  returns : Option (Option TypeText)     -- none: no Returns section; some none: Returns without a type
deriving Repr

/-- what a parser that recognises every entry returns for the docstring as written -/
def rawOf (i : Intended) : RawDocstring :=
  { params := i.params
    returns := i.returns.map (fun t => match t with
      | some tt => (2, some tt)
      | Option.none => (1, Option.none)) }

def sameText : Option TypeText → Option TypeText → Bool
  | some a, some b => a.text == b.text
  | Option.none, Option.none => true
  | _, _ => false

def sameParams : List RawParam → List RawParam → Bool
  | [], [] => true
  | p :: ps, q :: qs => p.name == q.name && sameText p.ty q.ty && sameParams ps qs
  | _, _ => false

/-- `docstring_parser` returned what was written -/
def sameRaw (a b : RawDocstring) : Bool :=
  sameParams a.params b.params &&
  (match a.returns, b.returns with
   | some (n, t), some (m, u) => n == m && sameText t u
   | Option.none, Option.none => true
   | _, _ => false)

/-- what a documented type means to the author: its value in the *module's* namespace `ns` (the module's own classes and
    type variables; `typing` names and builtins as everywhere) -/
def meaningIn (ns : Ctx) : Option TypeText → Option Val
  | Option.none => Option.none
  | some t => match t.expr with
    | Option.none => Option.none
    | some e => match evalD ns e with
      | .ok v => some v
      | .error _ => Option.none

def specDoc (ns : Ctx) (f : FnD) (i : Intended) : SDoc :=
  { present := f.rawDoc == .text
    params := i.params.map (fun p => ⟨p.name, meaningIn ns p.ty⟩)
    returns := i.returns.map (fun t => meaningIn ns t) }

/-- a string annotation (forward reference) means the object of that name in the module -/
def resolveAnn (ns : Ctx) : Val → Val
  | .str n => (ns.get n).getD (.str n)
  | v => v

def resolveSig (ns : Ctx) (f : FnD) : FnD :=
  { f with anns := f.anns.map (fun na => (na.1, resolveAnn ns na.2))
           ret := f.ret.map (fun r => r.map (resolveAnn ns)) }

end PedVerif.Docstring
