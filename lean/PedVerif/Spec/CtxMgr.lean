import PedVerif.Model.CtxMgr
/-!
Independent specification of C16, written from the property text and the decorator's docstring

    with some_generator(<arguments>) as <variable>: <body>     ≡     <setup>; try: <variable> = <value>; <body> finally: <cleanup>

It does not mention wrapper generators, `next`, `throw`, contextlib or PEP 479: a `with` over a generator in the documented
form (`<setup>; yield <value>; <cleanup>`, one yield) is a try/finally.

`<cleanup>` is ALL the code after the generator's yield, run as ordinary code (`UserGen.after`: nothing is pending when it starts):
a generator may wrap its yield in try / with blocks of its own and have further statements behind them — the rest of the try
body, the else and finally clauses and the trailing statements all run, exactly once, after the block; its `except` clauses
are its own business (they see what its own cleanup statements raise) and never the exception of the with-block.
-/
namespace PedVerif.CtxMgr
open PedVerif.Gen.CtxMgr

/-- the documented form, as an observable generator: exactly one yield, and the exceptions that leave it are not
    Stop(Async)Iteration (Python replaces those by a RuntimeError before anybody outside the generator can see them) -/
def UserGen.docForm (m : Mode) (g : UserGen) : Bool :=
  g.yields == 1
  && (match g.setupExc with | some e => !converted m e.kind | none => true)
  && (match g.after.2 with | some e => !converted m e.kind | none => true)

def Prog.docForm (m : Mode) : Prog → Bool
  | .body _ _ => true
  | .withCm g args inner => g.docForm m && args.fits && inner.docForm m     -- the call binds: a tuple that does not is a TypeError of the caller
  | .seq p q => p.docForm m && q.docForm m

/-- try/finally semantics: journal and how the program ends -/
def spec : Prog → List Ev × Final
  | .body n b => ([.body n], b.final)
  | .seq p q =>
    match (spec p).2 with
    | .normal => ((spec p).1 ++ (spec q).1, (spec q).2)
    | f => ((spec p).1, f)
  | .withCm g args inner =>
    match g.setupExc with
    | some e => ([.setup g.tag args], .raised e)                     -- a failing setup propagates, no cleanup
    | none =>
      ([.setup g.tag args, .bind g.tag g.value] ++ (spec inner).1 ++ g.after.1,
       match g.after.2 with
       | some c => .raised c                                         -- the cleanup's exception wins
       | none => (spec inner).2)                                     -- otherwise whatever the block did, unchanged

/-- contextlib re-raises the *body's* Stop(Async)Iteration instead of the cleanup's exception when the cleanup raises a
    RuntimeError explicitly chained (`raise … from`) to that very object.  `quirk m c e`: cleanup exception `c`, block ended
    with exception `e`, and this is the case. -/
def quirk (m : Mode) (c e : Exc) : Bool :=
  c.kind == .runtimeError && exitIsStop m e.kind && c.cause == some e.id && c != e

/-- no `with` of the program is in the quirk situation (decidable, evaluated along the try/finally semantics) -/
def Prog.quirkFree (m : Mode) : Prog → Bool
  | .body _ _ => true
  | .seq p q => p.quirkFree m && q.quirkFree m
  | .withCm g _ inner =>
    inner.quirkFree m &&
    (match g.setupExc, g.after.2, (spec inner).2 with
     | none, some c, .raised e => !quirk m c e
     | _, _, _ => true)

/-- decoration time: only a generator function may be given to `safe_contextmanager`, only an async generator function to
    `safe_async_contextmanager`; everything else must be rejected there -/
def mustAccept : Mode → FnKind → Bool
  | .sync, .generator => true
  | .async, .asyncGenerator => true
  | _, _ => false

def count (p : Ev → Bool) (l : List Ev) : Nat := (l.filter p).length

def Ev.isCleanup (t : Nat) : Ev → Bool
  | .cleanup t' => t' == t
  | _ => false
def Ev.isBind (t : Nat) : Ev → Bool
  | .bind t' _ => t' == t
  | _ => false

/-- `n`-fold nesting: `with g₀: with g₁: … inner` -/
def nest : List (UserGen × CallArgs) → Prog → Prog
  | [], inner => inner
  | (g, a) :: gs, inner => .withCm g a (nest gs inner)

/-- repetition: `with g₀: b₀` ; `with g₁: b₁` ; … -/
def chain : List Prog → Prog
  | [] => .body 0 .normal
  | p :: ps => .seq p (chain ps)

/-! ## Overlapping uses of one manager: every use is its own try/finally

The specification of a history does not know generators, frames or variables: it only remembers, per use, which generator
function behaviour the use was started with and whether its block is still running. -/

def specOp (entered : List (UserGen × Bool)) : Op → List Ev × OpOut × List (UserGen × Bool)
  | .enter g args =>
    match g.setupExc with
    | some e => ([.setup g.tag args], .enterFailed e, entered ++ [(g, false)])
    | none => ([.setup g.tag args, .bind g.tag g.value], .entered g.value, entered ++ [(g, true)])
  | .exit i fin =>
    match entered[i]? with
    | some (g, true) =>
      (g.after.1, .exited (match g.after.2 with | some c => .raised c | none => fin), entered.set i (g, false))
    | _ => ([], .ignored, entered)

def specOps : List (UserGen × Bool) → List Op → List (List Ev × OpOut)
  | _, [] => []
  | en, op :: rest => let r := specOp en op; (r.1, r.2.1) :: specOps r.2.2 rest

/-- the history stays inside what the property talks about: documented-form generators, calls that bind, no `with` in the quirk
    situation (decidable, evaluated along the specification) -/
def histOk (m : Mode) : List (UserGen × Bool) → List Op → Bool
  | _, [] => true
  | en, op :: rest =>
    (match op with
     | .enter g args => g.docForm m && args.fits
     | .exit i fin =>
       match en[i]?, fin with
       | some (g, true), .raised e => (match g.after.2 with | some c => !quirk m c e | none => true)
       | _, _ => true)
    && histOk m (specOp en op).2.2 rest

end PedVerif.CtxMgr
