import PedVerif.Model.Retry
/-! Independent specification of C15, written from the property text (not from the code). -/
namespace PedVerif.Retry

/-- index of the first outcome in `[start, start + budget)` that is a return or a foreign exception;
    `start + budget` if there is none -/
def firstStop (script : Nat → Outc) : (budget : Nat) → (start : Nat) → Nat
  | 0, i => i
  | b + 1, i => if isStop (script i) then i else firstStop script b (i + 1)

/-- invocations `i, i+1, …, i+n` with exactly one sleep between two consecutive invocations -/
def altTrace : (i n : Nat) → List Ev
  | i, 0 => [.call i]
  | i, n + 1 => .call i :: .sleep :: altTrace (i + 1) n

/-- the contract: invoke until return / foreign exception / `attempts` invocations; the caller sees the
    last invocation's outcome; waiting only between invocations -/
def spec (script : Nat → Outc) (attempts : Int) : Run :=
  let k := firstStop script (attempts - 1).toNat 0
  ⟨altTrace 0 k, resOf (script k)⟩

end PedVerif.Retry
