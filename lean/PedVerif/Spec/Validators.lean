import PedVerif.Model.Validators
/-!
Independent specification of C14, written from the property text and the validators' documentation
(not from the code): one documented predicate per validator, the documented return value, and "every rejection is a
ValidatorException".  The executable forms (`spec…`) are what the driver reports as `spec`; the declarative forms
(`EmailSpec`, `IsStripOf`, `Accepts`) are what the theorems in `Props/C14.lean` connect the model to.
-/
namespace PedVerif.Validators

/-- the documented outcome of `validate` -/
inductive SpecOut where
  | accept (value : Val) (ident : Bool)   -- accepted, returns `value`; `ident`: that is the argument itself, unchanged
  | reject                                 -- rejected — with ValidatorException
  | na                                     -- the input is outside the validator's documented domain
deriving Repr

/-! ### Min / Max: `Min(b)` accepts `v ≥ b` (`v > b` without the boundary), `Max(b)` accepts `v ≤ b` (`v < b`) -/

def minPred (b v : Num) (incl : Bool) : Bool := if incl then b.le v else b.lt v
def maxPred (b v : Num) (incl : Bool) : Bool := if incl then v.le b else v.lt b

def specMin (bound : Val) (incl : Bool) (v : Val) : SpecOut :=
  match bound.toNum, v.toNum with
  | some b, some x => if minPred b x incl then .accept v true else .reject
  | _, _ => .na

def specMax (bound : Val) (incl : Bool) (v : Val) : SpecOut :=
  match bound.toNum, v.toNum with
  | some b, some x => if maxPred b x incl then .accept v true else .reject
  | _, _ => .na

/-! ### MinLength / MaxLength: a `Sized` value whose length is at least / at most the limit -/

def minLenPred (n : Int) (v : Val) : Bool := v.isSized && decide (n ≤ v.len)
def maxLenPred (n : Int) (v : Val) : Bool := v.isSized && decide (v.len ≤ n)
def specMinLength (n : Int) (v : Val) : SpecOut := if minLenPred n v then .accept v true else .reject
def specMaxLength (n : Int) (v : Val) : SpecOut := if maxLenPred n v then .accept v true else .reject

/-! ### NotEmpty: a string with a non-whitespace character (returned stripped iff `strip`), or a non-empty Sequence -/

/-- `out` is `s` without its leading and trailing whitespace -/
def IsStripOf (isSpace : Char → Bool) (s out : List Char) : Prop :=
  ∃ l r, s = l ++ out ++ r ∧ l.all isSpace = true ∧ r.all isSpace = true ∧
    (∀ c, out.head? = some c → isSpace c = false) ∧ (∀ c, out.getLast? = some c → isSpace c = false)

/-- executable: cut the leading run, then as many characters from the end as the trailing run is long -/
def specStrip (isSpace : Char → Bool) (s : List Char) : List Char :=
  let a := s.drop (s.takeWhile isSpace).length
  a.take (a.length - (a.reverse.takeWhile isSpace).length)

def notBlank (isSpace : Char → Bool) (s : List Char) : Bool := s.any (fun c => !isSpace c)

def specNotEmpty (isSpace : Char → Bool) (strp : Bool) (v : Val) : SpecOut :=
  match v with
  | .str s =>
    if notBlank isSpace s then (if strp then .accept (.str (specStrip isSpace s)) false else .accept v true) else .reject
  | _ => if v.isSequence && decide (0 < v.len) then .accept v true else .reject

/-! ### Email (default pattern): `local@domain.tld` -/

/-- the declarative reading of the documented pattern: non-empty local part and domain free of `@` and whitespace,
    a non-empty ASCII-alphanumeric suffix after the last dot -/
def EmailSpec (isSpace : Char → Bool) (s : List Char) : Prop :=
  ∃ l d t, s = l ++ ['@'] ++ d ++ ['.'] ++ t ∧ l ≠ [] ∧ d ≠ [] ∧ t ≠ [] ∧
    l.all (isC isSpace) = true ∧ d.all (isC isSpace) = true ∧ t.all isA = true

/-- executable reading of `EmailSpec` by brute force over the positions of `@` and `.` -/
def emailSpecB (isSpace : Char → Bool) (s : List Char) : Bool :=
  (List.range s.length).any fun i => (List.range s.length).any fun j =>
    decide (i < j) && s[i]? == some '@' && s[j]? == some '.' &&
    (let l := s.take i
     let d := (s.take j).drop (i + 1)
     let t := s.drop (j + 1)
     !l.isEmpty && !d.isEmpty && !t.isEmpty && l.all (isC isSpace) && d.all (isC isSpace) && t.all isA)

def specEmail (isSpace : Char → Bool) (post : Val → Val) (v : Val) : SpecOut :=
  match v with
  | .str s => if emailSpecB isSpace s then .accept (post v) false else .reject
  | _ => .na

/-! ### validators defined by a standard-library notion: accepted iff the library says valid.
    Written from the property text and the documented parameters (`convert`, `to_upper_case`, "seconds since 1970"), as
    functions of the answers of the library callees; `Option` pipelines, no exception classes, no `try`. -/

/-- the answer of a callee, forgetting which class it raised -/
def Orc.toOption {α : Type} : Orc α → Option α
  | .ok v => some v
  | .raises _ => none

/-- MatchPattern / Email with a custom pattern: accepted iff `re` finds a match -/
def specOracleBool (matched : Orc Bool) (out : Val) (ident : Bool) : SpecOut :=
  match matched with
  | .ok true => .accept out ident
  | .ok false => .reject
  | .raises _ => .na            -- `re` itself failed (non-str subject for Email): outside the domain

/-- IsUuid: accepted iff `UUID(str(v))` exists; returns it when `convert`, else the argument -/
def specIsUuid (convert : Bool) (uuidOfStr : Val → Orc Val) (v : Val) : SpecOut :=
  match (uuidOfStr v).toOption with
  | some u => if convert then .accept u false else .accept v true
  | none => .reject

/-- IsEnum, the key under which the value is looked up: its upper-cased form when `to_upper_case` and it is a str, else the
    value itself (second component: it is the argument itself) -/
def enumKey (toUpper : Bool) (env : EnumEnv) (v : Val) : Val × Bool :=
  if toUpper && env.isStrInst v then (env.upperOf v, false) else (v, true)

/-- the member the key names, if any: for an IntEnum the key is read as an integer first -/
def enumMember (env : EnumEnv) (key : Val) : Option Val :=
  (if env.isIntEnum then (env.intOf key).toOption else some key).bind fun a => (env.enumOf a).toOption

/-- IsEnum: accepted iff the key names a member; returns the member when `convert`, else the key -/
def specIsEnum (convert toUpper : Bool) (env : EnumEnv) (v : Val) : SpecOut :=
  match enumMember env (enumKey toUpper env v).1 with
  | some m => if convert then .accept m false else .accept (enumKey toUpper env v).1 (enumKey toUpper env v).2
  | none => .reject

/-- DatetimeIsoFormat: accepted iff `datetime.fromisoformat(v)` exists; returns it -/
def specIso (fromIso : Val → Orc Val) (v : Val) : SpecOut :=
  match (fromIso v).toOption with
  | some d => .accept d false
  | none => .reject

/-- days from 0001-01-01 (ordinal 1) to 1970-01-01 (ordinal 719163) and to 9999-12-31 (ordinal 3652059) -/
def specMinUs : Int := -(719163 - 1) * 86400 * 1000000
def specMaxUs : Int := (3652059 - 719163 + 1) * 86400 * 1000000 - 1

/-- the documented input domain of DateTimeUnixTimestamp: an int (bool included), a float or a str -/
def isSecondsValue : Val → Bool
  | .bool _ | .int _ | .float _ _ | .str _ => true
  | _ => false

/-- DateTimeUnixTimestamp: an int / float / str that denotes a finite number of seconds (`float(v)`, as a `timedelta` of `us`
    whole microseconds) whose datetime 1970-01-01 + us exists; returns that datetime -/
def specUnix (floatOf : Val → Orc Num) (timedeltaOf : Num → Orc Int) (v : Val) : SpecOut :=
  if isSecondsValue v then
    match (floatOf v).toOption.bind fun x => (timedeltaOf x).toOption with
    | some us => if specMinUs ≤ us ∧ us ≤ specMaxUs then .accept (.ext "datetime_us" (toString us)) false else .reject
    | none => .reject
  else .reject

/-! ### ForEach / Composite -/

/-- `a` and `b` have the same length and are related element by element -/
def Forall2 {α β : Type} (R : α → β → Prop) : List α → List β → Prop
  | [], [] => True
  | a :: as, b :: bs => R a b ∧ Forall2 R as bs
  | _, _ => False

mutual
/-- validator tree `t` accepts `x` and returns `y` -/
def Accepts (sem : Nat → Val → VRes Val) : VT → Val → Val → Prop
  | .leaf i, x, y => sem i x = .ok y
  | .forEach ch, x, y => ∃ xs ys, x.items = some xs ∧ y = .list ys ∧ Forall2 (fun a b => ChainAccepts sem ch a b) xs ys
  | .composite cs, x, y => y = x ∧ AllAccept sem cs x
/-- the chain accepts `x`: each validator gets the output of the one before -/
def ChainAccepts (sem : Nat → Val → VRes Val) : List VT → Val → Val → Prop
  | [], x, z => z = x
  | v :: vs, x, z => ∃ y, Accepts sem v x y ∧ ChainAccepts sem vs y z
/-- every child accepts `x` -/
def AllAccept (sem : Nat → Val → VRes Val) : List VT → Val → Prop
  | [], _ => True
  | v :: vs, x => (∃ y, Accepts sem v x y) ∧ AllAccept sem vs x
end

/-- executable: `some y` accepted with output y, `none` rejected; `foreign := true` when a leaf raised something that is
    not a ValidatorException (then the property says nothing) -/
structure TreeOut where
  out : Option Val
  foreign : Bool

mutual
def specTree (sem : Nat → Val → VRes Val) : VT → Val → TreeOut
  | .leaf i, x => match sem i x with
    | .ok y => ⟨some y, false⟩
    | .raises e => ⟨none, e != .validator⟩
  | .forEach ch, x => match x.items with
    | none => ⟨none, false⟩
    | some xs =>
      let rs := xs.map (fun it => specChain sem ch it)
      if rs.all (fun r => r.out.isSome) then ⟨some (.list (rs.filterMap (·.out))), false⟩
      else ⟨none, (rs.dropWhile (fun r => r.out.isSome)).head?.any (·.foreign)⟩
  | .composite cs, x =>
    let rs := specEvery sem cs x
    if rs.all (fun r => r.out.isSome) then ⟨some x, false⟩
    else ⟨none, (rs.dropWhile (fun r => r.out.isSome)).head?.any (·.foreign)⟩
def specChain (sem : Nat → Val → VRes Val) : List VT → Val → TreeOut
  | [], x => ⟨some x, false⟩
  | v :: vs, x => match specTree sem v x with
    | ⟨some y, _⟩ => specChain sem vs y
    | r => r
def specEvery (sem : Nat → Val → VRes Val) : List VT → Val → List TreeOut
  | [], _ => []
  | v :: vs, x => specTree sem v x :: specEvery sem vs x
end

/-! ### convert_value -/

/-- the documented outcome: an instance of the target type, or ConversionError -/
def ConvertOK (t : Target) : VRes Val → Prop
  | .ok r => r.isOfTarget t = true
  | .raises e => e = .conversion

end PedVerif.Validators
