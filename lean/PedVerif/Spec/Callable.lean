import PedVerif.Model.Callable
/-!
Specification: what it means for a value to *conform* to `Callable[[A1..An], R]` / `Callable[..., R]` "under runtime typing
semantics" on the simple fragment.  Written from the text of properties C01 / C02 and from the docstring examples of
`_instancecheck_callable` / `_is_subtype`, independently of the control flow of the code; only the *types* of
`Model/Callable.lean` are used (`TA`, `Ann`, `CVal`, `Val`, `Expected`, `Env`), none of its functions.

The rule the library documents (docstring of `_instancecheck_callable`, `_is_subtype`):

  a function conforms to `Callable[[A1..An], R]` iff it has **n required parameters**, **each declared parameter type is a
  subtype of the expected one** (this — covariant — direction is the one the library documents and tests), and **its declared
  return type is a subtype of R**; `Callable[..., R]` drops the parameter clause; **an unannotated parameter / return is of
  unknown type**.

Decisions the text leaves open (chosen so that the unchanged code is right wherever the text does not say otherwise):

* D1 *lambdas* cannot carry annotations: every lambda conforms to every `Callable[...]` (DESIGN §7 C01 `lambdaAnyArity`).
* D2 *pairing*: the i-th declared parameter is paired with the i-th expected type (what a positional call does).  This is
  the same as pairing the required parameters whenever no optional parameter precedes a required one
  (`Props/Callable.lean: pairing_readings_agree`).  A parameter is *required* iff it has no default (so `*args`,
  `**kwargs` and keyword-only parameters without default count as required).
* D3 *unknown*: no annotation, and a declared `Any`, tell nothing: they are subtypes of the top types (`Any`, `object`, a Union
  that lists `object`) only (docstring: `_is_subtype(Any, int)` is False).
* D4 a *raw class* against a parametrised generic is compared on the class level only (`def f() -> list` conforms to
  `Callable[[], List[int]]`): the element type of a raw class is not declared, the class is what run time sees.
* D5 generics are covariant in their parameter (docstring: `List[Child] ≤ List[Parent]`, `List[int] ≤ Iterable[int]`);
  generic aliases with different numbers of parameters are unrelated.
* D6 a value whose signature cannot be read (`inspect.signature` raises) is not known to conform.
* D7 calling an `async def` function yields a coroutine: its effective return type is `Coroutine[Any, Any, R]`, which
  conforms to `Awaitable[R']` / `Coroutine[Any, Any, R']` with `R ≤ R'`, and to the top types.

Where the text does decide — a Union means "one of its members" (so a declared `bool` fits `Union[int, str]`, and a declared
`Union[bool, int]` fits `int`), `List[int]` is a `list`, an async function is a `Callable[..., Any]`, a callable object is a
callable whether or not it has a `__name__`, the spelling of the annotation is irrelevant — the spec follows the text.  After the
repairs F1-F5 the code agrees with all of this except for the one region that stays open (`Spec/CallableRegions.lean`).
-/
namespace PedVerif.Callable.Spec
open PedVerif.Callable

/-- the top types: every value is an instance of `Any` and of `object` -/
def isTop (env : Env) : TA → Bool
  | .any => true
  | .cls d => d == env.object
  | _ => false

/-- the top types as an *expected* type can spell them: also a Union that lists `object` -/
def isTopU (env : Env) : TA → Bool
  | .union _ ds => ds.any (fun d => d == env.object)
  | t => isTop env t

/-- the class a declared (non-Union) type guarantees at run time: D3 `Any ↦ object`, a generic ↦ its origin class -/
def headCls (env : Env) : TA → Option ClsId
  | .cls c => some c
  | .any => some env.object
  | .gen1 g _ => some (env.origin1 g)
  | .gen3 g _ => some (env.origin3 g)
  | .union _ _ => none

/-- instances of class `c` are instances of the expected type `t`, as far as the class level tells (D4): `isinstance` for
    classes, some member for a Union, the origin class for a generic -/
def fits (env : Env) (c : ClsId) : TA → Bool
  | .any => true
  | .cls d => env.sub c d
  | .union _ ds => ds.any (fun d => env.sub c d)
  | .gen1 h _ => env.sub c (env.origin1 h)
  | .gen3 h _ => env.sub c (env.origin3 h)

/-- declared type `s` is a subtype of expected type `t` -/
def subTy (env : Env) : TA → TA → Bool
  | .union _ cs, t => isTop env t || cs.all (fun c => fits env c t)                      -- every member of a declared Union
  | .gen1 g s, .gen1 h t => env.sub (env.origin1 g) (env.origin1 h) && subTy env s t      -- D5 covariant
  | .gen3 g s, .gen3 h t => env.sub (env.origin3 g) (env.origin3 h) && subTy env s t
  | .gen1 _ _, .gen3 _ _ => false                                                         -- D5 different arity
  | .gen3 _ _, .gen1 _ _ => false
  | s, t => isTop env t || (match headCls env s with | some c => fits env c t | none => false)

/-- an annotation as `inspect` reports it is a subtype of the expected type: D3 for "no annotation", `None` means `NoneType` -/
def declSub (env : Env) : Ann → TA → Bool
  | .empty, t => isTopU env t
  | .none, t => subTy env (.cls env.noneCls) t
  | .ty s, t => subTy env s t

/-- the required parameters (D2) -/
def required (ps : List FParam) : List FParam := ps.filter (fun p => p.hasDefault == false)

/-- the parameter clause: as many required parameters as expected types, and position by position (D2) the declared type is a
    subtype of the expected type -/
def paramsConform (env : Env) (ps : List FParam) : Option (List TA) → Bool
  | none => true                                           -- Callable[..., R]
  | some ts => (required ps).length == ts.length && (ps.zip ts).all (fun pt => declSub env pt.1.ann pt.2)

/-- the return clause; D7 for coroutine functions -/
def retConforms (env : Env) (coro : Bool) (ret : Ann) (eret : TA) : Bool :=
  if coro then
    isTop env eret ||
    (match eret with
     | .gen1 g t => g == env.awaitableGen && declSub env ret t
     | .gen3 g t => g == env.coroutineGen && declSub env ret t
     | _ => false)
  else declSub env ret eret

/-- a leaf value conforms to `Callable[e.ps, e.ret]` -/
def conformsLeaf (env : Env) (v : CVal) (e : Exp) : Bool :=
  match v with
  | .none => false
  | .nonCallable => false
  | .callable name sig coro =>
    name == .lambda ||                                     -- D1
    (match sig with
     | .ok ps ret => paramsConform env ps e.ps && retConforms env coro ret e.ret
     | _ => false)                                         -- D6

def leafOf : Val → Option CVal
  | .leaf v => some v
  | _ => none

/-- conformance to the (possibly wrapped) annotation; the spelling is irrelevant by construction.  A `list` / `dict` value is
    not callable. -/
def conforms (env : Env) (x : Expected) (v : Val) : Bool :=
  match x.wrap, v with
  | .bare, .leaf l => conformsLeaf env l x.e
  | .bare, _ => false
  | .optional, .leaf .none => true
  | .optional, .leaf l => conformsLeaf env l x.e
  | .optional, _ => false
  | .listOf, .list xs => xs.all (fun l => conformsLeaf env l x.e)
  | .listOf, _ => false
  | .dictStrOf, .dict kvs => kvs.all (fun kv => kv.1 && conformsLeaf env kv.2 x.e)
  | .dictStrOf, _ => false

end PedVerif.Callable.Spec
