import PedVerif.Spec.Callable
/-!
Named regions of the (annotation, value) space in which the *unchanged* code is known to deviate from `Spec.conforms`
(always towards rejecting / raising: the deviations are completeness defects, property C02).  They are syntactic shapes, not
"where the theorem happens to hold": inside a region there are conforming and non-conforming values.  `Props/Callable.lean`
proves completeness outside the regions and a `decide` witness of a rejected conforming value inside each of them; the
driver reports the regions of every case so that the harness can classify a failure.
-/
namespace PedVerif.Callable.Spec
open PedVerif.Callable

inductive Region where
  | unionNotExactMember      -- expected type is a Union and the declared type (or a member of the declared Union) is not literally one of its members: `_is_subtype` tests `in`, not `issubclass`
  | declaredUnionVsClass     -- declared type is a Union, expected type is a class / generic (not a top type): `issubclass(typing.Union, cls)` raises (typing spelling) / is answered False (X | Y)
  | genericVsRawClass        -- declared `G[t]`, expected a plain class (`List[int]` vs `list`): the numbers of type arguments differ
  | callableWithoutName      -- a callable without `__name__` (functools.partial, instance with `__call__`): `_is_lambda` raises AttributeError
  | asyncVsTop               -- coroutine function vs `Callable[.., Any]` / `Callable[.., object]`: only Awaitable / Coroutine are looked at
  | abcConvert               -- `collections.abc.Callable[[A1..An], R]` with n ≠ 1 (`convert_to_typing_types` raises TypeError) or with a bare `list` / `dict` / … among its arguments (ValueError)
deriving DecidableEq, Repr

def Region.name : Region → String
  | .unionNotExactMember => "unionNotExactMember"
  | .declaredUnionVsClass => "declaredUnionVsClass"
  | .genericVsRawClass => "genericVsRawClass"
  | .callableWithoutName => "callableWithoutName"
  | .asyncVsTop => "asyncVsTop"
  | .abcConvert => "abcConvert"

/-- region of a (declared, expected) pair of types, if any -/
def subRegion (env : Env) : TA → TA → Option Region
  | .cls c, .union _ ds => if ds.contains c then none else some .unionNotExactMember
  | .any, .union _ _ => some .unionNotExactMember
  | .union _ cs, .union _ ds => if cs.all ds.contains then none else some .unionNotExactMember
  | .union _ _, t => if isTop env t then none else some .declaredUnionVsClass
  | .gen1 _ _, .union _ _ => some .unionNotExactMember
  | .gen3 _ _, .union _ _ => some .unionNotExactMember
  | .gen1 _ s, .gen1 _ t => subRegion env s t
  | .gen3 _ s, .gen3 _ t => subRegion env s t
  | .gen1 _ _, .cls d => if d == env.object then none else some .genericVsRawClass
  | .gen3 _ _, .cls d => if d == env.object then none else some .genericVsRawClass
  | _, _ => none

def declRegion (env : Env) : Ann → TA → Option Region
  | .empty, _ => none
  | .none, t => subRegion env (.cls env.noneCls) t
  | .ty s, t => subRegion env s t

def paramRegions (env : Env) (ps : List FParam) (ts : List TA) : List Region :=
  (ps.zip ts).filterMap (fun pt => declRegion env pt.1.ann pt.2)

def retRegions (env : Env) (coro : Bool) (ret : Ann) (eret : TA) : List Region :=
  if coro then
    (if isTop env eret then [.asyncVsTop] else
     match eret with
     | .gen1 _ t => (declRegion env ret t).toList
     | .gen3 _ t => (declRegion env ret t).toList
     | _ => [])
  else (declRegion env ret eret).toList

def leafRegions (env : Env) (v : CVal) (e : Exp) : List Region :=
  match v with
  | .callable name sig coro =>
    (if name == .missing then [.callableWithoutName] else []) ++
    (match sig with
     | .ok ps ret => (match e.ps with | some ts => paramRegions env ps ts | none => []) ++ retRegions env coro ret e.ret
     | _ => [])
  | _ => []

def regions (env : Env) (x : Expected) (v : Val) : List Region :=
  (if x.sp == .abc && (abcRoute env x.e).isSome then [.abcConvert] else []) ++
  (match v with
   | .leaf l => leafRegions env l x.e
   | .list xs => xs.flatMap (fun l => leafRegions env l x.e)
   | .dict kvs => kvs.flatMap (fun kv => leafRegions env kv.2 x.e))

end PedVerif.Callable.Spec
