import PedVerif.Spec.Callable
/-!
Named regions of the (annotation, value) space in which the code is known to deviate from `Spec.conforms`.

Tree with the repairs F1-F5 (`fixes/Callable_fix_F1.diff` … `F5.diff`): the regions `callableWithoutName`, `abcConvert`,
`unionNotExactMember`, `declaredUnionVsClass`, `genericVsRawClass` of the unrepaired tree are gone (positive theorems in
`Props/Callable.lean`); the last region, `asyncVsTop` (a completeness defect, property C02: a coroutine function against
`Callable[.., Any]`), is empty since the repair that made the coroutine branch test for a top type (`retRegions` depends on the
generated fact `coroOtherTopTest`; `Props/Callable.lean`: `guard_always`, `callable_complete_full_holds`).
-/
namespace PedVerif.Callable.Spec
open PedVerif.Callable

inductive Region where
  | asyncVsTop               -- coroutine function vs `Callable[.., Any]` / `Callable[.., object]`: only Awaitable / Coroutine are looked at
deriving DecidableEq, Repr

def Region.name : Region → String
  | .asyncVsTop => "asyncVsTop"

/-- the region exists only in a tree whose `_instancecheck_callable` answers a constant for a coroutine function against an expected
    return type other than Awaitable / Coroutine; with the top-type test (generated fact `coroOtherTopTest`) it is empty -/
def retRegions (env : Env) (coro : Bool) (eret : TA) : List Region :=
  if coro && isTop env eret && !PedVerif.Gen.Callable.coroOtherTopTest then [.asyncVsTop] else []

def leafRegions (env : Env) (v : CVal) (e : Exp) : List Region :=
  match v with
  | .callable _ (.ok _ _) coro => retRegions env coro e.ret
  | _ => []

def regions (env : Env) (x : Expected) (v : Val) : List Region :=
  match v with
  | .leaf l => leafRegions env l x.e
  | .list xs => xs.flatMap (fun l => leafRegions env l x.e)
  | .dict kvs => kvs.flatMap (fun kv => leafRegions env kv.2 x.e)

end PedVerif.Callable.Spec
