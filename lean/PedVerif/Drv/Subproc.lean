import PedVerif.Drv.Util
import PedVerif.Spec.Subproc
namespace PedVerif.Drv.Subproc
open Lean PedVerif.Drv PedVerif.Subproc PedVerif.Gen.Subproc

/-- callee behaviour of invocation `idx`: ids of the returned object / raised exception are the invocation index -/
def calleeOf (idx : Nat) (j : Json) : Callee :=
  match jTag j with
  | "ret" => .ret idx
  | "exc" => .raiseExc idx
  | "base" => .raiseBase idx
  | "death" => .hardDeath (match jS (jAt j 1) with | "beforeRun" => .beforeRun | "signal" => .signal | _ => .osExit)
  | "unpicklable" => .unpicklable
  | "aftersend" => .afterSendDeath idx
  | "midsend" => .midSendDeath idx
  | "spawn" => .spawns idx
  -- a child that stays alive for a while after `_inner` has sent (a non-daemon thread of the callee is still running): for the
  -- protocol an ordinary return / raise — the model never bounds the time between the end of `send` and the child's exit
  | "linger" => (match jS (jAt j 1) with | "exc" => .raiseExc idx | _ => .ret idx)
  | _ => .ret idx

def obsJ : Obs → Json
  | .returns v => jArr [jStr "ret", jNat v]
  | .raises e => jArr [jStr "exc", jNat e]
  | .raisesChildProcessError => jArr [jStr "cpe"]
  | .raisesOther => jArr [jStr "other"]
  | .returnsOther => jArr [jStr "retother"]

def locOut (l : Loc) : Json :=
  match l.st.out with
  | some o => obsJ (observe l.callee o)
  | none => jArr [jStr "hang"]

def allReleased (g : G) : Bool :=
  g.invs.all (fun l => l.st.released && l.rx.isNone && l.tx.isNone) && g.tbl.isEmpty

/-- coverage: which branches of the model the predicted run went through -/
def pathTag (l : Loc) : String :=
  (if l.st.res == .cpe then "eof" else if l.st.exc.isSome then "exc" else "msg") ++ (if l.big then "+big" else "")

/-- the event loops of a scenario, one after the other (`asyncio.run` per round): every round is scheduled to its end from
    `G.newLoop` of the state the previous round ended in (all of them from the empty interpreter `G.init []`).  Also, per round,
    the same schedule with the exit step of the lingering children (`hold`) withheld: behind which invocations does the loop sit
    frozen inside `join`.  Result: (end state, invocations the loop is frozen behind, frozen at all) -/
def runRounds (sc : List Sched) (cs : List (Callee × Bool)) (hold : List Nat) (fuel : Nat) :
    List Nat → Nat → G → List Nat → Bool → G × List Nat × Bool
  | [], _, g, st, fr => (g, st, fr)
  | n :: rest, off, g, st, fr =>
    let g0 := G.newLoop g ((cs.drop off).take n)
    let rem := sc.map (·.dur)
    let g1 := schedule prog sc fuel rem g0
    let gH := if hold.isEmpty then g1 else scheduleH hold prog sc fuel rem g0
    runRounds sc cs hold fuel rest (off + n) g1 (st ++ blockedBehind prog hold gH) (fr || (!hold.isEmpty && frozen prog gH))

/-- case: {"invs": [{"callee": [...], "big": bool, "dur": n, "pred": null | idx, "gate": [idx, …]?}, …], "rounds": [n₀, n₁, …]?}: the first n₀
    invocations are made in a first event loop, the next n₁ in a second one started after the first has ended, …
    (no "rounds": one event loop for all) -/
def handle (c : Json) : Json :=
  let invs := jL (jF c "invs")
  let cs : List (Callee × Bool) := invs.mapIdx (fun i j => (calleeOf i (jF j "callee"), jB (jF j "big")))
  let sc : List Sched := invs.map (fun j => { dur := jN (jF j "dur"), pred := jOptN (jF j "pred"), gate := (jL (jF j "gate")).map jN })
  let rounds : List Nat := match (jL (jF c "rounds")).map jN with | [] => [invs.length] | r => r
  -- children that linger after their send: where does the system stand while they have not exited?
  let hold := (List.range invs.length).filter (fun i => match invs[i]? with | some j => jTag (jF j "callee") == "linger" | none => false)
  let (g, stall, frozenH) := runRounds sc cs hold (64 * (invs.length + 1)) rounds 0 (G.init []) [] false
  let model := mkObj [
    ("out", jArr (g.invs.map locOut)),
    ("terminates", jBool (g.invs.length == invs.length && g.invs.all (fun l => l.st.final))),
    ("released", jBool (allReleased g)),
    ("path", jArr (g.invs.map (fun l => jStr (pathTag l)))),
    -- invocations inside the synchronous `join` while their child lingers, and is the event loop frozen then
    ("stall", jArr (stall.map jNat)),
    ("loopFrozenWhileLingering", jBool frozenH),
    ("rounds", jNat rounds.length),
    ("stuck", jBool ((gsucc prog g).isEmpty && !g.invs.all (fun l => l.st.final)))]
  let spec := mkObj [
    ("allowed", jArr (cs.map (fun c => jArr ((Spec.allowed c.1).map obsJ)))),
    ("terminates", jBool Spec.mustTerminate), ("released", jBool Spec.mustRelease)]
  mkObj [("model", model), ("spec", spec)]

end PedVerif.Drv.Subproc
