import PedVerif.Drv.Util
import PedVerif.Spec.Subproc
namespace PedVerif.Drv.Subproc
open Lean PedVerif.Drv PedVerif.Subproc PedVerif.Gen.Subproc

/-- callee behaviour of invocation `idx`: ids of the returned object / raised exception are the invocation index -/
def calleeOf (idx : Nat) (j : Json) : Callee :=
  match jTag j with
  | "ret" => .ret idx
  | "exc" => .raiseExc idx
  | "base" => .raiseBase idx
  | "death" => .hardDeath (match jS (jAt j 1) with | "beforeRun" => .beforeRun | "signal" => .signal | _ => .osExit)
  | "unpicklable" => .unpicklable
  | "aftersend" => .afterSendDeath idx
  | "midsend" => .midSendDeath idx
  | "spawn" => .spawns idx
  -- a child that stays alive for a while after `_inner` has sent (a non-daemon thread of the callee is still running): for the
  -- protocol an ordinary return / raise — the model never bounds the time between the end of `send` and the child's exit
  | "linger" => (match jS (jAt j 1) with | "exc" => .raiseExc idx | _ => .ret idx)
  | _ => .ret idx

def obsJ : Obs → Json
  | .returns v => jArr [jStr "ret", jNat v]
  | .raises e => jArr [jStr "exc", jNat e]
  | .raisesChildProcessError => jArr [jStr "cpe"]
  | .raisesOther => jArr [jStr "other"]
  | .returnsOther => jArr [jStr "retother"]
  | .cancelled => jArr [jStr "cancelled"]

def locOut (l : Loc) : Json :=
  match l.st.out with
  | some o => obsJ (observe l.callee o)
  | none => jArr [jStr "hang"]

def allReleased (g : G) : Bool :=
  g.invs.all (fun l => l.st.released && l.rx.isNone && l.tx.isNone) && g.tbl.isEmpty

/-- coverage: which branches of the model the predicted run went through -/
def pathTag (l : Loc) : String :=
  (if l.st.res == .cpe then "eof" else if l.st.exc.isSome then "exc" else "msg") ++ (if l.big then "+big" else "")

/-- the event loops of a scenario, one after the other (`asyncio.run` per round): every round is scheduled to its end from
    `G.newLoop` of the state the previous round ended in (all of them from the empty interpreter `G.init []`).  Also, per round,
    the same schedule with the exit step of the lingering children (`hold`) withheld: behind which invocations does the loop sit
    frozen inside `join`.  Result: (end state, invocations the loop is frozen behind, frozen at all) -/
def runRounds (sc : List Sched) (cs : List (Callee × Bool)) (hold : List Nat) (fuel : Nat) :
    List Nat → Nat → G → List Nat → Bool → G × List Nat × Bool
  | [], _, g, st, fr => (g, st, fr)
  | n :: rest, off, g, st, fr =>
    let g0 := G.newLoop g ((cs.drop off).take n)
    let rem := sc.map (·.dur)
    let g1 := schedule prog sc fuel rem g0
    let gH := if hold.isEmpty then g1 else scheduleH hold prog sc fuel rem g0
    runRounds sc cs hold fuel rest (off + n) g1 (st ++ blockedBehind prog hold gH) (fr || (!hold.isEmpty && frozen prog gH))

/-- the call of invocation `j`: "fits": false — the arguments do not fit the callable; "sigfits": false — they do not fit what
    `inspect.signature` reports about it (both default to true) -/
def callOf (j : Json) : Call :=
  { fits := (match jF j "fits" with | .bool b => b | _ => true), sigFits := (match jF j "sigfits" with | .bool b => b | _ => true) }

/-- number of other descriptors the process holds in the event loop an invocation is made in ("held": one number per event loop) -/
def heldOfInv (rounds held : List Nat) (i : Nat) : Nat :=
  let rec go : List Nat → List Nat → Nat → Nat
    | [], _, _ => 0
    | n :: rs, hs, off => if i < off + n then hs.headD 0 else go rs hs.tail (off + n)
  go rounds held 0

/-- case: {"invs": [{"callee": [...], "big": bool, "dur": n, "pred": null | idx, "gate": [idx, …]?, "fits": bool?, "sigfits": bool?}, …],
    "rounds": [n₀, n₁, …]?, "held": [h₀, h₁, …]?}: the first n₀ invocations are made in a first event loop, the next n₁ in a second one started
    after the first has ended, … (no "rounds": one event loop for all); while loop k runs the process holds h_k other descriptors open -/
def handle (c : Json) : Json :=
  let invs := jL (jF c "invs")
  let calls : List Call := invs.map callOf
  -- "deco": the invocation is made through the @in_subprocess wrapper (else: calculate_in_subprocess); "async": coroutine function
  let cs : List (Callee × Bool) := invs.mapIdx (fun i j =>
    (childRuns (jB (jF j "deco")) (jB (jF j "async")) (callOf j) (calleeOf i (jF j "callee")) i, jB (jF j "big")))
  -- "cancel": [idx, …] — the environment cancels the awaiting task once the coroutine is suspended and these invocations have finished
  let cancelOf : Json → Option (List Nat) := fun j => match jF j "cancel" with | .arr a => some (a.toList.map jN) | _ => none
  let rounds : List Nat := match (jL (jF c "rounds")).map jN with | [] => [invs.length] | r => r
  let held : List Nat := (jL (jF c "held")).map jN
  let sc : List Sched := invs.mapIdx (fun i j => { dur := jN (jF j "dur"), pred := jOptN (jF j "pred"), gate := (jL (jF j "gate")).map jN,
                                                    held := heldOfInv rounds held i, cancelAfter := cancelOf j })
  -- children that linger after their send: where does the system stand while they have not exited?
  let hold := (List.range invs.length).filter (fun i => match invs[i]? with | some j => jTag (jF j "callee") == "linger" | none => false)
  let (g, stall, frozenH) := runRounds sc cs hold (64 * (invs.length + 1)) rounds 0 (G.init []) [] false
  let model := mkObj [
    ("out", jArr (g.invs.map locOut)),
    ("terminates", jBool (g.invs.length == invs.length && g.invs.all (fun l => l.st.final))),
    ("released", jBool (allReleased g)),
    ("path", jArr (g.invs.map (fun l => jStr (pathTag l)))),
    -- invocations inside the synchronous `join` while their child lingers, and is the event loop frozen then
    ("stall", jArr (stall.map jNat)),
    ("loopFrozenWhileLingering", jBool frozenH),
    ("rounds", jNat rounds.length),
    -- descriptor numbers: did any invocation get a read end at or above FD_SETSIZE
    ("highFd", jBool (g.invs.any (fun l => l.st.rxHigh))),
    ("cancelled", jArr (((List.range g.invs.length).filter (fun i => match g.invs[i]? with | some l => l.st.cancelled | none => false)).map jNat)),
    -- per invocation: was everything it had (pipe end, reader, child) released
    ("releasedEach", jArr (g.invs.map (fun l => jBool (l.st.released && l.rx.isNone && l.tx.isNone)))),
    ("sigMismatch", jNat (calls.filter (fun k => k.fits && !k.sigFits)).length),
    ("stuck", jBool ((gsucc prog g).isEmpty && !g.invs.all (fun l => l.st.final)))]
  let spec := mkObj [
    ("allowed", jArr (invs.mapIdx (fun i j => jArr ((match cancelOf j with
        | some _ => Spec.allowedCancelled
        | none => Spec.allowedCall (callOf j).fits (calleeOf i (jF j "callee")) i).map obsJ)))),
    ("terminates", jBool (Spec.mustTerminate (invs.mapIdx (fun i j => calleeOf i (jF j "callee"))))),
    -- "leaves no open pipe ends and no un-reaped child process behind": demanded of every scenario, whatever the invocations observed
    ("released", jBool true)]
  mkObj [("model", model), ("spec", spec)]

end PedVerif.Drv.Subproc
