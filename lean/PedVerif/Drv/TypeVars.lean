import PedVerif.Drv.Util
import PedVerif.Spec.TypeVars
namespace PedVerif.Drv.TypeVars
open Lean PedVerif.Drv PedVerif.TypeVars

/-- annotation: ["cls", id] | ["any"] | ["tv", id] | ["list", a] | ["dict", k, v] | ["tuple", [a…]] | ["tuplevar", a]
    | ["union", [a…]] | ["type", a] -/
partial def annOf (j : Json) : A :=
  match jTag j with
  | "cls" => .cls (jN (jAt j 1))
  | "any" => .any
  | "tv" => .tv (jN (jAt j 1))
  | "list" => .listOf (annOf (jAt j 1))
  | "dict" => .dictOf (annOf (jAt j 1)) (annOf (jAt j 2))
  | "tuple" => .tupleOf ((jL (jAt j 1)).map annOf)
  | "tuplevar" => .tupleVar (annOf (jAt j 1))
  | "union" => .union ((jL (jAt j 1)).map annOf)
  | _ => .typeOf (annOf (jAt j 1))

/-- value: ["inst", cls] | ["list", [v…]] | ["dict", [[k, v]…]] | ["tuple", [v…]] | ["clsobj", cls] -/
partial def valOf (j : Json) : Val :=
  match jTag j with
  | "inst" => .inst (jN (jAt j 1))
  | "list" => .list ((jL (jAt j 1)).map valOf)
  | "dict" => .dict ((jL (jAt j 1)).map fun kv => (valOf (jAt kv 0), valOf (jAt kv 1)))
  | "tuple" => .tuple ((jL (jAt j 1)).map valOf)
  | _ => .clsObj (jN (jAt j 1))

def varOf : String → Variance
  | "co" => .co
  | "contra" => .contra
  | _ => .inv

def envOf (j : Json) : Env :=
  let sub := (jA (jF j "sub")).map fun r => (jA r).map fun b => jN b != 0
  let bare := (jL (jF j "bare")).map jN
  let tvs := (jA (jF j "tvs")).map fun t =>
    ({ constraints := (jL (jF t "cs")).map jN, bound := jOptN (jF t "b"), boundFwd := jB (jF t "fwd"),
       variance := varOf (jS (jF t "var")) } : TVInfo)
  { sub := fun a b => ((sub[a]?.getD #[])[b]?).getD false
    noneCls := jN (jF j "none"), listCls := jN (jF j "list"), dictCls := jN (jF j "dict"), tupleCls := jN (jF j "tuple")
    typeCls := jN (jF j "type"), objectCls := jN (jF j "object")
    bareBuiltin := fun c => bare.contains c
    tv := fun t => tvs[t]?.getD ⟨[], none, false, .inv⟩ }

def kindOf (j : Json) (init : Bool) : StoreKind :=
  match jS (jF j "k") with
  | "generic" => .genericInstance ((jL (jF j "p")).map jN) (if init then [] else (jL (jF j "g")).map fun p => (jN (jAt p 0), annOf (jAt p 1)))
  | "reset" => .resetEachAccess
  | _ => .perCall

def callOf (insts : Array Json) (j : Json) : Call :=
  let i := jN (jF j "i")
  { inst := i, fn := jN (jF j "f"), kind := kindOf (insts[i]?.getD Json.null) (jB (jF j "init")), scanFails := jB (jF j "scan"),
    checks := (jL (jF j "checks")).map fun p => (annOf (jAt p 0), valOf (jAt p 1)) }

def outS : Out → String
  | .ok => "ok" | .pedTypeCheck => "PED:TypeCheck" | .pedTVMismatch => "PED:TypeVarMismatch" | .escape => "ESC"

def verdictS : Spec.Verdict → String
  | .accept => "accept" | .tvm => "tvm" | .tvmInUnion => "tvmInUnion" | .reject => "reject" | .unclaimed => "unclaimed"

/-- a step with the calls its body makes: {…step…, "kids": [step…]} (absent: none).  The checks before the body are all but
    the last one (the check of the result). -/
partial def treeOf (insts : Array Json) (j : Json) : Tree :=
  let c := callOf insts j
  .node c (c.checks.length - 1) ((jL (jF j "kids")).map (treeOf insts))

def optOutJ : Option Out → Json
  | some o => jStr (outS o)
  | none => Json.null

def splitSegs (checks : List (A × Val)) : List Nat → List (List (A × Val))
  | [] => []
  | n :: ns => checks.take n :: splitSegs (checks.drop n) ns

/-- a call in flight: {…step…, "segs": [number of checks of each advance…], "eager": bool} -/
def jobOf (insts : Array Json) (j : Json) : Job :=
  let c := callOf insts j
  Job.fresh c (jB (jF j "eager")) (splitSegs c.checks ((jL (jF j "segs")).map jN))

/-- a top-level step: with "order" the body advances the calls "kids" in that order, otherwise "kids" are nested calls made one after the other -/
def topOf (insts : Array Json) (j : Json) : Top :=
  match jF j "order" with
  | .arr o => .sched (callOf insts j) ((jL (jF j "kids")).map (jobOf insts)) (o.toList.map jN)
  | _ => .tree (treeOf insts j)

def Top.call : Top → Call
  | .tree t => t.call
  | .sched root _ _ => root

/-- case: {"env": …, "insts": [{"k": "generic", "p": [tv…], "g": [[tv, ann]…]} | {"k": "reset"} | {"k": "direct"} | {"k": "plain"}],
           "steps": [{"i": inst, "f": function id, "init": bool, "scan": bool, "checks": [[ann, val]…], "kids": [step…] (, "order": [kid…])}]} -/
def handle (c : Json) : Json :=
  let env := envOf (jF c "env")
  let insts := jA (jF c "insts")
  let ts := (jL (jF c "steps")).map (topOf insts)
  let h := ts.map Top.call
  let r := runTops env ts Stores.empty
  let below (t : Top) : List Call := match t with
    | .tree _ => []
    | .sched _ jobs _ => jobs.map (·.c)
  mkObj [("model", jArr (r.map fun o => jStr (outS o.1))),
         ("nested", jArr (r.map fun o => jArr (o.2.map optOutJ))),
         ("spec", jArr ((Spec.specHistory env h).map fun v => jStr (verdictS v))),
         ("nspec", jArr (ts.map fun t => match t with
            | .tree t => jArr ((Spec.specBelow env t).map fun v => jStr (verdictS v))
            | x => jArr ((below x).map fun c => jStr (verdictS (Spec.specCall env c))))),
         ("regions", jArr ((Spec.regionsHistory env [] h).map fun rs => jArr (rs.map jStr))),
         ("nregions", jArr (ts.map fun t => match t with
            | .tree t => jArr ((Spec.regionsBelow env [] t).map fun rs => jArr (rs.map jStr))
            | x => jArr ((below x).map fun c => jArr ((Spec.regions env [] c).map jStr))))]

end PedVerif.Drv.TypeVars
