import PedVerif.Drv.Util
import PedVerif.Spec.TypeVars
namespace PedVerif.Drv.TypeVars
open Lean PedVerif.Drv PedVerif.TypeVars

/-- annotation: ["cls", id] | ["any"] | ["tv", id] | ["list", a] | ["dict", k, v] | ["tuple", [a…]] | ["tuplevar", a]
    | ["union", [a…]] | ["type", a] -/
partial def annOf (j : Json) : A :=
  match jTag j with
  | "cls" => .cls (jN (jAt j 1))
  | "any" => .any
  | "tv" => .tv (jN (jAt j 1))
  | "list" => .listOf (annOf (jAt j 1))
  | "dict" => .dictOf (annOf (jAt j 1)) (annOf (jAt j 2))
  | "tuple" => .tupleOf ((jL (jAt j 1)).map annOf)
  | "tuplevar" => .tupleVar (annOf (jAt j 1))
  | "union" => .union ((jL (jAt j 1)).map annOf)
  | _ => .typeOf (annOf (jAt j 1))

/-- value: ["inst", cls] | ["list", [v…]] | ["dict", [[k, v]…]] | ["tuple", [v…]] | ["clsobj", cls] -/
partial def valOf (j : Json) : Val :=
  match jTag j with
  | "inst" => .inst (jN (jAt j 1))
  | "list" => .list ((jL (jAt j 1)).map valOf)
  | "dict" => .dict ((jL (jAt j 1)).map fun kv => (valOf (jAt kv 0), valOf (jAt kv 1)))
  | "tuple" => .tuple ((jL (jAt j 1)).map valOf)
  | _ => .clsObj (jN (jAt j 1))

def varOf : String → Variance
  | "co" => .co
  | "contra" => .contra
  | _ => .inv

def envOf (j : Json) : Env :=
  let sub := (jA (jF j "sub")).map fun r => (jA r).map fun b => jN b != 0
  let bare := (jL (jF j "bare")).map jN
  let tvs := (jA (jF j "tvs")).map fun t =>
    ({ constraints := (jL (jF t "cs")).map jN, bound := jOptN (jF t "b"), boundFwd := jB (jF t "fwd"),
       variance := varOf (jS (jF t "var")) } : TVInfo)
  { sub := fun a b => ((sub[a]?.getD #[])[b]?).getD false
    noneCls := jN (jF j "none"), listCls := jN (jF j "list"), dictCls := jN (jF j "dict"), tupleCls := jN (jF j "tuple")
    typeCls := jN (jF j "type"), objectCls := jN (jF j "object")
    bareBuiltin := fun c => bare.contains c
    tv := fun t => tvs[t]?.getD ⟨[], none, false, .inv⟩ }

/-- {"k": "shape", "gen": bool, "p": [tv…], "ob": [[is Generic[...], [ann…]]…], "act": [ann…] | null}: the class statement as typing sees it
    and the type arguments of the creating expression; `init`: the call is made before `__init__` has returned -/
def shapeOf (j : Json) (init : Bool) : Shape :=
  { genericInBases := jB (jF j "gen"), params := (jL (jF j "p")).map jN,
    origBases := (jL (jF j "ob")).map fun b => (jB (jAt b 0), (jL (jAt b 1)).map annOf),
    declared := (match jF j "act" with | .arr a => some (a.toList.map annOf) | _ => none), inInit := init }

/-- `spec`: the store kind the specification is told (for a class shape: `Cls[X]` binds the parameters of the class to `X`) -/
def kindOf (j : Json) (init : Bool) (spec : Bool) : StoreKind :=
  match jS (jF j "k") with
  | "generic" => .genericInstance ((jL (jF j "p")).map jN) (if init then [] else (jL (jF j "g")).map fun p => (jN (jAt p 0), annOf (jAt p 1)))
  | "reset" => .resetEachAccess
  | "shape" => if spec then Spec.shapeKind (shapeOf j init) else ((shapeOf j init).kind).getD .perCall
  | _ => .perCall

/-- the accessor of the instance raises an exception that is no PedanticException (class shapes only) -/
def escapesOf (j : Json) (init : Bool) : Bool :=
  match jS (jF j "k") with
  | "shape" => ((shapeOf j init).kind).isNone
  | _ => false

/-- {"named": [name…], "vnames": [name…], "ann": a, "items": [[key, v]…], "pos": n} (absent: no `**` parameter) -/
def varKwOf (j : Json) : Option VarKw :=
  match j with
  | .obj _ => some { named := (jL (jF j "named")).map jS, vnames := (jL (jF j "vnames")).map jS, ann := annOf (jF j "ann"),
                     items := (jL (jF j "items")).map fun kv => (jS (jAt kv 0), valOf (jAt kv 1)), pos := jN (jF j "pos") }
  | _ => none

def callOf (insts : Array Json) (spec : Bool) (j : Json) : Call :=
  let i := jN (jF j "i")
  let checks := (jL (jF j "checks")).map fun p => (annOf (jAt p 0), valOf (jAt p 1))
  { inst := i, fn := jN (jF j "f"), kind := kindOf (insts[i]?.getD Json.null) (jB (jF j "init")) spec, scanFails := jB (jF j "scan"),
    checks := if spec then Spec.spliceSpec checks (varKwOf (jF j "vkw")) else spliceChecks checks (varKwOf (jF j "vkw")) }

def outS : Out → String
  | .ok => "ok" | .pedTypeCheck => "PED:TypeCheck" | .pedTVMismatch => "PED:TypeVarMismatch" | .escape => "ESC"

def verdictS : Spec.Verdict → String
  | .accept => "accept" | .tvm => "tvm" | .tvmInUnion => "tvmInUnion" | .reject => "reject" | .unclaimed => "unclaimed"

/-- a step with the calls its body makes: {…step…, "kids": [step…]} (absent: none).  The checks before the body are all but
    the last one (the check of the result). -/
partial def treeOf (insts : Array Json) (spec : Bool) (j : Json) : Tree :=
  let c := callOf insts spec j
  .node c (c.checks.length - 1) ((jL (jF j "kids")).map (treeOf insts spec))

/-- the nested calls of a step, pre-order -/
partial def belowSteps (j : Json) : List Json :=
  (jL (jF j "kids")).flatMap fun k => k :: belowSteps k

def optOutJ : Option Out → Json
  | some o => jStr (outS o)
  | none => Json.null

def splitSegs (checks : List (A × Val)) : List Nat → List (List (A × Val))
  | [] => []
  | n :: ns => checks.take n :: splitSegs (checks.drop n) ns

/-- a call in flight: {…step…, "segs": [number of checks of each advance…], "eager": bool} -/
def jobOf (insts : Array Json) (spec : Bool) (j : Json) : Job :=
  let c := callOf insts spec j
  Job.fresh c (jB (jF j "eager")) (splitSegs c.checks ((jL (jF j "segs")).map jN))

/-- a top-level step: with "order" the body advances the calls "kids" in that order, otherwise "kids" are nested calls made one after the other -/
def topOf (insts : Array Json) (spec : Bool) (j : Json) : Top :=
  match jF j "order" with
  | .arr o => .sched (callOf insts spec j) ((jL (jF j "kids")).map (jobOf insts spec)) (o.toList.map jN)
  | _ => .tree (treeOf insts spec j)

def Top.call : Top → Call
  | .tree t => t.call
  | .sched root _ _ => root

/-- case: {"env": …, "insts": [{"k": "generic", "p": [tv…], "g": [[tv, ann]…]} | {"k": "reset"} | {"k": "direct"} | {"k": "plain"}],
           "steps": [{"i": inst, "f": function id, "init": bool, "scan": bool, "checks": [[ann, val]…], "kids": [step…] (, "order": [kid…]) (, "vkw": …)}]}
    Instances may also be class shapes (`shapeOf`); the checks of a `**` parameter are derived from the keyword arguments (`varKwOf`). -/
def handle (c : Json) : Json :=
  let env := envOf (jF c "env")
  let insts := jA (jF c "insts")
  let steps := jL (jF c "steps")
  let ts := steps.map (topOf insts false)
  let esc := steps.map fun j => escapesOf (insts[jN (jF j "i")]?.getD Json.null) (jB (jF j "init"))
  -- what the specification is told: the same calls, with the store kind / the `**` values the property speaks of
  let tsS := steps.map (topOf insts true)
  let h := tsS.map Top.call
  let shapeRegOf (j : Json) : List String :=
    let ij := insts[jN (jF j "i")]?.getD Json.null
    if jS (jF ij "k") == "shape" then Spec.shapeRegions (shapeOf ij (jB (jF j "init"))) else []
  let shapeRegs := steps.map shapeRegOf
  let r := runTopsE env (esc.zip ts) Stores.empty
  let below (t : Top) : List Call := match t with
    | .tree _ => []
    | .sched _ jobs _ => jobs.map (·.c)
  mkObj [("model", jArr (r.map fun o => jStr (outS o.1))),
         ("nested", jArr (r.map fun o => jArr (o.2.map optOutJ))),
         ("spec", jArr ((Spec.specHistory env h).map fun v => jStr (verdictS v))),
         ("nspec", jArr (tsS.map fun t => match t with
            | .tree t => jArr ((Spec.specBelow env t).map fun v => jStr (verdictS v))
            | x => jArr ((below x).map fun c => jStr (verdictS (Spec.specCall env c))))),
         ("regions", jArr (((Spec.regionsHistory env [] h).zip shapeRegs).map fun rs => jArr ((rs.2 ++ rs.1).map jStr))),
         ("nregions", jArr (tsS.map fun t => match t with
            | .tree t => jArr ((Spec.regionsBelow env [] t).map fun rs => jArr (rs.map jStr))
            | x => jArr ((below x).map fun c => jArr ((Spec.regions env [] c).map jStr)))),
         -- the regions of the class shape of the instance every nested call is made on (pre-order, aligned with "nregions")
         ("nshape", jArr (steps.map fun j => jArr ((belowSteps j).map fun k => jArr ((shapeRegOf k).map jStr))))]

end PedVerif.Drv.TypeVars
