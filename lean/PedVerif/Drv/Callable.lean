import PedVerif.Drv.Util
import PedVerif.Spec.CallableRegions
namespace PedVerif.Drv.Callable
open Lean PedVerif.Drv PedVerif.Callable

/-! wire format (all terms are JSON arrays `["ctor", args…]`):
  TA    ::= ["cls", c] | ["any"] | ["union", pep604, [c…]] | ["gen1", g, TA] | ["gen3", g, TA]
  Ann   ::= ["empty"] | ["none"] | TA
  CVal  ::= ["none"] | ["non"] | ["fn", "missing"|"lambda"|"other", Sig, coro]
  Sig   ::= ["ok", [[Ann, hasDefault]…], Ann] | ["typeError"] | ["valueError"]
  Val   ::= ["leaf", CVal] | ["list", [CVal…]] | ["dict", [[keyIsStr, CVal]…]]
  case  ::= {"env": {"sub": [row bitmask…], "object": c, "none": c, "origin1": [c…], "origin3": [c…], "awaitable": g, "coroutine": g, "bare": [c…]},
             "exp": {"wrap": "bare"|"optional"|"list"|"dict", "sp": "typing"|"abc", "ps": null | [TA…], "ret": TA}, "val": Val} -/

partial def taOf (j : Json) : TA :=
  match jTag j with
  | "cls" => .cls (jN (jAt j 1))
  | "any" => .any
  | "union" => .union (jB (jAt j 1)) ((jL (jAt j 2)).map jN)
  | "gen1" => .gen1 (jN (jAt j 1)) (taOf (jAt j 2))
  | "gen3" => .gen3 (jN (jAt j 1)) (taOf (jAt j 2))
  | _ => .any

def annOf (j : Json) : Ann :=
  match jTag j with
  | "empty" => .empty
  | "none" => .none
  | _ => .ty (taOf j)

def sigOf (j : Json) : SigR :=
  match jTag j with
  | "ok" => .ok ((jL (jAt j 1)).map fun p => { ann := annOf (jAt p 0), hasDefault := jB (jAt p 1) }) (annOf (jAt j 2))
  | "valueError" => .valueError
  | _ => .typeError

def cvalOf (j : Json) : CVal :=
  match jTag j with
  | "none" => .none
  | "fn" =>
    let name : NameR := match jS (jAt j 1) with | "missing" => .missing | "lambda" => .lambda | _ => .other
    .callable name (sigOf (jAt j 2)) (jB (jAt j 3))
  | _ => .nonCallable

def valOf (j : Json) : Val :=
  match jTag j with
  | "list" => .list ((jL (jAt j 1)).map cvalOf)
  | "dict" => .dict ((jL (jAt j 1)).map fun kv => (jB (jAt kv 0), cvalOf (jAt kv 1)))
  | _ => .leaf (cvalOf (jAt j 1))

def expOf (j : Json) : Expected :=
  let wrap : Wrap := match jS (jF j "wrap") with | "optional" => .optional | "list" => .listOf | "dict" => .dictStrOf | _ => .bare
  let sp : Spelling := match jS (jF j "sp") with | "abc" => .abc | _ => .typing
  let ps : Option (List TA) := if jIsNull (jF j "ps") then none else some ((jL (jF j "ps")).map taOf)
  { wrap := wrap, sp := sp, e := { ps := ps, ret := taOf (jF j "ret") } }

structure EnvJ where
  env : Env
  nCls : Nat
  nGen1 : Nat
  nGen3 : Nat

def envOf (j : Json) : EnvJ :=
  let rows := (jA (jF j "sub")).map jN
  let o1 := (jA (jF j "origin1")).map jN
  let o3 := (jA (jF j "origin3")).map jN
  let obj := jN (jF j "object")
  let bare := (jL (jF j "bare")).map jN
  -- outside the table that was sent every class is related to itself and to `object` only, so `Env.WF` holds for all ids iff it holds on the table
  let n := rows.size
  { env := { sub := fun a b => if a < n && b < n then (rows[a]?.getD 0).testBit b else (a == b || b == obj), object := obj, noneCls := jN (jF j "none"),
             origin1 := fun g => o1[g]?.getD (obj + 1), origin3 := fun g => o3[g]?.getD (obj + 1),
             awaitableGen := jN (jF j "awaitable"), coroutineGen := jN (jF j "coroutine"),
             bareBuiltin := fun c => bare.contains c },
    nCls := rows.size, nGen1 := o1.size, nGen3 := o3.size }

/-- the hypotheses `Env.WF` of the theorems, checked on the finite table that was sent (every class id in use is below `nCls`) -/
def envWfOn (e : EnvJ) : Bool :=
  (List.range e.nCls).all (fun c => e.env.sub c c && e.env.sub c e.env.object) &&
  (List.range e.nGen1).all (fun g => e.env.origin1 g != e.env.object) &&
  (List.range e.nGen3).all (fun g => e.env.origin3 g != e.env.object)

def excName : Exc → String
  | .attributeError => "AttributeError" | .typeError => "TypeError" | .valueError => "ValueError" | .indexError => "IndexError"

def rawJ : Raw → Json
  | .ok true => jStr "accept"
  | .ok false => jStr "reject"
  | .raised x => jStr ("raised:" ++ excName x)

def outJ : Out → Json
  | .accept => jStr "accept"
  | .typeCheck none => jStr "reject"
  | .typeCheck (some x) => jStr ("raised:" ++ excName x)
  | .escape x => jStr ("escape:" ++ excName x)

/-- coverage tag: which branch of the model decided a leaf -/
def leafTag (env : Env) (sp : Spelling) (e : Exp) (v : CVal) : String :=
  if sp == .abc && (abcRoute env e).isSome then "abcConvertRaises" else
  match v with
  | .none => "none"
  | .nonCallable => "nonCallable"
  | .callable name sig coro =>
    match name with
    | .missing => "noName"
    | .lambda => "lambda"
    | .other =>
      match sig with
      | .typeError => "sigTypeError"
      | .valueError => "sigValueError"
      | .ok ps ret =>
        let pre : Option String := match e.ps with
          | none => none
          | some ts =>
            if ts.length != (required ps).length then some (if ts.length < (required ps).length then "arityFewer" else "arityMore")
            else match paramsLoop env ps ts with
              | some (.ok _) => some "paramReject"
              | some (.raised _) => some "paramRaises"
              | none => none
        match pre with
        | some t => t
        | none =>
          let r := retCheck env coro ret e.ret
          let k := if coro then "coro" else "sync"
          let shape := match e.ret with | .gen1 _ _ => "Gen1" | .gen3 _ _ => "Gen3" | .union _ _ => "Union" | .any => "Any" | .cls _ => "Cls"
          match r with
          | .ok true => k ++ "Ret" ++ shape ++ "Ok"
          | .ok false => k ++ "Ret" ++ shape ++ "Reject"
          | .raised _ => k ++ "Ret" ++ shape ++ "Raises"

def caseTag (env : Env) (x : Expected) (v : Val) : String :=
  let w := match x.wrap with | .bare => "" | .optional => "opt/" | .listOf => "list/" | .dictStrOf => "dict/"
  let dots := match x.e.ps with | none => "…/" | some _ => ""
  match v with
  | .leaf l => w ++ dots ++ leafTag env x.sp x.e l
  | .list xs => w ++ dots ++ "[" ++ (match xs.getLast? with | some l => leafTag env x.sp x.e l | none => "") ++ "]"
  | .dict kvs => w ++ dots ++ "{" ++ (match kvs.getLast? with | some kv => leafTag env x.sp x.e kv.2 | none => "") ++ "}"

def handle (c : Json) : Json :=
  let ej := envOf (jF c "env")
  let env := ej.env
  let x := expOf (jF c "exp")
  let v := valOf (jF c "val")
  let flip : Expected := { x with sp := (match x.sp with | .typing => .abc | .abc => .typing) }
  mkObj [("model", rawJ (check env x v)),
         ("out", outJ (assertValue env x v)),
         ("other_spelling", outJ (assertValue env flip v)),
         ("spec", jBool (Spec.conforms env x v)),
         ("regions", jArr ((Spec.regions env x v).eraseDups.map fun r => jStr r.name)),
         ("wf", jBool (envWfOn ej)),
         ("tag", jStr (caseTag env x v))]

end PedVerif.Drv.Callable
