import PedVerif.Drv.Util
import PedVerif.Spec.Frozen
import PedVerif.Drv.FrozenIR
namespace PedVerif.Drv.Frozen
open Lean PedVerif.Drv PedVerif.Frozen

/-- values: ["a"] None | ["i", n] | ["s", [code points]] | ["t", id, items] | ["l"|"d"|"e"|"f"|"o", id, items]
    (list / dict / set / frozenset / instance of a plain class with attributes a0, a1, …) | ["u", id, [], variant] (an object that
    `copy.deepcopy` cannot duplicate) | ["z", id, items, cid]
    (instance of the `@frozen_dataclass` class `cid` whose field values, in field order, are `items`) -/
partial def objOf (j : Json) : Obj :=
  match jTag j with
  | "i" => .atom (.int (jI (jAt j 1)))
  | "s" => .atom (.str ((jL (jAt j 1)).map jN))
  | "t" => .tup (jN (jAt j 1)) ((jL (jAt j 2)).map objOf)
  | "l" => .box .list (jN (jAt j 1)) ((jL (jAt j 2)).map objOf)
  | "d" => .box .dict (jN (jAt j 1)) ((jL (jAt j 2)).map objOf)
  | "e" => .box .set (jN (jAt j 1)) ((jL (jAt j 2)).map objOf)
  | "f" => .box .fset (jN (jAt j 1)) ((jL (jAt j 2)).map objOf)
  | "o" => .box .obj (jN (jAt j 1)) ((jL (jAt j 2)).map objOf)
  | "z" => .box (.fz (jN (jAt j 3))) (jN (jAt j 1)) ((jL (jAt j 2)).map objOf)
  | "u" => .atom (.unc (jN (jAt j 1)))                  -- ["u", id, [], variant]: a lock / generator / object whose __deepcopy__ raises
  | _ => .atom .none

def dfltOf (j : Json) : Dflt :=
  match jTag j with
  | "value" => .value (objOf (jAt j 1))
  | "factory" => .factory (objOf (jAt j 1))
  | _ => .none

def fieldOf (j : Json) : FieldD := ⟨jN (jF j "n"), dfltOf (jF j "d"), jB (jF j "init"), jB (jF j "cmp")⟩

def layerOf (j : Json) : Layer :=
  ⟨jN (jF j "cid"), jB (jF j "dec"), jB (jF j "ts"), jB (jF j "order"), jB (jF j "kw"), jB (jF j "slots"), jB (jF j "post"),
   (jL (jF j "own")).map fieldOf⟩

/-- "hz" of a class statement: what makes `dataclasses` refuse it under certain options -/
def hazardOf (j : Json) : Hazard :=
  match jS (jF j "hz") with
  | "dcbase" => .nonFrozenDataclassBase
  | "userlt" => .ownLt
  | "ownslots" => .ownSlots
  | _ => .none

def kwOf (j : Json) : List (Nat × Obj) := (jL j).map (fun p => (jN (jAt p 0), objOf (jAt p 1)))
def posOf (j : Json) : List Obj := (jL j).map objOf

def excJ : Exc → Json
  | .frozenInstance => jStr "FrozenInstanceError"
  | .typeError => jStr "TypeError"
  | .valueError => jStr "ValueError"
  | .attributeError => jStr "AttributeError"

def evJ : Ev → Json
  | .post => jStr "post"
  | .validate => jStr "validate"

def optBoolJ : Option Bool → Json
  | some b => jBool b
  | none => Json.null

def countShared (xs ys : List Nat) : Nat := (xs.filter (fun i => ys.contains i)).eraseDups.length

def expectJ : Expect → Json
  | .replaced => jStr "replaced"
  | .sameObject => jStr "sameObject"
  | .deepEqual => jStr "deepEqual"
  | .equalOnly => jStr "equalOnly"

/-- per-field facts of a copy against the original, the keyword arguments and every instance that was alive when it was made -/
def fieldFacts (live : List Inst) (self res : Inst) (kw : List (Nat × Obj)) (f : FieldR) : Json :=
  match res.fields.lookup f.name with
  | none => jArr [jNat f.name, jBool false]
  | some r =>
    let so := self.fields.lookup f.name
    let ko := kw.lookup f.name
    jArr [jNat f.name, jBool true,
          optBoolJ (so.map (fun s => r.ident s)), optBoolJ (so.map (fun s => s.veq r)),
          optBoolJ (ko.map (fun k => r.ident k)), optBoolJ (ko.map (fun k => k.veq r)),
          jNat (match so with | some s => countShared r.mutIds s.mutIds | none => 0),
          jNat (countShared r.mutIds self.mutIds),
          optBoolJ (so.map (fun s => s.seq r)),
          jNat (countShared r.mutIds (live.flatMap Inst.mutIds))]

def sameFields : List (Nat × Obj) → List (Nat × Obj) → Bool
  | [], [] => true
  | (k, v) :: r, (k', v') :: r' => k == k' && v.ident v' && v.veq v' && sameFields r r'
  | _, _ => false

def copyOutJ (live : List Inst) (self : Inst) (kw : List (Nat × Obj)) (r : Except Exc CopyOut) : Json :=
  match r with
  | .error e => mkObj [("out", excJ e)]
  | .ok o =>
    mkObj [("out", jStr "ok"), ("othersSame", jBool true),
           ("sameClass", jBool (headCid o.result.cls == headCid self.cls)),
           ("selfSame", match o.selfAfter with
              | some s => jBool (sameFields s.fields self.fields && sameFields s.extra self.extra)
              | none => Json.null),
           ("journal", jArr (o.journal.map evJ)),
           ("fields", jArr ((fieldsOf self.cls).map (fieldFacts live self o.result kw)))]

/-! the same operations run through the statement programs of `Gen/FrozenIR.lean` (`Model/FrozenIR.lean`): which statements execute, and
    whether the interpreted method returns what the hand model returns -/

def irEnv : PedVerif.Checker.Env := PedVerif.Drv.Checker.parseEnv Json.null
/-- every field is annotated `Any` in the generated modules of C11 -/
def anyFvs (n : Nat) : List (PedVerif.TypeSafe.Field × PedVerif.Checker.Val) := List.replicate n (⟨0, .any⟩, .lit (.int 0))

/-- the statements the `__post_init__` chain of `cls` executes when the generated `__init__` calls it on construction path `tp`, the operation
    being executed by the harness function `caller` -/
def initPath (cls : Cls) (tp : PedVerif.TypeSafe.Path) (caller : String) : List Nat :=
  (PedVerif.FrozenIR.runInit ⟨irEnv, [], fun _ _ => .raisedOther, anyFvs (fieldsOf cls).length, tp, { name := caller }, [{ name := "<harness>" }]⟩
    (PedVerif.FrozenIR.hookOfCls cls)).2.2

def irCopyJ (live : List Inst) (deep : Bool) (self : Inst) (kw : List (Nat × Obj)) (n : Nat) (hand : Except Exc CopyOut) : Json :=
  let (res, p) := PedVerif.FrozenIR.runC self kw (if deep then PedVerif.Gen.FrozenIR.deepCopyWithProg else PedVerif.Gen.FrozenIR.copyWithProg) { next := n } []
  let tp : PedVerif.TypeSafe.Path := if deep then .deepCopyWith else .copyWith
  let full := match res with
    | some (.ok o) => p ++ initPath o.result.cls tp "run_copy"
    | _ => p
  mkObj [("path", PedVerif.Drv.FrozenIR.pathJ full),
         ("agrees", jBool (match res with
            | some r => (copyOutJ live self kw r).compress == (copyOutJ live self kw hand).compress
            | none => false)),
         ("journalAgrees", jBool (PedVerif.FrozenIR.irPostInitEvents self.cls == postInitEvents self.cls))]

/-- the decorations one generated module performs: the fixed helper classes (`"zdeco"`), then the class statements of the chain, base first;
    a class statement that `dataclasses` refuses (`layerDefOk`) ends its decoration at the `dataclass()` call — and the module -/
def decoLayers : Cls → List Hazard → List Nat × Bool
  | [], _ => ([], true)
  | l :: rest, hs =>
    let (p, ok) := decoLayers rest hs.tail
    if !ok then (p, false)
    else if !l.decorated then (p, true)
    else
      let fails := !layerDefOk l rest || (hs.headD .none).refused l
      (p ++ PedVerif.Drv.FrozenIR.decoOne ⟨l.typeSafe, l.order, l.kwOnly, l.slots⟩ false false fails, !fails)

def irDecoJ (c : Json) (cls : Cls) : Json :=
  let hs := (jL (jF c "cls")).map hazardOf
  match jF c "zdeco" with
  | .null => Json.null
  | d => PedVerif.Drv.FrozenIR.pathJ
      (((jL d).map fun x => PedVerif.Drv.FrozenIR.decoOne (PedVerif.Drv.FrozenIR.paramsOf x) (jB (jAt x 4)) (jB (jAt x 5)) (jB (jAt x 6))).flatten
        ++ (decoLayers cls hs).1)

def copyJ (deep : Bool) (self : Inst) (kw : List (Nat × Obj)) (n : Nat) : Json :=
  let hand := if deep then deepCopyWith self kw n else copyWith self kw n
  (copyOutJ [self] self kw hand).mergeObj (mkObj [("ir", irCopyJ [self] deep self kw n hand)])

def copySpecJ (deep : Bool) (self : Inst) (kw : List (Nat × Obj)) : Json :=
  mkObj [("valid", jBool (specKwValid self.cls kw)), ("copyable", jBool (!deep || specDeepCopyable self)),
         ("sharedDefault", jArr (if deep then (specSharedDefaultFields self.cls).map jNat else [])),
         ("expect", jArr ((fieldsOf self.cls).map (fun f => jArr [jNat f.name, expectJ (specExpect deep kw f)])))]

/-! histories -/

def mutOf (j : Json) : Mut :=
  match jTag j with
  | "push" => .push ((jL (jAt j 1)).map objOf)
  | "setAt" => .setAt (jN (jAt j 1)) (objOf (jAt j 2))
  | _ => .clear

def itemsOf : Obj → List Obj
  | .atom _ => []
  | .tup _ items => items
  | .box _ _ items => items

/-- the node a path of child indices leads to -/
def resolvePath : Obj → List Nat → Option Obj
  | o, [] => some o
  | o, i :: rest =>
    match (itemsOf o)[i]? with
    | none => none
    | some c => resolvePath c rest

def mutableId : Obj → Option Nat
  | .box k i _ => if k.mutable then some i else none
  | _ => none

/-- which fields of which live instance hold another value after a step (`seq`: up to identities) -/
def changedJ (before after : List Inst) : Json :=
  jArr ((before.zip after).map (fun (a, b) =>
    jArr (a.fields.map (fun kv => jArr [jNat kv.1, jBool (match b.fields.lookup kv.1 with | some v => !(kv.2.seq v) | none => true)]))))

/-- the generator keeps histories inside what the model claims to describe: no mutation below an `init=False` field (its value is
    recomputed by `__init__`, a copy does not carry the change), no node referenced twice inside one field value (deepcopy's memo is
    not modelled), keyword objects that are new objects -/
def histStepOk (h : Hist) : Step → Bool
  | .change target m =>
    (allIdsL m.vals).all (fun i => decide (i < h.next)) &&
    h.insts.all (fun inst => (fieldsOf inst.cls).all (fun f => f.init ||
      (match inst.fields.lookup f.name with | some v => !(v.allIds.contains target) | none => true)))
    && h.insts.all (fun inst => inst.fields.all (fun kv => nodupNames kv.2.allIds))
  | .copy _ kw _ =>
    let liveIds := h.insts.flatMap Inst.allIds
    kw.all (fun kv => nodupNames kv.2.allIds && kv.2.allIds.all (fun i => !liveIds.contains i && decide (i < h.next)))

def histJ (spec0 : Inst) : Hist → List Json → List Json × List Json × Bool
  | _, [] => ([], [], true)
  | h, j :: rest =>
    if jTag j == "copy" then
      let deep := jB (jAt j 1)
      let kw := kwOf (jAt j 2)
      let st := Step.copy deep kw (jN (jAt j 3))
      let ok := histStepOk h st
      let (h', out) := stepH h st
      let irj : Json := match h.insts[jN (jAt j 3)]? with
        | some recv => irCopyJ h.insts deep recv kw h.next (if deep then deepCopyWith recv kw h.next else copyWith recv kw h.next)
        | none => Json.null
      let mj := match out with
        | .copied recv o => (copyOutJ h.insts recv kw (.ok o)).mergeObj (mkObj [("ir", irj)])
        | .raised e => mkObj [("out", excJ e), ("ir", irj)]
        | .noInst => mkObj [("out", jStr "noinst")]
        | _ => mkObj [("out", jStr "unknown")]
      let sj := mkObj [("valid", jBool (specKwValid spec0.cls kw)),
                       ("copyable", jBool (!deep || (match h.insts[jN (jAt j 3)]? with | some recv => specDeepCopyable recv | none => true))),
                       ("sharedDefault", jArr (if deep then (specSharedDefaultFields spec0.cls).map jNat else [])),
                       ("expect", jArr ((fieldsOf spec0.cls).map (fun f => jArr [jNat f.name, expectJ (specExpect deep kw f)])))]
      let (ms, ss, oks) := histJ spec0 h' rest
      (mj :: ms, sj :: ss, ok && oks)
    else
      let tgt := match h.insts[jN (jAt j 1)]? with
        | none => none
        | some inst => match inst.fields.lookup (jN (jAt j 2)) with
          | none => none
          | some v => (resolvePath v ((jL (jAt j 3)).map jN)).bind mutableId
      match tgt with
      | none =>
        let (ms, ss, oks) := histJ spec0 h rest
        (mkObj [("out", jStr "nopath")] :: ms, Json.null :: ss, oks)
      | some t =>
        let st := Step.change t (mutOf (jAt j 4))
        let ok := histStepOk h st
        let (h', _) := stepH h st
        let (ms, ss, oks) := histJ spec0 h' rest
        (mkObj [("out", jStr "ok"), ("changed", changedJ h.insts h'.insts)] :: ms, Json.null :: ss, ok && oks)

/-- a sequence of attribute operations on one instance -/
def attrOps (self : Inst) : List Json → List Json
  | [] => []
  | op :: rest =>
    let r := if jTag op == "set" then setattr self (jN (jAt op 1)) (objOf (jAt op 2)) else delattr self (jN (jAt op 1))
    match r with
    | .error e => excJ e :: attrOps self rest
    | .ok s => jStr "ok" :: attrOps s rest

def resBoolJ : Except Exc Bool → Json
  | .ok b => jBool b
  | .error e => excJ e

def hashJ : Except Exc (List Obj) → Json
  | .ok _ => jStr "ok"
  | .error e => excJ e

def specLtJ : Option (Option Bool) → Json
  | none => Json.null
  | some none => jStr "TypeError"
  | some (some b) => jBool b

def cmpJ (a : Inst) (c2 : Cls) (ctor2 : Json) (n : Nat) : Json × Json :=
  match construct c2 (posOf (jF ctor2 "pos")) (kwOf (jF ctor2 "kw")) n with
  | .error e => (mkObj [("ctor2", excJ e)], mkObj [])
  | .ok m =>
    let b := m.inst
    (mkObj [("ctor2", jStr "ok"), ("eq", resBoolJ (eqOp a b)), ("eqRev", resBoolJ (eqOp b a)), ("eqSelf", resBoolJ (eqOp a a)),
            ("hash", hashJ (hashOp a)), ("hash2", hashJ (hashOp b)),
            ("lt", resBoolJ (ltOp a b)), ("gt", resBoolJ (ltOp b a)), ("le", resBoolJ (leOp a b)), ("ge", resBoolJ (leOp b a))],
     mkObj [("eq", jBool (specEq a b)), ("hashable", jBool (specHashable a)), ("hashable2", jBool (specHashable b)),
            ("lt", specLtJ (specLt a b)), ("gt", specLtJ (specLt b a)), ("le", specLtJ (specLe a b)), ("ge", specLtJ (specLe b a))])

def fieldJ (f : FieldR) : Json := jArr [jNat f.name, jBool f.init, jBool f.compare, jBool f.kwOnly]

def allLive (c : Cls) (pos : List Obj) (kw : List (Nat × Obj)) (n : Nat) : Bool :=
  (clsIds c ++ allIdsL pos ++ allIdsL (kw.map (·.2))).all (fun i => decide (i < n))

def handle (c : Json) : Json :=
  let cls : Cls := (jL (jF c "cls")).map layerOf
  let n := jN (jF c "next")
  let ctor := jF c "ctor"
  let pos := posOf (jF ctor "pos")
  let kw := kwOf (jF ctor "kw")
  let op := jF c "op"
  let opKw := kwOf (jAt op 2)
  let hs := (jL (jF c "cls")).map hazardOf
  let head := [("def", jStr (if defOkH cls hs then "ok" else "deferr")), ("wf", jBool (wfCls cls)),
               ("live", jBool (allLive cls (pos ++ (opKw.map (·.2))) kw n)),
               ("fields", jArr ((fieldsOf cls).map fieldJ))]
  if !defOkH cls hs then mkObj [("model", mkObj (head ++ [("irDeco", irDecoJ c cls)])), ("spec", mkObj [("refused", jBool true)])] else
  match construct cls pos kw n with
  | .error e => mkObj [("model", mkObj (head ++ [("ctor", excJ e)])), ("spec", mkObj [])]
  | .ok m =>
    let head := head ++ [("ctor", jStr "ok"), ("journal", jArr (m.journal.map evJ)),
                         ("set", jArr (m.inst.fields.map (fun kv => jNat kv.1))),
                         ("irCtor", PedVerif.Drv.FrozenIR.pathJ (initPath cls .constructor "run_one")),
                         ("irDeco", irDecoJ c cls)]
    match jTag op with
    | "copy" =>
      let deep := jB (jAt op 1)
      mkObj [("model", mkObj (head ++ [("op", copyJ deep m.inst opKw m.next)])), ("spec", copySpecJ deep m.inst opKw)]
    | "hist" =>
      let (ms, ss, ok) := histJ m.inst ⟨[m.inst], m.next⟩ (jL (jAt op 1))
      mkObj [("model", mkObj (head ++ [("op", mkObj [("steps", jArr ms), ("histOk", jBool ok)])])), ("spec", mkObj [("steps", jArr ss)])]
    | "attr" =>
      mkObj [("model", mkObj (head ++ [("op", mkObj [("outs", jArr (attrOps m.inst (jL (jAt op 1))))])])),
             ("spec", mkObj [("reject", jBool true)])]
    | "cmp" =>
      let (mj, sj) := cmpJ m.inst (cls.drop (jN (jAt op 1))) (jAt op 2) m.next
      mkObj [("model", mkObj (head ++ [("op", mj)])), ("spec", sj)]
    | _ => mkObj [("model", mkObj head), ("spec", mkObj [])]

end PedVerif.Drv.Frozen
