import PedVerif.Drv.Util
import PedVerif.Spec.Utility
namespace PedVerif.Drv.Utility
open Lean PedVerif.Drv PedVerif.Utility PedVerif.Gen.Wrappers

def pairsOf (j : Json) : List (Nat × Nat) := (jL j).map (fun p => (jN (jAt p 0), jN (jAt p 1)))
def natsOf (j : Json) : List Nat := (jL j).map jN

def sigOf (j : Json) : Sig :=
  ⟨natsOf (jF j "pos"), natsOf (jF j "kwonly"), natsOf (jF j "defaults"), jB (jF j "varpos"), jB (jF j "varkw")⟩

def outcOf (o : Json) : Outc :=
  match jTag o with
  | "ret" => .ret ⟨jN (jAt o 1), jN (jAt o 2)⟩
  | _ => .exc (jN (jAt o 1)) (jB (jAt o 2))

/-- beyond the script every invocation returns the object 999999 -/
def bodyOf (j : Json) : Body :=
  let sc := (jA (jF j "script")).map outcOf
  ⟨jB (jF j "coro"), sigOf (jF j "sig"), fun i => sc[i]?.getD (.ret ⟨999999, 999999⟩)⟩

def guardOf (j : Json) : Guard :=
  ⟨jB (jF j "wantsArgs"), jB (jF j "selfFirst"), jB (jF j "isStatic"), jN (jF j "nDeco"), jB (jF j "marker"),
   jB (jF j "isMethodObj"), jB (jF j "notFunction")⟩

def seenOf (j : Json) (at_ : Nat) : Seen := ⟨jB (jAt j at_), jB (jAt j (at_ + 1)), jB (jAt j (at_ + 2))⟩

/-- a member on the wire: `[name, isNone, truthy, callable]` -/
def membersOf (j : Json) : List Member := (jL j).map (fun m => ⟨jN (jAt m 0), seenOf m 1⟩)

/-- the name every class of the legacy wire format (`"baseHas": bool`, no description) is asked for -/
def legacyName : Nat := 100

/-- `"base"`: the description of the class; absent (older replay files): a class whose body binds the name to a function, or not -/
def classOf (j : Json) : ClassDesc :=
  let b := jF j "base"
  if jIsNull b then
    ⟨[if jB (jF j "baseHas") then [⟨legacyName, ⟨false, true, true⟩⟩] else [], []], [[], []], none, none⟩
  else
    ⟨(jL (jF b "mro")).map membersOf, (jL (jF b "metaMro")).map membersOf,
     (if jIsNull (jF b "metaGetattr") then none else some (seenOf (jF b "metaGetattr") 0)),
     (if jIsNull (jF b "dirOverride") then none else some (natsOf (jF b "dirOverride")))⟩

/-- `"traits": [[id, reprRaises, strRaises, eqRaises, neRaises]…]` (top level of a case): the objects whose methods raise -/
def traitsOf (j : Json) : Nat → Traits :=
  let rows := (jL j).map (fun r => (jN (jAt r 0), (⟨jB (jAt r 1), jB (jAt r 2), jB (jAt r 3), jB (jAt r 4)⟩ : Traits)))
  fun i => (rows.lookup i).getD Traits.total

def paramsOf (other : Body) (j : Json) (tr : Nat → Traits := fun _ => Traits.total) : Params :=
  ⟨⟨jN (jAt (jF j "param") 0), jN (jAt (jF j "param") 1)⟩, pairsOf (jF j "renames"), other, classOf j,
   (if jIsNull (jF j "fname") then legacyName else jN (jF j "fname")), guardOf (jF j "guard"), tr⟩

/-- what the model's class lookup computes for the tests a decorator could make on `base_class` about the name:
    `name in dir(base)`, `hasattr(base, name)`, `name in base.__dict__`, and for `v = getattr(base, name, None)`:
    `v is None`, `bool(v)`, `callable(v)` — compared with the real interpreter on every case -/
def classObsJ (p : Params) : Json :=
  let g := p.base.getattr p.fname
  jArr [jBool (p.base.dir.contains p.fname), jBool g.isSome, jBool (p.base.owns p.fname),
        jBool (match g with | some s => s.isNone | none => true),
        jBool (match g with | some s => s.truthy | none => false),
        jBool (match g with | some s => s.callable | none => false)]

def argsOf (j : Json) : Args := ⟨natsOf (jF j "pos"), pairsOf (jF j "kw")⟩

def findDeco (n : String) : Option Deco := decos.find? (fun d => d.name == n)

def pairsJ (l : List (Nat × Nat)) : Json := jArr (l.map (fun p => jArr [jNat p.1, jNat p.2]))

def excJ : Exc → List Json
  | .body e _ => [jStr "exc", jStr "body", jNat e]
  | .lib c => [jStr "exc", jStr "lib", jStr c]

def tagJ : RTag → Json
  | .obj o => jArr [jStr "obj", jNat o.id]
  | .none => jArr [jStr "none"]
  | .opaque => jArr [jStr "opaque"]
  | .spent => jArr [jStr "spent"]
  | .coro => jArr [jStr "coro"]
  | .gen => jArr [jStr "gen"]
  | .exc e => jArr (excJ e)

def evJ : Ev → Option Json
  | .body c i b => some (jArr [jStr "body", jStr (match c with | .wrapped => "w" | .other => "o"), jNat i, pairsJ b.named,
      jArr (b.extraPos.map jNat), pairsJ b.extraKw])
  | .print _ => some (jArr [jStr "print"])
  | .warn _ c => some (jArr [jStr "warn", jStr c])
  | .incr _ _ => none
  | .gen i (.got v) => some (jArr [jStr "gen", jNat i, jStr "got", jNat v])
  | .gen i (.thrown e) => some (jArr [jStr "gen", jNat i, jStr "thrown", jNat e])
  | .gen i .closed => some (jArr [jStr "gen", jNat i, jStr "closed"])

/-- (depth, initial value) of every layer that owns a counter, outermost first -/
def counterLayers : Fn → List (Nat × Int)
  | .body _ => []
  | .gen _ => []
  | .bound _ i => counterLayers i
  | .deco d _ i =>
    match d.counterInit with
    | some k => (i.depth, k) :: counterLayers i
    | none => counterLayers i

/-- one JSON object per call of the history, with the counters as they stand after that call -/
def callsJ (f : Fn) (outs : List Out) : List Json :=
  let cl := counterLayers f
  (List.range outs.length).map (fun n =>
    match outs[n]? with
    | none => Json.null
    | some o =>
      mkObj [("evs", jArr (o.2.1.filterMap evJ)), ("res", tagJ o.1.tag),
             ("counters", jArr (cl.map (fun li => jInt (counterAfter li.2 li.1 (outs.take (n + 1))))))])

/-- running sums of the specified counter movements -/
def specCallsJ (outs : List SOut) : List Json :=
  (List.range outs.length).map (fun n =>
    match outs[n]? with
    | none => Json.null
    | some o =>
      let upto := outs.take (n + 1)
      let k := o.incrs.length
      let sums := (List.range k).map (fun i => upto.foldl (fun acc s => acc + (s.incrs[i]?.getD 0)) (0 : Int))
      mkObj [("res", tagJ o.res), ("calls", jArr (o.calls.filterMap evJ)), ("warns", jNat o.warns),
             ("counters", jArr (sums.map jInt)), ("unspec", jBool (upto.any (·.unspec))), ("mayReject", jBool o.mayReject)])

def kindOfMember (s : String) : MemberKind :=
  match s with
  | "static" => .static
  | "classm" => .classm
  | "prop" => .prop
  | _ => .method

def accessOf (s : String) : Access := if s = "cls" then .cls else .instance

/-- innermost layer last in the JSON list; returns the model stack (or the decoration-time exception) and the spec stack -/
def buildStack (other : Body) (raw : Fn) (sraw : SFn) (tr : Nat → Traits := fun _ => Traits.total) : List Json → Except String (Except Exc Fn × SFn)
  | [] => .ok (.ok raw, sraw)
  | l :: rest =>
    match buildStack other raw sraw tr rest with
    | .error e => .error e
    | .ok (inner, sinner) =>
      let name := jS (jF l "d")
      match findDeco name, Kind.ofName name with
      | some d, some k =>
        let p := paramsOf other l tr
        let m := match inner with
          | .error e => .error e
          | .ok f => decorate d p f
        .ok (m, .layer k p sinner)
      | _, _ => .error s!"unknown decorator {name}"

def dedicatedNames : List String := ["pedantic", "validate", "trace", "timer", "trace_if_returns", "does_same_as_function", "mock"]

def handleAttrs (c : Json) : Json :=
  let name := jS (jF c "d")
  let coro := jB (jF c "coro")
  match findDeco name with
  | none => mkObj [("error", jStr s!"unknown decorator {name}")]
  | some d =>
    let (meta_, co) := match select d coro with
      | .wrapper w => (w.wraps, jBool (w.isAsync && !w.isGenerator))
      | .identity => (true, jBool coro)
      | .missing => (false, Json.null)
    mkObj [("model", mkObj [("meta", jBool meta_), ("coro", co)]),
           ("spec", mkObj [("meta", jBool true), ("coro", if dedicatedNames.contains name then jBool coro else Json.null)])]

def handleCall (c : Json) : Json :=
  let body := bodyOf (jF c "body")
  let other := bodyOf (jF c "other")
  let calls := (jL (jF c "calls")).map argsOf
  let w0 : World := ⟨0, 0⟩
  let mem := jF c "member"
  let selfJ := jF c "self"
  -- a bound method object handed to the decorator call (`require_kwargs(obj.method)`): the instance is bound BELOW the decorators
  let innerJ := jF c "innerSelf"
  let raw : Fn := if jIsNull innerJ then .body body else .bound (jN innerJ) (.body body)
  let sraw : SFn := if jIsNull innerJ then .body body else .bound (jN innerJ) (.body body)
  -- the stack above the raw function
  let tr := traitsOf (jF c "traits")
  match buildStack other raw sraw tr (jL (jF c "layers")) with
  | .error e => mkObj [("error", jStr e)]
  | .ok (stack, sstack) =>
    -- member of a decorated class / plain method access / plain function
    let built : Except String (Except Exc Fn × SFn × Fn × Option String) :=
      if jIsNull mem then
        -- what attribute access binds in front of the undecorated twin (default: what it binds in front of the decorated callable)
        let twinJ := if jIsNull (jF c "twinSelf") then (if jIsNull innerJ then selfJ else innerJ) else jF c "twinSelf"
        let twin : Fn := if jIsNull twinJ || jN twinJ == 0 then .body body else .bound (jN twinJ) (.body body)
        if jIsNull selfJ then .ok (stack, sstack, twin, none)
        else
          let s := jN selfJ
          .ok (stack.map (Fn.bound s), .bound s sstack, twin, none)
      else
        let k := kindOfMember (jS (jF mem "kind"))
        let acc := accessOf (jS (jF mem "access"))
        let s := jN (jF mem "self")
        let cl := jN (jF mem "cls")
        let cname := jS (jF mem "cdeco")
        match classDecorators.lookup cname with
        | none => .error s!"unknown class decorator {cname}"
        | some dn =>
          match findDeco dn, Kind.ofName dn with
          | some d, some kd =>
            let p := paramsOf other (jF mem "params") tr
            let twin := twinMember k acc s cl (.body body)
            let stwin : SFn := match k with
              | .method => .bound s (.layer kd p (.body body))
              | .prop => .bound s (.layer kd p (.body body))
              | .classm => .bound cl (.layer kd p (.body body))
              | .static => .layer kd p (.body body)
            let region := if (k == .static || k == .classm) && acc == .instance then some "forAllMethodsRebindsStaticAndClassMethods" else none
            .ok (.ok (decoratedMember d p k acc s cl (.body body)), stwin, twin, region)
          | _, _ => .error s!"unknown decorator {dn}"
    match built with
    | .error e => mkObj [("error", jStr e)]
    | .ok (mfn, sfn, twin, region) =>
      let twinOuts := runHistory twin calls w0
      let stwin : SFn := match twin with
        | .bound s _ => .bound s (.body body)
        | _ => .body body
      let specOuts := specHistory sfn 0 calls w0
      let specTwin := specHistory stwin 0 calls w0
      let sdeco := specDecorate sfn
      let modelJ := match mfn with
        | .error e => mkObj [("deco", jArr (excJ e)), ("calls", jArr []), ("meta", Json.null), ("coro", Json.null)]
        | .ok f => mkObj [("deco", Json.null), ("calls", jArr (callsJ f (runHistory f calls w0))),
                          ("meta", jBool f.metaOk), ("coro", jBool f.isCoro)]
      let specJ := mkObj [("deco", match sdeco with | some e => jArr (excJ e) | none => Json.null),
                          ("calls", jArr (match sdeco with | some _ => [] | none => specCallsJ specOuts)),
                          ("twin", jArr (specCallsJ specTwin)),
                          ("meta", jBool true), ("decoUnspec", jBool (overridesUnspec sfn)),
                          ("coro", if sfn.allDedicated then jBool sfn.isCoro else Json.null)]
      let classObs := (jL (jF c "layers")).filterMap (fun l =>
        if jS (jF l "d") == "overrides" then some (classObsJ (paramsOf other l)) else none)
      let specHas := (jL (jF c "layers")).filterMap (fun l =>
        if jS (jF l "d") == "overrides" then some (jBool (hasName (paramsOf other l).base (paramsOf other l).fname)) else none)
      mkObj [("model", modelJ), ("spec", specJ), ("modelTwin", jArr (callsJ twin twinOuts)),
             ("classObs", jArr classObs), ("specHasName", jArr specHas),
             ("region", match region with | some r => jStr r | none => Json.null)]

/-- a layer of a stack that grows between calls, as far as the `num_calls` entry of its wrapper's `__dict__` is concerned -/
structure ALayer where
  d : Deco
  depth : Nat
  val : Option Int

def optIntJ : Option Int → Json
  | some k => jInt k
  | none => Json.null

/-- `{"kind":"staged","body":…,"other":…,"preset":null|k,"stages":[{"layers":[…],"calls":[…]}…]}`: the function is decorated with the
    layers of stage 1 (innermost last), called, the RESULT is decorated with the layers of stage 2, called, … — decoration of callables
    that already carry attributes.  `preset`: a `num_calls` attribute set by hand on the raw function.  Per call: the model's events,
    result and the `num_calls` entry of every wrapper (outermost first, null = no such entry); the specification's result, body
    invocations, warnings and the count of every `count_calls` layer — each starting from zero at ITS decoration. -/
def handleStaged (c : Json) : Json := Id.run do
  let body := bodyOf (jF c "body")
  let other := bodyOf (jF c "other")
  let preset : Option Int := if jIsNull (jF c "preset") then none else some (jI (jF c "preset"))
  let mut fn : Fn := .body body
  let mut sfn : SFn := .body body
  let mut layers : List ALayer := []
  let mut w : World := ⟨0, 0⟩
  let mut sw : World := ⟨0, 0⟩
  let mut scounts : List Int := []
  let mut unspec := false
  let mut modelOut : List Json := []
  let mut specOut : List Json := []
  let mut err : Option String := none
  for st in jL (jF c "stages") do
    for l in (jL (jF st "layers")).reverse do
      let name := jS (jF l "d")
      match findDeco name, Kind.ofName name with
      | some d, some k =>
        let p := paramsOf other l (traitsOf (jF c "traits"))
        let carried := match layers with
          | [] => preset
          | top :: _ => top.val
        match select d fn.isCoro with
        | .identity => pure ()
        | _ => layers := ⟨d, fn.depth, attrAfterDecorate d fn.isCoro carried⟩ :: layers
        match decorate d p fn with
        | .ok f => fn := f
        | .error _ => err := some s!"decoration of {name} failed"
        sfn := .layer k p sfn
        if k == Kind.countCalls then scounts := 0 :: scounts
      | _, _ => err := some s!"unknown decorator {name}"
    let mut mcalls : List Json := []
    let mut scalls : List Json := []
    for aj in jL (jF st "calls") do
      let a := argsOf aj
      let o := invoke fn a w
      w := o.2.2
      layers := layers.map (fun l => { l with val := attrAfterCall l.d l.depth o.2.1 l.val })
      mcalls := mcalls ++ [mkObj [("evs", jArr (o.2.1.filterMap evJ)), ("res", tagJ o.1.tag), ("attrs", jArr (layers.map (fun l => optIntJ l.val)))]]
      let so := spec sfn 0 a sw
      sw := so.w
      scounts := (List.zip scounts so.incrs).map (fun ab => ab.1 + ab.2)
      unspec := unspec || so.unspec
      scalls := scalls ++ [mkObj [("res", tagJ so.res), ("calls", jArr (so.calls.filterMap evJ)), ("warns", jNat so.warns),
                                  ("counters", jArr (scounts.map jInt)), ("unspec", jBool unspec), ("mayReject", jBool so.mayReject)]]
    modelOut := modelOut ++ [mkObj [("calls", jArr mcalls), ("meta", jBool fn.metaOk), ("coro", jBool fn.isCoro)]]
    specOut := specOut ++ [mkObj [("calls", jArr scalls), ("meta", jBool true), ("coro", if sfn.allDedicated then jBool sfn.isCoro else Json.null)]]
  match err with
  | some e => return mkObj [("error", jStr e)]
  | none => return mkObj [("model", jArr modelOut), ("spec", jArr specOut)]

def transparentGroup : List String := ["trace", "timer", "count_calls", "deprecated", "trace_if_returns"]

/-- `{"kind":"reent","body":…,"other":…,"layers":[…],"plan":[[ARGS…]…],"ops":[["invoke",ARGS] | ["call",ARGS] | ["await",k]…]}`: calls that
    start while another call of the same decorated callable is open.  Invocation `i` of the body calls the decorated callable again
    with every tuple of `plan[i]`.  `call` hands out what the callable returns (a coroutine object for coroutine functions: two calls
    in flight), `await k` awaits the result of the k-th `call`.  Model: events, result and every counter after each operation.
    Specification (stacks of transparent decorators only): the undecorated recursion `specReent` — result, body invocations, and the
    running number of calls made, which is what every `count_calls` counter must show once no call is in flight. -/
def handleReent (c : Json) : Json := Id.run do
  let body := bodyOf (jF c "body")
  let other := bodyOf (jF c "other")
  let layersJ := jL (jF c "layers")
  match buildStack other (.body body) (.body body) (traitsOf (jF c "traits")) layersJ with
  | .error e => return mkObj [("error", jStr e)]
  | .ok (.error _, _) => return mkObj [("error", jStr "decoration failed")]
  | .ok (.ok top, _) =>
    let planL : List (List Args) := (jL (jF c "plan")).map (fun l => (jL l).map argsOf)
    let plan : Nat → List Args := fun i => (planL[i]?).getD []
    let fuel := planL.length + 1
    let sem := callFuel top plan fuel
    let cl := counterLayers top
    let transparent := layersJ.all (fun l => transparentGroup.contains (jS (jF l "d")))
    let mut w : World := ⟨0, 0⟩
    let mut sw : World := ⟨0, 0⟩
    let mut handles : List (Option (World → Out)) := []
    let mut shandles : List (Option Args) := []      -- the specification's own view: coroutines of the undecorated function not yet awaited
    let mut pending : Nat := 0
    let mut evsAll : List Ev := []
    let mut ncum : Nat := 0
    let mut mout : List Json := []
    let mut sout : List Json := []
    for op in jL (jF c "ops") do
      let tag := jTag op
      let mut o : Out := (.ret .none, [], w)
      let mut so : ROut := ⟨.none, [], 0, sw⟩
      if tag == "await" then
        let k := jN (jAt op 1)
        match handles[k]? with
        | some (some run) =>
          o := run w
          handles := handles.set k none
        | _ => o := (.exc (.lib "TypeError"), [], w)
        match shandles[k]? with
        | some (some a) =>
          so := specReent body plan fuel a sw
          shandles := shandles.set k none
          pending := pending - 1
        | _ => so := ⟨.exc (.lib "TypeError"), [], 0, sw⟩
      else
        let a := argsOf (jAt op 1)
        if tag == "call" then
          o := sem a w
          match o.1 with
          | .ret (.coro run) => handles := handles ++ [some run]
          | _ => handles := handles ++ [none]
          -- an `async def` whose arguments bind hands out a coroutine and runs nothing yet
          if body.isCoro && (bind body.sig a).isSome then
            shandles := shandles ++ [some a]
            pending := pending + 1
            so := ⟨.coro, [], 0, sw⟩
          else
            shandles := shandles ++ [none]
            so := specReent body plan fuel a sw
        else
          o := invokeSem sem a w
          so := specReent body plan fuel a sw
      w := o.2.2
      sw := so.w
      evsAll := evsAll ++ o.2.1
      ncum := ncum + so.n
      mout := mout ++ [mkObj [("evs", jArr (o.2.1.filterMap evJ)), ("res", tagJ o.1.tag),
                              ("counters", jArr (cl.map (fun li => jInt (li.2 + sumIncr li.1 evsAll))))]]
      sout := sout ++ [mkObj [("res", tagJ so.res), ("calls", jArr (so.calls.filterMap evJ)), ("n", jNat ncum), ("settled", jBool (pending == 0))]]
    return mkObj [("model", mkObj [("ops", jArr mout), ("meta", jBool top.metaOk), ("coro", jBool top.isCoro)]),
                  ("spec", if transparent then jArr sout else Json.null), ("specTwin", jArr sout)]

/-! ### Generator functions -/

def objsOf (j : Json) : List Obj := (jL j).map (fun o => ⟨jN (jAt o 0), jN (jAt o 1)⟩)

/-- `{"async":…, "sig":…, "script":[…], "yields":[[[id, cls]…]…]}`; beyond the lists: no further yield, returns the object 999999 -/
def genBodyOf (j : Json) : GenBody :=
  let sc := (jA (jF j "script")).map outcOf
  let ys := (jA (jF j "yields")).map objsOf
  ⟨jB (jF j "async"), sigOf (jF j "sig"), fun i => ys[i]?.getD [], fun i => sc[i]?.getD (.ret ⟨999999, 999999⟩)⟩

def genOpOf (j : Json) : GenOp :=
  match jTag j with
  | "send" => .send (jN (jAt j 1))
  | "throw" => .throw (jN (jAt j 1)) (jB (jAt j 2))
  | "close" => .close
  | _ => .next

def genObsJ : GenObs → Json
  | .yielded v => jArr [jStr "yield", jNat v]
  | .stop v => jArr [jStr "stop", jNat v]
  | .raised e => jArr (excJ e)
  | .closed => jArr [jStr "closed"]
  | .nothing => jArr [jStr "nothing"]

/-- `{"kind":"gen","body":GENBODY,"other":BODY,"layers":[…],"self":null|id,"member":null|{…},"calls":[{"pos":…,"kw":…,"ops":[OP…]}…]}`: a generator
    function (or async generator function) under a decorator stack (or as a method of a class under trace_class / timer_class); every call
    hands out an object that the caller drives with the operations of that call.  Model: events (of the call, then of the drive), kind of
    result, what every operation shows, counters.  Specification: kind of result, warnings, counters — and the drive of the generator the
    caller must end up with (`specDrive`).  The twin is the undecorated generator function. -/
def handleGen (c : Json) : Json := Id.run do
  let g := genBodyOf (jF c "body")
  let other := bodyOf (jF c "other")
  let mem := jF c "member"
  let selfJ := jF c "self"
  let tr := traitsOf (jF c "traits")
  match buildStack other (.gen g) (.gen g) tr (jL (jF c "layers")) with
  | .error e => return mkObj [("error", jStr e)]
  | .ok (stack, sstack) =>
    let mut mfn : Except Exc Fn := stack
    let mut sfn : SFn := sstack
    let mut twin : Fn := .gen g
    let mut stwin : SFn := .gen g
    if !jIsNull mem then
      let s := jN (jF mem "self")
      let cl := jN (jF mem "cls")
      match (classDecorators.lookup (jS (jF mem "cdeco"))).bind (fun dn => (findDeco dn).bind (fun d => (Kind.ofName dn).map (fun k => (d, k)))) with
      | none => return mkObj [("error", jStr "unknown class decorator")]
      | some (d, kd) =>
        let p := paramsOf other (jF mem "params") tr
        mfn := .ok (decoratedMember d p .method .instance s cl (.gen g))
        sfn := .bound s (.layer kd p (.gen g))
        twin := .bound s (.gen g)
        stwin := .bound s (.gen g)
    else if !jIsNull selfJ then
      let s := jN selfJ
      mfn := stack.map (Fn.bound s)
      sfn := .bound s sstack
      twin := .bound s (.gen g)
      stwin := .bound s (.gen g)
    let sdeco := specDecorate sfn
    let run := fun (f : Fn) => Id.run do
      let cl := counterLayers f
      let mut w : World := ⟨0, 0⟩
      let mut evsAll : List Ev := []
      let mut out : List Json := []
      for cj in jL (jF c "calls") do
        let o := invokeG ((jL (jF cj "ops")).map genOpOf) f (argsOf cj) w
        w := o.2.2
        evsAll := evsAll ++ o.2.1
        out := out ++ [mkObj [("evs", jArr (o.2.1.filterMap evJ)), ("res", tagJ o.1.1.tag), ("obs", jArr (o.1.2.map genObsJ)),
                              ("counters", jArr (cl.map (fun li => jInt (li.2 + sumIncr li.1 evsAll))))]]
      return out
    let runSpec := fun (f : SFn) => Id.run do
      let mut w : World := ⟨0, 0⟩
      let mut counts : List Int := []
      let mut unspec := false
      let mut out : List Json := []
      for cj in jL (jF c "calls") do
        let a := argsOf cj
        let so := spec f 0 a w
        w := so.w
        counts := if counts.isEmpty then so.incrs else (List.zip counts so.incrs).map (fun ab => ab.1 + ab.2)
        unspec := unspec || so.unspec
        let dr := if so.res == .gen then specDrive f a ((jL (jF cj "ops")).map genOpOf) w else none
        let (obs, devs) := match dr with
          | some r => (r.1, r.2.1)
          | none => ([], [])
        w := match dr with
          | some r => r.2.2
          | none => w
        out := out ++ [mkObj [("res", tagJ so.res), ("obs", jArr (obs.map genObsJ)), ("calls", jArr ((so.calls ++ devs).filterMap evJ)),
                              ("warns", jNat so.warns), ("counters", jArr (counts.map jInt)), ("unspec", jBool unspec), ("mayReject", jBool so.mayReject)]]
      return out
    let modelJ := match mfn with
      | .error e => mkObj [("deco", jArr (excJ e)), ("calls", jArr []), ("meta", Json.null), ("coro", Json.null)]
      | .ok f => mkObj [("deco", Json.null), ("calls", jArr (run f)), ("meta", jBool f.metaOk), ("coro", jBool f.isCoro)]
    let specJ := mkObj [("deco", match sdeco with | some e => jArr (excJ e) | none => Json.null),
                        ("calls", jArr (match sdeco with | some _ => [] | none => runSpec sfn)),
                        ("twin", jArr (runSpec stwin)), ("meta", jBool true), ("decoUnspec", jBool (overridesUnspec sfn)), ("coro", jBool false)]
    return mkObj [("model", modelJ), ("spec", specJ), ("modelTwin", jArr (run twin))]

/-! ### Property members of a class under trace_class / timer_class -/

def propOpOf (j : Json) : PropOp :=
  match jTag j with
  | "set" => .set (jN (jAt j 1))
  | "del" => .del
  | _ => .get

/-- `{"kind":"prop","cdeco":…,"params":…,"acc":[hasGetter, hasSetter, hasDeleter],"script":[…],"self":id,"ops":[["get"]|["set",v]|["del"]…]}`: a class under
    trace_class / timer_class with a property that has exactly the listed accessors (getter `(self)`, setter `(self, a)`, deleter `(self)`;
    one script, indexed by the number of accessor runs so far); per operation: events, result, and the accessor of the ORIGINAL property
    whose body ran (`acc`, null = none).  Twin: the undecorated class. -/
def handleProp (c : Json) : Json := Id.run do
  let sc := (jA (jF c "script")).map outcOf
  let script : Nat → Outc := fun i => sc[i]?.getD (.ret ⟨999999, 999999⟩)
  let sig1 : Sig := ⟨[1], [], [], false, false⟩
  let sig2 : Sig := ⟨[1, 2], [], [], false, false⟩
  let has := (jL (jF c "acc")).map jB
  let bget : Option Body := if has[0]?.getD false then some ⟨false, sig1, script⟩ else none
  let bset : Option Body := if has[1]?.getD false then some ⟨false, sig2, script⟩ else none
  let bdel : Option Body := if has[2]?.getD false then some ⟨false, sig1, script⟩ else none
  let old : PropObj := ⟨bget.map Fn.body, bset.map Fn.body, bdel.map Fn.body⟩
  let self := jN (jF c "self")
  match (classDecorators.lookup (jS (jF c "cdeco"))).bind findDeco with
  | none => return mkObj [("error", jStr "unknown class decorator")]
  | some d =>
    let other : Body := ⟨false, sig1, script⟩
    let p := paramsOf other (jF c "params") (traitsOf (jF c "traits"))
    let new := rebuildProp d p old
    let run := fun (po : PropObj) (src : Slot → Option Slot) => Id.run do
      let mut w : World := ⟨0, 0⟩
      let mut out : List Json := []
      for oj in jL (jF c "ops") do
        let op := propOpOf oj
        let o := propAccess po self op w
        w := o.2.2
        -- the accessor of the original property whose body ran (none: no accessor body ran)
        let acc : Option Slot := match po.slot op.slot with
          | none => none
          | some _ => if o.2.1.any (isBodyOf .wrapped) then src op.slot else none
        out := out ++ [mkObj [("evs", jArr (o.2.1.filterMap evJ)), ("res", tagJ o.1.tag),
                              ("acc", match acc with | some s => jStr s.name | none => Json.null)]]
      return out
    let mut sw : World := ⟨0, 0⟩
    let mut sout : List Json := []
    for oj in jL (jF c "ops") do
      let op := propOpOf oj
      let so := specPropAccess bget bset bdel self op sw
      sw := so.w
      let present := match op with
        | .get => bget.isSome
        | .set _ => bset.isSome
        | .del => bdel.isSome
      sout := sout ++ [mkObj [("res", tagJ so.res), ("calls", jArr (so.calls.filterMap evJ)),
                              ("acc", if present && !so.calls.isEmpty then jStr op.slot.name else Json.null)]]
    return mkObj [("model", jArr (run new rebuiltSource)), ("modelTwin", jArr (run old some)), ("spec", jArr sout)]

/-! ### One decorator object applied to several callables -/

/-- `{"kind":"shared","layer":LAYER,"other":BODY,"script":[…],"funcs":[{"coro":…,"sig":…,"fname":…}…],"calls":[{"fn":i,"pos":…,"kw":…}…]}`: ONE decorator
    object (`layer`) applied to every function of `funcs` in turn, then the calls (interleaved over the results).  Per result: the index of the
    wrapper object it is, the index of the function whose metadata it shows, coroutine-ness; per call: events, result, the counters of
    that result.  Specification: every result is an object of its own, shows its own function's metadata, and behaves as if the
    decorator had been applied to it alone. -/
def handleShared (c : Json) : Json := Id.run do
  let sc := (jA (jF c "script")).map outcOf
  let script : Nat → Outc := fun i => sc[i]?.getD (.ret ⟨999999, 999999⟩)
  let other := bodyOf (jF c "other")
  let l := jF c "layer"
  let name := jS (jF l "d")
  match findDeco name with
  | none => return mkObj [("error", jStr s!"unknown decorator {name}")]
  | some d =>
    let p0 := paramsOf other l (traitsOf (jF c "traits"))
    let funcs := jL (jF c "funcs")
    let bodies : List Body := funcs.map (fun f => ⟨jB (jF f "coro"), sigOf (jF f "sig"), script⟩)
    let ps : List Params := funcs.map (fun f => if jIsNull (jF f "fname") then p0 else { p0 with fname := jN (jF f "fname") })
    let fs : List Fn := bodies.map Fn.body
    -- decoration-time outcome of every application
    let decoExc : List (Option Exc) := (List.zip ps fs).map (fun pf => match decorate d pf.1 pf.2 with | .ok _ => none | .error e => some e)
    let apps0 := applyShared d p0 fs
    -- the parameters (the name looked up by `overrides`) are those of the application
    let apps : List Applied := (List.zip apps0 ps).map (fun ap => { ap.1 with fn := match ap.1.fn with | .deco d' _ i => .deco d' ap.2 i | f => f })
    let kind := Kind.ofName name
    let sfns : List SFn := match kind with
      | some k => (List.zip ps bodies).map (fun pb => SFn.layer k pb.1 (.body pb.2))
      | none => bodies.map SFn.body
    let sdecoExc : List (Option Exc) := sfns.map specDecorate
    let mut w : World := ⟨0, 0⟩
    let mut sw : World := ⟨0, 0⟩
    let mut tw : World := ⟨0, 0⟩
    let mut evsPer : List (List Ev) := fs.map (fun _ => [])
    let mut scounts : List (List Int) := fs.map (fun _ => [])
    let mut mout : List Json := []
    let mut sout : List Json := []
    let mut tout : List Json := []
    for cj in jL (jF c "calls") do
      let i := jN (jF cj "fn")
      let a := argsOf cj
      match apps[i]?, sfns[i]?, bodies[i]? with
      | some ap, some sf, some b =>
        let o := invoke ap.fn a w
        w := o.2.2
        evsPer := evsPer.set i ((evsPer[i]?.getD []) ++ o.2.1)
        let cl := counterLayers ap.fn
        mout := mout ++ [mkObj [("evs", jArr (o.2.1.filterMap evJ)), ("res", tagJ o.1.tag),
                                ("counters", jArr (cl.map (fun li => jInt (li.2 + sumIncr li.1 (evsPer[i]?.getD [])))))]]
        let so := spec sf 0 a sw
        sw := so.w
        let prev := scounts[i]?.getD []
        let now := if prev.isEmpty then so.incrs else (List.zip prev so.incrs).map (fun ab => ab.1 + ab.2)
        scounts := scounts.set i now
        sout := sout ++ [mkObj [("res", tagJ so.res), ("calls", jArr (so.calls.filterMap evJ)), ("warns", jNat so.warns),
                                ("counters", jArr (now.map jInt)), ("unspec", jBool so.unspec), ("mayReject", jBool so.mayReject)]]
        let t := invoke (.body b) a tw
        tw := t.2.2
        tout := tout ++ [mkObj [("evs", jArr (t.2.1.filterMap evJ)), ("res", tagJ t.1.tag), ("counters", jArr [])]]
      | _, _, _ => mout := mout ++ [Json.null]
    let optExcJ : Option Exc → Json := fun e => match e with | some e => jArr (excJ e) | none => Json.null
    let dedicated := dedicatedNames.contains name
    return mkObj [
      ("model", mkObj [("deco", jArr (decoExc.map optExcJ)),
                       ("objs", jArr (apps.map (fun ap => jNat ap.obj))),
                       ("shows", jArr (apps.map (fun ap => jNat ap.shows))),
                       ("meta", jArr (apps.map (fun ap => jBool ap.fn.metaOk))),
                       ("coro", jArr (apps.map (fun ap => jBool ap.fn.isCoro))),
                       ("calls", jArr mout)]),
      ("spec", mkObj [("deco", jArr (sdecoExc.map optExcJ)),
                      ("objs", jArr ((List.range fs.length).map jNat)),
                      ("shows", jArr ((List.range fs.length).map jNat)),
                      ("coro", jArr (bodies.map (fun b => if dedicated || name == "overrides" then jBool b.isCoro else Json.null))),
                      ("calls", if kind.isSome then jArr sout else Json.null)]),
      ("modelTwin", jArr tout)]

def handle (c : Json) : Json :=
  if jS (jF c "kind") == "attrs" then handleAttrs c
  else if jS (jF c "kind") == "reent" then handleReent c
  else if jS (jF c "kind") == "staged" then handleStaged c
  else if jS (jF c "kind") == "gen" then handleGen c
  else if jS (jF c "kind") == "prop" then handleProp c
  else if jS (jF c "kind") == "shared" then handleShared c
  else handleCall c

end PedVerif.Drv.Utility
