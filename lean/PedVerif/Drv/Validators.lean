import PedVerif.Drv.Util
import PedVerif.Spec.Validators
/-! Driver for the `Validators` model (C14).  Case formats: see `harness/props/C14.py`.
    Values: `null` | `["bool",b]` | `["int",n]` | `["float",num,den,negzero]` | `["float","inf"|"-inf"|"nan"]` |
    `["str",[code points]]` | `["bytes",[ints]]` | `["list",[…]]` | `["tuple",[…]]` | `["set",[…]]` |
    `["dict",[[k,v],…]]` (k, v code-point lists) | `["range",n]` | `["gen",[…]]` | `["ext",kind,repr]`. -/
namespace PedVerif.Drv.Validators
open Lean PedVerif.Drv PedVerif.Validators

instance : Inhabited Val := ⟨.none⟩
instance : Inhabited VT := ⟨.leaf 0⟩

def cpsOf (j : Json) : List Char := (jL j).map fun x => Char.ofNat (jN x)
def cpsJ (s : List Char) : Json := jArr (s.map fun c => jNat c.toNat)

/-- ints beyond 63 bits travel as signed hex strings (Python's json refuses decimal ints beyond 4300 digits) -/
def hexVal (c : Char) : Nat :=
  if '0' ≤ c ∧ c ≤ '9' then c.toNat - 48 else if 'a' ≤ c ∧ c ≤ 'f' then c.toNat - 87 else 0
def intOfJ (j : Json) : Int :=
  match j with
  | .str s =>
    let cs := s.toList
    let neg := cs.head? == some '-'
    let ds := cs.filter (fun c => c != '-')
    let n : Nat := ds.foldl (fun acc c => acc * 16 + hexVal c) 0
    if neg then -(n : Int) else (n : Int)
  | _ => jI j
def hexDigits (n : Nat) : List Char :=
  (Nat.toDigits 16 n)
def intJ (i : Int) : Json :=
  if i.natAbs < 9223372036854775808 then jInt i
  else jStr (String.ofList ((if i < 0 then ['-', '0', 'x'] else ['0', 'x']) ++ hexDigits i.natAbs))

def numOf (j : Json) : Num :=
  match jAt j 1 with
  | .str "inf" => .pinf
  | .str "-inf" => .ninf
  | .str "nan" => .nan
  | n => .fin (intOfJ n) (intOfJ (jAt j 2)).toNat

partial def valOf (j : Json) : Val :=
  match jTag j with
  | "bool" => .bool (jB (jAt j 1))
  | "int" => .int (intOfJ (jAt j 1))
  | "float" => .float (numOf j) (jB (jAt j 3))
  | "str" => .str (cpsOf (jAt j 1))
  | "bytes" => .bytes ((jL (jAt j 1)).map jN)
  | "list" => .list ((jL (jAt j 1)).map valOf)
  | "tuple" => .tuple ((jL (jAt j 1)).map valOf)
  | "set" => .set ((jL (jAt j 1)).map valOf)
  | "gen" => .gen ((jL (jAt j 1)).map valOf)
  | "dict" => .dict ((jL (jAt j 1)).map fun kv => (cpsOf (jAt kv 0), cpsOf (jAt kv 1)))
  | "range" => .range (jN (jAt j 1))
  | "ext" => .ext (jS (jAt j 1)) (jS (jAt j 2))
  | _ => .none

def numJ : Num → Bool → Json
  | .fin n d, nz => jArr [jStr "float", intJ n, intJ d, jBool nz]
  | .pinf, _ => jArr [jStr "float", jStr "inf"]
  | .ninf, _ => jArr [jStr "float", jStr "-inf"]
  | .nan, _ => jArr [jStr "float", jStr "nan"]

partial def valJ : Val → Json
  | .none => Json.null
  | .bool b => jArr [jStr "bool", jBool b]
  | .int i => jArr [jStr "int", intJ i]
  | .float x nz => numJ x nz
  | .str s => jArr [jStr "str", cpsJ s]
  | .bytes b => jArr [jStr "bytes", jArr (b.map jNat)]
  | .list xs => jArr [jStr "list", jArr (xs.map valJ)]
  | .tuple xs => jArr [jStr "tuple", jArr (xs.map valJ)]
  | .set xs => jArr [jStr "set", jArr (xs.map valJ)]
  | .gen xs => jArr [jStr "gen", jArr (xs.map valJ)]
  | .dict kvs => jArr [jStr "dict", jArr (kvs.map fun kv => jArr [cpsJ kv.1, cpsJ kv.2])]
  | .range n => jArr [jStr "range", jNat n]
  | .ext k r => jArr [jStr "ext", jStr k, jStr r]

def excOf (s : String) : Exc := excOfName s

def excName : Exc → String
  | .validator => "ValidatorException" | .conversion => "ConversionError" | .validate => "ValidateException"
  | .valueError => "ValueError" | .typeError => "TypeError" | .overflowError => "OverflowError"
  | .attributeError => "AttributeError" | .keyError => "KeyError" | .indexError => "IndexError"
  | .arithmeticError => "ArithmeticError" | .lookupError => "LookupError" | .exception => "Exception"
  | .baseException => "BaseException"
  | .other n => n

def orcOf {α : Type} (f : Json → α) (j : Json) : Orc α :=
  if jTag j == "ok" then .ok (f (jAt j 1)) else .raises (excOf (jS (jAt j 1)))

/-- the descriptors are equal (the values of a case are compared through their JSON form) -/
def sameVal (a b : Val) : Bool := valJ a == valJ b

/-- the answer of a callee for the arguments the harness asked it with (first match); an argument the harness did not ask
    for is reported as the class `oracle-missing` (the judge treats that as a harness / driver inconsistency) -/
def askVal {α : Type} (tab : List (Val × Orc α)) (x : Val) : Orc α :=
  match tab.find? (fun r => sameVal r.1 x) with
  | some r => r.2
  | none => .raises (.other "oracle-missing")

def resJ (input : Val) : VRes Val → Json
  | .ok r => mkObj [("out", jStr "ok"), ("value", valJ r), ("same", jBool (valJ r == valJ input))]
  | .raises e => mkObj [("out", jStr "raises"), ("exc", jStr (excName e))]

def specJ : SpecOut → Json
  | .accept r ident => mkObj [("s", jStr "accept"), ("value", valJ r), ("ident", jBool ident)]
  | .reject => mkObj [("s", jStr "reject")]
  | .na => mkObj [("s", jStr "na")]

def spaceTab (j : Json) : Char → Bool :=
  let l := (jL j).map jN
  fun c => l.contains c.toNat

def both (input : Val) (m : VRes Val) (s : SpecOut) : Json := mkObj [("model", resJ input m), ("spec", specJ s)]

/-- leaf validators of a tree case -/
def leafSem (isSpace : Char → Bool) (leaves : Array Json) (i : Nat) (x : Val) : VRes Val :=
  let d := leaves[i]?.getD Json.null
  match jTag d with
  | "min" => vMin (valOf (jAt d 1)) (jB (jAt d 2)) x
  | "max" => vMax (valOf (jAt d 1)) (jB (jAt d 2)) x
  | "minlen" => vMinLength (jI (jAt d 1)) x
  | "maxlen" => vMaxLength (jI (jAt d 1)) x
  | "notempty" => vNotEmpty isSpace (jB (jAt d 1)) x
  | "email" => vEmail isSpace id x
  | "add" => (match x with | .int i => .ok (.int (i + jI (jAt d 1))) | _ => .raises .typeError)
  | "boom" => (match x with
      | .int i => if i == jI (jAt d 1) then .raises (excOf (jS (jAt d 2))) else .ok x
      | _ => .ok x)
  | _ => .raises (.other "unknown-leaf")

partial def treeOf (j : Json) : VT :=
  match jTag j with
  | "foreach" => .forEach ((jL (jAt j 1)).map treeOf)
  | "composite" => .composite ((jL (jAt j 1)).map treeOf)
  | _ => .leaf (jN (jAt j 1))

def cenvOf (e : Json) : CEnv :=
  let lower := (jL (jF e "lower")).map fun r => (jN (jAt r 0), cpsOf (jAt r 1))
  let digits := (jL (jF e "digits")).map fun r => (jN (jAt r 0), jN (jAt r 1))
  let floats := (jL (jF e "floats")).map fun r => (cpsOf (jAt r 0), orcOf valOf (jAt r 1))
  { spaceTab := spaceTab (jF e "spaces")
    lowerTab := fun c => match lower.find? (fun r => r.1 == c.toNat) with | some r => r.2 | none => [c]
    digitTab := fun c => (digits.find? (fun r => r.1 == c.toNat)).map (·.2)
    maxStrDigits := jN (jF e "max")
    strOf := fun _ => orcOf cpsOf (jF e "str")
    floatOf := fun s => match floats.find? (fun r => r.1 == s) with
      | some r => r.2
      | none => .raises (.other "float-oracle-missing") }

def handle (c : Json) : Json :=
  let v := valOf (jF c "v")
  let isSpace := mkSpace (spaceTab (jF c "spaces"))
  match jS (jF c "k") with
  | "min" => both v (vMin (valOf (jF c "bound")) (jB (jF c "incl")) v) (specMin (valOf (jF c "bound")) (jB (jF c "incl")) v)
  | "max" => both v (vMax (valOf (jF c "bound")) (jB (jF c "incl")) v) (specMax (valOf (jF c "bound")) (jB (jF c "incl")) v)
  | "minlen" => both v (vMinLength (jI (jF c "n")) v) (specMinLength (jI (jF c "n")) v)
  | "maxlen" => both v (vMaxLength (jI (jF c "n")) v) (specMaxLength (jI (jF c "n")) v)
  | "notempty" => both v (vNotEmpty isSpace (jB (jF c "strip")) v) (specNotEmpty isSpace (jB (jF c "strip")) v)
  | "email" =>
    let post : Val → Val := fun _ => valOf (jF c "post")
    both v (vEmail isSpace post v) (specEmail isSpace post v)
  | "emailc" =>
    let post : Val → Val := fun _ => valOf (jF c "post")
    let m := askVal [(v, orcOf jB (jF c "matched"))]
    both v (vEmailCustom m post v) (specOracleBool (m v) (post v) false)
  | "pattern" =>
    let m := askVal [(v, orcOf jB (jF c "matched"))]
    both v (vMatchPattern m v) (specOracleBool (m v) v true)
  | "uuid" =>
    let o := askVal [(v, orcOf valOf (jF c "o"))]
    both v (vIsUuid (jB (jF c "convert")) o v) (specIsUuid (jB (jF c "convert")) o v)
  | "enum" =>
    let e := jF c "env"
    let upper := valOf (jF e "upper")
    let isStr := jB (jF e "isStr")
    -- candidates the harness asked `int()` / `enum()` with: the raw value (0) and its upper-cased form (1, only for a str)
    let cands : List (Nat × Val) := if isStr then [(0, v), (1, upper)] else [(0, v)]
    let intTab : List (Val × Orc Val) := cands.map fun (i, x) => (x, orcOf valOf (jAt (jF e "intOf") i))
    let enumTab : List (Val × Orc Val) :=
      (cands.map fun (i, x) => (x, orcOf valOf (jAt (jAt (jF e "lookup") i) 0))) ++
      (cands.filterMap fun (i, _) => match orcOf valOf (jAt (jF e "intOf") i) with
        | .ok n => some (n, orcOf valOf (jAt (jAt (jF e "lookup") i) 1))
        | .raises _ => none)
    let env : EnumEnv :=
      { isStrInst := fun x => if sameVal x v then isStr else x.isStr
        upperOf := fun x => if sameVal x v then upper else x
        isIntEnum := jB (jF e "isIntEnum")
        intOf := askVal intTab
        enumOf := askVal enumTab }
    both v (vIsEnum (jB (jF c "convert")) (jB (jF c "upper")) env v) (specIsEnum (jB (jF c "convert")) (jB (jF c "upper")) env v)
  | "iso" =>
    let o := askVal [(v, orcOf valOf (jF c "o"))]
    both v (vIso o v) (specIso o v)
  | "unix" =>
    let flo := orcOf (fun j => numOf j) (jF c "fl")
    let fl := askVal [(v, flo)]
    let tdo := orcOf intOfJ (jF c "td")
    let td : Num → Orc Int := fun s => match flo with
      | .ok x => if s = x then tdo else .raises (.other "oracle-missing")
      | .raises _ => .raises (.other "oracle-missing")
    both v (vUnix fl td v) (specUnix fl td v)
  | "tree" =>
    let sem := leafSem isSpace (jA (jF c "leaves"))
    let t := treeOf (jF c "t")
    let so := specTree sem t v
    let spec : SpecOut := if so.foreign then .na else match so.out with
      | some y => .accept y false
      | none => .reject
    both v (run sem t v) spec
  | "convert" =>
    let env := cenvOf (jF c "env")
    let t : Target := match jS (jF c "t") with
      | "bool" => .bool | "int" => .int | "float" => .float | "str" => .str | "list" => .list | _ => .dict
    mkObj [("model", resJ v (convert env v t)), ("spec", mkObj [("s", jStr "convert")])]
  | k => mkObj [("error", jStr s!"unknown kind {k}")]

end PedVerif.Drv.Validators
