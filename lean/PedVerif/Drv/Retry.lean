import PedVerif.Drv.Util
import PedVerif.Spec.Retry
namespace PedVerif.Drv.Retry
open Lean PedVerif.Drv PedVerif.Retry

def outcOf (o : Json) : Outc :=
  match jTag o with
  | "ret" => .ret (jN (jAt o 1))
  | "listed" => .listed (jN (jAt o 1))
  | _ => .foreign (jN (jAt o 1))

def evJ : Ev → Json
  | .call i => jArr [jStr "call", jNat i]
  | .sleep => jArr [jStr "sleep"]

def resJ : Res → Json
  | .ret v => jArr [jStr "ret", jNat v]
  | .exc e => jArr [jStr "exc", jNat e]
  | .retNone => jArr [jStr "retNone"]
  | .handlerError => jArr [jStr "exc", jInt (-1), jStr "AttributeError"]
  | .formatError => jArr [jStr "exc", jInt (-1), jStr "TypeError"]

def runJ (r : Run) : Json := mkObj [("trace", jArr (r.trace.map evJ)), ("res", resJ r.res)]

/-- case: {"attempts": int, "script": [["ret"|"listed"|"foreign", id], …], "named": bool, "unprintable": [i, …]}; beyond the script every outcome is `ret 999999` -/
def handle (c : Json) : Json :=
  let sc := (jA (jF c "script")).map outcOf
  let script : Nat → Outc := fun i => sc[i]?.getD (.ret 999999)
  let attempts := jI (jF c "attempts")
  let named := match jF c "named" with | .bool b => b | _ => true
  -- "unprintable": indices of the invocations whose raised exception cannot be formatted (its `__str__` / `__repr__` raises)
  let bad := match jF c "unprintable" with | .arr xs => xs.toList.map jN | _ => []
  let printable : Nat → Bool := fun i => !bad.contains i
  mkObj [("model", runJ (retryDecorated named printable script attempts)), ("spec", runJ (spec script attempts))]

end PedVerif.Drv.Retry
