import PedVerif.Drv.Util
import PedVerif.Spec.ValidateRegions
namespace PedVerif.Drv.Validate
open Lean PedVerif.Drv PedVerif.Validate PedVerif.Gen.Validate

def pvOf (j : Json) : PV := match j with | .null => .none | x => .obj (jN x)
def optPvOf (j : Json) : Option PV := match j with | .str _ => none | x => some (pvOf x)
def pvJ : PV → Json | .none => Json.null | .obj i => jNat i

/-- a recording validator: {"rej": [ids], "crash": [ids], "map": "mul"|"same"|"none"|"const", "k": n, "pn": name?, "wrap": [names]?};
    None passes through.  `pn` is the `parameter_name` its own `ValidatorException` carries (absent: the default `''` of
    `ValidatorException.__init__`); `wrap` lists, from the inside out, the names of the `validate_param(value, parameter_name=…)`
    delegations through which the validator is reached. -/
def coreStepOf (j : Json) : Step := fun v =>
  match v with
  | .none => .ok .none
  | .obj i =>
    if ((jL (jF j "rej")).map jN).contains i then
      .error (.rejected (validatorExceptionStoresName ((jOptN (jF j "pn")).getD validatorExceptionDefaultName)))
    else if ((jL (jF j "crash")).map jN).contains i then .error (.crash i)
    else match jS (jF j "map") with
      | "mul" => .ok (.obj (i * 8 + jN (jF j "k")))
      | "none" => .ok .none
      | "const" => .ok (.obj (jN (jF j "k")))
      | _ => .ok (.obj i)
def stepOf (j : Json) : Step := ((jL (jF j "wrap")).map jN).foldl validateParam (coreStepOf j)

/-- a conversion table [[in, out | "REJ"], …]; values outside the table are rejected -/
def convOf (j : Json) : Option Step :=
  match j with
  | .arr rows => some fun v =>
    match v with
    | .none => .error (.rejected emptyName)
    | .obj i =>
      match rows.toList.find? (fun r => jN (jAt r 0) == i) with
      | some r => (match jAt r 1 with | .str _ => .error (.rejected emptyName) | o => .ok (pvOf o))
      | none => .error (.rejected emptyName)
  | _ => none

/-- a Parameter; its name is a non-empty string (the harness never declares `Parameter(name='')`; such a description is
    answered with a Parameter called `zz`, which the correspondence check would report) -/
def paramOf (j : Json) : VParam :=
  let n := jN (jF j "name")
  if h : (n != emptyName) = true then
    { name := n, requiredArg := jB (jF j "required"), dflt := optPvOf (jF j "dflt"), ext := optPvOf (jF j "ext"),
      conv := convOf (jF j "conv"), validators := (jL (jF j "vals")).map stepOf, flaskJson := jB (jF j "flaskJson"), nameNonEmpty := h }
  else
    { name := 6, requiredArg := jB (jF j "required"), dflt := optPvOf (jF j "dflt"), ext := optPvOf (jF j "ext"),
      conv := convOf (jF j "conv"), validators := (jL (jF j "vals")).map stepOf, flaskJson := jB (jF j "flaskJson") }

def sparamOf (j : Json) : SParam := { name := jN (jF j "name"), dflt := optPvOf (jF j "dflt") }
/-- `varName` (absent: `args`) is the name of the VAR_POSITIONAL parameter, `tup` the identity the harness gives the tuple
    object that `bind_partial` builds from the surplus positionals of this call -/
def sigOf (j : Json) : Sig :=
  { pos := (jL (jF j "pos")).map sparamOf, varArgs := jB (jF j "varArgs"), kwOnly := (jL (jF j "kwOnly")).map sparamOf,
    varName := (jOptN (jF j "varName")).getD argsName, tupleOf := fun _ => .obj (jN (jF j "tup")) }
def reqOf (j : Json) : Req :=
  match j with
  | .arr ks => .json (ks.toList.map jN)
  | .str "notjson" => .notJson
  | _ => .noContext
def modeOf (j : Json) : Mode :=
  match jS j with | "ARGS" => .args | "KWARGS_WITH_NONE" => .kwWithNone | _ => .kwWithoutNone

def whyJ : Why → Json
  | .required => jStr "required" | .convert => jStr "convert" | .validator j => jArr [jStr "validator", jNat j]
def excJ : VExc → Json
  | .parameter n w => jArr [jStr "VAL:Parameter", jNat n, whyJ w]
  | .tooMany => jArr [jStr "VAL:TooManyArguments"]
  | .validate => jArr [jStr "VAL:Validate"]
  | .foreign e => jArr [jStr "ESC:foreign", jNat e]
  | .flaskOutsideContext => jArr [jStr "ESC:RuntimeError"]
  | .keyError => jArr [jStr "ESC:KeyError"]
  | .notCalled => jArr [jStr "notCalled"]
  | .bodyTypeError => jArr [jStr "CALL:TypeError"]
  | .unboundLocal => jArr [jStr "ESC:UnboundLocalError"]
def assocJ (a : Assoc) : Json := jArr (a.map fun kv => jArr [jNat kv.1, pvJ kv.2])
def bindingJ (b : Binding) : Json := mkObj [("named", assocJ b.named), ("extras", jArr (b.extras.map pvJ))]
def exJ {α} (f : α → Json) : Except VExc α → Json
  | .ok a => mkObj [("ok", f a)]
  | .error e => mkObj [("exc", excJ e)]

/-- one decorated function + one call -/
def handleOne (c : Json) : Json :=
  let cfg : Cfg := { ps := (jL (jF c "ps")).map paramOf, sig := sigOf (jF c "sig"), strict := jB (jF c "strict"),
                     ignoreInput := jB (jF c "ignore"), req := reqOf (jF c "req") }
  let args := (jL (jF c "args")).map pvOf
  let kw := (jL (jF c "kw")).map fun p => (jN (jAt p 0), pvOf (jAt p 1))
  let m := modeOf (jF c "mode")
  let g := gate cfg args kw
  -- the coarse set of permitted values is only consulted for what lands in `*args` (named parameters are judged by name)
  let needAllowed := cfg.sig.varArgs
  -- the regions of the recorded findings = the complements of the guards of the `_partial` theorems (Spec/ValidateRegions.lean)
  let regions := mkObj [("surplus", Json.bool (!surplusGuard cfg args kw)), ("arrival", Json.bool (!handOverGuard cfg m args kw))]
  mkObj [("model", exJ bindingJ (runValidate cfg (jB (jF c "async")) m args kw)),
         ("spec", mkObj [("byName", exJ assocJ (byName cfg m args kw)),
                         ("gate", mkObj [("journal", jArr (g.journal.map fun e => jArr [jNat e.1, jNat e.2.1, pvJ e.2.2])),
                                         ("out", exJ assocJ g.out)]),
                         ("allowed", jArr (if needAllowed then (allowedValues cfg args kw).map pvJ else []))]),
         ("regions", regions)]

/-- a single call, or a scenario `{"calls": [<call>, …]}` — a history of calls of one or two decorated functions, some of them
    made by a validator of another call while that call is still running.  The model answers for every call on its own:
    by `call_outcome_independent_of_other_calls` (Props/C12.lean) the outcome of a call is a function of its own arguments only,
    whatever ran before it and whatever its validators do while it runs. -/
def handle (c : Json) : Json :=
  match jF c "calls" with
  | .arr cs => mkObj [("calls", jArr (cs.toList.map handleOne))]
  | _ => handleOne c

end PedVerif.Drv.Validate
