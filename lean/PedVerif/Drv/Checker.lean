import PedVerif.Drv.Util
import PedVerif.Model.CheckerWF
namespace PedVerif.Drv.Checker
open Lean PedVerif.Drv PedVerif.Checker

def parseSpell (s : String) : Spell := if s == "typing" then .typing else .pep585
def parseUSpell (s : String) : USpell := if s == "union" then .union else if s == "optional" then .optional else .pipe
def parseSeqO : String → SeqOrigin
  | "list" => .list | "set" => .set | "frozenset" => .frozenset | "deque" => .deque | "sequence" => .sequence
  | "iterable" => .iterable | "collection" => .collection | "container" => .container | "abstractSet" => .abstractSet
  | "mutableSet" => .mutableSet | _ => .mutableSequence
def seqOName : SeqOrigin → String
  | .list => "list" | .set => "set" | .frozenset => "frozenset" | .deque => "deque" | .sequence => "sequence" | .iterable => "iterable"
  | .collection => "collection" | .container => "container" | .abstractSet => "abstractSet" | .mutableSet => "mutableSet"
  | .mutableSequence => "mutableSequence"
def parseMapO : String → MapOrigin
  | "dict" => .dict | "defaultDict" => .defaultDict | "mapping" => .mapping | _ => .mutableMapping
def mapOName : MapOrigin → String
  | .dict => "dict" | .defaultDict => "defaultDict" | .mapping => "mapping" | .mutableMapping => "mutableMapping"
def parseBareO : String → BareOrigin
  | "list" => .list | "dict" => .dict | "set" => .set | "frozenset" => .frozenset | "tuple" => .tuple | "type" => .type_
  | "tList" => .tList | "tDict" => .tDict | "tSet" => .tSet | "tFrozenSet" => .tFrozenSet | "tTuple" => .tTuple | "tType" => .tType
  | "tCallable" => .tCallable | "tIterable" => .tIterable | "tSequence" => .tSequence | "tUnion" => .tUnion | _ => .tOptional

def parseLit (j : Json) : Lit :=
  match jTag j with
  | "none" => .none
  | "bool" => .bool (jB (jAt j 1))
  | "int" => .int (jI (jAt j 1))
  | "str" => .str ((jL (jAt j 1)).map jN)
  | "bytes" => .bytes ((jL (jAt j 1)).map jN)
  | _ => .flt (jI (jAt j 1)) (jN (jAt j 2))

instance : Inhabited Ann := ⟨.any⟩
instance : Inhabited Val := ⟨.inst 0⟩

partial def parseAnn (j : Json) : Ann :=
  match jTag j with
  | "none" => .none
  | "cls" => .cls (jN (jAt j 1))
  | "clsF" => .clsF (jN (jAt j 1)) ((jL (jAt j 2)).map jN) ((jL (jAt j 3)).map parseAnn)
  | "any" => .any
  | "union" => .union (parseUSpell (jS (jAt j 1))) ((jL (jAt j 2)).map parseAnn)
  | "lit" => .literal ((jL (jAt j 1)).map parseLit)
  | "newtype" => .newType (jN (jAt j 1))
  | "typeof" => .typeOf (parseSpell (jS (jAt j 1))) (parseAnn (jAt j 2))
  | "fwd" => .fwd (jN (jAt j 1))
  | "str" => .strAnn (jN (jAt j 1))
  | "seq" => .seq (parseSpell (jS (jAt j 1))) (parseSeqO (jS (jAt j 2))) (parseAnn (jAt j 3))
  | "map" => .map (parseSpell (jS (jAt j 1))) (parseMapO (jS (jAt j 2))) (parseAnn (jAt j 3)) (parseAnn (jAt j 4))
  | "tuple" => .tuple (parseSpell (jS (jAt j 1))) ((jL (jAt j 2)).map parseAnn)
  | "tuplevar" => .tupleVar (parseSpell (jS (jAt j 1))) (parseAnn (jAt j 2))
  | "bare" => .bare (parseBareO (jS (jAt j 1)))
  | _ => .special (jN (jAt j 1))

partial def parseVal (j : Json) : Val :=
  match jTag j with
  | "lit" => .lit (parseLit (jAt j 1))
  | "inst" => .inst (jN (jAt j 1))
  | "coll" => .coll (jN (jAt j 1)) ((jL (jAt j 2)).map parseVal)
  | "mapping" => .mapping (jN (jAt j 1)) ((jL (jAt j 2)).map fun kv => (parseVal (jAt kv 0), parseVal (jAt kv 1)))
  | "tup" => .tup (jN (jAt j 1)) ((jL (jAt j 2)).map parseVal)
  | "ntup" => .ntup (jN (jAt j 1)) ((jL (jAt j 2)).map jN) ((jL (jAt j 3)).map parseVal)
  | "iterator" => .iterator (jN (jAt j 1)) ((jL (jAt j 2)).map parseVal)
  | _ => .clsObj (jN (jAt j 1))

/-- env JSON: "sub": one bit mask (Nat) per class: bit b of row a = issubclass(a, b) -/
def parseEnv (j : Json) : Env :=
  let sub := (jA (jF j "sub")).map jN
  let names := (jA (jF j "name")).map jN
  let bases := (jA (jF j "baseName")).map jOptN
  let mros := (jA (jF j "mroNames")).map fun r => (jL r).map jN
  let ctx := (jA (jF j "ctx")).map fun p => (jN (jAt p 0), jN (jAt p 1))
  let metaA := (jA (jF j "meta")).map jN
  let fields := (jA (jF j "fields")).map fun f => if jIsNull f then (Option.none : Option (List Nat)) else some ((jL f).map jN)
  let lc := jF j "litcls"
  let seq := jF j "seq"
  let mp := jF j "map"
  { sub := fun a b => a == b || (sub[a]?.getD 0).testBit b
    name := fun c => names[c]?.getD 0
    baseName := fun c => (bases[c]?).getD Option.none
    mroNames := fun c => (mros[c]?).getD []
    ctx := fun n => (ctx.find? (·.1 == n)).map (·.2)
    fieldNames := fun c => (fields[c]?).getD Option.none
    litCls := fun l => match l with
      | .none => jN (jF lc "none") | .bool => jN (jF lc "bool") | .int => jN (jF lc "int")
      | .str => jN (jF lc "str") | .bytes => jN (jF lc "bytes") | .flt => jN (jF lc "flt")
    tupleCls := jN (jF j "tuple")
    typeCls := jN (jF j "type")
    iteratorCls := jN (jF j "iterator")
    seqCls := fun o => jN (jF seq (seqOName o))
    mapCls := fun o => jN (jF mp (mapOName o))
    metaOf := fun c => metaA[c]?.getD (jN (jF j "type")) }

def outStr : Out → String
  | .accept => "accept" | .reject => "reject" | .pedErr => "pedErr" | .tvMismatch => "tvMismatch" | .escape => "escape"

def isStrAnn : Ann → Bool | .strAnn _ => true | _ => false

def regionsEnv (env : Env) (a : Ann) : List String := if a.hasUnresolvedFwd env then ["fwdUnresolved"] else []
def regions (a : Ann) (v : Val) : List String :=
  (if isStrAnn a then ["strAnn"] else []) ++
  (if v.hasNT then ["namedtuple"] else []) ++
  (if !v.plain && !v.hasNT then ["iterator"] else []) ++
  (if a.hasEmptyTuple then ["emptyFixedTuple"] else []) ++
  (if a.hasTypeOfNonClass then ["typeOfNonClass"] else [])

/-- case: {"env": …, "ann": term, "val": term} -/
def handle (c : Json) : Json :=
  let env := parseEnv (jF c "env")
  let a := parseAnn (jF c "ann")
  let v := parseVal (jF c "val")
  let o := checkType env (fun _ _ => .raisedOther) a v
  mkObj [("out", jStr (outStr o)), ("spec", jBool (conforms env a v)), ("inVocab", jBool a.inVocab),
         ("plain", jBool v.plain), ("wf", jBool (v.wf env)), ("regions", jArr ((regions a v ++ regionsEnv env a).map jStr))]

end PedVerif.Drv.Checker
