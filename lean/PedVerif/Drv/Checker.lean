import PedVerif.Drv.Util
import PedVerif.Model.CheckerWF
import PedVerif.Model.CheckerIR
namespace PedVerif.Drv.Checker
open Lean PedVerif.Drv PedVerif.Checker

def parseSpell (s : String) : Spell := if s == "typing" then .typing else .pep585
def parseUSpell (s : String) : USpell := if s == "union" then .union else if s == "optional" then .optional else .pipe
def parseSeqO : String → SeqOrigin
  | "list" => .list | "set" => .set | "frozenset" => .frozenset | "deque" => .deque | "sequence" => .sequence
  | "iterable" => .iterable | "collection" => .collection | "container" => .container | "abstractSet" => .abstractSet
  | "mutableSet" => .mutableSet | _ => .mutableSequence
def seqOName : SeqOrigin → String
  | .list => "list" | .set => "set" | .frozenset => "frozenset" | .deque => "deque" | .sequence => "sequence" | .iterable => "iterable"
  | .collection => "collection" | .container => "container" | .abstractSet => "abstractSet" | .mutableSet => "mutableSet"
  | .mutableSequence => "mutableSequence"
def parseMapO : String → MapOrigin
  | "dict" => .dict | "defaultDict" => .defaultDict | "mapping" => .mapping | _ => .mutableMapping
def mapOName : MapOrigin → String
  | .dict => "dict" | .defaultDict => "defaultDict" | .mapping => "mapping" | .mutableMapping => "mutableMapping"
def parseBareO : String → BareOrigin
  | "list" => .list | "dict" => .dict | "set" => .set | "frozenset" => .frozenset | "tuple" => .tuple | "type" => .type_
  | "tList" => .tList | "tDict" => .tDict | "tSet" => .tSet | "tFrozenSet" => .tFrozenSet | "tTuple" => .tTuple | "tType" => .tType
  | "tCallable" => .tCallable | "tIterable" => .tIterable | "tSequence" => .tSequence | "tUnion" => .tUnion | _ => .tOptional

def parseLit (j : Json) : Lit :=
  match jTag j with
  | "none" => .none
  | "bool" => .bool (jB (jAt j 1))
  | "int" => .int (jI (jAt j 1))
  | "str" => .str ((jL (jAt j 1)).map jN)
  | "bytes" => .bytes ((jL (jAt j 1)).map jN)
  | _ => .flt (jI (jAt j 1)) (jN (jAt j 2))

instance : Inhabited Ann := ⟨.any⟩
instance : Inhabited Val := ⟨.inst 0⟩

partial def parseAnn (j : Json) : Ann :=
  match jTag j with
  | "none" => .none
  | "cls" => .cls (jN (jAt j 1))
  | "clsF" => .clsF (jN (jAt j 1)) ((jL (jAt j 2)).map jN) ((jL (jAt j 3)).map parseAnn)
  | "any" => .any
  | "union" => .union (parseUSpell (jS (jAt j 1))) ((jL (jAt j 2)).map parseAnn)
  | "lit" => .literal ((jL (jAt j 1)).map parseLit)
  | "newtype" => .newType (jN (jAt j 1))
  | "typeof" => .typeOf (parseSpell (jS (jAt j 1))) (parseAnn (jAt j 2))
  | "fwd" => .fwd (jN (jAt j 1))
  | "str" => .strAnn (jN (jAt j 1))
  | "seq" => .seq (parseSpell (jS (jAt j 1))) (parseSeqO (jS (jAt j 2))) (parseAnn (jAt j 3))
  | "map" => .map (parseSpell (jS (jAt j 1))) (parseMapO (jS (jAt j 2))) (parseAnn (jAt j 3)) (parseAnn (jAt j 4))
  | "tuple" => .tuple (parseSpell (jS (jAt j 1))) ((jL (jAt j 2)).map parseAnn)
  | "tuplevar" => .tupleVar (parseSpell (jS (jAt j 1))) (parseAnn (jAt j 2))
  | "bare" => .bare (parseBareO (jS (jAt j 1)))
  | _ => .special (jN (jAt j 1))

partial def parseVal (j : Json) : Val :=
  match jTag j with
  | "lit" => .lit (parseLit (jAt j 1))
  | "inst" => .inst (jN (jAt j 1))
  | "coll" => .coll (jN (jAt j 1)) ((jL (jAt j 2)).map parseVal)
  | "mapping" => .mapping (jN (jAt j 1)) ((jL (jAt j 2)).map fun kv => (parseVal (jAt kv 0), parseVal (jAt kv 1)))
  | "tup" => .tup (jN (jAt j 1)) ((jL (jAt j 2)).map parseVal)
  | "ntup" => .ntup (jN (jAt j 1)) ((jL (jAt j 2)).map jN) ((jL (jAt j 3)).map parseVal)
  | "iterator" => .iterator (jN (jAt j 1)) ((jL (jAt j 2)).map parseVal)
  | _ => .clsObj (jN (jAt j 1))

/-- env JSON: "sub": one bit mask (Nat) per class: bit b of row a = issubclass(a, b) -/
def parseEnv (j : Json) : Env :=
  let sub := (jA (jF j "sub")).map jN
  let names := (jA (jF j "name")).map jN
  let bases := (jA (jF j "baseName")).map jOptN
  let mros := (jA (jF j "mroNames")).map fun r => (jL r).map jN
  let ctx := (jA (jF j "ctx")).map fun p => (jN (jAt p 0), jN (jAt p 1))
  let metaA := (jA (jF j "meta")).map jN
  let isNTA := (jA (jF j "isNT")).map jB
  let fields := (jA (jF j "fields")).map fun f => if jIsNull f then (Option.none : Option (List Nat)) else some ((jL f).map jN)
  let lc := jF j "litcls"
  let seq := jF j "seq"
  let mp := jF j "map"
  { sub := fun a b => a == b || (sub[a]?.getD 0).testBit b
    name := fun c => names[c]?.getD 0
    baseName := fun c => (bases[c]?).getD Option.none
    mroNames := fun c => (mros[c]?).getD []
    ctx := fun n => (ctx.find? (·.1 == n)).map (·.2)
    fieldNames := fun c => (fields[c]?).getD Option.none
    litCls := fun l => match l with
      | .none => jN (jF lc "none") | .bool => jN (jF lc "bool") | .int => jN (jF lc "int")
      | .str => jN (jF lc "str") | .bytes => jN (jF lc "bytes") | .flt => jN (jF lc "flt")
    tupleCls := jN (jF j "tuple")
    typeCls := jN (jF j "type")
    iteratorCls := jN (jF j "iterator")
    seqCls := fun o => jN (jF seq (seqOName o))
    mapCls := fun o => jN (jF mp (mapOName o))
    metaOf := fun c => metaA[c]?.getD (jN (jF j "type"))
    isNT := fun c => isNTA[c]?.getD false }

def outStr : Out → String
  | .accept => "accept" | .reject => "reject" | .pedErr => "pedErr" | .tvMismatch => "tvMismatch" | .escape => "escape"

def isStrAnn : Ann → Bool | .strAnn _ => true | _ => false

def regionsEnv (env : Env) (a : Ann) : List String := if a.hasUnresolvedFwd env then ["fwdUnresolved"] else []
/-- the value conforms, but some instance of an annotated NamedTuple class in it carries a field value that does not conform to the
    field annotation (rejected by the repaired code; open finding `namedtupleFieldMismatch`) -/
def regionsNT (env : Env) (a : Ann) (v : Val) : List String :=
  if conforms env a v && !conformsNT env a v then ["namedtupleFieldMismatch"] else []
def regions (a : Ann) (v : Val) : List String :=
  (if isStrAnn a then ["strAnn"] else []) ++
  (if v.hasNT then ["namedtuple"] else []) ++
  (if v.hasIter then ["iterator"] else []) ++
  (if a.hasEmptyTuple then ["emptyFixedTuple"] else []) ++
  (if a.hasTypeOfNonClass then ["typeOfNonClass"] else [])

/-! ### the interpreted translation of `check_types.py` (Model/CheckerIR.lean): outcome, statement trace, and - for every node of
    the annotation the checker looks at - the introspection record `intro` and the value of every `if` test of `_is_instance` -/
section IR
open PedVerif.CheckerIR PedVerif.Gen.IsInstanceIR
open PedVerif.Gen.TypeTables (originCheckers specialCheckers)

def jOptS : Option String → Json | some s => jStr s | Option.none => Json.null
def jOptNat : Option Nat → Json | some n => jNat n | Option.none => Json.null
def jOptB : Option Bool → Json | some b => jBool b | Option.none => Json.null

mutual
partial def iteGuardsS : Stmt → List (Nat × Guard)
  | .ite id g thn els => (id, g) :: (iteGuardsB thn ++ iteGuardsB els)
  | .act _ _ => []
  | .tryCatch _ body hs => iteGuardsB body ++ iteGuardsH hs
partial def iteGuardsB : Block → List (Nat × Guard)
  | .nil => []
  | .cons s rest => iteGuardsS s ++ iteGuardsB rest
partial def iteGuardsH : Handlers → List (Nat × Guard)
  | .nil => []
  | .cons _ body rest => iteGuardsB body ++ iteGuardsH rest
end

/-- does the test read the value / a local of the run (then both arms are possible for a node seen without its value) -/
partial def valueDep : Guard → Bool
  | .not g => valueDep g
  | .and a b | .or a b => valueDep a || valueDep b
  | .selfUnbound | .objIsinstanceOrigin | .objIsinstanceType | .objHasAttr _ | .asdictKeysEqFieldKeys | .objIsIterator | .objEmptyAndArgsUnit
  | .lenObjNeLenArgs | .matchesNonTypeVar | .hasUnboundedTypeVars | .oneUnboundedTypeVar => true
  | _ => false

def actFalls : Action → Bool
  | .bindFieldTypes _ | .bindFieldTypesFirstOf _ | .bindAsDict | .requireArg _ | .unpackArgs _ | .partitionTypeVars | .bindMatches _ _ | .forBoundedTryReturnTrue | .assertBaseIsGeneric => true
  | _ => false

mutual
/-- the `if`s whose test the code can evaluate on this annotation object whatever the value is: (ids, may run off the end) -/
partial def reachS (F : Frame) : Stmt → List Nat × Bool
  | .act _ a => ([], actFalls a)
  | .ite id g thn els =>
      let t := reachB F thn
      let e := reachB F els
      if valueDep g then (id :: (t.1 ++ e.1), t.2 || e.2)
      else match evalG (ext callDepth) F {} g with
        | Option.none => ([id], false)
        | some true => (id :: t.1, t.2)
        | some false => (id :: e.1, e.2)
  | .tryCatch _ body hs => ((reachB F body).1 ++ reachH F hs, true)
partial def reachB (F : Frame) : Block → List Nat × Bool
  | .nil => ([], true)
  | .cons s rest =>
      let a := reachS F s
      if a.2 then (let b := reachB F rest; (a.1 ++ b.1, b.2)) else a
partial def reachH (F : Frame) : Handlers → List Nat
  | .nil => []
  | .cons _ body rest => (reachB F body).1 ++ reachH F rest
end

def introJson (env : Env) (I : Intro) (v : Val) (top : Bool) : List (String × Json) :=
  let F : Frame := { env := env, I := I, v := v }
  let gs := iteGuardsB isInstanceProg ++ (if top then iteGuardsB checkTypeProg else [])
  let reach := (reachB F isInstanceProg).1 ++ (if top then (reachB F checkTypeProg).1 else [])
  [("isNone", jBool I.isNone), ("strName", jOptNat I.strName), ("name", jOptS I.name), ("nargs", jNat I.nargs), ("module", jOptB I.module),
   ("isGeneric", jBool I.isGeneric), ("originName", jOptS I.originName), ("isUnionType", jBool I.isUnionType), ("eqTyping", jOptS I.eqTyping),
   ("isTypeVar", jBool I.isTypeVar), ("originEqTyping", jOptS I.originEqTyping), ("originCls", jOptNat I.originCls),
   ("originChecker", jOptS (I.basePath.bind (lookupS originCheckers))), ("specialChecker", jOptS (I.originName.bind (lookupS specialCheckers))),
   ("isFwdRef", jBool I.isFwdRef), ("fwdName", jNat I.fwdName), ("isNewTypeInst", jBool I.isNewTypeInst),
   ("qualnameIsNewType", jOptB I.qualnameIsNewType), ("supertype", jNat I.supertype), ("hasFieldTypes", jBool I.hasFieldTypes),
   ("annotations", match I.annotations with | some ns => jArr (ns.map jNat) | Option.none => Json.null), ("builtin", jOptS I.builtin),
   ("isGenericAlias", jBool I.isGenericAlias), ("convertOk", jBool I.convertOk), ("asClass", jOptNat I.asClass),
   ("isProtocolMeta", jBool I.isProtocolMeta), ("isNTClass", jBool I.isNTClass), ("ellipsis", jBool I.ellipsis),
   ("requiredOk", jBool (reqOk I.name I.nargs)), ("isForwardRef", jOptB (predOf "_is_forward_ref" F)), ("isNewType", jOptB (predOf "_is_type_new_type" F)),
   -- every `if` test the code can reach on this object (whatever the value), with the value the interpreter gives it
   ("guards", jArr ((gs.filter fun (id, _) => reach.contains id).map fun (id, g) => jArr [jNat id, jOptB (evalG (ext callDepth) F {} g)]))]

/-- the nodes `_is_instance` is (or may be) called on, with the way to reach the object from the top-level annotation:
    "conv" = convert_to_typing_types, ["arg", i] = get_type_arguments(..)[i], ["field", i] = i-th value of `__annotations__` -/
partial def nodesOf (env : Env) (pc : Bool) (a : Ann) (path : List Json) : List (List Json × Bool × Ann) :=
  let I := intro env pc a
  let arg (i : Nat) : List Json := path ++ [jArr [jStr "arg", jNat i]]
  let many (pc' : Bool) (as : List Ann) (tag : String) : List (List Json × Bool × Ann) :=
    (as.zipIdx.map fun (x, i) => nodesOf env pc' x (path ++ [jArr [jStr tag, jNat i]])).flatten
  (path, pc, a) ::
    (if I.isGenericAlias then (if I.convertOk then nodesOf env true a (path ++ [jStr "conv"]) else [])
     else match a with
      | .union _ ms => many false ms "arg"
      | .clsF _ _ anns => many false anns "field"
      | .seq sp0 _ e => nodesOf env (sp0 == .pep585) e (arg 0)
      | .map sp0 _ k w => nodesOf env (sp0 == .pep585) k (arg 0) ++ nodesOf env (sp0 == .pep585) w (arg 1)
      | .tuple sp0 items => many (sp0 == .pep585) items "arg"
      | .tupleVar sp0 e => nodesOf env (sp0 == .pep585) e (arg 0)
      | _ => [])

def rawStr : Raw → String
  | .ok true => "true" | .ok false => "false" | .raisedPed => "raisedPed" | .raisedTV => "raisedTV" | .raisedOther => "raisedOther"

def isSpecial : Ann → Bool | .special _ => true | _ => false

/-- `full = false`: outcome and statement trace only -/
def irFields (env : Env) (a : Ann) (v : Val) (full : Bool) : List (String × Json) :=
  let orc : Nat → Val → Raw := fun _ _ => .raisedOther
  let r := interpCheckType env orc a v
  [("irOut", jStr (outStr (toOut r.raw))), ("irTrace", jArr (r.trace.map jNat)),
   ("irRaw", jStr (rawStr (interpIsInstance env orc false a v).raw)), ("handRaw", jStr (rawStr (isInstance env orc false a v)))] ++
  (if !full then [] else
   [("intros", if isSpecial a then jArr [] else
      jArr ((nodesOf env false a []).map fun (path, pc, n) =>
        mkObj ([("path", jArr path), ("pc", jBool pc)] ++ introJson env (intro env pc n) v path.isEmpty)))])
end IR

/-- case: {"env": …, "ann": term, "val": term, "ir"?: true | "trace"} -/
def handle (c : Json) : Json :=
  let env := parseEnv (jF c "env")
  let a := parseAnn (jF c "ann")
  let v := parseVal (jF c "val")
  let o := checkType env (fun _ _ => .raisedOther) a v
  mkObj ([("out", jStr (outStr o)), ("spec", jBool (conforms env a v)), ("inVocab", jBool a.inVocab),
         ("plain", jBool v.plain), ("wf", jBool (v.wf env)), ("strAnnOk", jBool (a.strAnnOk env v)), ("noSpecial", jBool a.noSpecial),
         ("underC01", jBool (underSound env a v)), ("regions", jArr ((regions a v ++ regionsEnv env a ++ regionsNT env a v).map jStr))]
         ++ (if jB (jF c "ir") then irFields env a v true else if jS (jF c "ir") == "trace" then irFields env a v false else []))

end PedVerif.Drv.Checker
