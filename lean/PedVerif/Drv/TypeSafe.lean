import PedVerif.Drv.Checker
import PedVerif.Model.TypeSafe
import PedVerif.Drv.FrozenIR
namespace PedVerif.Drv.TypeSafe
open Lean PedVerif.Drv PedVerif.Checker PedVerif.TypeSafe PedVerif.Drv.Checker

def outStr : Outcome → String
  | .instance => "INSTANCE" | .pedTypeCheck => "PED:TypeCheck" | .pedTVMismatch => "PED:TypeVarMismatch" | .escape => "ESC"
  | .postInitExc e => s!"POST_EXC:{e}"
def evStr : Ev → String | .post => "post" | .validate => "validate"

def vresStr : PedVerif.FrozenIR.VRes → Json
  | .passed => jStr "INSTANCE" | .raised o => jStr (outStr o) | .illFormed => Json.null
def presStr : PedVerif.FrozenIR.PRes → Json
  | .done => jStr "INSTANCE" | .raised o => jStr (outStr o) | .illFormed => Json.null

/-- the same case run through the statement programs of `Gen/FrozenIR.lean` (`"hook"`: the `__post_init__` chain of the class): the statements
    executed, the outcome, how often the user's hook ran -/
def irJ (c : Json) (env0 : Env) (locals : List (NameId × ClsId)) (caller : Frame) (outer : List Frame) (orc : Nat → Val → Raw)
    (pth : Path) (fvs : List (Field × Val)) : Json :=
  match jF c "hook" with
  | .null => Json.null
  | hj =>
    if jS (jF c "path") == "validate" then
      let r := PedVerif.FrozenIR.irValidateCall env0 locals orc fvs caller outer
      mkObj [("path", PedVerif.Drv.FrozenIR.pathJ r.2), ("outcome", vresStr r.1), ("journal", jNat 0)]
    else
      let (reaches, q) := PedVerif.FrozenIR.reachesInit pth
      if !reaches then mkObj [("path", PedVerif.Drv.FrozenIR.pathJ q), ("outcome", jStr "INSTANCE"), ("journal", jNat 0)] else
      let r := PedVerif.FrozenIR.runInit ⟨env0, locals, orc, fvs, pth, caller, outer⟩ (PedVerif.Drv.FrozenIR.hookOf hj)
      -- "cur" / "kw": what the receiver holds and the keywords of the copy call - the values of the copy as the translated method computes
      -- them must be the values the harness says the new instance holds
      let agree : Json := match jF c "cur" with
        | .null => Json.null
        | cj =>
          let cur : List (Field × Val) := (jL cj).map fun f => (⟨jN (jAt f 0), parseAnn (jAt f 1)⟩, parseVal (jAt f 2))
          let kw : List (NameId × Val) := (jL (jF c "kw")).map fun p => (jN (jAt p 0), parseVal (jAt p 1))
          match PedVerif.FrozenIR.copiedFields pth cur kw with
          | some got => jBool (toString (repr (got.map fun fv => (fv.1.name, fv.2))) == toString (repr (fvs.map fun fv => (fv.1.name, fv.2))))
          | none => jBool false
      mkObj [("path", PedVerif.Drv.FrozenIR.pathJ (q ++ r.2.2)), ("outcome", presStr r.1),
             ("journal", jNat (r.2.1.filter (· == .post)).length), ("fieldsAgree", agree)]

/-- case: {"env", "fields": [[name, ann, val]], "typeSafe": bool, "post": "absent" | "runs" | ["raises", id],
           "path": "constructor" | "copy_with" | "deep_copy_with" | "validate"} -/
def handle (c : Json) : Json :=
  let env0 := parseEnv (jF c "env")
  -- optional: names bound in the frame of the function that executes the operation, and that function's name
  let locals : List (NameId × ClsId) := (jL (jF c "locals")).map fun e => (jN (jAt e 0), jN (jAt e 1))
  let callerName := match jF c "caller" with | .str s => s | _ => "execute"
  let caller : Frame := { name := callerName }
  let parseFrame (j : Json) : Frame := { name := jS (jAt j 0), code := jS (jAt j 1), inDataclasses := jB (jAt j 2), holdsInstance := jB (jAt j 3) }
  -- one chain per validating wrapper; default: the generated __init__ only
  let chains : List (List Frame) := match jF c "chains" with
    | .arr a => a.toList.map fun ch => (jL ch).map parseFrame
    | _ => [[{ name := "__init__", holdsInstance := true }]]
  let outer : List Frame := [{ name := "<harness>" }]
  let pstr := jS (jF c "path")
  let pth : Path := if pstr == "copy_with" then .copyWith else if pstr == "deep_copy_with" then .deepCopyWith else .constructor
  let env := env0.withCaller locals (if pstr == "validate" then userValidateSeesCaller else chains.all fun ch => seesCaller pth ch caller outer)
  let envS := env0.atCallSite locals
  let fvs : List (Field × Val) := (jL (jF c "fields")).map fun f => (⟨jN (jAt f 0), parseAnn (jAt f 1)⟩, parseVal (jAt f 2))
  let ts := jB (jF c "typeSafe")
  let up : UserPost := match jF c "post" with
    | .str "runs" => .runs
    | .str _ => .absent
    | j => if jTag j == "raises" then .raises (jN (jAt j 1)) else .absent
  let orc : Nat → Val → Raw := fun _ _ => .raisedOther
  let spec := allConform envS fvs
  let guards := fvs.all (fun fv => fv.1.ann.inVocab && fv.2.plain)
  let regions := (fvs.map fun fv => PedVerif.Drv.Checker.regions fv.1.ann fv.2).flatten.eraseDups
  match jS (jF c "path") with
  | "validate" =>
    mkObj [("outcome", jStr (outStr (validateCall env orc fvs))), ("journal", jArr []), ("spec", jBool spec), ("claimed", jBool guards),
           ("regions", jArr (regions.map jStr)), ("wf", jBool (fvs.all fun fv => fv.2.wf env)),
           ("ir", irJ c env0 locals caller outer orc pth fvs)]
  | p =>
    let path : Path := if p == "copy_with" then .copyWith else if p == "deep_copy_with" then .deepCopyWith else .constructor
    let r := construct env orc ts up path fvs
    mkObj [("outcome", jStr (outStr r.2)), ("journal", jArr (r.1.filter (· == .post) |>.map (fun e => jStr (evStr e)))),
           ("spec", jBool spec), ("claimed", jBool guards), ("regions", jArr (regions.map jStr)),
           ("wf", jBool (fvs.all fun fv => fv.2.wf env)), ("ir", irJ c env0 locals caller outer orc pth fvs)]

end PedVerif.Drv.TypeSafe
