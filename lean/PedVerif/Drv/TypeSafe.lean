import PedVerif.Drv.Checker
import PedVerif.Model.TypeSafe
namespace PedVerif.Drv.TypeSafe
open Lean PedVerif.Drv PedVerif.Checker PedVerif.TypeSafe PedVerif.Drv.Checker

def outStr : Outcome → String
  | .instance => "INSTANCE" | .pedTypeCheck => "PED:TypeCheck" | .pedTVMismatch => "PED:TypeVarMismatch" | .escape => "ESC"
  | .postInitExc e => s!"POST_EXC:{e}"
def evStr : Ev → String | .post => "post" | .validate => "validate"

/-- case: {"env", "fields": [[name, ann, val]], "typeSafe": bool, "post": "absent" | "runs" | ["raises", id],
           "path": "constructor" | "copy_with" | "deep_copy_with" | "validate"} -/
def handle (c : Json) : Json :=
  let env0 := parseEnv (jF c "env")
  -- optional: names bound in the frame of the function that executes the operation, and that function's name
  let locals : List (NameId × ClsId) := (jL (jF c "locals")).map fun e => (jN (jAt e 0), jN (jAt e 1))
  let callerName := match jF c "caller" with | .str s => s | _ => "execute"
  let caller : Frame := { name := callerName }
  let parseFrame (j : Json) : Frame := { name := jS (jAt j 0), code := jS (jAt j 1), inDataclasses := jB (jAt j 2), holdsInstance := jB (jAt j 3) }
  -- one chain per validating wrapper; default: the generated __init__ only
  let chains : List (List Frame) := match jF c "chains" with
    | .arr a => a.toList.map fun ch => (jL ch).map parseFrame
    | _ => [[{ name := "__init__", holdsInstance := true }]]
  let outer : List Frame := [{ name := "<harness>" }]
  let pstr := jS (jF c "path")
  let pth : Path := if pstr == "copy_with" then .copyWith else if pstr == "deep_copy_with" then .deepCopyWith else .constructor
  let env := env0.withCaller locals (if pstr == "validate" then userValidateSeesCaller else chains.all fun ch => seesCaller pth ch caller outer)
  let envS := env0.atCallSite locals
  let fvs : List (Field × Val) := (jL (jF c "fields")).map fun f => (⟨jN (jAt f 0), parseAnn (jAt f 1)⟩, parseVal (jAt f 2))
  let ts := jB (jF c "typeSafe")
  let up : UserPost := match jF c "post" with
    | .str "runs" => .runs
    | .str _ => .absent
    | j => if jTag j == "raises" then .raises (jN (jAt j 1)) else .absent
  let orc : Nat → Val → Raw := fun _ _ => .raisedOther
  let spec := allConform envS fvs
  let guards := fvs.all (fun fv => fv.1.ann.inVocab && fv.2.plain)
  let regions := (fvs.map fun fv => PedVerif.Drv.Checker.regions fv.1.ann fv.2).flatten.eraseDups
  match jS (jF c "path") with
  | "validate" =>
    mkObj [("outcome", jStr (outStr (validateCall env orc fvs))), ("journal", jArr []), ("spec", jBool spec), ("claimed", jBool guards),
           ("regions", jArr (regions.map jStr)), ("wf", jBool (fvs.all fun fv => fv.2.wf env))]
  | p =>
    let path : Path := if p == "copy_with" then .copyWith else if p == "deep_copy_with" then .deepCopyWith else .constructor
    let r := construct env orc ts up path fvs
    mkObj [("outcome", jStr (outStr r.2)), ("journal", jArr (r.1.filter (· == .post) |>.map (fun e => jStr (evStr e)))),
           ("spec", jBool spec), ("claimed", jBool guards), ("regions", jArr (regions.map jStr)),
           ("wf", jBool (fvs.all fun fv => fv.2.wf env))]

end PedVerif.Drv.TypeSafe
