import PedVerif.Drv.Util
import PedVerif.Spec.Mixins
namespace PedVerif.Drv.Mixins
open Lean PedVerif.Drv PedVerif.Mixins

def targOf (j : Json) : TArg := if jTag j == "tv" then .tv (jN (jAt j 1)) else .ty (jN (jAt j 1))
def targJ : TArg → Json
  | .ty i => jArr [jStr "ty", jNat i]
  | .tv i => jArr [jStr "tv", jNat i]

def baseOf (j : Json) : BaseRef :=
  match jTag j with
  | "generic" => .generic ((jL (jAt j 1)).map jN)
  | "param" => .param (jN (jAt j 1)) ((jL (jAt j 2)).map targOf)
  | _ => .plain (jN (jAt j 1))

def kvOf (j : Json) : Key × Val := (jN (jAt j 0), jN (jAt j 1))

def trOf (s : String) : Tr :=
  match s with
  | "ident" => .ident | "wraps" => .wraps | "fresh" => .fresh | _ => .none

def appOf (j : Json) : App := ⟨jN (jAt j 0), jN (jAt j 1), trOf (jS (jAt j 2))⟩

/-- an application: `[type, value, transformation]` (`@factory(value)` written on the spot) or `["conf", k]` — the k-th configured
    decorator of the case's history of factory calls, stored and applied here -/
def appOfC (confs : Confs) (j : Json) : App :=
  if jTag j == "conf" then (configured confs (jN (jAt j 1))).getD ⟨0, 0, .none⟩ else appOf j

def memberOf (confs : Confs) (j : Json) : MemberDef :=
  match jTag j with
  | "func" => .func (match jS (jAt j 1) with | "static" => .static | "cls" => .cls | _ => .inst) ((jL (jAt j 2)).map (appOfC confs))
  | "raising" => .raising (jS (jAt j 1))
  | _ => .other (jN (jAt j 1)) ((jL (jAt j 2)).map kvOf)

def nsEntryOf (confs : Confs) (j : Json) : PedVerif.Mixins.Name × MemberDef := (⟨jN (jAt j 0), jS (jAt j 1)⟩, memberOf confs (jAt j 2))

def clsOf (confs : Confs) (j : Json) : Cls :=
  { bases := (jL (jF j "bases")).map baseOf, ns := (jL (jF j "ns")).map (nsEntryOf confs) }

def siteS : Site → String
  | .nonGeneric => "nonGeneric" | .unparam => "unparam" | .noneArgs => "noneArgs" | .originBases => "originBases"
  | .multiple => "multiple" | .notIterable => "notIterable" | .keyError => "keyError" | .member => "member"

def resJ {α : Type} (f : α → Json) : Res α → Json
  | .ok a => jArr [jStr "ok", f a]
  | .raised s e => jArr [jStr "raised", jStr (siteS s), jStr e]

def pairsJ (m : List (TArg × TArg)) : Json := jArr (m.map fun kv => jArr [targJ kv.1, targJ kv.2])

def expectJ : Expect → Json
  | .ok m => jArr [jStr "ok", pairsJ m]
  | .mustAssert => jArr [jStr "mustAssert"]
  | .unsupported => jArr [jStr "unsupported"]

def kindJ : Kind → Json
  | .nonGeneric => jStr "nonGeneric" | .direct _ => jStr "direct" | .bound _ => jStr "bound" | .unsupported => jStr "unsupported"

def nameJ (n : PedVerif.Mixins.Name) : List Json := [jNat n.unders, jStr n.stem]

def attrJ : Attr → Json
  | .bound c n g => jArr ([jStr "bound", jNat c] ++ nameJ n ++ [jNat g])
  | .plainFn c n g => jArr ([jStr "plainFn", jNat c] ++ nameJ n ++ [jNat g])
  | .clsBound c n g => jArr ([jStr "clsBound", jNat c] ++ nameJ n ++ [jNat g])
  | .obj o => jArr [jStr "obj", jNat o]
  | .typeArg x => jArr [jStr "typeArg", targJ x]
  | .typeVars => jArr [jStr "typeVars"]
  | .className => jArr [jStr "className"]
  | .instFn f g => jArr [jStr "instFn", jNat f, jNat g]
  | .nameStr n => jArr ([jStr "nameStr"] ++ nameJ n)

def dictJ (d : Dict) : Json :=
  jArr (d.map fun kd => jArr [jNat kd.1, jArr (kd.2.map fun av => jArr [attrJ av.1, jNat av.2])])

def argJ : Arg → Json
  | .fn g => jArr [jStr "fn", jNat g]
  | .ty k => jArr [jStr "ty", jNat k]
  | .val v => jArr [jStr "val", jNat v]

def callsJ (l : List (List Arg)) : Json := jArr (l.map fun e => jArr (e.map argJ))

/-- how the instance sees the method (class, name) of the table: "bound" | "clsBound" | "plainFn" -/
def methodTag (t : Table) (c : Nat) (n : PedVerif.Mixins.Name) : String :=
  match (nsOf t c).find? (fun p => p.1 = n) with
  | some (_, .func .static _) => "plainFn"
  | some (_, .func .cls _) => "clsBound"
  | _ => "bound"

def specDictJ (t : Table) (d : List (Key × List ((Nat × PedVerif.Mixins.Name) × Val))) : Json :=
  jArr (d.map fun kd => jArr [jNat kd.1, jArr (kd.2.map fun sv =>
    jArr ([jStr (methodTag t sv.1.1 sv.1.2), jNat sv.1.1] ++ nameJ sv.1.2 ++ [jNat sv.2]))])

def enumOfJ (j : Json) (x : TArg) : Option EnumDesc :=
  match x with
  | .tv _ => none
  | .ty i =>
    (jL j).findSome? fun e =>
      if jN (jAt e 0) = i then
        some { members := (jL (jF (jAt e 1) "members")).map jN,
               intr := { cls := (jL (jF (jAt e 1) "clsattrs")).map kvOf, str := (jL (jF (jAt e 1) "strattrs")).map kvOf,
                         dict := (jL (jF (jAt e 1) "dictattrs")).map kvOf, fn := (jL (jF (jAt e 1) "fnattrs")).map kvOf } }
      else none

/-- journals of every function definition of the user classes: what each transformation received -/
def journals (user : Table) (f : List App → List (List Arg)) : Json :=
  jArr ((user.zipIdx).flatMap fun ci =>
    ci.1.ns.filterMap fun p =>
      match p.2 with
      | .func _ apps => some (jArr ([jNat (ci.2 + libTable.length)] ++ nameJ p.1 ++ [callsJ (f apps)]))
      | _ => none)

/-- an entry of the instance `__dict__`: `[unders, stem, ["fn", fid, apps]]` | `[unders, stem, ["obj", oid, attrs]]` -/
def instEntryOf (confs : Confs) (j : Json) : PedVerif.Mixins.Name × InstVal :=
  (⟨jN (jAt j 0), jS (jAt j 1)⟩,
   let v := jAt j 2
   if jTag v == "fn" then .fn (jN (jAt v 1)) ((jL (jAt v 2)).map (appOfC confs)) else .obj (jN (jAt v 1)) ((jL (jAt v 2)).map kvOf))

def origOf (j : Json) : Option (List TArg) := if jIsNull j then none else some ((jL j).map targOf)

/-- the model's `issubclass(c, GenericMixin)` (reachability through `__bases__`) says the same as membership in the linearisation
    it computes (which is compared with `__mro__`), for every class of the table -/
def issubConsistent (t : Table) (d : Nat) : Bool :=
  (List.range t.length).all fun c => derives t 1 d c == (lin t d c).contains 1

/-- a history: instances `insts` = [[cls, orig]…] are created first, then queried in the order `qs` (indices, repeats allowed) -/
def handleHistory (t : Table) (d : Nat) (c : Json) : Json :=
  let insts : List (Nat × Option (List TArg)) := (jL (jF c "insts")).map fun j => (jN (jAt j 0), origOf (jAt j 1))
  let qs : List (Nat × Option (List TArg)) := (jL (jF c "qs")).filterMap fun j => insts[jN j]?
  -- the world is threaded through: a model instantiated with a source that writes state answers `null` (no prediction) from the
  -- second query on
  let answers := runQueriesW t d [] qs
  mkObj [("hist", jArr ((qs.zip answers).map fun qa =>
            let e := expectedOutcome t d qa.1.1 qa.1.2
            mkObj [("model", match qa.2 with | some r => resJ pairsJ r | none => Json.null), ("spec", expectJ e),
                   ("kind", kindJ (kindOf t d qa.1.1)),
                   ("type_var", match qa.2 with | some r => resJ targJ (typeVar r) | none => Json.null),
                   ("spec_type_var", match expectedTypeVar e with | some x => targJ x | none => Json.null)])),
         ("left_behind", jArr (leftBehind.map jStr)),
         ("mros", jArr (insts.map fun i => jArr ((lin t d i.1).map jNat))),
         ("issub_ok", jBool (issubConsistent t d))]

/-- case: {"k": "generic"|"decorated"|"history", "table": [user classes…] (ids start after the library classes; a class may carry
    "cgi" / "eq" flags that only the Python side reads), "cls": id, "orig": null | [type args],
    "enums": [[type id, {"members": [...], "clsattrs" / "strattrs" / "dictattrs" / "fnattrs": [[k, v]…]}]…] (what the enum class, a str, a dict,
    a function carry by themselves under the names that are values of members), "inst": [[unders, stem, ["fn", fid, apps] | ["obj", oid, attrs]]…]
    (the instance `__dict__`), "confs": [[type, value, transformation]…] (the factory calls
    `factory(value)` of the program in the order in which they are made; applications refer to them as ["conf", k]); history: "insts": [[cls, orig]…], "qs": [index…]} -/
def handle (c : Json) : Json :=
  let confs : Confs := (jL (jF c "confs")).map appOf
  let user : Table := (jL (jF c "table")).map (clsOf confs)
  let t : Table := libTable ++ user
  let d := t.length + 1
  if jS (jF c "k") == "history" then handleHistory t d c else
  let cls := jN (jF c "cls")
  let orig : Option (List TArg) := if jIsNull (jF c "orig") then none else some ((jL (jF c "orig")).map targOf)
  let r := getTypes t d cls orig
  let e := expectedOutcome t d cls orig
  let common := [("model", resJ pairsJ r), ("spec", expectJ e), ("kind", kindJ (kindOf t d cls)),
                 ("type_var", resJ targJ (typeVar r)),
                 ("spec_type_var", match expectedTypeVar e with | some x => targJ x | none => Json.null),
                 ("mro", jArr ((lin t d cls).map jNat)), ("issub_ok", jBool (issubConsistent t d))]
  if jS (jF c "k") == "decorated" then
    let enumOf := enumOfJ (jF c "enums")
    let mro := lin t d cls
    -- the spec side is driven by the *expected* type argument, never by the model's answer
    let specEnum : Option EnumDesc := (expectedTypeVar e).bind enumOf
    let (members, ia) : List Key × Intr :=
      match specEnum with
      | some en => (en.members, en.intr)
      | none => ([], {})
    let inst : InstNs := (jL (jF c "inst")).map (instEntryOf confs)
    mkObj (common ++ [
      ("deco", resJ dictJ (getDecorated t d cls orig enumOf inst)),
      ("spec_deco", if specEnum.isSome then specDictJ t (expectedDecorated t mro members (inst.map (·.1))) else Json.null),
      ("guard", jBool (specEnum.isSome && decoGuard t mro members ia inst)),
      ("regions", jArr ((guardRegions t mro members ia).eraseDups.map jStr)),
      ("closures_modelled", jBool closuresKeepTheirArgument),
      ("calls", journals user fun apps => (applyApps apps).journal),
      ("spec_calls", journals user (expectedCalls 0))])
  else mkObj common

end PedVerif.Drv.Mixins
