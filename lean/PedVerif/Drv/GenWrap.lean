import PedVerif.Drv.Util
import PedVerif.Spec.GenWrap
namespace PedVerif.Drv.GenWrap
open Lean PedVerif.Drv PedVerif.GenWrap

def vtyOf : String → VTy
  | "bool" => .bool | "int" => .int | "str" => .str | "float" => .float | "listInt" => .listInt | "listStr" => .listStr | _ => .none
def vtyS : VTy → String
  | .none => "none" | .bool => "bool" | .int => "int" | .str => "str" | .float => "float" | .listInt => "listInt" | .listStr => "listStr"
def tyOf : String → Ty
  | "bool" => .bool | "int" => .int | "str" => .str | "float" => .float | "listInt" => .listInt | "any" => .any | "optInt" => .optInt | _ => .none
def tyS : Ty → String
  | .none => "none" | .bool => "bool" | .int => "int" | .str => "str" | .float => "float" | .listInt => "listInt" | .any => "any" | .optInt => "optInt"

/-- a value `[ty, id]`; there is one `None` -/
def vOf (j : Json) : V :=
  let t := vtyOf (jS (jAt j 0))
  if t == .none then V.none else ⟨t, jN (jAt j 1)⟩
def vJ (v : V) : List Json := [jStr (vtyS v.ty), jNat v.id]

def catchOf : Nat → Catch
  | 0 => .nothing | 1 => .exc | _ => .all

def stepOf (j : Json) : GStep :=
  match jTag j with
  | "yield" => .yield_ (vOf (jAt j 1)) (catchOf (jN (jAt j 2)))
  | "return" => .return_ (vOf (jAt j 1))
  | _ => .raise_ (jN (jAt j 1))

def opOf (j : Json) : Op :=
  match jTag j with
  | "send" => .send (vOf (jAt j 1))
  | "throw" => .throw (jN (jAt j 1))
  | "close" => .close
  | _ => .next

def excJ : Exc → List Json
  | .body e => [jStr "body", jNat e] | .thrown k => [jStr "thrown", jNat k]

def obsJ : Obs → Json
  | .got v => jArr (jStr "got" :: vJ v)
  | .stop v => jArr (jStr "stop" :: vJ v)
  | .ped => jArr [jStr "ped"]
  | .exc e => jArr (jStr "exc" :: excJ e)
  | .typeErr => jArr [jStr "typeErr"]
  | .closed => jArr [jStr "closed"]
  | .runtimeErr => jArr [jStr "runtimeErr"]
  | .crash => jArr [jStr "crash"]

def jevJ : JEv → Json
  | .recv x => jArr (jStr "recv" :: vJ x)
  | .thrown k => jArr [jStr "thrown", jNat k]
  | .exit => jArr [jStr "exit"]
  | .yielded v => jArr (jStr "yield" :: vJ v)
  | .returned v => jArr (jStr "ret" :: vJ v)
  | .raised e => jArr [jStr "raise", jNat e]

def stepsJ (l : List Step) : Json := jArr (l.map fun s => jArr [obsJ s.obs, jArr (s.jev.map jevJ)])

/-- case: {"ann": {"base": str, "args": [ty…], "quoted": bool}, "script": [["yield", [ty, id], catch] | ["return", [ty, id]] | ["raise", e]],
           "ops": [["next"] | ["send", [ty, id]] | ["throw", k] | ["close"]]} -/
def handle (c : Json) : Json :=
  let aj := jF c "ann"
  let a : Ann := ⟨jS (jF aj "base"), (jL (jF aj "args")).map (fun t => tyOf (jS t)), jB (jF aj "quoted")⟩
  let script := (jL (jF c "script")).map stepOf
  let ops := (jL (jF c "ops")).map opOf
  let model := callAndDrive confC a script ops
  let plain := plainRun (Gen.fresh script) ops
  let meaning := annMeaning a
  let vals := (caseVals script ops).eraseDups
  let nonconf (t : Ty) : Json := jArr ((vals.filter fun v => !confC t v).map fun v => jArr (vJ v))
  let spec := match meaning with
    | some ts => mkObj [
        ("meaning", jArr [jStr (tyS ts.yieldT), jStr (tyS ts.sendT), jStr (tyS ts.returnT)]),
        ("admits", jBool (annAdmitsGenerator a)),
        ("supportedSpelling", jBool (supportedSpelling a)),
        ("allConforming", jBool (allConforming confC ts plain)),
        ("nonconf", mkObj [("Y", nonconf ts.yieldT), ("S", nonconf ts.sendT), ("R", nonconf ts.returnT)])]
    | none => mkObj [("meaning", Json.null), ("admits", jBool (annAdmitsGenerator a)), ("supportedSpelling", jBool (supportedSpelling a))]
  mkObj [
    ("model", match model with
      | some steps => mkObj [("created", jBool true), ("steps", stepsJ steps)]
      | none => mkObj [("created", jBool false), ("steps", jArr [])]),
    ("plain", stepsJ plain),
    ("spec", spec)]

end PedVerif.Drv.GenWrap
