import PedVerif.Drv.Checker
import PedVerif.Model.FrozenIR
/-!
Driver side of the Frozen IR: the *paths* (statement ids, in execution order) the interpreter of `Model/FrozenIR.lean` takes on a case of
C10 (`typesafe`) or C11 (`frozen`), and the results of the interpreted operations, so that the harness can compare them with the lines the
real library executes on the same case (`props/_frozentrace_common.py`).  `Drv/TypeSafe.lean` and `Drv/Frozen.lean` attach these answers
to their own (`"ir"`); the `frozenir` model on the wire answers decoration queries on its own.
-/
namespace PedVerif.Drv.FrozenIR
open Lean PedVerif.Drv PedVerif.FrozenIR PedVerif.Gen.FrozenIR

def pathJ (p : List Nat) : Json := jArr (p.map jNat)

/-- hook chains: "noop" | ["user"] | ["user", e] | ["w", nProps, inner] -/
instance : Inhabited Hook := ⟨.noop⟩
partial def hookOf (j : Json) : Hook :=
  match jTag j with
  | "user" => .user (match jAt j 1 with | .null => none | e => some (jN e))
  | "w" => .wrapped (jN (jAt j 1)) (hookOf (jAt j 2))
  | _ => .noop

def paramsOf (j : Json) : Params := ⟨jB (jAt j 0), jB (jAt j 1), jB (jAt j 2), jB (jAt j 3)⟩

/-- the id of the statement that calls `dataclass(...)` (a class definition that `dataclasses` refuses ends the decoration there) -/
def dataclassStmt : Option Nat := (decoProg.find? fun s => match s.2 with | .callDataclass _ _ => true | _ => false).map (·.1)

def cutAfter (i : Nat) : List Nat → List Nat
  | [] => []
  | x :: xs => if x == i then [x] else x :: cutAfter i xs

/-- one decoration `@frozen_dataclass` (`direct`) / `@frozen_dataclass(...)` / `@frozen_type_safe_dataclass` (`shortcut`) of one class
    statement: the statements of the entry function(s), then those of `decorator`; `fails`: `dataclass()` raises -/
def decoOne (p : Params) (direct shortcut fails : Bool) : List Nat :=
  let body := decoPath p
  let body := if fails then (match dataclassStmt with | some i => cutAfter i body | none => body) else body
  if shortcut then
    match shortcutParams with
    | some (sp, q) => q ++ (runOuter false outerProg false []).2 ++ (let b := decoPath sp; if fails then (match dataclassStmt with | some i => cutAfter i b | none => b) else b)
    | none => []
  else (runOuter direct outerProg false []).2 ++ body

def decoJ (j : Json) : Json :=
  pathJ ((jL j).map (fun d => decoOne (paramsOf d) (jB (jAt d 4)) (jB (jAt d 5)) (jB (jAt d 6)))).flatten

/-- the `frozenir` model: {"deco": [[type_safe, order, kw_only, slots, direct, shortcut, fails], …]} -> the statements the decorations execute,
    what each hands to dataclass(), what it attaches -/
def handle (c : Json) : Json :=
  let ds := jL (jF c "deco")
  mkObj [("path", decoJ (jF c "deco")),
         ("out", jArr (ds.map fun d => match decoOut (paramsOf d) with
            | none => Json.null
            | some o => mkObj [("dc", match o.dc with | some a => jArr [jBool a.frozen, jBool a.order, jBool a.kwOnly, jBool a.slots] | none => Json.null),
                               ("returnsNew", jBool o.returnsNew), ("methods", jArr (o.methods.map jStr)), ("wrapper", jBool o.wrapper)]))]

end PedVerif.Drv.FrozenIR
