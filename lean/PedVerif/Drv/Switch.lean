import PedVerif.Drv.Util
import PedVerif.Spec.Switch
namespace PedVerif.Drv.Switch
open Lean PedVerif.Drv PedVerif.Switch

def innerOf : String → Option Inner
  | "pedantic" => some .pedantic
  | "pedantic_require_docstring" => some .pedanticDoc
  | "trace" => some .trace
  | "timer" => some .timer
  | "mark" => some .mark
  | _ => none

def decoOf (s : String) : Option Deco :=
  match s with
  | "pedantic" => some .pedantic
  | "pedantic_require_docstring" => some .pedanticDoc
  | "pedantic_class" => some .pedanticClass
  | "pedantic_class_require_docstring" => some .pedanticClassDoc
  | "trace_class" => some .traceClass
  | "timer_class" => some .timerClass
  | _ =>
    match s.splitOn ":" with
    | ["for_all_methods", i] => (innerOf i).map .forAll
    | _ => none

def targetOf (j : Json) : Target :=
  ⟨jB (jF j "cls"), jB (jF j "doc"), jB (jF j "full"), jB (jF j "odd"), jB (jF j "falsy"), jB (jF j "generic")⟩

def memberOf : String → Option Member
  | "m" => some .method
  | "cm" => some .classMethod
  | "sm" => some .staticMethod
  | "pget" => some .propGet
  | "pset" => some .propSet
  | _ => none

def viaOf : String → Option Via
  | "cls" => some .cls
  | "inst" => some .inst
  | _ => none

def kindOf : String → Option CallKind
  | "good" => some .good
  | "positional" => some .positional
  | "wrongType" => some .wrongType
  | "unparamInst" => some .unparamInst
  | "paramInst" => some .paramInst
  | _ => none

def envOf (j : Json) : Option String := match j with | .str s => some s | _ => none

def opOf (j : Json) : Option Op :=
  match jTag j with
  | "setenv" => some (.setenv (jS (jAt j 1)))
  | "unsetenv" => some .unsetenv
  | "enable" => some .enable
  | "disable" => some .disable
  | "factory" => (decoOf (jS (jAt j 1))).map .factory
  | "decorate" => (decoOf (jS (jAt j 1))).map fun d => .decorate d (targetOf (jAt j 2))
  | "apply" => some (.apply (jN (jAt j 1)) (targetOf (jAt j 2)))
  | "redecorate" => (decoOf (jS (jAt j 1))).map fun d => .redecorate d (jN (jAt j 2))
  | "reapply" => some (.reapply (jN (jAt j 1)) (jN (jAt j 2)))
  | "call" => (kindOf (jS (jAt j 2))).map fun k => .call (jN (jAt j 1)) k
  | "subclass" => some (.subclass (jN (jAt j 1)))
  | "callm" => (memberOf (jS (jAt j 2))).bind fun m => (viaOf (jS (jAt j 3))).bind fun v =>
      (kindOf (jS (jAt j 4))).map fun k => .callm (jN (jAt j 1)) m v k
  | _ => none

def obsJ : Obs → Json
  | .none => jArr [jStr "none"]
  | .decorated a b => jArr [jStr "decorated", jBool a, jBool b]
  | .decoRaised => jArr [jStr "decoRaised"]
  | .called r p m => jArr [jStr "called", jBool r, jBool p, jBool m]
  | .bad => jArr [jStr "bad"]
  | .switchError => jArr [jStr "switchError"]
  | .derived => jArr [jStr "derived"]
  | .callError => jArr [jStr "error", jStr "TypeError"]
  | .unspecified => jArr [jStr "unspecified"]

def sobsJ : SObs → Json
  | .exact o => jArr [jStr "exact", obsJ o]
  | .enabledDeco => jArr [jStr "enabledDeco"]
  | .unclaimed => jArr [jStr "unclaimed"]

/-- case: {"env": null | "<value>", "ops": [["setenv", s] | ["unsetenv"] | ["enable"] | ["disable"] | ["factory", deco]
    | ["decorate", deco, {"cls","doc"}] | ["apply", k, {"cls","doc"}] | ["redecorate", deco, h] | ["reapply", k, h] | ["call", h, "good"|"positional"|"wrongType"]
    | ["subclass", h] | ["callm", h, "m"|"cm"|"sm"|"pget"|"pset", "cls"|"inst", kind], …]}; targets: {"cls","doc","full","odd"}
    ("odd": an object the decorators are not made for; absent = false) -/
def handle (c : Json) : Json :=
  let raw := jL (jF c "ops")
  let ops := raw.filterMap opOf
  if ops.length != raw.length then mkObj [("error", jStr "unparsable op")] else
  let e0 := envOf (jF c "env")
  mkObj [("model", jArr ((run (init e0) ops).map obsJ)), ("spec", jArr ((specRun (sinit e0) ops).map sobsJ)),
         ("enabledNow", jArr ((ops.foldl (fun (acc : St × List Json) o =>
            ((step acc.1 o).1, acc.2 ++ [match PedVerif.Gen.Switch.isEnabledE (step acc.1 o).1.env with
                                          | some b => jBool b | none => Json.null])) (init e0, [])).2))]

end PedVerif.Drv.Switch
