import PedVerif.Drv.Util
import PedVerif.Spec.Docstring
namespace PedVerif.Drv.Docstring
open Lean PedVerif.Drv PedVerif.Docstring

/-- identifiers known to the model (the harness refuses to generate documented types over other library-visible names) -/
def knownSyms : List (String × Nat) :=
  [("int", 0), ("str", 1), ("float", 2), ("bool", 3), ("list", 4), ("dict", 5), ("tuple", 6), ("set", 7), ("bytes", 8),
   ("NoneType", 10),
   ("List", 20), ("Dict", 21), ("Tuple", 22), ("Set", 23), ("Type", 24), ("Optional", 25), ("Union", 26), ("Callable", 27),
   ("Literal", 28), ("Any", 29)]

/-- any other identifier: an injective code ≥ 1000 -/
def symOf (s : String) : Nat :=
  match knownSyms.lookup s with
  | some n => n
  | none => 1000 + s.foldl (fun n c => n * 1114112 + c.toNat + 1) 0

def headOf (s : String) : Head :=
  match s with
  | "List" => .List | "Dict" => .Dict | "Tuple" => .Tuple | "Set" => .Set | "Type" => .Type
  | "Optional" => .Optional | "Union" => .Union | "Callable" => .Callable | "Literal" => .Literal | _ => .Any

instance : Inhabited Val := ⟨.none⟩
instance : Inhabited DExpr := ⟨.none⟩

partial def valOf (j : Json) : Val :=
  match jTag j with
  | "cls" => .cls (symOf (jS (jAt j 1)))
  | "none" => .none
  | "ellipsis" => .ellipsis
  | "int" => .int (jI (jAt j 1))
  | "bool" => .bool (jB (jAt j 1))
  | "str" => .str (symOf (jS (jAt j 1)))
  | "tvar" => .tvar (symOf (jS (jAt j 1)))
  | "special" => .special (headOf (jS (jAt j 1)))
  | "fref" => .fref (symOf (jS (jAt j 1)))
  | "talias" => .talias (headOf (jS (jAt j 1))) ((jL (jAt j 2)).map valOf)
  | "balias" => .balias (symOf (jS (jAt j 1))) ((jL (jAt j 2)).map valOf)
  | "union" => .union (jB (jAt j 1)) ((jL (jAt j 2)).map valOf)
  | "pylist" => .pylist ((jL (jAt j 1)).map valOf)
  | _ => .none

partial def exprOf (j : Json) : DExpr :=
  match jTag j with
  | "name" => .name (symOf (jS (jAt j 1)))
  | "none" => .none
  | "ellipsis" => .ellipsis
  | "int" => .int (jI (jAt j 1))
  | "bool" => .bool (jB (jAt j 1))
  | "str" => .str (symOf (jS (jAt j 1)))
  | "sub" => .sub (exprOf (jAt j 1)) ((jL (jAt j 2)).map exprOf)
  | "bor" => .bor (exprOf (jAt j 1)) (exprOf (jAt j 2))
  | "list" => .list ((jL (jAt j 1)).map exprOf)
  | "exit" => .exitCall
  | _ => .none

def ttOf (j : Json) : Option TypeText :=
  if jIsNull j then none
  else some ⟨jS (jF j "text"), if jIsNull (jF j "expr") then none else some (exprOf (jF j "expr"))⟩

def optValOf (j : Json) : Option Val := if jIsNull j then none else some (valOf j)

def fnOf (j : Json) : FnD :=
  { anns := (jL (jF j "anns")).map (fun p => (symOf (jS (jAt p 0)), valOf (jAt p 1)))
    ret := match jTag (jF j "ret") with
      | "absent" => none
      | "none" => some none
      | _ => some (some (valOf (jAt (jF j "ret") 1)))
    rawDoc := match jS (jF j "raw") with
      | "none" => .none
      | "empty" => .empty
      | _ => .text }

def rawDocOf (j : Json) : RawDocstring :=
  { params := (jL (jF j "params")).map (fun p => ⟨symOf (jS (jAt p 0)), ttOf (jAt p 1)⟩)
    returns := if jIsNull (jF j "returns") then none
               else some (jN (jAt (jF j "returns") 0), ttOf (jAt (jF j "returns") 1)) }

/-- the docstring as written: `returns` is null | ["untyped"] | ["typed", TT] -/
def intendedOf (j : Json) : Intended :=
  { params := (jL (jF j "params")).map (fun p => ⟨symOf (jS (jAt p 0)), ttOf (jAt p 1)⟩)
    returns := if jIsNull (jF j "returns") then none
               else match jTag (jF j "returns") with
                 | "typed" => some (ttOf (jAt (jF j "returns") 1))
                 | _ => some none }

/-- meanings computed by the harness with the real interpreter: `returns` is null | ["untyped"] | ["typed", Val|null] -/
def sdocOfJson (present : Bool) (j : Json) : SDoc :=
  { present := present
    params := (jL (jF j "params")).map (fun p => ⟨symOf (jS (jAt p 0)), optValOf (jAt p 1)⟩)
    returns := if jIsNull (jF j "returns") then none
               else match jTag (jF j "returns") with
                 | "typed" => some (optValOf (jAt (jF j "returns") 1))
                 | _ => some none }

def nsOf (j : Json) : Ctx := (jL j).map (fun p => (symOf (jS (jAt p 0)), valOf (jAt p 1)))

def escJ : Esc → String
  | .unmodelled => "UNMODELLED"
  | k => k.className

def outJ : Out → Json
  | .ok => jStr "ok"
  | .raised c => jArr [jStr "raised", jStr c]
  | .escaped k => jArr [jStr "escaped", jStr (escJ k)]

def decoJ : Deco → Json
  | .original => jStr "original"
  | .wrapper => jStr "ok"
  | .raised o => outJ o

def dtJ : DT → Json
  | .parsed _ => jStr "parsed"
  | .untyped => jStr "untyped"
  | .typingPrefixed => jStr "typingPrefixed"
  | .nameError => jStr "nameError"
  | .evalError k => jStr ("evalError:" ++ escJ k)

def optAgree (a b : Option Val) : Bool :=
  match a, b with
  | some x, some y => annEq x y && annEq y x
  | none, none => true
  | _, _ => false

def sdocAgree (a b : SDoc) : Bool :=
  a.params.length == b.params.length &&
  (a.params.zip b.params).all (fun (p, q) => p.name == q.name && optAgree p.ty q.ty) &&
  (match a.returns, b.returns with
   | some x, some y => optAgree x y
   | none, none => true
   | _, _ => false)

def roleOf (s : String) : Role :=
  match s with
  | "static" => .static | "classm" => .classm | "fget" => .fget | "fset" => .fset | "fdel" => .fdel | _ => .method

structure Unit' where
  req : Bool
  kind : DecoKind
  role : Role
  f : FnD
  raw : RawDocstring
  intended : Intended
  den : SDoc
  ns : Ctx
  eqs : List (Val × Val)

def unitOf (j : Json) : Unit' :=
  let f := fnOf (jF j "sig")
  { req := jB (jF j "req"),
    kind := (match jS (jF j "deco") with
      | "require" => .requireShortcut
      | "require_kw" => .requireKeyword
      | _ => .pedantic),
    role := roleOf (jS (jF j "role")),
    f := f, raw := rawDocOf (jF j "doc"), intended := intendedOf (jF j "intended"),
    den := sdocOfJson (f.rawDoc == .text) (jF j "den"), ns := nsOf (jF j "ns"),
    eqs := (jL (jF j "eqs")).map (fun e => (valOf (jAt e 0), valOf (jAt e 1))) }

def handle (c : Json) : Json :=
  let env : Env := ⟨jB (jF (jF c "env") "enabled"), jB (jF (jF c "env") "parser")⟩
  let units := (jL (jF c "units")).map unitOf
  let isClass := jS (jF c "kind") == "class"
  -- `"classdeco": "plain"`: the class is decorated with `pedantic_class` (methods are `@pedantic` functions), else with
  -- `pedantic_class_require_docstring`; a decorated base class of the class is not part of the case (the model does not look at it)
  let isPlain := isClass && jS (jF c "classdeco") == "plain"
  let isSeq := jS (jF c "kind") == "seq"
  let members : List Member := units.map (fun u => (u.role, u.f, annotate u.ns u.f u.raw))
  let model : Deco :=
    if isSeq then decorateSeq env (units.map (fun u => (u.kind, u.f, annotate u.ns u.f u.raw)))
    else if isClass then decorateMembers env isPlain members
    else match units with
      | u :: _ => decorateAs env u.kind u.f (annotate u.ns u.f u.raw)
      | [] => .wrapper
  -- a class that came through: were all the functions it holds replaced by wrappers (`ok`), none of them, or only some (`partial`:
  -- a role that `for_all_methods` does not hand to the decorator — its docstring was never looked at)
  let modelJ : Json :=
    match model with
    | .wrapper =>
      if isClass && !(members.all (fun m => roleDecorated m.1)) then
        (if members.any (fun m => roleDecorated m.1) then jStr "partial" else jStr "original")
      else decoJ model
    | _ => decoJ model
  -- the property's verdict from the meanings the harness computed with the real interpreter (no model function involved
  -- except typing-object equality)
  let specOut : Out :=
    if isSeq then expectedSeq (units.map (fun u => (u.req, resolveSig u.ns u.f, u.den)))
    else if isPlain then expectedClassPlain (units.map (fun u => (resolveSig u.ns u.f, u.den)))
    else if isClass then expectedClass (units.map (fun u => (resolveSig u.ns u.f, u.den)))
    else match units with
      | u :: _ => expected u.req (resolveSig u.ns u.f) u.den
      | [] => .ok
  -- the same verdict from the docstring as written, with the meanings computed by the Lean evaluator in the module's namespace
  let specLean : Out :=
    if isSeq then expectedSeq (units.map (fun u => (u.req, resolveSig u.ns u.f, specDoc u.ns u.f u.intended)))
    else if isPlain then expectedClassPlain (units.map (fun u => (resolveSig u.ns u.f, specDoc u.ns u.f u.intended)))
    else if isClass then expectedClass (units.map (fun u => (resolveSig u.ns u.f, specDoc u.ns u.f u.intended)))
    else match units with
      | u :: _ => expected u.req (resolveSig u.ns u.f) (specDoc u.ns u.f u.intended)
      | [] => .ok
  let applies := if isSeq then units.any (fun u => decide (Applies u.req u.den)) else if isPlain then units.any (fun u => decide (Applies false u.den)) else if isClass then true else match units with
    | u :: _ => decide (Applies u.req u.den)
    | [] => false
  mkObj [
    ("model", modelJ),
    ("spec", mkObj [("applies", jBool applies),
                    ("consistent", jBool (units.all (fun u => decide (Consistent (resolveSig u.ns u.f) u.den)))),
                    ("expected", outJ specOut)]),
    ("spec_lean", outJ specLean),
    ("den_agree", jBool (units.all (fun u => sdocAgree u.den (specDoc u.ns u.f u.intended)))),
    ("model_view_consistent", jBool (units.all (fun u => decide (Consistent u.f (sdocOf u.f (annotate u.ns u.f u.raw)))))),
    ("parser_faithful", jBool (units.all (fun u => sameRaw u.raw (rawOf u.intended)))),
    ("eqs", jArr ((units.map (fun u => u.eqs.map (fun (a, b) => jArr [jBool (annEq a b), jBool (annEq b a)]))).flatten)),
    ("dts", jArr (units.map (fun u =>
      let d := annotate u.ns u.f u.raw
      mkObj [("params", jArr (d.params.map (fun p => dtJ p.ty))),
             ("returns", match d.returns with | some (n, t) => jArr [jNat n, dtJ t] | none => Json.null)])))
  ]

end PedVerif.Drv.Docstring
