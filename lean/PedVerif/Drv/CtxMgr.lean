import PedVerif.Drv.Util
import PedVerif.Spec.CtxMgr
namespace PedVerif.Drv.CtxMgr
open Lean PedVerif.Drv PedVerif.CtxMgr PedVerif.Gen.CtxMgr

def ekOf : String → EK
  | "exception" => .exception | "baseExc" => .baseExc | "generatorExit" => .generatorExit
  | "stopIteration" => .stopIteration | "stopAsyncIteration" => .stopAsyncIteration
  | "cancelled" => .cancelled | _ => .runtimeError

def ekS : EK → String
  | .exception => "exception" | .baseExc => "baseExc" | .generatorExit => "generatorExit"
  | .stopIteration => "stopIteration" | .stopAsyncIteration => "stopAsyncIteration"
  | .runtimeError => "runtimeError" | .cancelled => "cancelled"

/-- `[kind, id, cause|null]` or null -/
def excOf (j : Json) : Option Exc :=
  if jIsNull j then none else some { kind := ekOf (jS (jAt j 0)), id := jN (jAt j 1), cause := jOptN (jAt j 2) }

/-- `["ev", p]` | `["raise", EXC]` -/
def actOf (j : Json) : Act :=
  match jTag j with
  | "raise" => match excOf (jAt j 1) with | some e => .raise e | none => .ev 0
  | _ => .ev (jN (jAt j 1))

def actsOf (j : Json) : List Act := if jIsNull j then [] else (jL j).map actOf

def hclassOf : String → HClass
  | "Exception" => .exception | "BaseException" => .baseException | "RuntimeError" => .runtimeError
  | "bare" => .baseException | "StopIteration" => .stopIteration | "GeneratorExit" => .generatorExit | "CancelledError" => .cancelled
  | _ => .noMatch

/-- `{"rest":[A…], "handlers":[[class, [A…], reraise]…], "else":[A…]|null, "fin":[A…]|null, "finExc":[A…]|null}` -/
def frameOf (j : Json) : Frame :=
  { rest := actsOf (jF j "rest"),
    handlers := (if jIsNull (jF j "handlers") then [] else jL (jF j "handlers")).map
      (fun h => { cls := hclassOf (jS (jAt h 0)), body := actsOf (jAt h 1), reraise := jB (jAt h 2) }),
    orelse := actsOf (jF j "else"), fin := actsOf (jF j "fin"), finExc := actsOf (jF j "finExc") }

/-- `{"frames":[F…] (innermost first), "trail":[A…]}`; absent: a bare yield -/
def bodyShapeOf (j : Json) : GenBody :=
  if jIsNull j then {} else { frames := (jL (jF j "frames")).map frameOf, trail := actsOf (jF j "trail") }

def genOf (j : Json) : UserGen :=
  { tag := jN (jF j "tag"), setupExc := excOf (jF j "setup"), yields := jN (jF j "yields"),
    cleanupExc := excOf (jF j "cleanup"), value := jN (jF j "value"),
    returns := match jTag (jF j "returns") with | "truthy" => .truthy | "falsy" => .falsy | _ => .none,
    body := bodyShapeOf (jF j "body") }

def bodyOf (j : Json) : BodyOut :=
  match jTag j with
  | "early" => .early
  | "raises" => match excOf (jAt j 1) with | some e => .raises e | none => .normal
  | _ => .normal

instance : Inhabited Prog := ⟨.body 0 .normal⟩

/-- `{"pos":[ids], "kw":[[name, id]…], "fits":b}`; a bare number `n` (older corpus / replay files) is the call `cm(<n>, k=<n+1>)` -/
def argsOf (j : Json) : CallArgs :=
  match j.getNat? with
  | .ok n => { pos := [n], kw := [(1, n + 1)] }
  | _ => { pos := (jL (jF j "pos")).map jN, kw := (jL (jF j "kw")).map (fun p => (jN (jAt p 0), jN (jAt p 1))),
           fits := if jIsNull (jF j "fits") then true else jB (jF j "fits") }

def argsJ (a : CallArgs) : List Json := [jArr (a.pos.map jNat), jArr (a.kw.map (fun p => jArr [jNat p.1, jNat p.2]))]

partial def progOf (j : Json) : Prog :=
  match jTag j with
  | "with" => .withCm (genOf (jAt j 1)) (argsOf (jAt j 2)) (progOf (jAt j 3))
  | "seq" => .seq (progOf (jAt j 1)) (progOf (jAt j 2))
  | _ => .body (jN (jAt j 1)) (bodyOf (jAt j 2))

def evJ : Ev → Json
  | .setup t a => jArr ([jStr "setup", jNat t] ++ argsJ a)
  | .bind t v => jArr [jStr "bind", jNat t, jNat v]
  | .body n => jArr [jStr "body", jNat n]
  | .cleanup t => jArr [jStr "cleanup", jNat t]
  | .extra t => jArr [jStr "extra", jNat t]
  | .piece t p => jArr [jStr "piece", jNat t, jNat p]

def finJ : Final → Json
  | .normal => jArr [jStr "normal"]
  | .left => jArr [jStr "left"]
  | .raised e => jArr [jStr "raised", jStr (ekS e.kind), jNat e.id, match e.cause with | some c => jNat c | none => Json.null]

def outJ (r : List Ev × Final) : Json := mkObj [("journal", jArr (r.1.map evJ)), ("final", finJ r.2)]

def finalOf (j : Json) : Final := (bodyOf j).final

def opOf (j : Json) : Op :=
  match jTag j with
  | "enter" => .enter (genOf (jAt j 1)) (argsOf (jAt j 2))
  | _ => .exit (jN (jAt j 1)) (finalOf (jAt j 2))

def opOutJ : OpOut → Json
  | .entered v => jArr [jStr "entered", jNat v]
  | .enterFailed e => finJ (.raised e)
  | .exited f => finJ f
  | .ignored => jArr [jStr "ignored"]

def opsJ (l : List (List Ev × OpOut)) : Json := jArr (l.map (fun r => mkObj [("evs", jArr (r.1.map evJ)), ("out", opOutJ r.2)]))

def modeOf (j : Json) : Mode := if jS j == "async" then .async else .sync

def kindOf : String → FnKind
  | "generator" => .generator | "asyncGenerator" => .asyncGenerator | "coroutine" => .coroutine | _ => .plain

def wrapS : Wrap → String
  | .contextmanager => "contextmanager" | .asynccontextmanager => "asynccontextmanager" | .other => "other"

/-- cases:
    `{"kind":"prog","mode":…,"prog":P}` → model run, spec (null outside the documented form), the two guards;
    `{"kind":"deco","mode":…,"fn":…,"unwrapped":…|absent,"hasName":b,"opt":0…3|absent}` → decoration outcome, and whether the property demands acceptance;
    `{"kind":"hist","mode":…,"ops":[["enter",G,ARGS] | ["exit",i,BODYOUT]…]}` → per operation journal and outcome of the history
    machine over one manager, and of the per-use try/finally specification (null outside the documented form) -/
def handle (c : Json) : Json :=
  let m := modeOf (jF c "mode")
  if jS (jF c "kind") == "deco" then
    let k := kindOf (jS (jF c "fn"))
    let uk := if jIsNull (jF c "unwrapped") then k else kindOf (jS (jF c "unwrapped"))
    -- "opt": 0 / absent = the default interpreter mode; 1, 2, 3 = python -O, -OO, PYTHONOPTIMIZE=1
    let opt := !jIsNull (jF c "opt") && jN (jF c "opt") != 0
    let d := match decorate m k uk (jB (jF c "hasName")) opt with
      | .rejected cls => jArr [jStr "rejected", jStr cls]
      | .manager w => jArr [jStr "manager", jStr (wrapS w)]
    mkObj [("model", d), ("spec", mkObj [("mustAccept", jBool (mustAccept m k)), ("via", jStr (wrapS (expectedWrap m)))])]
  else if jS (jF c "kind") == "hist" then
    let ops := (jL (jF c "ops")).map opOf
    let ok := histOk m [] ops
    -- quirk-freeness on its own (the other conjuncts of histOk are the documented form)
    let doc := ops.all (fun op => match op with | .enter g a => g.docForm m && a.fits | .exit _ _ => true)
    mkObj [("model", opsJ (runOps m [] ops).1), ("spec", if doc then opsJ (specOps [] ops) else Json.null),
           ("docForm", jBool doc), ("quirkFree", jBool (ok || !doc))]
  else
    let p := progOf (jF c "prog")
    let doc := p.docForm m
    mkObj [("model", outJ (run m p)), ("spec", if doc then outJ (spec p) else Json.null),
           ("docForm", jBool doc), ("quirkFree", jBool (p.quirkFree m))]

end PedVerif.Drv.CtxMgr
