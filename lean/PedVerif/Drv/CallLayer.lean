import PedVerif.Drv.Checker
import PedVerif.Spec.CallLayer
import PedVerif.Model.CallLayerIR
namespace PedVerif.Drv.CallLayer
open Lean PedVerif.Drv PedVerif.Checker PedVerif.Call PedVerif.Drv.Checker

def pKind : String → PKind
  | "po" => .posOnly | "pk" => .posOrKw | "ko" => .kwOnly | "vp" => .varPos | _ => .varKw
def pOptAnn (j : Json) : Option Ann := if jIsNull j then none else some (parseAnn j)
def pOptVal (j : Json) : Option Val := if jIsNull j then none else some (parseVal j)
def pParam (j : Json) : Param :=
  { name := jN (jF j "name"), kind := pKind (jS (jF j "kind")), ann := pOptAnn (jF j "ann"), dflt := pOptVal (jF j "dflt") }
def pGenRet (j : Json) : GenRet :=
  match jTag j with
  | "one" => .one (parseAnn (jAt j 1))
  | "three" => .three (parseAnn (jAt j 1)) (parseAnn (jAt j 2)) (parseAnn (jAt j 3))
  | "badArity" => .badArity
  | _ => .notGenType
def pFn (j : Json) : Fn :=
  { name := jS (jF j "name"), flags := flagsOfSource (jS (jF j "name")) (jS (jF j "source")), qualDotted := jB (jF j "qualDotted")
    params := (jL (jF j "params")).map pParam, selfName := jN (jF j "selfName")
    firstIsSelf := isInstanceMethodOf (jB (jF j "firstIsSelf")) (jB (jF j "isBound")), isBound := jB (jF j "isBound")
    retAnn := pOptAnn (jF j "ret"), genRet := pGenRet (jF j "genRet")
    flavour := (match jS (jF j "flavour") with | "coroutine" => .coroutine | "generator" => .generator | _ => .sync)
    mode := (match jS (jF j "mode") with | "requireKwargs" => .requireKwargs | _ => .pedantic) }
def pTruth (j : Json) : Truth :=
  { realStatic := jB (jF j "realStatic"), realSetter := jB (jF j "realSetter"), realPedantic := jB (jF j "realPedantic"), implicit := jN (jF j "implicit") }
def pBody (j : Json) : BodyOut :=
  match jTag j with
  | "raises" => .raises (jN (jAt j 1))
  | _ => .ret (parseVal (jAt j 1))

/-- formatting a value raises: an instance of one of the listed classes, or a container that holds one (`str()` of a container uses `repr()`
    of its elements; the pending items of a one-shot iterator are not touched) -/
partial def upOf (cls : List Nat) : Val → Bool
  | .inst c => cls.contains c
  | .coll _ xs => xs.any (upOf cls)
  | .tup _ xs => xs.any (upOf cls)
  | .ntup _ _ xs => xs.any (upOf cls)
  | .mapping _ kvs => kvs.any fun kv => upOf cls kv.1 || upOf cls kv.2
  | _ => false

def callerStr : Caller → String
  | .ret => "RET" | .retGen => "RETGEN" | .pedCallWithArgs => "PED:CallWithArgs" | .pedTypeCheck => "PED:TypeCheck"
  | .pedTVMismatch => "PED:TypeVarMismatch" | .bodyExc e => s!"BODY_EXC:{e}" | .bindTypeError => "BIND:TypeError"
  | .escape k => s!"ESC:{k}"

/-- case: {"env", "fn", "truth", "args": [val], "kw": [[name, val]], "body": ["ret", val] | ["raises", id]} -/
def handle (c : Json) : Json :=
  let env := parseEnv (jF c "env")
  let f := pFn (jF c "fn")
  let t := pTruth (jF c "truth")
  let args := (jL (jF c "args")).map parseVal
  let kw := (jL (jF c "kw")).map fun p => (jN (jAt p 0), parseVal (jAt p 1))
  let body := pBody (jF c "body")
  let r := runCall env (fun _ _ => .raisedOther) f args kw body
  -- the interpretation of the translated wrapper body (Model/CallLayerIR.lean): its result and the path it took
  let w : PedVerif.CallIR.World := { tvm := jB (jF (jF c "world") "tvm"), selfBound := jB (jF (jF c "world") "selfBound") }
  let unp := (jL (jF c "unprintable")).map jN
  let irt := PedVerif.CallIR.runCallTraced env (fun _ _ => .raisedOther) f args kw body w (upOf unp)
  let ir := irt.1
  mkObj [("caller", jStr (callerStr r.caller)), ("ran", jBool r.bodyRan),
         ("fwdPos", jArr (r.fwdPos.map jNat)), ("fwdKw", jArr (r.fwdKw.map jNat)),
         ("ir", mkObj [("caller", jStr (callerStr ir.caller)), ("ran", jBool ir.bodyRan), ("fwdPos", jArr (ir.fwdPos.map jNat)), ("fwdKw", jArr (ir.fwdKw.map jNat))]),
         ("interpTrace", jArr (irt.2.map jNat)),
         ("spec", mkObj [("truthful", jBool (truthful f t)), ("anyNonConforming", jBool (anyNonConforming env f args kw)),
                         ("badProduced", jBool (badProduced env f body)), ("positionalBad", jBool (positionalBad env f t args)), ("positionalPrefixBad", jBool (positionalPrefixBad env f t args kw)), ("badStarSpec", jBool (badStarSpec env f t args)), ("allConforming", jBool (allConforming env f args kw body)),
                         ("incompleteParam", jBool (incompleteParam f)), ("incompleteReturn", jBool (incompleteReturn f)),
                         ("keywordCall", jBool (keywordCall t args)), ("exempt", jBool (exempt f t)), ("hasVarPos", jBool (hasVarPos f)),
                         ("pythonBinds", jBool (f.binds (fwdPosOf f args).length (kw.map (·.1))))]),
         ("flags", mkObj [("wantsArgs", jBool f.wantsArgs), ("isStatic", jBool f.isStatic), ("isSetter", jBool f.isSetter),
                          ("isPedantic", jBool f.isPedantic), ("numDecorators", jNat f.numDecorators), ("strips", jBool f.strips),
                          ("shouldHaveKwargs", jBool f.shouldHaveKwargs), ("clazzFails", jBool (f.clazzFails args))]),
         ("regions", jArr ((
            (if !truthful f t then ["untruthful"] else []) ++ (if f.clazzFails args then ["clazzFails"] else []) ++
            (if regionStripped f t args then ["stripped"] else []) ++
            (if regionReceiverNotNamedSelf f t args then ["receiverNotNamedSelf"] else []) ++
            (if positionalForDefaultedBad env f t args then ["positionalForDefaulted"] else []) ++
            (if f.firstIsSelf && args.isEmpty then ["receiverByKeyword"] else []) ++
            (if ir.caller == .escape "format" then ["unprintableFormat"] else []) ++
            (if args.any Val.hasNT || kw.any (fun kv => kv.2.hasNT) || f.params.any (fun p => match p.dflt with | some d => d.hasNT | none => false)
                || (match body with | .ret r => r.hasNT | _ => false) then ["namedtuple"] else []) ++
            (if args.any Val.hasIter || kw.any (fun kv => kv.2.hasIter) || f.params.any (fun p => match p.dflt with | some d => d.hasIter | none => false)
                || (match body with | .ret r => r.hasIter | _ => false) then ["iterator"] else []) ++
            (if !(args.all Val.plain && kw.all (fun kv => kv.2.plain) && (match body with | .ret r => r.plain | _ => true)) then ["nonPlain"] else []) ++
            -- a string annotation / forward reference that the calling module does not bind (outside the vocabulary "forward references naming a class")
            (if f.params.any (fun p => match p.ann with | some a => a.hasUnresolvedFwd env | none => false)
                || (match f.retAnn with | some a => a.hasUnresolvedFwd env | none => false) then ["fwdUnresolved"] else [])
            ).map jStr)),
         ("wf", jBool ((args.all (fun v => v.wf env)) && (kw.all (fun kv => kv.2.wf env))))]

end PedVerif.Drv.CallLayer
