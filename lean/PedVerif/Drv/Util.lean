import Lean.Data.Json
/-! JSON helpers shared by the driver modules (line protocol, appendix B of DESIGN.md). -/
namespace PedVerif.Drv
open Lean

def jA (j : Json) : Array Json := match j with | .arr a => a | _ => #[]
def jL (j : Json) : List Json := (jA j).toList
def jN (j : Json) : Nat := match j.getNat? with | .ok n => n | _ => 0
def jI (j : Json) : Int := match j.getInt? with | .ok n => n | _ => 0
def jS (j : Json) : String := match j with | .str s => s | _ => ""
def jB (j : Json) : Bool := match j with | .bool b => b | _ => false
def jIsNull (j : Json) : Bool := match j with | .null => true | _ => false
def jF (j : Json) (k : String) : Json := j.getObjValD k
/-- i-th element of a JSON array (null when absent) -/
def jAt (j : Json) (i : Nat) : Json := (jA j)[i]?.getD Json.null
/-- constructor tag of a term `["ctor", args…]` -/
def jTag (j : Json) : String := jS (jAt j 0)
def jOptN (j : Json) : Option Nat := match j.getNat? with | .ok n => some n | _ => none

def mkObj (kvs : List (String × Json)) : Json := Json.mkObj kvs
def jNat (n : Nat) : Json := Json.num (JsonNumber.fromNat n)
def jInt (n : Int) : Json := Json.num (JsonNumber.fromInt n)
def jStr (s : String) : Json := Json.str s
def jBool (b : Bool) : Json := Json.bool b
def jArr (l : List Json) : Json := Json.arr l.toArray

end PedVerif.Drv
