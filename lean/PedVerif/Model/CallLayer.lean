import PedVerif.Model.CheckerWF
import PedVerif.Gen.CallTables
/-!
Model of the `@pedantic` / `@require_kwargs` call layer: `DecoratedFunction` (source-text predicates),
`FunctionCall` (`assert_uses_kwargs`, `args_without_self`, `_check_type_param`, `_check_types_args`,
`_check_types_kwargs`, `_get_return_value`, `_check_types_return`), the two wrappers of `pedantic`.

A decorated callable is described by what the library's own introspection sees (`inspect.signature`,
`getfullargspec`, `inspect.getsource`, `inspect.ismethod`, `__name__`, `__qualname__`); the source-text predicates are
computed here from the source string with the needles the translator read from the library.  Each argument check
consults `Checker.checkType` (TypeVar-free annotations; TypeVars are C07's model).  The body is a script.
-/
namespace PedVerif.Call
open PedVerif.Checker PedVerif.Gen.CallTables PedVerif.Gen.TypeTables

inductive PKind where | posOnly | posOrKw | kwOnly | varPos | varKw
deriving DecidableEq, Repr

structure Param where
  name : NameId
  kind : PKind
  ann : Option Ann            -- none = no annotation
  dflt : Option Val           -- none = no default
deriving Repr

inductive Flavour where | sync | coroutine | generator
deriving DecidableEq, Repr
inductive Mode where | pedantic | requireKwargs
deriving DecidableEq, Repr

/-- how the return annotation of a generator function decomposes (`GeneratorWrapper._set_and_check_return_types`) -/
inductive GenRet where
  | notGenType                      -- base generic is not Generator / Iterable / Iterator
  | one (y : Ann)                   -- Iterator[Y] / Iterable[Y]
  | three (y s r : Ann)             -- Generator[Y, S, R]
  | badArity
deriving Repr

/-- what `DecoratedFunction` reads off the *source text* of the function (`inspect.getsource`) -/
structure SrcFlags where
  wantsArgs : Bool             -- the args needle occurs in the source
  isStatic : Bool              -- the static needle occurs in the source
  isSetter : Bool              -- '@<name>.setter' occurs in the source
  isPedantic : Bool            -- one of the pedantic needles occurs in the source
  numDecorators : Nat          -- number of '@' before the first 'def'
deriving DecidableEq, Repr

structure Fn where
  name : String                -- __name__
  flags : SrcFlags             -- `flagsOfSource name (inspect.getsource func)`
  qualDotted : Bool            -- '.' in __qualname__
  params : List Param          -- inspect.signature(func).parameters, in order ('self' / 'cls' included when present)
  selfName : NameId            -- the interned name 'self'
  firstIsSelf : Bool           -- is_instance_method: `isInstanceMethodOf (getfullargspec(func).args[:1] == ['self']) (inspect.ismethod func)`
  isBound : Bool               -- inspect.ismethod(func)                       (is_class_method)
  retAnn : Option Ann          -- none = no return annotation
  genRet : GenRet              -- only read for generator functions
  flavour : Flavour
  mode : Mode
deriving Repr

/-- what the caller of the decorated callable observes -/
inductive Caller where
  | ret                        -- the very object the body returned
  | retGen                     -- a GeneratorWrapper around the generator the function returned
  | pedCallWithArgs | pedTypeCheck | pedTVMismatch
  | bodyExc (e : Nat)          -- the very exception object the body raised
  | bindTypeError              -- Python's own TypeError when the wrapper invokes the function
  | escape (k : String)        -- anything else (IndexError, …)
deriving DecidableEq, Repr

inductive BodyOut where
  | ret (v : Val)
  | raises (e : Nat)
deriving Repr

structure Result where
  caller : Caller
  bodyRan : Bool               -- was the function invoked (for a generator function: was the generator object created)
  fwdPos : List Nat            -- which of the wrapper's positional arguments (by index) were forwarded, in order
  fwdKw : List NameId          -- which keyword arguments were forwarded, in order
deriving Repr

/-! ### DecoratedFunction -/
/-! substring search written by structural recursion over character lists, so that the kernel can evaluate the
    source-text predicates on concrete sources (negation witnesses by `decide`) -/
def isPrefixL : List Char → List Char → Bool
  | [], _ => true
  | _ :: _, [] => false
  | a :: as, b :: bs => a == b && isPrefixL as bs
/-- Python `needle in s` -/
def isInfixL (n : List Char) : List Char → Bool
  | [] => n.isEmpty
  | c :: cs => isPrefixL n (c :: cs) || isInfixL n cs
/-- Python `s.split(sep)[0]`: the text before the first occurrence of `sep` -/
def beforeFirstL (sep : List Char) : List Char → List Char
  | [] => []
  | c :: cs => if isPrefixL sep (c :: cs) then [] else c :: beforeFirstL sep cs
/-- number of positions at which `n` occurs (= `len(re.findall(n, s))` for a one-character pattern) -/
def countOccL (n : List Char) : List Char → Nat
  | [] => 0
  | c :: cs => (if isPrefixL n (c :: cs) then 1 else 0) + countOccL n cs

def contains (s needle : String) : Bool := isInfixL needle.toList s.toList
def startsWithS (s p : String) : Bool := isPrefixL p.toList s.toList
def endsWithS (s p : String) : Bool := isPrefixL p.toList.reverse s.toList.reverse
/-- `'\n'.join(line.split('#')[0] for line in text.splitlines())` up to the final newline: a comment runs to the end of its line -/
def stripCommentsL : Bool → List Char → List Char
  | _, [] => []
  | inComment, c :: cs =>
    if c == '\n' then c :: stripCommentsL false cs
    else if inComment then stripCommentsL true cs
    else if c == '#' then stripCommentsL true cs
    else c :: stripCommentsL false cs
/-- the source-text predicates of `DecoratedFunction`, with the needles the translator read from the library -/
def rawHeaderOf (source : String) : List Char := beforeFirstL decoratorSplit.toList source.toList
def headerOf (source : String) : List Char :=
  if headerStripsComments then stripCommentsL false (rawHeaderOf source) else rawHeaderOf source
/-- the text a predicate searches: the decorator lines only (repaired predicates) or the whole source -/
def scopeOf (header : Bool) (source : String) : List Char := if header then headerOf source else source.toList
def flagsOfSource (name source : String) : SrcFlags :=
  { wantsArgs := isInfixL argsNeedle.toList (scopeOf argsInHeader source)
    isStatic := isInfixL staticNeedle.toList (scopeOf staticInHeader source)
    isSetter := isInfixL (setterPrefix ++ name ++ setterSuffix).toList (scopeOf setterInHeader source)
    isPedantic := pedanticNeedles.any (fun n => isInfixL n.toList (scopeOf pedanticInHeader source))
    numDecorators := countOccL decoratorMark.toList (if numDecoratorsCountedInHeaderLines then headerOf source else rawHeaderOf source) }
def Fn.wantsArgs (f : Fn) : Bool := f.flags.wantsArgs
def Fn.isStatic (f : Fn) : Bool := f.flags.isStatic
def Fn.isSetter (f : Fn) : Bool := f.flags.isSetter
def Fn.isPedantic (f : Fn) : Bool := f.flags.isPedantic
def Fn.numDecorators (f : Fn) : Nat := f.flags.numDecorators
def Fn.startsDunder (f : Fn) : Bool := startsWithS f.name "__"
def Fn.endsDunder (f : Fn) : Bool := endsWithS f.name "__"
def Fn.shouldHaveKwargs (f : Fn) : Bool :=
  PedVerif.Gen.CallTables.shouldHaveKwargs f.isSetter f.wantsArgs f.startsDunder f.endsDunder (requireKwargsDunders.contains f.name)
/-- `DecoratedFunction.is_instance_method` from what introspection reports: the first name of `getfullargspec(func).args` is
    `self` (it still is for a BOUND method) and - since 86bfec9 - the callable is no bound method -/
def isInstanceMethodOf (firstParamIsSelf isBound : Bool) : Bool :=
  firstParamIsSelf && !(instanceMethodExcludesBound && isBound)

def Fn.strips (f : Fn) : Bool := stripsFirst f.firstIsSelf f.isStatic (usesMultiple f.numDecorators f.isPedantic)
def Fn.argsWithoutSelf {α} (f : Fn) (args : List α) : List α := if f.strips then args.drop stripFrom else args

/-- the first access of `type_vars` evaluates `clazz`; for a callable whose *source text* contains the static needle
    and that is called without positional arguments it does `full_name.split('.')[-2]`: IndexError when the qualified
    name has no dot -/
def Fn.clazzFails {α} (f : Fn) (args : List α) : Bool :=
  !f.firstIsSelf && !f.isBound && f.isStatic && args.isEmpty && !f.qualDotted

/-- `FunctionCall.__init__` fails (IndexError from `self.args[0]`): an instance method called without any positional argument, unless the
    receiver may come by keyword (`receiverMayBeKeyword`) -/
def Fn.initFails {α} (f : Fn) (args : List α) : Bool := f.firstIsSelf && args.isEmpty && !receiverMayBeKeyword

def lookup {β} (kw : List (NameId × β)) (k : NameId) : Option β :=
  match kw with
  | [] => none
  | (k', v) :: rest => if k' == k then some v else lookup rest k

def isStar (k : PKind) : Bool := k == .varPos || k == .varKw
def Fn.withoutSelf (f : Fn) : List Param := f.params.filter (fun p => p.name != f.selfName)
def Fn.plain (f : Fn) : List Param := f.withoutSelf.filter (fun p => !isStar p.kind)
def Fn.star (f : Fn) : Option Param := (f.withoutSelf.filter (fun p => p.kind == .varPos)).head?
def Fn.dstar (f : Fn) : Option Param := (f.withoutSelf.filter (fun p => p.kind == .varKw)).head?
/-- number of parameters `bind_partial` fills from positional arguments before `*args` -/
def Fn.nPositional (f : Fn) : Nat := (f.params.filter (fun p => p.kind == .posOnly || p.kind == .posOrKw)).length

/-- `_assert_annotation_is_complete` (applied to star parameters): bare builtin or missing type arguments -/
def incompleteTop : Ann → Bool
  | .bare o => (o.isBuiltin && completeBareList.contains o.name) || (completeUsesRequiredArgs && !requiredArgsOk o.name 0)
  | .seq sp o _ => completeUsesRequiredArgs && !requiredArgsOk (seqName sp o) 1
  | .map sp o _ _ => completeUsesRequiredArgs && !requiredArgsOk (mapName sp o) 2
  | .tuple sp items => completeUsesRequiredArgs && !requiredArgsOk (tupleName sp) items.length
  | .tupleVar sp _ => completeUsesRequiredArgs && !requiredArgsOk (tupleName sp) 2
  | .union sp ms => completeUsesRequiredArgs && !requiredArgsOk (unionName sp) ms.length
  | _ => false

def ofOut : Out → Option Caller
  | .accept => none
  | .reject => some .pedTypeCheck
  | .pedErr => some .pedTypeCheck
  | .tvMismatch => some .pedTVMismatch
  | .escape => some (.escape "checker")

/-- one `assert_value_matches_type(..., type_vars=self.type_vars, ...)` -/
def checkVal (env : Env) (orc : Nat → Val → Raw) (f : Fn) (args : List Val) (a : Ann) (v : Val) : Option Caller :=
  if f.clazzFails args then some (.escape "IndexError") else ofOut (checkType env orc a v)

def orElse (a : Option Caller) (b : Unit → Option Caller) : Option Caller :=
  match a with
  | some c => some c
  | none => b ()

/-- `_check_type_param`: the fold over the non-star parameters (self excluded by *name*); stops at the first failure -/
def checkParams (env : Env) (orc : Nat → Val → Raw) (f : Fn) (args : List Val) (kw : List (NameId × Val)) :
    List Param → Nat → Option Caller
  | [], _ => none
  | p :: ps, idx =>
    match p.ann with
    | none => some .pedTypeCheck                        -- "should have a type hint"
    | some a =>
      match p.dflt with
      | none =>
        if f.shouldHaveKwargs then
          match lookup kw p.name with
          | none => some .pedTypeCheck                  -- "is unfilled"
          | some v => orElse (checkVal env orc f args a v) fun _ => checkParams env orc f args kw ps idx
        else
          match lookup kw p.name with
          | some v => if positionalParamFallsBack
              then orElse (checkVal env orc f args a v) fun _ => checkParams env orc f args kw ps idx
              else (match args[idx]? with
                    | some w => orElse (checkVal env orc f args a w) fun _ => checkParams env orc f args kw ps (idx + 1)
                    | none => some (.escape "IndexError"))
          | none =>
            match args[idx]? with
            | some w => orElse (checkVal env orc f args a w) fun _ => checkParams env orc f args kw ps (idx + 1)
            | none => if positionalParamFallsBack then some .pedTypeCheck else some (.escape "IndexError")
      | some d =>
        let v := (lookup kw p.name).getD d              -- for a defaulted parameter a positional value is never consulted
        orElse (checkVal env orc f args a v) fun _ => checkParams env orc f args kw ps idx

/-- a run of `assert_value_matches_type` over a list of values against one annotation, stopping at the first failure -/
def checkAll (env : Env) (orc : Nat → Val → Raw) (f : Fn) (args : List Val) (a : Ann) : List Val → Option Caller
  | [] => none
  | v :: vs => orElse (checkVal env orc f args a v) fun _ => checkAll env orc f args a vs

/-- `_check_types_args` -/
def checkStar (env : Env) (orc : Nat → Val → Raw) (f : Fn) (args : List Val) : Option Caller :=
  match f.star with
  | none => none
  | some p =>
    match p.ann with
    | none => if starRequiresAnnotation then some .pedTypeCheck
              else (if args.isEmpty then none else some .pedTypeCheck)   -- inspect._empty: nothing is an instance
    | some a =>
      if starRequiresComplete && incompleteTop a then some .pedTypeCheck else
      checkAll env orc f args a (if starChecksBoundValuesOnly then args.drop f.nPositional else args)

/-- the keyword arguments that no declared parameter consumed -/
def extraKw (f : Fn) (kw : List (NameId × Val)) : List (NameId × Val) :=
  kw.filter (fun kv => !(f.plain.any (fun q => q.name == kv.1)) && !(dstarSkipsReceiverKeyword && f.firstIsSelf && kv.1 == f.selfName))

/-- `_check_types_kwargs` -/
def checkDStar (env : Env) (orc : Nat → Val → Raw) (f : Fn) (args : List Val) (kw : List (NameId × Val)) : Option Caller :=
  match f.dstar with
  | none => none
  | some p =>
    match p.ann with
    | none => if dstarRequiresAnnotation then some .pedTypeCheck else none
    | some a =>
      if dstarRequiresComplete && incompleteTop a then some .pedTypeCheck else
      checkAll env orc f args a ((extraKw f kw).map (·.2))

/-- `_check_types_of_arguments`, in the order the source calls the three checks -/
def checkArguments (env : Env) (orc : Nat → Val → Raw) (f : Fn) (args : List Val) (kw : List (NameId × Val)) : Option Caller :=
  orElse (if argumentChecks.contains "_check_type_param" then checkParams env orc f args kw f.plain (if f.firstIsSelf then 1 else 0) else none) fun _ =>
  orElse (if argumentChecks.contains "_check_types_args" then checkStar env orc f args else none) fun _ =>
  (if argumentChecks.contains "_check_types_kwargs" then checkDStar env orc f args kw else none)

/-! ### Python's own call binding (what `func(*a, **k)` accepts) -/
def bindsAux : List Param → Nat → List NameId → Bool → Bool
  -- params left, positional arguments left, keyword names left, positional phase over?
  | [], nPos, kws, _ => nPos == 0 && kws.isEmpty
  | p :: ps, nPos, kws, _ =>
    match p.kind with
    | .posOnly =>
        if nPos > 0 then bindsAux ps (nPos - 1) kws false
        else p.dflt.isSome && bindsAux ps 0 kws false
    | .posOrKw =>
        if nPos > 0 then !kws.contains p.name && bindsAux ps (nPos - 1) kws false
        else if kws.contains p.name then bindsAux ps 0 (kws.erase p.name) false
        else p.dflt.isSome && bindsAux ps 0 kws false
    | .varPos => bindsAux ps 0 kws false
    | .kwOnly =>
        if nPos > 0 then false
        else if kws.contains p.name then bindsAux ps 0 (kws.erase p.name) false
        else p.dflt.isSome && bindsAux ps 0 kws false
    | .varKw => nPos == 0          -- swallows every remaining keyword (var-keyword is always last)

def Fn.binds (f : Fn) (nPos : Nat) (kws : List NameId) : Bool :=
  -- a bound method (classmethod seen through pedantic_class) has no `cls` in its signature
  bindsAux f.params nPos kws false

/-! ### the wrappers -/
def retCheck (env : Env) (orc : Nat → Val → Raw) (f : Fn) (args : List Val) (body : BodyOut) (fp : List Nat) (fk : List NameId) : Result :=
  match body with
  | .raises e => ⟨.bodyExc e, true, fp, fk⟩               -- no try/except around the invocation: propagates unchanged
  | .ret r =>
    match f.retAnn with
    | none => ⟨.pedTypeCheck, true, fp, fk⟩                -- "There should be a type hint for the return type"
    | some a =>
      if f.flavour == .generator then
        (if f.clazzFails args then ⟨.escape "IndexError", true, fp, fk⟩ else
         match f.genRet with
         | .one _ => ⟨.retGen, true, fp, fk⟩
         | .three _ _ _ => ⟨.retGen, true, fp, fk⟩
         | _ => ⟨.pedTypeCheck, true, fp, fk⟩)
      else
        match checkVal env orc f args a r with
        | some c => ⟨c, true, fp, fk⟩
        | none => ⟨.ret, true, fp, fk⟩

/-- does the wrapper invoke the function with keyword arguments only (`self.func.func(**self.kwargs)`) -/
def Fn.kwOnlyInvocation (f : Fn) : Bool := f.mode == .pedantic && kwargsOnlyInvocation f.isStatic f.isBound
def fwdPosOf (f : Fn) (args : List Val) : List Nat := if f.kwOnlyInvocation then [] else List.range args.length

/-- `_get_return_value` / `func(*args, **kwargs)` followed by the return check -/
def invoke (env : Env) (orc : Nat → Val → Raw) (f : Fn) (args : List Val) (kw : List (NameId × Val)) (body : BodyOut) : Result :=
  let fp := fwdPosOf f args
  let fk := kw.map (·.1)
  if !f.binds fp.length fk then ⟨.bindTypeError, false, fp, fk⟩ else
  match f.mode with
  | .requireKwargs => (match body with
      | .raises e => ⟨.bodyExc e, true, fp, fk⟩
      | .ret _ => ⟨.ret, true, fp, fk⟩)
  | .pedantic => retCheck env orc f args body fp fk

/-- one call of the decorated callable: `args` / `kw` are what the wrapper receives -/
def runCall (env : Env) (orc : Nat → Val → Raw) (f : Fn) (args : List Val) (kw : List (NameId × Val)) (body : BodyOut) : Result :=
  -- FunctionCall.__init__: `self.args[0] if is_instance_method`
  if f.initFails args then ⟨.escape "IndexError", false, [], []⟩ else
  -- assert_uses_kwargs
  if f.shouldHaveKwargs && !(f.argsWithoutSelf args).isEmpty then ⟨.pedCallWithArgs, false, [], []⟩ else
  match f.mode with
  | .requireKwargs => invoke env orc f args kw body
  | .pedantic =>
    if argsCheckedBeforeBody then
      (match checkArguments env orc f args kw with
       | some c => ⟨c, false, [], []⟩
       | none => invoke env orc f args kw body)
    else
      (let r := invoke env orc f args kw body
       if r.bodyRan then (match checkArguments env orc f args kw with | some c => { r with caller := c } | none => r) else r)

end PedVerif.Call
