import PedVerif.Gen.Frozen
/-!
Model of `pedantic/decorators/cls_deco_frozen_dataclass.py: frozen_dataclass` (type_safe validation is a no-op hook that
only journals) on top of an environment model of CPython 3.12 `dataclasses` (`_process_class`, `_init_fn`,
`_frozen_get_del_attr`, `_cmp_fn`, `_hash_add`, `_add_slots`, `replace`) and `copy.deepcopy`.

What the decorator itself decides is taken from `PedVerif.Gen.Frozen`, which the translator regenerates from the source on
every run: the options handed to `dataclass(...)` (as Boolean functions of the decorator parameters), the shape of the
bodies of `copy_with` / `deep_copy_with` (`CopyBody`), and the order inside `new_post_init`.

Heap: a Python value is a tree whose mutable nodes (list / dict / set, and instances of plain user classes: hashable by
identity, compared by identity, yet mutable), tuples, frozensets and **instances of `@frozen_dataclass` classes** (`Kind.fz`:
not changeable in place, compared and hashed like the tuple of their fields, and holding arbitrary — also mutable — values in
those fields) carry an identity; atoms (None / int / str) are pure values (CPython shares them).  `deepcopy` threads an allocator (`next`); the invariant
"every live identity is below the allocator" makes every identity it hands out fresh.  A class is the list of its
layers, most derived first (`class B(A)` = `B :: A :: …`).
-/
namespace PedVerif.Frozen
open PedVerif.Gen.Frozen

abbrev Name := Nat

inductive Atom where
  | none | int (i : Int) | str (cs : List Nat)       -- str = list of code points (Python compares strings by code point)
  | unc (id : Nat)                                   -- an object `copy.deepcopy` cannot duplicate (a `threading.Lock`, a generator, an instance
                                                     -- whose `__deepcopy__` raises): opaque, hashable by identity, compared by identity (`id`),
                                                     -- never counted as a mutable node; `deepcopy` of any value that holds one raises TypeError
deriving DecidableEq, Repr

inductive Kind where
  | list | dict | set                                  -- dict items are flattened `[k0, v0, k1, v1, …]`, canonically ordered by the harness
  | fset                                               -- frozenset: immutable and hashable, but `copy.deepcopy` always builds a new one (`__reduce_ex__`)
  | obj                                                -- instance of a plain user class (no `__eq__` / `__hash__` / `__deepcopy__`): mutable,
                                                       -- hashable (identity hash), `==` is identity; items = its attribute values in name order
  | fz (cid : Nat)                                     -- instance of the `@frozen_dataclass` class `cid` (every field compare=True, order=False):
                                                       -- items = its field values in field order.  Cannot be changed in place (like a frozenset),
                                                       -- `==` / `hash` are those of (class, tuple of fields), `<` is a TypeError; its fields may hold
                                                       -- mutable values, and `copy.deepcopy` rebuilds it (`object.__reduce_ex__` → `copy._reconstruct`
                                                       -- with a deep copy of the state) unless the class customises the copy protocol
deriving DecidableEq, Repr

/-- can the node be changed in place (everything with an identity except tuples, frozensets and frozen-dataclass instances) -/
def Kind.mutable : Kind → Bool
  | .fset => false
  | .fz _ => false
  | _ => true

/-- which nodes compare equal / ordered across kinds: `{1} == frozenset({1})`, nothing else mixes; instances of two frozen
    dataclasses can only be equal when they are of the same class (`other.__class__ is self.__class__`) -/
def Kind.eqKey : Kind → Nat
  | .list => 0 | .dict => 1 | .set => 2 | .fset => 2 | .obj => 3 | .fz c => 4 + c

def Kind.isFz : Kind → Bool
  | .fz _ => true
  | _ => false

/-- does `copy.deepcopy` rebuild an instance of a `@frozen_dataclass` class from deep copies of its fields?  It does as long as the
    decorator installs no copy-protocol hook on the class (generated fact `copyProtocolHooks`); with such a hook the model cannot
    tell what `deepcopy` returns and takes the pessimistic reading: the instance itself (`def __deepcopy__(self, memo): return self`) -/
def fzRebuilt : Bool := copyProtocolHooks.isEmpty

def Kind.setLike (k : Kind) : Bool := k.eqKey == 2

inductive Obj where
  | atom (a : Atom)
  | tup (id : Nat) (items : List Obj)                  -- immutable, but has an identity (`is`)
  | box (k : Kind) (id : Nat) (items : List Obj)       -- node that `deepcopy` always re-creates (mutable unless `fset`)
deriving Repr

instance : Inhabited Obj := ⟨.atom .none⟩

mutual
/-- identities of the mutable nodes reachable from a value -/
def Obj.mutIds : Obj → List Nat
  | .atom _ => []
  | .tup _ items => mutIdsL items
  | .box k i items => if k.mutable then i :: mutIdsL items else mutIdsL items
def mutIdsL : List Obj → List Nat
  | [] => []
  | x :: xs => x.mutIds ++ mutIdsL xs
end

mutual
/-- all identities (tuples included) reachable from a value -/
def Obj.allIds : Obj → List Nat
  | .atom _ => []
  | .tup i items => i :: allIdsL items
  | .box _ i items => i :: allIdsL items
def allIdsL : List Obj → List Nat
  | [] => []
  | x :: xs => x.allIds ++ allIdsL xs
end

mutual
/-- "the same value": structural equality, identities ignored at every node (dict / set items are in canonical order).
    An instance of a plain class is the same value as another one iff their attribute values are (same class, equal state);
    on values without such instances this is Python's `==` (`seq_eq_veq_of_noObj` in `Props/C11`). -/
def Obj.seq : Obj → Obj → Bool
  | .atom a, .atom b => a == b
  | .tup _ xs, .tup _ ys => seqL xs ys
  | .box k _ xs, .box k' _ ys => k == k' && seqL xs ys
  | _, _ => false
def seqL : List Obj → List Obj → Bool
  | [], [] => true
  | x :: xs, y :: ys => x.seq y && seqL xs ys
  | _, _ => false
end

mutual
/-- Python `==` on this value universe: structural on builtin containers (set == frozenset allowed), **identity** on
    instances of plain classes (`object.__eq__`), (same class ∧ equal field tuples) on instances of frozen dataclasses -/
def Obj.veq : Obj → Obj → Bool
  | .atom a, .atom b => a == b
  | .tup _ xs, .tup _ ys => veqL xs ys
  | .box k i xs, .box k' j ys =>
      if k == .obj || k' == .obj then k == k' && i == j else k.eqKey == k'.eqKey && veqL xs ys
  | _, _ => false
def veqL : List Obj → List Obj → Bool
  | [], [] => true
  | x :: xs, y :: ys => x.veq y && veqL xs ys
  | _, _ => false
end

mutual
/-- `hash(v)` works: atoms, frozensets and instances of plain classes (identity hash, whatever they hold) are hashable,
    list / dict / set are not, a tuple is iff all its items are, and so is an instance of a frozen dataclass (the generated
    `__hash__` hashes the tuple of fields) -/
def Obj.hashable : Obj → Bool
  | .atom _ => true
  | .tup _ items => hashableL items
  | .box k _ items => if k.isFz then hashableL items else (k == .fset || k == .obj)
def hashableL : List Obj → Bool
  | [] => true
  | x :: xs => x.hashable && hashableL xs
end

mutual
/-- no instance of a plain class anywhere inside -/
def Obj.noObj : Obj → Bool
  | .atom _ => true
  | .tup _ items => noObjL items
  | .box k _ items => k != .obj && noObjL items
def noObjL : List Obj → Bool
  | [] => true
  | x :: xs => x.noObj && noObjL xs
end

/-- Python `is`: identity of the node; atoms are pure values -/
def Obj.ident : Obj → Obj → Bool
  | .atom a, .atom b => a == b
  | .tup i _, .tup j _ => i == j
  | .box _ i _, .box _ j _ => i == j
  | _, _ => false

def identL : List Obj → List Obj → Bool
  | [], [] => true
  | x :: xs, y :: ys => x.ident y && identL xs ys
  | _, _ => false

mutual
/-- `copy.deepcopy` (no aliasing inside the value: the memo is not modelled): every mutable node — list / dict / set, and an
    instance of a plain class, which is rebuilt by `_reconstruct` with a deep copy of its `__dict__` — and every frozenset
    (`__reduce_ex__`: a new one from the copied members) gets the next free identity; so does an instance of a frozen dataclass
    (`__reduce_ex__` → `_reconstruct`: a new instance whose state is a deep copy of the old state), **provided the decorator
    leaves the copy protocol of the class alone** (`fzRebuilt`) — otherwise the instance is returned as it is;
    atoms are returned as they are; a tuple keeps its identity iff all copied items are identical to the old ones
    (`_deepcopy_tuple`), otherwise it is a new tuple -/
def deepcopy : Obj → Nat → Obj × Nat
  | .atom a, n => (.atom a, n)
  | .tup i items, n =>
      let (items', n') := deepcopyL items n
      if identL items items' then (.tup i items', n') else (.tup n' items', n' + 1)
  | .box k i items, n =>
      if k.isFz && !fzRebuilt then (.box k i items, n) else
      let (items', n') := deepcopyL items (n + 1)
      (.box k n items', n')
def deepcopyL : List Obj → Nat → List Obj × Nat
  | [], n => ([], n)
  | x :: xs, n =>
      let (x', n1) := deepcopy x n
      let (xs', n2) := deepcopyL xs n1
      (x' :: xs', n2)
end

mutual
/-- can `copy.deepcopy` duplicate the value at all?  Not if an un-deep-copyable object (`Atom.unc`) sits anywhere inside it — in a list, as a
    dict key or value, in a tuple / set / frozenset, in an attribute of an object, in a field of a nested frozen instance: the traversal reaches
    it and the TypeError it raises there propagates through every enclosing `deepcopy` call -/
def Obj.copyable : Obj → Bool
  | .atom (.unc _) => false
  | .atom _ => true
  | .tup _ items => copyableL items
  | .box _ _ items => copyableL items
def copyableL : List Obj → Bool
  | [] => true
  | x :: xs => x.copyable && copyableL xs
end

/-- does the `deepcopy(...)` call of a copy method raise for this value?  It does for a value that cannot be deep-copied, **provided the call
    is the bare `copy.deepcopy`** (generated fact `deepcopyBare`: the name is the one imported from `copy`, the call is not inside a `try`);
    otherwise the model cannot tell what the call does with such a value and takes the pessimistic reading: the value itself comes back -/
def deepcopyRaises (v : Obj) : Bool := !v.copyable && deepcopyBare

def strLt : List Nat → List Nat → Bool
  | [], [] => false
  | [], _ :: _ => true
  | _ :: _, [] => false
  | a :: as, b :: bs => if a < b then true else if b < a then false else strLt as bs

mutual
/-- Python `<` on this value universe; `none` = TypeError -/
def Obj.vlt : Obj → Obj → Option Bool
  | .atom (.int a), .atom (.int b) => some (decide (a < b))
  | .atom (.str a), .atom (.str b) => some (strLt a b)
  | .tup _ xs, .tup _ ys => lexLt xs ys
  | .box k _ xs, .box k' _ ys =>
      if k == .list && k' == .list then lexLt xs ys
      else if k.setLike && k'.setLike then some (xs.all (fun x => ys.any (fun y => x.veq y)) && decide (xs.length < ys.length))
      else none                                          -- dicts, instances of plain classes / of frozen dataclasses (order=False), mixed kinds: TypeError
  | _, _ => none
/-- sequence comparison: the first pair of items that are not equal decides (with their own `<`), otherwise the lengths -/
def lexLt : List Obj → List Obj → Option Bool
  | [], [] => some false
  | [], _ :: _ => some true
  | _ :: _, [] => some false
  | x :: xs, y :: ys => if x.veq y then lexLt xs ys else x.vlt y
end

/-! ## class descriptions -/

inductive Dflt where
  | none
  | value (o : Obj)                 -- `= o` / `field(default=o)`: one object shared by all instances
  | factory (template : Obj)        -- `field(default_factory=…)`: a fresh structural copy of the template per call
deriving Repr

structure FieldD where
  name : Name
  dflt : Dflt
  init : Bool
  compare : Bool
deriving Repr

/-- one class statement; the Booleans are the arguments written at `@frozen_dataclass(...)` -/
structure Layer where
  cid : Nat
  decorated : Bool
  typeSafe : Bool
  order : Bool
  kwOnly : Bool
  slots : Bool
  postInit : Bool                   -- the class body defines a `__post_init__` (which journals `post`)
  own : List FieldD
deriving Repr

abbrev Cls := List Layer

/-- what `dataclass` receives -/
def Layer.frozen (l : Layer) : Bool := frozenArg l.typeSafe l.order l.kwOnly l.slots
def Layer.effOrder (l : Layer) : Bool := orderArg l.typeSafe l.order l.kwOnly l.slots
def Layer.effKwOnly (l : Layer) : Bool := kwOnlyArg l.typeSafe l.order l.kwOnly l.slots
def Layer.effSlots (l : Layer) : Bool := slotsArg l.typeSafe l.order l.kwOnly l.slots

/-- a `dataclasses.Field` as seen in `__dataclass_fields__` -/
structure FieldR where
  name : Name
  dflt : Dflt
  init : Bool
  compare : Bool
  kwOnly : Bool
deriving Repr

def resolveField (l : Layer) (f : FieldD) : FieldR := ⟨f.name, f.dflt, f.init, f.compare, l.effKwOnly⟩

def hasName (n : Name) (f : FieldR) : Bool := f.name == n

/-- `fields[f.name] = f`: a re-declared field keeps its position -/
def mergeField (acc : List FieldR) (f : FieldR) : List FieldR :=
  if acc.any (hasName f.name) then acc.map (fun g => if g.name == f.name then f else g) else acc ++ [f]

/-- `__dataclass_fields__` of the class: base fields first; an undecorated subclass inherits the attribute -/
def fieldsOf : Cls → List FieldR
  | [] => []
  | l :: rest => if l.decorated then (l.own.map (resolveField l)).foldl mergeField (fieldsOf rest) else fieldsOf rest

def fieldNames (c : Cls) : List Name := (fieldsOf c).map (·.name)

/-- the class whose generated methods an instance uses: skip undecorated subclasses -/
def decoratedPart : Cls → Cls
  | [] => []
  | l :: rest => if l.decorated then l :: rest else decoratedPart rest

def hasDefault (f : FieldR) : Bool := match f.dflt with | .none => false | _ => true

/-- `_init_fn`: among the positional (non-kw_only) init fields no required one may follow a defaulted one -/
def stdOrderOk : List FieldR → Bool → Bool
  | [], _ => true
  | f :: fs, seen =>
    if f.init && !f.kwOnly then
      if hasDefault f then stdOrderOk fs true else (!seen && stdOrderOk fs seen)
    else stdOrderOk fs seen

/-- `dataclasses` refuses a default whose class has `__hash__ = None` (list / dict / set); a frozenset, an instance of a
    plain class or an instance of a frozen dataclass (whatever its fields hold) is accepted -/
def mutableDefault (f : FieldD) : Bool :=
  match f.dflt with
  | .value (.box k _ _) => k == .list || k == .dict || k == .set
  | _ => false

/-- class-definition-time errors of `dataclass` for one class statement -/
def layerDefOk (l : Layer) (rest : Cls) : Bool :=
  if !l.decorated then true else
  let bases := rest.filter (·.decorated)
  let anyFrozen := bases.any (·.frozen)
  let allFrozen := bases.all (·.frozen)
  stdOrderOk (fieldsOf (l :: rest)) false
    && !(anyFrozen && !l.frozen) && !(!allFrozen && l.frozen)
    && !(l.own.any mutableDefault)

def defOk : Cls → Bool
  | [] => true
  | l :: rest => defOk rest && layerDefOk l rest

/-- features of a class statement that make `dataclasses.dataclass` refuse the definition (TypeError, no class is created), depending on the
    options it is called with: a base class that is an ordinary **non-frozen** `@dataclass` ("cannot inherit frozen dataclass from a non-frozen
    one") when `frozen=True`; a `__lt__` defined in the class body ("Cannot overwrite attribute __lt__") when `order=True`; a `__slots__` in the
    class body ("already specifies __slots__") when `slots=True` -/
inductive Hazard where
  | none | nonFrozenDataclassBase | ownLt | ownSlots
deriving DecidableEq, Repr

/-- does `dataclass(...)`, called with the options the decorator derives from the parameters written at this class statement, refuse it? -/
def Hazard.refused (h : Hazard) (l : Layer) : Bool :=
  match h with
  | .none => false
  | .nonFrozenDataclassBase => l.frozen
  | .ownLt => l.effOrder
  | .ownSlots => l.effSlots

/-- class-definition time, with the hazards of every class statement of the chain -/
def defOkH : Cls → List Hazard → Bool
  | [], _ => true
  | l :: rest, hs => defOkH rest hs.tail && layerDefOk l rest && !(l.decorated && (hs.headD .none).refused l)

def nodupNames : List Name → Bool
  | [] => true
  | n :: ns => !ns.contains n && nodupNames ns

def rootDecorated : Cls → Bool
  | [] => false
  | [l] => l.decorated
  | _ :: rest => rootDecorated rest

def plainLayerOk (l : Layer) : Bool := l.decorated || (l.own.isEmpty && !l.postInit)

def initFalseValue (f : FieldR) : Bool := !f.init && (match f.dflt with | .value _ => true | _ => false)
def initFalseNoDefault (f : FieldR) : Bool := !f.init && !hasDefault f

def sameSlots (c : Cls) : Bool :=
  let d := c.filter (·.decorated)
  d.all (·.effSlots) || d.all (fun l => !l.effSlots)

/-- the class shapes the model claims to describe: the root is decorated, undecorated subclasses add nothing,
    field names are unique per class body, every `init=False` field has a default, and an `init=False` field with a
    plain default is not combined with mixed slots / non-slots layers (the slot descriptor would hide the class attribute) -/
def wfCls (c : Cls) : Bool :=
  rootDecorated c && c.all plainLayerOk && c.all (fun l => nodupNames (l.own.map (·.name)))
    && nodupNames (fieldNames c)
    && !(fieldsOf c).any initFalseNoDefault
    && (!(fieldsOf c).any initFalseValue || sameSlots c)

/-! ## instances, construction -/

inductive Exc where
  | frozenInstance | typeError | valueError | attributeError
deriving DecidableEq, Repr

inductive Ev where
  | post | validate
deriving DecidableEq, Repr

structure Inst where
  cls : Cls
  fields : List (Name × Obj)      -- dataclass fields that are set, in field order
  extra : List (Name × Obj)       -- other instance attributes (`__dict__`)
deriving Repr

def headCid : Cls → Option Nat
  | [] => none
  | l :: _ => some l.cid

/-- what `self.__post_init__()` does: the user's hook journals `post`; `new_post_init` (type_safe) calls the previous
    hook and then `validate_types` (order from the source) -/
def postInitEvents : Cls → List Ev
  | [] => []
  | l :: rest =>
    if !l.decorated then postInitEvents rest else
    let old := if l.postInit then [Ev.post] else postInitEvents rest
    if l.typeSafe then
      (if postInitCallsOld then (if postInitOldFirst then old ++ [Ev.validate] else Ev.validate :: old) else [Ev.validate])
    else old

/-- value of one field in the generated `__init__` body; `none` = the attribute stays unset -/
def fieldValue (f : FieldR) (bound : List (Name × Obj)) (n : Nat) : Except Exc (Option Obj × Nat) :=
  if f.init then
    match bound.lookup f.name with
    | some v => .ok (some v, n)
    | none =>
      match f.dflt with
      | .none => .error .typeError                         -- missing required argument
      | .value o => .ok (some o, n)
      | .factory t => let (o, n') := deepcopy t n; .ok (some o, n')
  else
    match f.dflt with
    | .none => .ok (none, n)
    | .value o => .ok (some o, n)                          -- assigned (slots) or read from the class attribute
    | .factory t => let (o, n') := deepcopy t n; .ok (some o, n')

def initFields : List FieldR → List (Name × Obj) → Nat → Except Exc (List (Name × Obj) × Nat)
  | [], _, n => .ok ([], n)
  | f :: fs, bound, n =>
    match fieldValue f bound n with
    | .error e => .error e
    | .ok (none, n1) => initFields fs bound n1
    | .ok (some v, n1) =>
      match initFields fs bound n1 with
      | .error e => .error e
      | .ok (r, n2) => .ok ((f.name, v) :: r, n2)

def isStd (f : FieldR) : Bool := f.init && !f.kwOnly
def initNames (fs : List FieldR) : List Name := (fs.filter (·.init)).map (·.name)

/-- a keyword the generated `__init__` does not accept: not an init field, or already bound positionally -/
def badKw (fs : List FieldR) (posB : List (Name × Obj)) (kv : Name × Obj) : Bool :=
  !(initNames fs).contains kv.1 || (posB.lookup kv.1).isSome

structure Made where
  inst : Inst
  next : Nat
  journal : List Ev
deriving Repr

/-- `cls(*pos, **kw)`: argument binding of the generated `__init__` (TypeError), field assignments, `__post_init__` -/
def construct (c : Cls) (pos : List Obj) (kw : List (Name × Obj)) (n : Nat) : Except Exc Made :=
  let fs := fieldsOf c
  let std := (fs.filter isStd).map (·.name)
  if pos.length > std.length then .error .typeError else
  let posB := std.zip pos
  if kw.any (badKw fs posB) then .error .typeError else
  match initFields fs (posB ++ kw) n with
  | .error e => .error e
  | .ok (vals, n') => .ok ⟨⟨c, vals, []⟩, n', postInitEvents c⟩

/-! ## attribute assignment / deletion -/

def hasDict (c : Cls) : Bool := c.any (fun l => !l.decorated || !l.effSlots)

/-- names that have a slot descriptor somewhere in the MRO (`_add_slots` gives the new class slots for its fields) -/
def slotNames : Cls → List Name
  | [] => []
  | l :: rest => (if l.decorated && l.effSlots then fieldNames (l :: rest) else []) ++ slotNames rest

/-- the chain of generated `__setattr__` / `__delattr__` (`_frozen_get_del_attr`): `some e` = raises, `none` = reaches `object`.
    `type(self) is cls` can only hold for the head class, and never with slots (the closure captured the class that
    `_add_slots` replaced); `super(cls, self)` on that replaced class raises TypeError -/
def frozenWalk (name : Name) : Bool → Cls → Option Exc
  | _, [] => none
  | isHead, l :: rest =>
    if !l.decorated || !l.frozen then frozenWalk name false rest
    else if (isHead && !l.effSlots) || (fieldNames (l :: rest)).contains name then some .frozenInstance
    else if l.effSlots then some .typeError
    else frozenWalk name false rest

def assocSet (l : List (Name × Obj)) (k : Name) (v : Obj) : List (Name × Obj) :=
  if (l.lookup k).isSome then l.map (fun kv => if kv.1 == k then (k, v) else kv) else l ++ [(k, v)]

def assocDel (l : List (Name × Obj)) (k : Name) : List (Name × Obj) := l.filter (fun kv => kv.1 != k)

/-- are `__setattr__` / `__delattr__` of the class those that `dataclass(frozen=True)` generated?  They are as long as the decorator
    installs no attribute-protocol hook on the class (generated fact `attrProtocolHooks`); with such a hook the model cannot tell
    what an assignment does and takes the pessimistic reading: it reaches `object.__setattr__` / `object.__delattr__` -/
def attrProtocolStd : Bool := attrProtocolHooks.isEmpty

/-- what stands between an assignment / deletion and `object.__setattr__` / `object.__delattr__` -/
def attrGate (name : Name) (c : Cls) : Option Exc := if attrProtocolStd then frozenWalk name true c else none

/-- names that are data descriptors of `object`: assigning them does not create an instance attribute.  Every other name that is
    not a field — a new name, the name of a method the decorator added (`copy_with`, `deep_copy_with`, `validate_types`), any other
    special method name — is an ordinary key of the instance `__dict__` for `object.__setattr__` -/
def nameClass : Name := 210          -- `__class__`
def nameDict : Name := 211           -- `__dict__`

/-- the class of an instance after `obj.__class__ = Other` (`Other` an ordinary class with the same layout): nothing is frozen any more -/
def otherCls : Cls := [⟨999, false, false, false, false, false, false, []⟩]

/-- attributes that live in slots survive a replacement of the instance `__dict__` -/
def inSlots (c : Cls) (l : List (Name × Obj)) : List (Name × Obj) := l.filter (fun kv => (slotNames c).contains kv.1)

def setattr (self : Inst) (name : Name) (v : Obj) : Except Exc Inst :=
  match attrGate name self.cls with
  | some e => .error e
  | none =>
    if (fieldNames self.cls).contains name then
      if (slotNames self.cls).contains name || hasDict self.cls then .ok { self with fields := assocSet self.fields name v }
      else .error .attributeError
    else if !hasDict self.cls then .error .attributeError
    else if name == nameClass then
      -- `object.__setattr__(self, '__class__', Other)` succeeds for a class with the same layout: the object is an `Other` now, all its
      -- attributes are plain entries of its `__dict__`
      .ok { cls := otherCls, fields := [], extra := self.fields ++ self.extra }
    else if name == nameDict then
      -- `self.__dict__ = {}`: every attribute that does not live in a slot is gone
      .ok { self with fields := inSlots self.cls self.fields, extra := [] }
    else .ok { self with extra := assocSet self.extra name v }

def delattr (self : Inst) (name : Name) : Except Exc Inst :=
  match attrGate name self.cls with
  | some e => .error e
  | none =>
    if name == nameClass && !(fieldNames self.cls).contains name then .error .typeError         -- "can't delete __class__ attribute"
    else if name == nameDict && !(fieldNames self.cls).contains name then
      if hasDict self.cls then .ok { self with fields := inSlots self.cls self.fields, extra := [] }   -- `del self.__dict__`: a new empty one
      else .error .attributeError
    else if (self.extra.lookup name).isSome then .ok { self with extra := assocDel self.extra name }
    else if (self.fields.lookup name).isSome then .ok { self with fields := assocDel self.fields name }
    else .error .attributeError

/-! ## copy_with / deep_copy_with -/

/-- `{**a, **b}` as keyword arguments (`b` wins; the order of keyword arguments is not observable by `__init__`) -/
def mergeDict (a b : List (Name × Obj)) : List (Name × Obj) :=
  b ++ a.filter (fun kv => (b.lookup kv.1).isNone)

/-- the loop of `dataclasses.replace`: ValueError for an `init=False` name, missing init fields read from the object -/
def replaceChanges (self : Inst) : List FieldR → List (Name × Obj) → Except Exc (List (Name × Obj))
  | [], ch => .ok ch
  | f :: fs, ch =>
    if !f.init then
      if (ch.lookup f.name).isSome then .error .valueError else replaceChanges self fs ch
    else
      match ch.lookup f.name with
      | some _ => replaceChanges self fs ch
      | none =>
        match self.fields.lookup f.name with
        | none => .error .attributeError
        | some v => replaceChanges self fs (ch ++ [(f.name, v)])

/-- `{field.name: [deepcopy](getattr(self, field.name)) for field in fields(self) [if field.init]}` -/
def readCur (deep initOnly : Bool) (self : Inst) : List FieldR → Nat → Except Exc (List (Name × Obj) × Nat)
  | [], n => .ok ([], n)
  | f :: fs, n =>
    if initOnly && !f.init then readCur deep initOnly self fs n else
    match self.fields.lookup f.name with
    | none => .error .attributeError
    | some v =>
      if deep && deepcopyRaises v then .error .typeError else       -- the TypeError of `deepcopy` propagates: no instance
      let (v', n1) := if deep && v.copyable then deepcopy v n else (v, n)
      match readCur deep initOnly self fs n1 with
      | .error e => .error e
      | .ok (r, n2) => .ok ((f.name, v') :: r, n2)

def deepFields : List (Name × Obj) → Nat → List (Name × Obj) × Nat
  | [], n => ([], n)
  | (k, v) :: r, n =>
    let (v', n1) := deepcopy v n
    let (r', n2) := deepFields r n1
    ((k, v') :: r', n2)

structure CopyOut where
  /-- the receiver after the call; `none` = a method body writes to `self`, the model cannot tell -/
  selfAfter : Option Inst
  result : Inst
  next : Nat
  journal : List Ev
deriving Repr

def selfAfterOf (self : Inst) : Option Inst := if copyBodiesWriteSelf then none else some self

def instCls (i : InstCls) (self : Inst) : Cls :=
  match i with
  | .typeSelf => self.cls
  | .newClass => decoratedPart self.cls

def finishCopy (self : Inst) (r : Except Exc Made) : Except Exc CopyOut :=
  match r with
  | .error e => .error e
  | .ok m => .ok ⟨selfAfterOf self, m.inst, m.next, m.journal⟩

def runCopy (b : CopyBody) (self : Inst) (kw : List (Name × Obj)) (n : Nat) : Except Exc CopyOut :=
  match b with
  | .replace deepSelf =>
    let (src, n0) := if deepSelf then
        (let (fs', n') := deepFields self.fields n; ({ self with fields := fs' }, n')) else (self, n)
    match replaceChanges src (fieldsOf src.cls) kw with
    | .error e => .error e
    | .ok ch => finishCopy self (construct src.cls [] ch n0)
  | .build deep initOnly inst kwargsWin =>
    match readCur deep initOnly self (fieldsOf self.cls) n with
    | .error e => .error e
    | .ok (cur, n1) =>
      let merged := if kwargsWin then mergeDict cur kw else mergeDict kw cur
      finishCopy self (construct (instCls inst self) [] merged n1)

/-- `inst.copy_with(**kw)` -/
def copyWith (self : Inst) (kw : List (Name × Obj)) (n : Nat) : Except Exc CopyOut := runCopy copyWithBody self kw n
/-- `inst.deep_copy_with(**kw)` -/
def deepCopyWith (self : Inst) (kw : List (Name × Obj)) (n : Nat) : Except Exc CopyOut := runCopy deepCopyWithBody self kw n

/-! ## `==`, `hash`, `<` -/

def cmpFields (c : Cls) : List FieldR := (fieldsOf c).filter (·.compare)

/-- `(self.f1, self.f2, …)`: AttributeError if one is unset -/
def tupleOf (i : Inst) : List FieldR → Except Exc (List Obj)
  | [] => .ok []
  | f :: fs =>
    match i.fields.lookup f.name with
    | none => .error .attributeError
    | some v =>
      match tupleOf i fs with
      | .error e => .error e
      | .ok r => .ok (v :: r)

/-- `a == b` (`_cmp_fn`: NotImplemented unless the classes are identical, then Python falls back to identity: False) -/
def eqOp (a b : Inst) : Except Exc Bool :=
  if headCid a.cls == headCid b.cls then
    match tupleOf a (cmpFields a.cls), tupleOf b (cmpFields a.cls) with
    | .ok ta, .ok tb => .ok (veqL ta tb)
    | .error e, _ => .error e
    | _, .error e => .error e
  else .ok false

def isFrozenCls (c : Cls) : Bool :=
  match decoratedPart c with
  | [] => false
  | l :: _ => l.frozen

/-- `hash(a)`: `.ok t` = the hash is `hash(t)` for the tuple `t` (`_hash_add`); TypeError if `t` is not hashable
    (a list / dict / set directly or inside tuples), or if the class is not frozen (`eq=True, frozen=False` sets `__hash__ = None`) -/
def hashOp (a : Inst) : Except Exc (List Obj) :=
  if !isFrozenCls a.cls then .error .typeError else
  match tupleOf a (cmpFields a.cls) with
  | .error e => .error e
  | .ok t => if hashableL t then .ok t else .error .typeError

/-- the nearest class (self first) that generated ordering methods -/
def orderPart : Cls → Option Cls
  | [] => none
  | l :: rest => if l.decorated && l.effOrder then some (l :: rest) else orderPart rest

/-- `a < b`: TypeError unless the classes are identical and some class in the MRO was decorated with order=True;
    then the tuples of *that* class's fields are compared -/
def ltOp (a b : Inst) : Except Exc Bool :=
  if headCid a.cls == headCid b.cls then
    match orderPart a.cls with
    | none => .error .typeError
    | some oc =>
      match tupleOf a (cmpFields oc), tupleOf b (cmpFields oc) with
      | .ok ta, .ok tb => (match lexLt ta tb with | some r => .ok r | none => .error .typeError)
      | .error e, _ => .error e
      | _, .error e => .error e
  else .error .typeError

/-- `a <= b` (`_cmp_fn` with `<=`; `a > b` / `a >= b` are `b < a` / `b <= a`): Python compares the tuples of fields, and for the values of this
    universe a tuple is `<=` another iff it is `<` or equal to it (the first pair of items that are not equal decides with its own `<=`, which
    for unequal ints / strs / lists / sets is `<`; tuples without such a pair compare by length) -/
def leOp (a b : Inst) : Except Exc Bool :=
  match ltOp a b with
  | .error e => .error e
  | .ok true => .ok true
  | .ok false =>
    match orderPart a.cls with
    | none => .error .typeError
    | some oc =>
      match tupleOf a (cmpFields oc), tupleOf b (cmpFields oc) with
      | .ok ta, .ok tb => .ok (veqL ta tb)
      | .error e, _ => .error e
      | _, .error e => .error e

/-! ## heap invariant -/

def Inst.allIds (i : Inst) : List Nat := allIdsL (i.fields.map (·.2)) ++ allIdsL (i.extra.map (·.2))
def Inst.mutIds (i : Inst) : List Nat := mutIdsL (i.fields.map (·.2)) ++ mutIdsL (i.extra.map (·.2))

def dfltIds : Dflt → List Nat
  | .none => []
  | .value o => o.allIds
  | .factory t => t.allIds          -- the template's identities are reserved too (it is copied, never handed out)

def clsIds (c : Cls) : List Nat := (fieldsOf c).flatMap (fun f => dfltIds f.dflt)

/-! ## histories: several copies of the same objects, with in-place mutation of field objects in between

A frozen instance cannot be re-bound, but the lists / dicts / sets / objects its fields refer to can be changed in place, and a shallow
copy shares them.  A mutation is applied *by identity*: to every node with that identity in every live instance (functional reading of
"the same object is referenced from several places").  The copy methods are applied to the receiver's **current** value; that they may
be (their result depends on the receiver, the keyword arguments and the allocator only) is the generated fact `copyHelpersStateless` —
without it the model does not know what a copy method returns (`StepOut.unknown`). -/

/-- an in-place change of a list / dict / set / object, on its item list (dict items are flattened) -/
inductive Mut where
  | push (xs : List Obj)            -- `l.append(x)` / `s.add(x)` / `o.a_n = x` (one item), `d[k] = v` for a new key (two items)
  | setAt (i : Nat) (v : Obj)       -- `l[i] = v` / `d[key_i] = v` (odd flattened index) / `o.a_i = v`
  | clear                           -- `.clear()`
deriving Repr

def Mut.apply : Mut → List Obj → List Obj
  | .push xs, items => items ++ xs
  | .setAt i v, items => items.set i v
  | .clear, _ => []

/-- the objects a mutation brings into the node -/
def Mut.vals : Mut → List Obj
  | .push xs => xs
  | .setAt _ v => [v]
  | .clear => []

mutual
/-- the value after the mutable node with identity `target` (wherever it occurs in it) was changed in place -/
def Obj.mutate (target : Nat) (m : Mut) : Obj → Obj
  | .atom a => .atom a
  | .tup i items => .tup i (mutateL target m items)
  | .box k i items =>
      if i == target && k.mutable then .box k i (m.apply (mutateL target m items)) else .box k i (mutateL target m items)
def mutateL (target : Nat) (m : Mut) : List Obj → List Obj
  | [] => []
  | x :: xs => x.mutate target m :: mutateL target m xs
end

def mutFields (target : Nat) (m : Mut) (l : List (Name × Obj)) : List (Name × Obj) := l.map (fun kv => (kv.1, kv.2.mutate target m))

def Inst.mutate (target : Nat) (m : Mut) (i : Inst) : Inst :=
  { i with fields := mutFields target m i.fields, extra := mutFields target m i.extra }

/-- the live instances (the original first, every copy appended) and the allocator -/
structure Hist where
  insts : List Inst
  next : Nat
deriving Repr

inductive Step where
  | copy (deep : Bool) (kw : List (Name × Obj)) (on : Nat)     -- `insts[on].copy_with(**kw)` / `.deep_copy_with(**kw)`
  | change (target : Nat) (m : Mut)                             -- in-place change of the object with identity `target`
deriving Repr

inductive StepOut where
  | copied (recv : Inst) (out : CopyOut)
  | raised (e : Exc)
  | noInst
  | mutated
  | unknown                          -- a copy helper keeps state between calls: the model makes no prediction
deriving Repr

def stepH (h : Hist) : Step → Hist × StepOut
  | .copy deep kw on =>
    match h.insts[on]? with
    | none => (h, .noInst)
    | some self =>
      if !copyHelpersStateless then (h, .unknown) else
      match (if deep then deepCopyWith self kw h.next else copyWith self kw h.next) with
      | .error e => (h, .raised e)
      | .ok out => (⟨h.insts ++ [out.result], out.next⟩, .copied self out)
  | .change target m => (⟨h.insts.map (Inst.mutate target m), h.next⟩, .mutated)

/-- the trace of a history: for every step the state it ran in and what it did -/
def runH : Hist → List Step → List (Hist × Step × StepOut)
  | _, [] => []
  | h, s :: rest => (h, s, (stepH h s).2) :: runH (stepH h s).1 rest

def Hist.mutIds (h : Hist) : List Nat := h.insts.flatMap Inst.mutIds

end PedVerif.Frozen
