import PedVerif.Gen.Retry
/-!
Model of `pedantic/decorators/fn_deco_retry.py: retry_func` (and `retry`, which only forwards).

The loop *shape* (initial counter, guard, increment, where the sleep sits, whether a final call
follows the loop) is taken from `PedVerif.Gen.Retry`, which the translator regenerates from the
source on every run.  The decorated function is a *script*: outcome of the i-th invocation.
-/
namespace PedVerif.Retry
open PedVerif.Gen.Retry

/-- outcome of one invocation of the retried function; the `Nat` is the identity of the object -/
inductive Outc where
  | ret (v : Nat)          -- returns the object with identity v
  | listed (e : Nat)       -- raises an exception matched by `except exceptions`
  | foreign (e : Nat)      -- raises anything else (other Exception classes, BaseException)
deriving DecidableEq, Repr

/-- what the caller of `retry_func` sees -/
inductive Res where
  | ret (v : Nat) | exc (e : Nat)
  | retNone                -- falls off the end (only if the final call were missing)
  | handlerError           -- the `except` block itself raised (AttributeError while formatting the log message)
  | formatError            -- the `except` block itself raised while it formatted the exception it had caught
deriving DecidableEq, Repr

inductive Ev where
  | call (i : Nat)         -- i-th invocation of the function (with the caller's arguments)
  | sleep
deriving DecidableEq, Repr

structure Run where
  trace : List Ev
  res : Res
deriving DecidableEq, Repr

def resOf : Outc → Res
  | .ret v => .ret v | .listed e => .exc e | .foreign e => .exc e

def isStop : Outc → Bool
  | .listed _ => false
  | _ => true

/-- what happens when the `while` guard is false (or the fuel is used up) -/
def afterLoop (script : Nat → Outc) (i : Nat) : Run :=
  if finalCall then ⟨[.call i], resOf (script i)⟩ else ⟨[], .retNone⟩

def handlerEvents : List Ev := if sleepInHandler then [.sleep] else []

/-- mirror of the code:
    `attempt = init; while guard: try: return f() except exceptions: attempt += inc; sleep()`; then `return f()`.
    `fuel` only bounds the recursion; `attempt` is the code's counter; `i` = invocations made so far. -/
def loop (script : Nat → Outc) (attempts : Int) : (fuel : Nat) → (attempt : Int) → (i : Nat) → Run
  | 0, _, i => afterLoop script i
  | fuel + 1, attempt, i =>
    if loopGuard attempt attempts then
      match script i with
      | .listed _ =>
        let r := loop script attempts fuel (attempt + inc) (i + 1)
        ⟨.call i :: (handlerEvents ++ r.trace), r.res⟩
      | o => ⟨[.call i], resOf o⟩
    else afterLoop script i

def retry (script : Nat → Outc) (attempts : Int) : Run :=
  loop script attempts ((attempts - initAttempt).toNat + 1) initAttempt 0

/-- `retry_func` applied to a callable that has (`named`) or lacks a `__name__`: functions, lambdas, bound methods have one,
    `functools.partial` objects and instances with `__call__` do not.  The handler runs for the first time after invocation 0. -/
def retryFor (named : Bool) (script : Nat → Outc) (attempts : Int) : Run :=
  if handlerNeedsName && !named && loopGuard initAttempt attempts && !isStop (script 0) then ⟨[.call 0], .handlerError⟩
  else retry script attempts

/-- the loop when the handler looks at the exception it caught: a listed exception that cannot be formatted (`printable i = false`:
    its `__str__` / `__repr__` raises) makes the handler raise instead of counting the attempt -/
def loopP (printable : Nat → Bool) (script : Nat → Outc) (attempts : Int) : (fuel : Nat) → (attempt : Int) → (i : Nat) → Run
  | 0, _, i => afterLoop script i
  | fuel + 1, attempt, i =>
    if loopGuard attempt attempts then
      match script i with
      | .listed _ =>
        if handlerReadsException && !printable i then ⟨[.call i], .formatError⟩ else
        let r := loopP printable script attempts fuel (attempt + inc) (i + 1)
        ⟨.call i :: (handlerEvents ++ r.trace), r.res⟩
      | o => ⟨[.call i], resOf o⟩
    else afterLoop script i

/-- `retry_func` for every kind of callable (`named`) and every kind of exception object (`printable`) -/
def retryForP (named : Bool) (printable : Nat → Bool) (script : Nat → Outc) (attempts : Int) : Run :=
  if handlerNeedsName && !named && loopGuard initAttempt attempts && !isStop (script 0) then ⟨[.call 0], .handlerError⟩
  else loopP printable script attempts ((attempts - initAttempt).toNat + 1) initAttempt 0

/-- a call of a function decorated with `@retry(...)`: the wrapper forwards to `retry_func` -/
def retryDecorated (named : Bool) (printable : Nat → Bool) (script : Nat → Outc) (attempts : Int) : Run :=
  retryForP named printable script attempts

def Run.calls (r : Run) : Nat := (r.trace.filter (fun e => e != .sleep)).length
def Run.sleeps (r : Run) : Nat := (r.trace.filter (fun e => e == .sleep)).length

end PedVerif.Retry
