import PedVerif.Model.Checker
import PedVerif.Gen.IsInstanceIR
/-!
# Interpreter of the translated checker (`PedVerif.Gen.IsInstanceIR`)

`Gen/IsInstanceIR.lean` is `_check_type`, `_is_instance` and the helper checkers of `check_types.py`, translated statement by
statement.  This file gives the programs a meaning on the annotation syntax of the hand-written model:

* `Intro` / `intro` — what the guards of the code observe of an annotation object (`_get_name`, `__module__`, `_is_generic`,
  `get_base_generic`, `get_type_arguments`, ForwardRef / NewType / UnionType / GenericAlias tests, `__annotations__`, …):
  DESIGN appendix F as a Lean function.  The harness evaluates the real predicates on the concretised object of every case and
  compares them with this function (`harness/props/_intro_common.py`).
* `runBlock` — statement interpreter (structural recursion on the program); `runFn` one activation of a translated function;
  calls between translated functions go through `Ext.call`, stratified by call depth (`ext`).
* `interpIsInstance` — `_is_instance` on an annotation: the generated program run on `intro` of the node; the recursive calls
  the code makes on type arguments / field annotations go through the same interpreter (structural recursion on `Ann`).
* every activation reports the statement it left the function from (`Res.trace`, in order of the calls): the harness observes
  the same list on the real code by line tracing.

`Lemmas/CheckerIR.lean` proves `interpIsInstance … = Checker.isInstance …` for every input (`ir_refines`).
-/
namespace PedVerif.CheckerIR
open PedVerif.Checker PedVerif.Gen.TypeTables PedVerif.Gen.IsInstanceIR

/-- outcome of one activation and the statements the activations left from: own statement id first, then - in call order - the
    activations it started -/
structure Res where
  raw : Raw
  trace : List Nat
deriving Repr, DecidableEq

/-- what the code observes of the annotation object `type_` -/
structure Intro where
  isNone : Bool := false                    -- type_ is None
  strName : Option NameId := none           -- isinstance(type_, str): the string
  /-- `_get_name(type_)`; `none` = a name that is no key of a name-indexed table (`_name` is None, or the `__name__` of a class /
      NewType of the class table) -/
  name : Option String := none
  nargs : Nat := 0                          -- len(get_type_arguments(type_))
  module : Option Bool := some false        -- type_.__module__ == 'typing'; none: reading `__module__` raises AttributeError
  isGeneric : Bool := false                 -- _is_generic(type_)
  originName : Option String := none        -- _get_name(get_base_generic(type_) if _is_generic(type_) else type_), same convention
  isUnionType : Bool := false               -- isinstance(type_, types.UnionType)
  eqTyping : Option String := none          -- the name X with type_ == typing.X among the constants `_is_instance` compares with
  isTypeVar : Bool := false
  originEqTyping : Option String := none    -- getattr(type_, '__origin__', None) == typing.X
  originCls : Option ClsId := none          -- type_.__origin__ when it is a class of the table
  basePath : Option String := none          -- "typing.<X>": get_base_generic(type_) is typing.<X>
  isFwdRef : Bool := false                  -- isinstance(type_, typing.ForwardRef)
  fwdName : NameId := 0                     -- type_.__forward_arg__
  isNewTypeInst : Bool := false             -- type(type_) == typing.NewType
  qualnameIsNewType : Option Bool := some false   -- type_.__qualname__ == NewType('name', int).__qualname__; none: no `__qualname__`
  supertype : ClsId := 0                    -- type_.__supertype__
  hasFieldTypes : Bool := false             -- hasattr(type_, '_field_types')
  annotations : Option (List NameId) := none   -- keys of type_.__annotations__; none: no such attribute
  builtin : Option String := none           -- the object is the builtin class of that name (what `type_ in {list, …}` asks)
  isGenericAlias : Bool := false            -- isinstance(type_, types.GenericAlias)
  convertOk : Bool := true                  -- convert_to_typing_types(type_) returns
  asClass : Option ClsId := none            -- the class `isinstance(obj, type_)` tests against; none: TypeError
  isProtocolMeta : Bool := false            -- type(type_) == _ProtocolMeta
  isNTClass : Bool := false                 -- isinstance(type_, type) and issubclass(type_, tuple) and hasattr(type_, '_fields')
  args : List Ann := []                     -- get_type_arguments(type_), without a trailing Ellipsis
  ellipsis : Bool := false                  -- Ellipsis in get_type_arguments(type_)
  lits : List Lit := []                     -- the arguments of Literal[…]
  fieldAnns : List Ann := []                -- values of type_.__annotations__
deriving Repr

def BareOrigin.originCls (env : Env) : BareOrigin → Option ClsId
  | .list | .tList => some (env.seqCls .list)
  | .set | .tSet => some (env.seqCls .set)
  | .frozenset | .tFrozenSet => some (env.seqCls .frozenset)
  | .dict | .tDict => some (env.mapCls .dict)
  | .tuple | .tTuple => some env.tupleCls
  | .type_ | .tType => some env.typeCls
  | .tIterable => some (env.seqCls .iterable)
  | .tSequence => some (env.seqCls .sequence)
  | .tCallable | .tUnion | .tOptional => none

def unionIntroName : USpell → Nat → Option String
  | .union, n => if 2 ≤ n then none else some "Union"   -- Union[X, Y]._name is None; shorter member lists denote no typing object
  | .optional, _ => some "Optional"                    --   (Union[X] is X): they get the row of the bare `typing.Union`
  | .pipe, _ => some "nionType"

/-- **Appendix F as a function.**  `pc`: the node is an argument of a PEP 585 alias that `convert_to_typing_types` has already
    translated (it then is the typing spelling). -/
def intro (env : Env) (pc : Bool) : Ann → Intro
  | .none => { isNone := true, name := some "oneType", originName := some "oneType", module := none, qualnameIsNewType := none }
  | .strAnn n => { strName := some n, name := some "tr", originName := some "tr", module := none, qualnameIsNewType := none }
  | .cls c => { asClass := some c, isNTClass := env.isNT c }
  | .clsF c names anns => { asClass := some c, annotations := some names, fieldAnns := anns, isNTClass := env.isNT c }
  | .any => { name := some "Any", originName := some "Any", module := some true, annotations := some [] }   -- typing.Any is a class
  | .union sp ms =>
      match sp with
      | .pipe => { name := some "nionType", originName := some "nionType", nargs := ms.length, isUnionType := true, args := ms,
                   qualnameIsNewType := none }
      | sp => { name := unionIntroName sp ms.length, originName := some (unionCheckerName sp), nargs := ms.length,
                module := some true, isGeneric := true, args := ms }
  | .literal ls => { originName := some "Literal", nargs := ls.length, module := some true, isGeneric := true, lits := ls }
  | .newType s => { isNewTypeInst := true, supertype := s }
  | .fwd n => { name := some "orwardRef", originName := some "orwardRef", module := some true, isFwdRef := true, fwdName := n,
                qualnameIsNewType := none }
  | .typeOf sp0 a =>
      match effSpell pc sp0 with
      | .typing => { name := some "Type", originName := some "Type", nargs := 1, module := some true, isGeneric := true,
                     originCls := some env.typeCls, basePath := some "typing.Type", args := [a] }
      | .pep585 => { name := some "type", originName := some "type", nargs := 1, isGenericAlias := true, originCls := some env.typeCls,
                     convertOk := originConvertible "type" && convOk a, args := [a] }
  | .seq sp0 o a =>
      match effSpell pc sp0 with
      | .typing => { name := some o.typingName, originName := some o.typingName, nargs := 1, module := some true, isGeneric := true,
                     originCls := some (env.seqCls o), basePath := some ("typing." ++ o.typingName), args := [a] }
      | .pep585 => { name := some o.runtimeName, originName := some o.runtimeName, nargs := 1, isGenericAlias := true,
                     originCls := some (env.seqCls o),
                     convertOk := originConvertible o.runtimeName && convOk a,
                     annotations := if o.aliasAnnotated then some [] else none, args := [a] }
  | .map sp0 o k w =>
      match effSpell pc sp0 with
      | .typing => { name := some o.typingName, originName := some o.typingName, nargs := 2, module := some true, isGeneric := true,
                     originCls := some (env.mapCls o), basePath := some ("typing." ++ o.typingName), args := [k, w] }
      | .pep585 => { name := some o.runtimeName, originName := some o.runtimeName, nargs := 2, isGenericAlias := true,
                     originCls := some (env.mapCls o),
                     convertOk := originConvertible o.runtimeName && convOk k && convOk w,
                     annotations := if o.aliasAnnotated then some [] else none, args := [k, w] }
  | .tuple sp0 items =>
      match effSpell pc sp0 with
      | .typing => { name := some "Tuple", originName := some "Tuple", nargs := items.length, module := some true, isGeneric := true,
                     originCls := some env.tupleCls, basePath := some "typing.Tuple", args := items }
      | .pep585 => { name := some "tuple", originName := some "tuple", nargs := items.length, isGenericAlias := true,
                     originCls := some env.tupleCls,
                     convertOk := originConvertible "tuple" && convOk.convOkL items, args := items }
  | .tupleVar sp0 a =>
      match effSpell pc sp0 with
      | .typing => { name := some "Tuple", originName := some "Tuple", nargs := 2, module := some true, isGeneric := true,
                     originCls := some env.tupleCls, basePath := some "typing.Tuple", args := [a], ellipsis := true }
      | .pep585 => { name := some "tuple", originName := some "tuple", nargs := 2, isGenericAlias := true, originCls := some env.tupleCls,
                     convertOk := originConvertible "tuple" && convOk a, args := [a], ellipsis := true }
  | .bare o =>
      if o.isBuiltin then { name := some o.name, originName := some o.name, builtin := some o.name, asClass := BareOrigin.originCls env o }
      else { name := some o.name, originName := some o.name, module := some true, isGeneric := true,
             originCls := BareOrigin.originCls env o, basePath := some ("typing." ++ o.name) }
  | .special _ => {}

/-- the class a forward reference resolves to, seen as an annotation object (a class of the context: never one of the builtin
    containers, a typing object or a NewType) -/
def introResolved (env : Env) (c : ClsId) : Intro := { asClass := some c, annotations := env.fieldNames c, isNTClass := env.isNT c }

/-! ### results of the recursive calls available to one node -/
def oob : Res := ⟨.raisedOther, []⟩

structure Kids where
  /-- `REC(x, args[i])` -/
  arg : Nat → Val → Res := fun _ _ => oob
  /-- `[REC(x, t) for t in args]` -/
  each : Val → List Res := fun _ => []
  /-- `REC(x, t) for x, t in zip(xs, args)` -/
  zip : List Val → List Res := fun _ => []
  /-- `REC(obj._asdict()[k], t) for k, t in field_types.items() <if k in as_dict>`, given whether the filter is there and the names
      and values of `obj` -/
  fields : Bool → List NameId → List Val → List Res := fun _ _ _ => []
  /-- `REC(x, convert_to_typing_types(type_))` -/
  converted : Val → Res := fun _ => oob
  /-- `REC(x, <the class the forward reference names>)` -/
  resolved : ClsId → Val → Res := fun _ _ => oob
  /-- `REC(obj, type_)` (`_check_type`) -/
  self : Unit → Res := fun _ => oob

/-- how the first parameter of the running function is read: as the value itself, through its tuple protocol (`tup: Tuple`),
    or - after `.items()` - as key/value pairs -/
inductive View where
  | obj | tuple | items (kvs : List (Val × Val))

/-- one activation of a translated function -/
structure Frame where
  env : Env
  I : Intro
  v : Val
  view : View := .obj
  K : Kids := {}

/-- locals the tests read -/
structure St where
  fieldSrc : Option String := none        -- `field_types` was bound from this attribute
  matched : Bool := false                 -- `matches_non_type_var`
  kids : List Nat := []                   -- traces of the activations started so far
  caught : Option Raw := none             -- inside a handler: the exception being handled

/-- calls between translated functions -/
structure Ext where
  pred : String → Frame → Option Bool     -- helper predicate (`_is_forward_ref`, `_is_type_new_type`); none: it raised
  call : String → Frame → Res

/-! ### environment facts (CPython 3.12) -/
def typingAttrs : List String := ["Never", "LiteralString", "Self", "Unpack", "ForwardRef", "NewType", "TypeVar", "Any"]
def typesAttrs : List String := ["UnionType", "GenericAlias"]
def moduleHasAttr (m a : String) : Bool := (m == "typing" && typingAttrs.contains a) || (m == "types" && typesAttrs.contains a)

/-- `_has_required_type_arguments` on an observed name -/
def reqOk : Option String → Nat → Bool
  | some n, k => requiredArgsOk n k
  | Option.none, _ => true

def Frame.iter (F : Frame) : Option (List Val) :=
  match F.view with
  | .obj => F.v.iter
  | .tuple => F.v.tupleItems
  | .items _ => Option.none

def inTable (t : List (String × String)) : Option String → Bool
  | some k => (lookupS t k).isSome
  | Option.none => false

/-- a test: `none` = evaluating it raises (AttributeError, KeyError, TypeError: an "other" exception) -/
def evalG (X : Ext) (F : Frame) (st : St) : Guard → Option Bool
  | .tt => some true
  | .not g => (evalG X F st g).map (!·)
  | .and a b => match evalG X F st a with
      | some true => evalG X F st b
      | r => r
  | .or a b => match evalG X F st a with
      | some false => evalG X F st b
      | r => r
  | .moduleHas m a => some (moduleHasAttr m a)
  | .requiredArgsOk => some (reqOk F.I.name F.I.nargs)
  | .moduleIsTyping => F.I.module
  | .originNameInSpecial => some (inTable specialCheckers F.I.originName)
  | .isUnionType => some F.I.isUnionType
  | .eqTyping c => some (F.I.eqTyping == some c)
  | .selfUnbound => Option.none                    -- type_vars[TYPE_VAR_SELF]: no annotation of the syntax is typing.Self
  | .isTypeVar => some F.I.isTypeVar
  | .originEqTyping c => some (F.I.originEqTyping == some c)
  | .isGeneric => some F.I.isGeneric
  | .objIsinstanceOrigin => F.I.originCls.map fun c => F.env.sub (F.v.typeOf F.env) c
  | .baseInOriginCheckers => some (inTable originCheckers F.I.basePath)
  | .isForwardRef => X.pred "_is_forward_ref" F
  | .isNewType => X.pred "_is_type_new_type" F
  | .objHasAttr a => some (a == "_asdict" && F.v.hasAsdict)
  | .typeHasAttr a => some ((a == "_field_types" && F.I.hasFieldTypes) || (a == "__annotations__" && F.I.annotations.isSome))
  | .asdictKeysEqFieldKeys =>
      if st.fieldSrc == some "__annotations__" && F.v.hasAsdict then F.I.annotations.map fun ns => sameKeys F.v.asdictKeys ns
      else Option.none
  | .typeInBuiltins names => some (match F.I.builtin with | some b => names.contains b | Option.none => false)
  | .isGenericAlias => some F.I.isGenericAlias
  | .typeIsProtocolMeta => some F.I.isProtocolMeta
  | .typeIsNamedTupleClass => some F.I.isNTClass
  | .objIsinstanceType => F.I.asClass.map fun c => F.env.sub (F.v.typeOf F.env) c
  | .typeIsNone => some F.I.isNone
  | .typeIsStr => some F.I.strName.isSome
  | .resolvedIsClass => some ((F.I.strName.bind F.env.ctx).isSome)
  | .typeIsinstanceTyping c => some (c == "ForwardRef" && F.I.isFwdRef)
  | .typeOfTypeEqTyping c => some (c == "NewType" && F.I.isNewTypeInst)
  | .objIsIterator => some (F.env.sub (F.v.typeOf F.env) F.env.iteratorCls)
  | .ellipsisInArgs => some F.I.ellipsis
  | .objEmptyAndArgsUnit => some false            -- `args == ((),)`: Tuple[()] has no arguments in 3.12
  | .lenObjNeLenArgs => F.iter.map fun xs => xs.length != F.I.nargs
  | .argEqAny i => some (match F.I.args[i]? with | some .any => true | _ => false)
  | .argIsTypeVar _ => some false
  | .matchesNonTypeVar => some st.matched
  | .hasUnboundedTypeVars => some false
  | .oneUnboundedTypeVar => some false

/-! ### quantified loops over results that are already there (the model is pure: an element that Python would not evaluate is
    simply not looked at; its trace is dropped) -/
def _root_.PedVerif.Checker.Raw.isExc : Raw → Bool
  | .ok _ => false
  | _ => true

def _root_.PedVerif.Checker.Raw.isTrue : Raw → Bool
  | .ok true => true
  | _ => false

/-- `all(<generator>)`: stops at the first result that is not True -/
def allLazy : List Res → Res
  | [] => ⟨.ok true, []⟩
  | r :: rs => match r.raw with
      | .ok true => let t := allLazy rs; ⟨t.raw, r.trace ++ t.trace⟩
      | x => ⟨x, r.trace⟩
/-- `any(<generator>)`: stops at the first result that is not False -/
def anyLazy : List Res → Res
  | [] => ⟨.ok false, []⟩
  | r :: rs => match r.raw with
      | .ok false => let t := anyLazy rs; ⟨t.raw, r.trace ++ t.trace⟩
      | x => ⟨x, r.trace⟩
/-- `all([...])`: the list is built first - every element is evaluated, the first exception propagates -/
def allEager : List Res → Res
  | [] => ⟨.ok true, []⟩
  | r :: rs => if r.raw.isExc then ⟨r.raw, r.trace⟩ else let t := allEager rs; ⟨allStep r.raw t.raw, r.trace ++ t.trace⟩
def anyEager : List Res → Res
  | [] => ⟨.ok false, []⟩
  | r :: rs => if r.raw.isExc then ⟨r.raw, r.trace⟩ else let t := anyEager rs; ⟨anyStep r.raw t.raw, r.trace ++ t.trace⟩

def quant (q : String) (lazy : Bool) (rs : List Res) : Res :=
  if q == "all" then (if lazy then allLazy rs else allEager rs) else (if lazy then anyLazy rs else anyEager rs)

/-- `A and B` / `A or B` over results, left to right -/
def conjRes (conj : String) : List Res → Res
  | [] => ⟨.ok (conj != "or"), []⟩
  | [r] => r
  | r :: rs => match r.raw with
      | .ok b => if b == (conj != "or") then let t := conjRes conj rs; ⟨t.raw, r.trace ++ t.trace⟩ else r
      | _ => r

def excOf (cls : String) : Raw :=
  if cls == "PedanticTypeCheckException" then .raisedPed
  else if cls == "PedanticTypeVarMismatchException" then .raisedTV
  else .raisedOther

/-- does `except <names>` catch the exception; `hint`: the class of an "other" exception when the raising statement fixes it -/
def catches (names : List String) (r : Raw) (hint : String) : Bool :=
  match r with
  | .ok _ => false
  | .raisedPed => names.any fun n => n == "PedanticTypeCheckException" || n == "PedanticException" || n == "Exception" || n == "BaseException"
  | .raisedTV => names.any fun n => n == "PedanticTypeVarMismatchException" || n == "PedanticException" || n == "Exception" || n == "BaseException"
  | .raisedOther => names.any fun n => n == "Exception" || n == "BaseException" || (hint != "" && n == hint)

inductive Step where
  | next (st : St)
  | done (r : Res) (hint : String)

/-- the declared protocol of the first parameter of a checker registered by origin (`tup: Tuple`) -/
def viewOf (fn : String) : View := if fn == "_instancecheck_tuple" then .tuple else .obj

/-- `_instancecheck_callable` on the annotation syntax (only the bare `typing.Callable` can reach it): model `PedVerif.Callable` -/
def callableOpaque (v : Val) : Raw := if v.isNone then .ok false else .raisedOther

def doAct (X : Ext) (F : Frame) (id : Nat) (a : Action) (st : St) : Step :=
  let ret : Raw → Step := fun r => .done ⟨r, id :: st.kids⟩ ""
  let sub : Res → Step := fun r => .done ⟨r.raw, id :: (st.kids ++ r.trace)⟩ ""
  match a with
  | .raise cls => ret (excOf cls)
  | .reraise => ret (st.caught.getD .raisedOther)
  | .returnConst b => ret (.ok b)
  | .returnGuard g => ret (match evalG X F st g with | some b => .ok b | Option.none => .raisedOther)
  | .returnObjEqType => ret (.ok F.v.isNone)
  | .returnIsinstanceResolved =>
      ret (match F.I.strName.bind F.env.ctx with | some c => .ok (F.env.sub (F.v.typeOf F.env) c) | Option.none => .raisedOther)
  | .returnAnyMroNameEqType =>
      ret (match F.I.strName with | some n => .ok ((F.env.mroNames (F.v.typeOf F.env)).contains n) | Option.none => .raisedOther)
  | .returnIsInstance => sub (F.K.self ())
  | .returnSpecialChecker =>
      match F.I.originName.bind (lookupS specialCheckers) with
      | some fn => if fn == "const_true" then ret (.ok true) else if fn == "const_false" then ret (.ok false)
                   else if fn == "_instancecheck_callable" then ret (callableOpaque F.v) else sub (X.call fn F)
      | Option.none => ret .raisedOther
  | .returnOriginChecker =>
      match F.I.basePath.bind (lookupS originCheckers) with
      | some fn => sub (X.call fn { F with view := viewOf fn })
      | Option.none => ret .raisedOther
  | .returnCall fn => sub (X.call fn F)
  | .returnCallOnItems fn =>
      match F.v.items with
      | some kvs => sub (X.call fn { F with view := .items kvs })
      | Option.none => ret .raisedOther
  | .returnIsinstanceOf _ => ret .raisedOther             -- BinaryIO / TextIO / LiteralString: no annotation of the syntax
  | .returnRecurseSelf => ret .raisedOther
  | .typeVarBranch _ => ret .raisedOther
  | .assertBaseIsGeneric => ret .raisedOther               -- list.__base__ is object: AssertionError
  | .returnIsinstanceBase => ret .raisedOther
  | .returnRecurseResolved =>
      match F.env.ctx F.I.fwdName with
      | some c => sub (F.K.resolved c F.v)
      | Option.none => ret .raisedOther                    -- NameError from eval
  | .returnIsinstanceSupertype => ret (.ok (F.env.sub (F.v.typeOf F.env) F.I.supertype))
  | .bindFieldTypes attr => .next { st with fieldSrc := some attr }
  | .bindFieldTypesFirstOf _ =>                           -- `_field_types` is gone since Python 3.9: the `or` falls to `__annotations__` / {}
      if F.I.hasFieldTypes then ret .raisedOther else .next { st with fieldSrc := some "__annotations__" }
  | .bindAsDict => if F.v.hasAsdict then .next st else ret .raisedOther      -- AttributeError
  | .returnQuantFields q lazy only =>
      if F.v.hasAsdict then sub (quant q lazy (F.K.fields only F.v.asdictKeys (F.v.tupleItems.getD []))) else ret .raisedOther
  | .returnRecurseConverted => if F.I.convertOk then sub (F.K.converted F.v) else ret .raisedOther
  | .returnIsinstanceType =>
      match F.I.asClass with
      | some c => ret (.ok (F.env.sub (F.v.typeOf F.env) c))
      | Option.none => .done ⟨.raisedOther, id :: st.kids⟩ "TypeError"
  | .requireArg i => if i < F.I.nargs then .next st else ret .raisedOther
  | .unpackArgs n => if F.I.nargs == n then .next st else ret .raisedOther
  | .returnQuantIter q lazy i =>
      match F.iter with
      | some xs => sub (quant q lazy (xs.map (F.K.arg i)))
      | Option.none => ret .raisedOther
  | .returnQuantZip q lazy =>
      match F.iter with
      | some xs => sub (quant q lazy (F.K.zip xs))
      | Option.none => ret .raisedOther
  | .returnQuantItems q lazy conj parts =>
      match F.view with
      | .items kvs => sub (quant q lazy (kvs.map fun kv => conjRes conj (parts.map fun p => F.K.arg p.2 (if p.1 then kv.1 else kv.2))))
      | _ => ret .raisedOther
  | .returnObjInArgs => ret (match F.v with | .lit l => .ok (F.I.lits.any (litEq l)) | _ => .ok false)
  | .returnIsSubtypeObjArg i =>
      ret (match F.v, F.I.args[i]? with | .clsObj c, some a => isSubtypeCls F.env c a | _, _ => .raisedOther)
  | .partitionTypeVars => .next st
  | .bindMatches q lazy =>
      let r := quant q lazy (F.K.each F.v)
      if r.raw.isExc then sub r else .next { st with matched := r.raw.isTrue, kids := st.kids ++ r.trace }
  | .forBoundedTryReturnTrue => .next st                   -- no TypeVar among the members
  | .returnRecurseUnbounded _ => ret .raisedOther
  | .returnQualnameEqNewType => ret (match F.I.qualnameIsNewType with | some b => .ok b | Option.none => .raisedOther)

mutual
def runStmt (X : Ext) (F : Frame) : Stmt → St → Step
  | .ite id g thn els, st =>
      match evalG X F st g with
      | Option.none => .done ⟨.raisedOther, id :: st.kids⟩ ""
      | some true => runBlock X F thn st
      | some false => runBlock X F els st
  | .act id a, st => doAct X F id a st
  | .tryCatch _ body hs, st =>
      match runBlock X F body st with
      | .next st' => .next st'
      | .done r hint => if r.raw.isExc then runHandlers X F hs r hint st else .done r hint
def runBlock (X : Ext) (F : Frame) : Block → St → Step
  | .nil, st => .next st
  | .cons s rest, st =>
      match runStmt X F s st with
      | .next st' => runBlock X F rest st'
      | d => d
def runHandlers (X : Ext) (F : Frame) : Handlers → Res → String → St → Step
  | .nil, r, hint, _ => .done r hint
  | .cons names body rest, r, hint, st =>
      if catches names r.raw hint then runBlock X F body { st with kids := r.trace.drop 1, caught := some r.raw }
      else runHandlers X F rest r hint st
end

def lookupProg (t : List (String × Block)) (k : String) : Option Block :=
  match t with
  | [] => Option.none
  | (k', b) :: rest => if k' == k then some b else lookupProg rest k

/-- id reported when an activation runs off the end of its program (`return None`) -/
def fellOff : Nat := 9999

/-- one activation of the translated function `fn` -/
def runFn (X : Ext) (fn : String) (F : Frame) : Res :=
  match lookupProg progs fn with
  | Option.none => oob
  | some b => match runBlock X F b {} with
      | .done r _ => r
      | .next st => ⟨.ok false, fellOff :: st.kids⟩

def noExt : Ext := ⟨fun _ _ => Option.none, fun _ _ => oob⟩
/-- helper predicates call nothing -/
def predOf (fn : String) (F : Frame) : Option Bool :=
  match (runFn noExt fn F).raw with
  | .ok b => some b
  | _ => Option.none
/-- `ext n`: the callee may itself call to depth `n` -/
def ext : Nat → Ext
  | 0 => ⟨predOf, fun _ _ => oob⟩
  | n + 1 => ⟨predOf, runFn (ext n)⟩

/-- `_is_instance` → `_instancecheck_union` → `_check_union`, `_is_instance` → `_instancecheck_mapping` → `_instancecheck_items_view` -/
def callDepth : Nat := 2

/-- one activation of `_is_instance` on an annotation node, given the results of the recursive calls on its parts -/
def node (env : Env) (pc : Bool) (a : Ann) (v : Val) (K : Kids) : Res :=
  let conv : Val → Res := fun x => runFn (ext callDepth) "_is_instance" { env := env, I := intro env true a, v := x, K := K }
  let res : ClsId → Val → Res := fun c x =>
    runFn (ext callDepth) "_is_instance"
      { env := env, I := introResolved env c, v := x,
        K := { fields := fun only vn _ =>                  -- field annotations of that class: not modelled
                 (((env.fieldNames c).getD []).filter fun n => !only || vn.contains n).map fun _ => oob } }
  runFn (ext callDepth) "_is_instance" { env := env, I := intro env pc a, v := v, K := { K with converted := conv, resolved := res } }

mutual
/-- **`_is_instance`, interpreted.** -/
def interpIsInstance (env : Env) (orc : Nat → Val → Raw) : Bool → Ann → Val → Res
  | _, .special k, v => ⟨orc k v, []⟩                     -- objects outside the syntax: the oracle
  | pc, .none, v => node env pc .none v {}
  | pc, .cls c, v => node env pc (.cls c) v {}
  | pc, .clsF c names anns, v =>
      node env pc (.clsF c names anns) v { fields := fun only vn xs => interpFields env orc only false names anns vn xs }
  | pc, .any, v => node env pc .any v {}
  | pc, .union sp ms, v => node env pc (.union sp ms) v { each := fun x => interpEach env orc false ms x }
  | pc, .literal ls, v => node env pc (.literal ls) v {}
  | pc, .newType s, v => node env pc (.newType s) v {}
  | pc, .typeOf sp0 a, v => node env pc (.typeOf sp0 a) v {}
  | pc, .fwd n, v => node env pc (.fwd n) v {}
  | pc, .strAnn n, v => node env pc (.strAnn n) v {}
  | pc, .seq sp0 o a, v =>
      node env pc (.seq sp0 o a) v { arg := fun i x => match i with | 0 => interpIsInstance env orc (sp0 == .pep585) a x | _ => oob }
  | pc, .map sp0 o k w, v =>
      node env pc (.map sp0 o k w) v
        { arg := fun i x => match i with
            | 0 => interpIsInstance env orc (sp0 == .pep585) k x
            | 1 => interpIsInstance env orc (sp0 == .pep585) w x
            | _ => oob }
  | pc, .tuple sp0 items, v => node env pc (.tuple sp0 items) v { zip := fun xs => interpZip env orc (sp0 == .pep585) items xs }
  | pc, .tupleVar sp0 a, v =>
      node env pc (.tupleVar sp0 a) v { arg := fun i x => match i with | 0 => interpIsInstance env orc (sp0 == .pep585) a x | _ => oob }
  | pc, .bare o, v => node env pc (.bare o) v {}
def interpEach (env : Env) (orc : Nat → Val → Raw) : Bool → List Ann → Val → List Res
  | _, [], _ => []
  | pc, a :: as, v => interpIsInstance env orc pc a v :: interpEach env orc pc as v
def interpZip (env : Env) (orc : Nat → Val → Raw) : Bool → List Ann → List Val → List Res
  | pc, a :: as, x :: xs => interpIsInstance env orc pc a x :: interpZip env orc pc as xs
  | _, _, _ => []
def interpFields (env : Env) (orc : Nat → Val → Raw) (only : Bool) : Bool → List NameId → List Ann → List NameId → List Val → List Res
  | pc, n :: ns, a :: as, vnames, xs =>
      match lookupField vnames xs n with
      | Option.none => if only then interpFields env orc only pc ns as vnames xs        -- `if k in as_dict`
                       else oob :: interpFields env orc only pc ns as vnames xs        -- KeyError
      | some x => interpIsInstance env orc pc a x :: interpFields env orc only pc ns as vnames xs
  | _, _, _, _, _ => []
end

def toOut : Raw → Out
  | .ok true => .accept
  | .ok false => .reject
  | .raisedPed => .pedErr
  | .raisedTV => .tvMismatch
  | .raisedOther => .escape

/-- **`_check_type`, interpreted**: outcome and trace -/
def interpCheckType (env : Env) (orc : Nat → Val → Raw) (a : Ann) (v : Val) : Res :=
  runFn (ext 0) "_check_type" { env := env, I := intro env false a, v := v, K := { self := fun _ => interpIsInstance env orc false a v } }

def checkTypeIR (env : Env) (orc : Nat → Val → Raw) (a : Ann) (v : Val) : Out := toOut (interpCheckType env orc a v).raw

/-- the statements the activations of `_check_type`, `_is_instance` and the checkers leave from, in call order -/
def interpTrace (env : Env) (orc : Nat → Val → Raw) (a : Ann) (v : Val) : List Nat := (interpCheckType env orc a v).trace

end PedVerif.CheckerIR
