/-!
Base vocabulary of the `Validators` model (C14): exact numbers, Python values as far as the validators look
at them, exception classes, outcomes.  Hand-written; `PedVerif.Gen.Validators` (generated) is phrased in it.

* `Num` — Python compares `int`/`float` exactly; every finite float is a dyadic rational
  (`float.as_integer_ratio()`), so `fin num den` with cross-multiplied `Int` comparison is an exact model.
  No Lean `Float` anywhere.
* strings are `List Char`; which characters are whitespace is a parameter (`isSpace`) — the ASCII part is computed
  here (`asciiSpace`), the non-ASCII part is a table the harness supplies for the characters in use.
-/
namespace PedVerif.Validators

/-! ### exact numbers -/

inductive Num where
  | fin (num : Int) (den : Nat)     -- the rational num/den; the harness only sends den > 0
  | pinf | ninf | nan
deriving DecidableEq, Repr

namespace Num
def isNan : Num → Bool | .nan => true | _ => false
/-- well-formed: a positive denominator -/
def wf : Num → Bool | .fin _ d => decide (0 < d) | _ => true

/-- Python `a < b` on int/float operands (exact; every comparison with NaN is false) -/
def lt : Num → Num → Bool
  | .nan, _ => false | _, .nan => false
  | .ninf, .ninf => false | .ninf, _ => true
  | _, .ninf => false
  | .pinf, _ => false
  | _, .pinf => true
  | .fin a b, .fin c d => decide (a * d < c * b)
/-- Python `a <= b` -/
def le : Num → Num → Bool
  | .nan, _ => false | _, .nan => false
  | .ninf, _ => true
  | _, .ninf => false
  | _, .pinf => true
  | .pinf, _ => false
  | .fin a b, .fin c d => decide (a * d ≤ c * b)
/-- Python `a > b`, `a >= b`, `a == b`, `a != b` -/
def gt (a b : Num) : Bool := lt b a
def ge (a b : Num) : Bool := le b a
def eq : Num → Num → Bool
  | .nan, _ => false | _, .nan => false
  | .ninf, .ninf => true | .pinf, .pinf => true
  | .fin a b, .fin c d => decide (a * d = c * b)
  | _, _ => false
def ne (a b : Num) : Bool := !eq a b
end Num

/-! ### exception classes (with the part of the builtin hierarchy the `except` clauses can see) -/

inductive Exc where
  | validator        -- pedantic ValidatorException
  | conversion       -- pedantic ConversionError
  | validate         -- pedantic ValidateException (base of both)
  | valueError | typeError | overflowError | attributeError | keyError | indexError
  | arithmeticError | lookupError | exception | baseException
  | other (name : String)
deriving DecidableEq, Repr

/-- direct base class (`none` for BaseException and for classes the model does not know) -/
def Exc.base : Exc → Option Exc
  | .validator => some .validate | .conversion => some .validate | .validate => some .exception
  | .valueError => some .exception | .typeError => some .exception | .attributeError => some .exception
  | .overflowError => some .arithmeticError | .arithmeticError => some .exception
  | .keyError => some .lookupError | .indexError => some .lookupError | .lookupError => some .exception
  | .exception => some .baseException
  | .baseException => none
  | .other _ => none

/-- `issubclass(e, c)` along `base` (depth of the modelled hierarchy ≤ 4) -/
def Exc.isSub (e c : Exc) : Bool :=
  let up (x : Option Exc) : Option Exc := x.bind Exc.base
  let e0 := some e
  let e1 := up e0
  let e2 := up e1
  let e3 := up e2
  let e4 := up e3
  [e0, e1, e2, e3, e4].any (fun x => x == some c)

/-- `except (c1, c2, …)` catches `e` -/
def catches (caught : List Exc) (e : Exc) : Bool := caught.any (fun c => e.isSub c)

/-! ### outcomes -/

/-- what the caller of `validate` / `convert_value` observes -/
inductive VRes (α : Type) where
  | ok (v : α)            -- returns v
  | raises (e : Exc)      -- an exception of class e leaves the function
deriving DecidableEq, Repr

/-- answer of a stdlib callee that the model does not compute (`uuid.UUID`, `Enum(v)`, `re`, `datetime`, `float(str)`);
    the harness obtains it by calling that callee itself and sends it with the case -/
inductive Orc (α : Type) where
  | ok (v : α)
  | raises (e : Exc)
deriving DecidableEq, Repr

/-- `try: x = <callee> except caught: <handler>` followed by the continuation `k x` -/
def tryExcept {α β : Type} (caught : List Exc) (handler : VRes β) (o : Orc α) (k : α → VRes β) : VRes β :=
  match o with
  | .ok v => k v
  | .raises e => if catches caught e then handler else .raises e

/-! ### Python values, as far as the validators look at them -/

inductive Val where
  | none
  | bool (b : Bool)
  | int (i : Int)
  | float (x : Num) (negZero : Bool)      -- negZero distinguishes -0.0 (compares equal to 0.0)
  | str (s : List Char)
  | bytes (bs : List Nat)
  | list (xs : List Val)
  | tuple (xs : List Val)
  | set (xs : List Val)                    -- in iteration order
  | dict (kvs : List (List Char × List Char))   -- str → str dictionaries, in insertion order
  | range (n : Nat)                        -- range(n)
  | gen (xs : List Val)                    -- a generator object: Iterable, neither Sized nor a Sequence
  | ext (kind : String) (repr : String)    -- objects made by the stdlib (UUID, datetime, enum member) and other opaque objects
deriving Repr

namespace Val

/-- the number a value is in comparisons (`bool` is an `int`) -/
def toNum : Val → Option Num
  | .bool b => some (.fin (if b then 1 else 0) 1)
  | .int i => some (.fin i 1)
  | .float x _ => some x
  | _ => Option.none

def isStr : Val → Bool | .str _ => true | _ => false
/-- `isinstance(v, collections.abc.Sized)` -/
def isSized : Val → Bool
  | .str _ | .bytes _ | .list _ | .tuple _ | .set _ | .dict _ | .range _ => true
  | _ => false
/-- `isinstance(v, collections.abc.Sequence)` -/
def isSequence : Val → Bool
  | .str _ | .bytes _ | .list _ | .tuple _ | .range _ => true
  | _ => false
/-- `isinstance(v, collections.abc.Iterable)` -/
def isIterable : Val → Bool
  | .str _ | .bytes _ | .list _ | .tuple _ | .set _ | .dict _ | .range _ | .gen _ => true
  | _ => false

/-- `len(v)` (0 for values without a length: the translated code only asks after `isSized`) -/
def len : Val → Int
  | .str s => s.length | .bytes b => b.length | .list xs => xs.length | .tuple xs => xs.length
  | .set xs => xs.length | .dict kvs => kvs.length | .range n => n
  | _ => 0

/-- `list(v)` for iterables -/
def items : Val → Option (List Val)
  | .str s => some (s.map fun c => .str [c])
  | .bytes b => some (b.map fun (n : Nat) => .int (Int.ofNat n))
  | .list xs => some xs | .tuple xs => some xs | .set xs => some xs | .gen xs => some xs
  | .dict kvs => some (kvs.map fun kv => .str kv.1)
  | .range n => some ((List.range n).map fun (i : Nat) => .int (Int.ofNat i))
  | _ => Option.none

/-- Python truthiness -/
def truthy : Val → Bool
  | .none => false
  | .bool b => b
  | .int i => i != 0
  | .float x _ => !(Num.eq x (.fin 0 1))
  | .str s => !s.isEmpty | .bytes b => !b.isEmpty | .list xs => !xs.isEmpty | .tuple xs => !xs.isEmpty
  | .set xs => !xs.isEmpty | .dict kvs => !kvs.isEmpty | .range n => n != 0
  | .gen _ => true | .ext _ _ => true

/-- `isinstance(v, <builtin type named n>)` for the names that occur in the validators' sources -/
def isInstanceOf (v : Val) (n : String) : Bool :=
  match v with
  | .bool _ => n == "bool" || n == "int"
  | .int _ => n == "int"
  | .float _ _ => n == "float"
  | .str _ => n == "str"
  | .bytes _ => n == "bytes"
  | .list _ => n == "list"
  | .tuple _ => n == "tuple"
  | .set _ => n == "set"
  | .dict _ => n == "dict"
  | _ => false

end Val

/-! ### strings -/

/-- ASCII characters for which `str.isspace()` holds: TAB LF VT FF CR, FS GS RS US, SPACE -/
def asciiSpace (c : Char) : Bool :=
  (9 ≤ c.toNat && c.toNat ≤ 13) || (28 ≤ c.toNat && c.toNat ≤ 32)

/-- the whitespace predicate: computed for ASCII, looked up in the harness' table otherwise -/
def mkSpace (tab : Char → Bool) (c : Char) : Bool := if c.toNat < 128 then asciiSpace c else tab c

/-- `s.strip()` -/
def strip (isSpace : Char → Bool) (s : List Char) : List Char :=
  ((s.dropWhile isSpace).reverse.dropWhile isSpace).reverse

/-- `v.strip()` for a str value (other values are returned as they are; the translated code asks only after `isStr`) -/
def Val.strip (isSpace : Char → Bool) : Val → Val
  | .str s => .str (PedVerif.Validators.strip isSpace s)
  | v => v

end PedVerif.Validators
