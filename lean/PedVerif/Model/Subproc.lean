import PedVerif.Gen.Subproc
import PedVerif.Gen.SubprocModule
/-!
# Model of `calculate_in_subprocess` / `_inner` (pedantic/decorators/fn_deco_in_subprocess.py)

A transition system.  The parent side is an *interpreter* for the instruction list that the translator compiles from
the source (`PedVerif.Gen.Subproc.prog`): the order of `Pipe`, `start`, `tx.close`, `add_reader`, the wait, `remove_reader`,
`recv`, `join`, `rx.close`, the EOF handler and the `finally` blocks is whatever the code says now.

* local machine (one invocation): parent program counter, child program counter, the pipe (message, write ends), the
  reader registration, the `asyncio.Event`, the child table entry;
* global machine (any number of invocations): a list of local states + the event loop's selector map **keyed by fd
  number** (environment model: `selectors.EpollSelector` — closing an fd silently drops the kernel registration but
  leaves the map entry; `add_reader` on an fd that still has an entry only replaces the callback).  A step is a step of one
  component (parent i, child i, one reader callback).
* **descriptor numbers are the environment's choice**: `Pipe()` gets ANY two numbers that are not in use (`GStep.parent i r w`) —
  the process may hold any other descriptors open (files, sockets, the pipes of hundreds of pending invocations), so the numbers may
  be arbitrarily high, in particular ≥ FD_SETSIZE (`St.rxHigh`), where `select()` no longer works.  The deterministic scheduler
  that predicts a concrete scenario uses the kernel's rule — the lowest number that is free — above the `Sched.held` descriptors
  the surrounding program holds open when the invocation is made.
* the call: `Call` says whether the caller's arguments fit what the callable really accepts and whether they fit what
  `inspect.signature` reports about it (the two differ for `functools.wraps` decorators that accept other arguments than the
  function they wrap, and for callables with a `__signature__`); the wrapper and `calculate_in_subprocess` pass the callee and
  the arguments on untouched, so only the former matters (`effective`).
-/
namespace PedVerif.Subproc
open PedVerif.Gen.Subproc

/-! ## what the callee does -/

/-- the points at which the child may end without the callee returning normally to `_inner` -/
inductive Death where
  | beforeRun | osExit | signal
deriving DecidableEq, Repr

/-- abstract behaviour of the decorated function when run in the child (ids stand for the returned object / the raised
    exception) -/
inductive Callee where
  | ret (v : Nat)               -- returns a picklable value
  | raiseExc (e : Nat)          -- raises an `Exception`
  | raiseBase (e : Nat)         -- raises SystemExit / KeyboardInterrupt (BaseException, not Exception)
  | hardDeath (d : Death)       -- the process ends before / while the function runs (os._exit, signal)
  | unpicklable                 -- returns a value that `tx.send` cannot pickle: the child dies inside send
  | afterSendDeath (v : Nat)    -- returns normally, the child is killed after the message is complete
  | midSendDeath (v : Nat)      -- returns a big value, the child is killed while blocked in the write
  | spawns (v : Nat)            -- starts a process of its own (a nested `@in_subprocess` call, `calculate_in_subprocess`, a plain
                                -- `Process`), waits for it and returns a picklable value — as it does when it is run directly
deriving DecidableEq, Repr

/-- what the child process does, as far as the protocol can tell -/
inductive Beh where
  | sendOk        -- sends the value, then exits
  | sendErr       -- sends SubprocessError(ex), then exits
  | die           -- exits without sending
  | dieMidSend    -- starts a big write and dies before the parent drained it (if the parent drains first: like sendOk)
deriving DecidableEq, Repr

/-- `_inner`, by the flags the translator read off its try statement; `daemon`: the child was started as a daemonic process -/
def childBehD (daemon : Bool) : Callee → Beh
  | .ret _ => if innerElseSendsValue then .sendOk else .die
  | .raiseExc _ => if innerCatchesException then (if innerHandlerSendsError then .sendErr else .die) else .die
  | .raiseBase _ => if innerCatchesBaseException then (if innerHandlerSendsError then .sendErr else .die) else .die
  | .hardDeath _ => .die
  | .unpicklable => .die
  | .afterSendDeath _ => if innerElseSendsValue then .sendOk else .die
  | .midSendDeath _ => if innerElseSendsValue then .dieMidSend else .die
  | .spawns _ =>
      -- a daemonic process is not allowed to have children: `Process.start()` inside the callee raises AssertionError, which
      -- `_inner` treats like any exception of the callee
      if daemon then (if innerCatchesException then (if innerHandlerSendsError then .sendErr else .die) else .die)
      else if innerElseSendsValue then .sendOk else .die

/-- … with the `daemon` flag the translator read off the `Process(..)` call -/
def childBeh (c : Callee) : Beh := childBehD processDaemon c

/-! ## the call -/

/-- the caller's `(*args, **kwargs)` against the callable handed to `in_subprocess` / `calculate_in_subprocess` -/
structure Call where
  /-- the callable accepts the arguments: `fun(*args, **kwargs)` enters the function -/
  fits : Bool
  /-- `inspect.signature(fun).bind(*args, **kwargs)` succeeds.  Independent of `fits`: `inspect.signature` follows `__wrapped__` and
      honours `__signature__` — a `functools.wraps` decorator that renames keywords, consumes an extra argument or supplies one
      itself accepts calls the reported signature rejects, and the other way round -/
  sigFits : Bool
deriving DecidableEq, Repr

/-- what runs in the child for a call: the wrapper passes `(func, *args, **kwargs)` on to `calculate_in_subprocess`, that one to
    `Process(target=_inner, args=(tx, func, *args), kwargs=kwargs)`, and `_inner` calls `fun(*a, **kw_args)` — nothing on the way looks at
    the callee or the arguments (generated fact `calleeTouchedInParent = []`).  So a call that fits behaves as the callee does, and one
    that does not fit raises the TypeError of the call (id `e`) inside the child, whatever introspection says. -/
def effective (k : Call) (c : Callee) (e : Nat) : Callee := if k.fits then c else .raiseExc e

/-- … as far as the translator's facts about the argument path go: `viaWrapper` — the invocation is made through the `@in_subprocess`
    wrapper (`wrapperForwards`: its body is `return await calculate_in_subprocess(func, *args, **kwargs)`), `processArgsForwarded` —
    `Process(target=_inner, args=(tx, func, *args), kwargs=kwargs)`, `asyncCallee` — the callee is a coroutine function
    (`innerRunsCoroutines`: `_inner` runs it to its end in an event loop of its own).  Where the callee or the arguments are not passed
    on like this, the child runs SOMETHING ELSE than the caller's call (`.unpicklable`: `_inner` would send a coroutine object); the
    theorems about the result rest on the three facts being true. -/
def childRuns (viaWrapper asyncCallee : Bool) (k : Call) (c : Callee) (e : Nat) : Callee :=
  if !processArgsForwarded || (viaWrapper && !(wrapperForwards && wrapperIsAsync)) then .raiseExc e
  else if asyncCallee && !innerRunsCoroutines then .unpicklable
  else effective k c e

/-- an invocation as the caller makes it -/
structure Invocation where
  viaWrapper : Bool      -- through the `@in_subprocess` wrapper (else: `calculate_in_subprocess` called directly)
  asyncCallee : Bool     -- the callee is a coroutine function
  call : Call
  callee : Callee        -- what the callable does once it is entered
  big : Bool             -- its result is larger than the pipe capacity
deriving Repr

def Invocation.runs (x : Invocation) (e : Nat) : Callee := childRuns x.viaWrapper x.asyncCallee x.call x.callee e

/-! ## local state -/

inductive CPc where
  | notStarted | running | sending | sent | exited
deriving DecidableEq, Repr

/-- WHICH object a message carries / a variable holds: the object the callee produced in the child (the value it returned, the
    exception it raised) — or anything else.  The child puts `own` into the pipe, `recv` copies what it finds there into `result`, and
    the caller is handed whatever `result` holds: "exactly what the function returns" is the statement that this token arrives. -/
inductive Obj where
  | own | other
deriving DecidableEq, Repr

/-- contents of the pipe: nothing, the beginning of a message larger than the pipe capacity (the writer is blocked),
    a complete message.  The flag says whether it is a `SubprocessError`. -/
inductive Buf where
  | empty | partialMsg (isErr : Bool) (obj : Obj) | full (isErr : Bool) (obj : Obj)
deriving DecidableEq, Repr

/-- the parent's `result` variable -/
inductive Res where
  | unset
  | ok (obj : Obj)       -- a plain message was received: `result` is the object it carried
  | err (obj : Obj)      -- a `SubprocessError` was received: `result.exception` is the object it carried
  | cpe | foreign
deriving DecidableEq, Repr

inductive Exc where
  | eof | err
  | cancel     -- asyncio.CancelledError, raised at the `await` when the awaiting task is cancelled (task.cancel(), wait_for timeout, …)
deriving DecidableEq, Repr

/-- how the awaiting caller sees the invocation end -/
inductive Outcome where
  | retOk            -- returns the object the child sent
  | retForeign       -- returns something else (None, the SubprocessError wrapper, …)
  | raisedCallee     -- raises the exception object the child sent
  | raisedCPE        -- raises ChildProcessError
  | raisedEof        -- EOFError escapes
  | raisedErr        -- another error escapes (OSError "got end of file during message", closed handle, …)
  | cancelled        -- the CancelledError leaves the coroutine: the awaiting task was cancelled / timed out
deriving DecidableEq, Repr

structure St where
  pc : Nat
  parked : Bool            -- suspended in `await event.wait()`
  res : Res
  exc : Option Exc         -- exception in flight (set while a handler / exceptional finally copy runs)
  out : Option Outcome     -- `some _`: the coroutine has finished
  cpc : CPc
  buf : Buf
  parentTx : Bool          -- the parent's copy of the write end is open
  childTx : Bool           -- the child's copy of the write end is open
  rxOpen : Bool
  reader : Bool            -- the selector map has an entry for rx with this invocation's `event.set`
  event : Bool
  reaped : Bool            -- `process.join()` returned
  rxHigh : Bool            -- the descriptor number of the read end is ≥ FD_SETSIZE (set when the pipe is made; the environment's choice)
  cancelled : Bool         -- the environment has cancelled the awaiting task (a CancelledError was raised at the `await`)
  foreignTx : Bool         -- the child of ANOTHER invocation holds a copy of the write end (it was forked while this invocation's
                           -- write end was open in the parent): no EOF while that child lives
deriving DecidableEq, Repr

def St.init : St :=
  { pc := 0, parked := false, res := .unset, exc := none, out := none, cpc := .notStarted, buf := .empty,
    parentTx := false, childTx := false, rxOpen := false, reader := false, event := false, reaped := false, rxHigh := false,
    cancelled := false, foreignTx := false }

/-- FD_SETSIZE: `select()` handles descriptor numbers below it only (`ValueError: filedescriptor out of range in select()`) -/
def fdSetSize : Nat := 1024

def Buf.isEmpty : Buf → Bool
  | .empty => true
  | _ => false

/-- no process holds the write end of the pipe any more: the reader sees EOF -/
def St.noWriter (s : St) : Bool := !s.parentTx && !s.childTx && !s.foreignTx

/-- `rx.poll()` / the selector reports the fd readable: data, or EOF (no write end left) -/
def St.readable (s : St) : Bool := !s.buf.isEmpty || s.noWriter

def St.final (s : St) : Bool := s.out.isSome

/-- nothing is left behind: both pipe ends closed in the parent, the child's end gone (child exited), no reader entry,
    child reaped -/
def St.released (s : St) : Bool :=
  !s.rxOpen && !s.parentTx && !s.childTx && !s.reader && s.reaped && s.cpc == .exited

/-! ## parent: interpreter for the generated program -/

/-- effect of a parent step on the shared tables -/
inductive Eff where
  | none | allocPipe | freeTx | addReader | removeReader | freeRx
  | start      -- fork: the child gets a copy of every write end that is open in the parent at this moment
deriving DecidableEq, Repr

/-- raise `e` at an instruction whose handlers are `i.onEof` / `i.onErr` -/
def raiseAt (i : Instr) (e : Exc) (s : St) : St :=
  let tgt := match e with | .eof => i.onEof | .err => i.onErr | .cancel => i.onCancel
  match tgt with
  | some pc => { s with pc := pc, exc := some e, parked := false }
  | none => { s with out := some (match e with | .eof => .raisedEof | .err => .raisedErr | .cancel => .cancelled), exc := some e, parked := false }

def St.adv (s : St) : St := { s with pc := s.pc + 1 }

/-- one step of the parent coroutine (deterministic); `none`: finished, or blocked -/
def parentStep (P : List Instr) (s : St) : Option (St × Eff) :=
  if s.out.isSome then none else
  match P[s.pc]? with
  | none => some ({ s with out := some .retForeign }, .none)      -- falls off the end: returns None
  | some i =>
    match i.op with
    | .pipe => if s.rxOpen || s.parentTx then some (raiseAt i .err s, .none)
               else some ({ s.adv with rxOpen := true, parentTx := true }, .allocPipe)
    | .start =>
        if s.cpc != .notStarted then some (raiseAt i .err s, .none)      -- "cannot start a process twice"
        else some ({ s.adv with cpc := .running, childTx := s.parentTx }, .start)  -- fork copies the write end if it is open
    | .closeTx => if s.parentTx then some ({ s.adv with parentTx := false }, .freeTx) else some (s.adv, .none)
    | .addReader => if s.rxOpen then some ({ s.adv with reader := true }, .addReader) else some (raiseAt i .err s, .none)
    | .pollWait =>
        if !s.rxOpen then some (raiseAt i .err s, .none)
        else if s.parked then (if s.event then some ({ s.adv with parked := false }, .none) else none)
        else if s.readable then some (s.adv, .none)
        else if s.event then some (s.adv, .none)                  -- `event.wait()` returns at once when the event is set
        else some ({ s with parked := true }, .none)
    | .selectWait =>
        -- `if not select.select([rx], [], [], 0)[0]: await event.wait()`: as `pollWait`, except that `select()` refuses a descriptor
        -- number ≥ FD_SETSIZE with a ValueError (raised where the readiness test stands; a coroutine resumed from the wait does not test again)
        if !s.rxOpen then some (raiseAt i .err s, .none)
        else if s.parked then (if s.event then some ({ s.adv with parked := false }, .none) else none)
        else if s.rxHigh then some (raiseAt i .err s, .none)
        else if s.readable then some (s.adv, .none)
        else if s.event then some (s.adv, .none)
        else some ({ s with parked := true }, .none)
    | .wait =>
        if s.event then some ({ s.adv with parked := false }, .none)
        else if s.parked then none else some ({ s with parked := true }, .none)
    | .removeReader =>
        if s.rxOpen then some ({ s.adv with reader := false }, .removeReader) else some (raiseAt i .err s, .none)
    | .clearEvent => some ({ s.adv with event := false }, .none)
    | .recv =>
        if !s.rxOpen then some (raiseAt i .err s, .none) else
        match s.buf with
        | .full e o => some ({ s.adv with buf := .empty, res := if e then .err o else .ok o }, .none)   -- `recv` copies what is in the pipe
        | .partialMsg e o =>
            if s.cpc == .sending then     -- rendezvous: the parent drains while the child writes the rest
              some ({ s.adv with buf := .empty, res := if e then .err o else .ok o, cpc := .sent }, .none)
            else if s.noWriter then some (raiseAt i .err s, .none)   -- "got end of file during message"
            else none
        | .empty => if s.noWriter then some (raiseAt i .eof s, .none) else none   -- blocks synchronously
    | .setChildProcessError => some ({ s.adv with res := .cpe }, .none)
    | .setForeign => some ({ s.adv with res := .foreign }, .none)
    | .terminate =>
        -- SIGTERM / SIGKILL: the child ends now, whatever it was doing (its copy of the write end goes with it)
        if s.cpc == .notStarted then some (raiseAt i .err s, .none)
        else some ({ s.adv with cpc := .exited, childTx := false }, .none)
    | .join =>
        if s.cpc == .notStarted then some (raiseAt i .err s, .none)      -- "can only join a started process"
        else if s.cpc == .exited then some ({ s.adv with reaped := true }, .none)
        else none                                                         -- blocks synchronously
    | .joinTimeout =>
        if s.cpc == .notStarted then some (raiseAt i .err s, .none)
        else if s.cpc == .exited then some ({ s.adv with reaped := true }, .none)
        else some (s.adv, .none)      -- the time is up (how long a child needs from the end of `send` to its exit is not bounded:
                                      -- exit handlers, non-daemon threads): the coroutine goes on, the child is neither gone nor reaped
    | .closeRx => if s.rxOpen then some ({ s.adv with rxOpen := false }, .freeRx) else some (s.adv, .none)
    | .raiseIfError =>
        match s.res with
        | .err o => some ({ s with out := some (if o == .own then .raisedCallee else .raisedErr) }, .none)   -- raises the object the message carried
        | .cpe => some ({ s with out := some .raisedCPE }, .none)
        | _ => some (s.adv, .none)
    | .ret => some ({ s with out := some (if s.res == .ok .own then .retOk else .retForeign) }, .none)   -- returns whatever `result` holds
    | .caught => some ({ s.adv with exc := none }, .none)
    | .jump t => some ({ s with pc := t }, .none)
    | .reraise =>
        match s.exc with
        | some e => some (raiseAt i e s, .none)
        | none => some (s.adv, .none)

/-! ## environment: the awaiting task is cancelled -/

/-- `task.cancel()`, `asyncio.wait_for(.., timeout)` running out, a TaskGroup that is torn down: asyncio raises CancelledError inside the
    coroutine at the `await` it is suspended in.  Enabled in every parked state — also when the result has arrived in the meantime and
    the event is set (the task has not been resumed yet): the cancellation wins.  The code between two awaits is not interruptible. -/
def cancelStep (P : List Instr) (s : St) : Option St :=
  if s.out.isSome || !s.parked then none else
  match P[s.pc]? with
  | none => none
  | some i => some (raiseAt i .cancel { s with cancelled := true })

/-! ## child -/

/-- one step of the child process -/
def childStep (b : Beh) (big : Bool) (s : St) : Option St :=
  match s.cpc with
  | .notStarted => none
  | .running =>
      if !s.childTx then some { s with cpc := .exited }         -- no usable write end: `send` fails, the child ends
      else match b with
        | .die => some { s with cpc := .exited, childTx := false }
        -- `_inner` sends the object the callee produced (`tx.send(res)` / `tx.send(SubprocessError(ex=ex))`: read off its try statement)
        | .sendOk => if big then some { s with cpc := .sending, buf := .partialMsg false .own } else some { s with cpc := .sent, buf := .full false .own }
        | .sendErr => if big then some { s with cpc := .sending, buf := .partialMsg true .own } else some { s with cpc := .sent, buf := .full true .own }
        | .dieMidSend => some { s with cpc := .sending, buf := .partialMsg false .own }
  | .sending =>
      match b with
      | .dieMidSend => some { s with cpc := .exited, childTx := false }   -- killed while blocked in write
      | _ => none                                                          -- blocked until the parent drains (rendezvous in `recv`)
  | .sent => some { s with cpc := .exited, childTx := false }
  | .exited => none

/-! ## event loop (local view) -/

/-- the reader callback `event.set` runs when the fd is registered and readable -/
def loopStep (s : St) : Option St :=
  if s.reader && s.rxOpen && s.readable && !s.event then some { s with event := true } else none

/-- the parent's successors: the step that makes the pipe has two — the environment decides whether the read end's descriptor number
    lies below FD_SETSIZE or not (`parentStep` itself leaves `rxHigh` as it is; the global machine sets it from the number chosen) -/
def parentNext (P : List Instr) (s : St) : List St :=
  match parentStep P s with
  | none => []
  | some (t, eff) => if eff == .allocPipe then [{ t with rxHigh := false }, { t with rxHigh := true }] else [t]

/-- the successors of a local state the system reaches by itself (parent, child, event loop) -/
def sysNext (P : List Instr) (b : Beh) (big : Bool) (s : St) : List St :=
  parentNext P s ++ (childStep b big s).toList ++ (loopStep s).toList

/-- … and what the environment can do to it: cancel the awaiting task -/
def next (P : List Instr) (b : Beh) (big : Bool) (s : St) : List St :=
  sysNext P b big s ++ (cancelStep P s).toList

/-! ## reachable set of the local machine (finite; computed, then proved closed) -/

/-- a set of states kept in buckets, one per program counter: a membership test looks at the states with the same pc only (for the
    kernel, which evaluates the checks below, comparing two 16-field records is expensive).  Nothing rests on the bucketing: the set is
    the concatenation of the buckets. -/
abbrev Buckets := List (List St)

def memB (R : Buckets) (t : St) : Bool := match R[t.pc]? with | some bk => bk.any (fun p => p == t) | none => false

def insB (R : Buckets) (t : St) : Buckets := R.modify t.pc (fun bk => t :: bk)

/-- worklist closure with fuel over a successor function: every state is expanded once -/
def bfsB (nx : St → List St) : Nat → List St → Buckets → Buckets
  | 0, _, acc => acc
  | _ + 1, [], acc => acc
  | n + 1, s :: todo, acc =>
    let r := (nx s).foldl (fun (st : List St × Buckets) t => if memB st.2 t then st else (st.1 ++ [t], insB st.2 t)) ([], acc)
    bfsB nx n (todo ++ r.1) r.2

/-- the states an invocation can reach (steps of its parent, its child, the event loop; cancellations by the environment) -/
def reachB (P : List Instr) (b : Beh) (big : Bool) : Buckets :=
  bfsB (next P b big) 1024 [St.init] (insB (List.replicate (P.length + 1) []) St.init)

def reach (P : List Instr) (b : Beh) (big : Bool) : List St := (reachB P b big).flatten

/-- … without cancellations by the environment (used by the witnesses about protocols that predate the handling of cancellation) -/
def reachSysB (P : List Instr) (b : Beh) (big : Bool) : Buckets :=
  bfsB (sysNext P b big) 1024 [St.init] (insB (List.replicate (P.length + 1) []) St.init)

def reachSys (P : List Instr) (b : Beh) (big : Bool) : List St := (reachSysB P b big).flatten

/-- progress measure: every step strictly decreases it on the reachable set (checked per configuration) -/
def rank (R : List Nat) (s : St) : Nat :=
  (if s.out.isSome then 0 else 16 * (R[s.pc]?.getD 0 + 1)) +
  3 * (match s.cpc with | .notStarted => 4 | .running => 3 | .sending => 2 | .sent => 1 | .exited => 0) +
  2 * (if s.parked then 0 else 1) + (if s.event then 0 else 1)

/-! ## what the parent is doing right now (for `other_tasks_run`) -/

/-- the coroutine sits in a *synchronously* blocking call that cannot return yet: nothing else runs in the event loop -/
def syncBlocked (P : List Instr) (s : St) : Bool :=
  !s.out.isSome && (parentStep P s).isNone && !s.parked

/-- the coroutine is suspended at an `await` (a yield point: other tasks run) -/
def suspended (s : St) : Bool := !s.out.isSome && s.parked

/-! ## global machine -/

structure Loc where
  callee : Callee
  big : Bool
  st : St
  rx : Option Nat      -- fd number of the read end while open
  tx : Option Nat      -- fd number of the parent's write end while open
  heirs : List Nat     -- invocations whose (living) child holds a copy of this invocation's write end
deriving DecidableEq, Repr

/-- selector map entry: `fd ↦ (callback = event.set of invocation owner)`; `live` = the kernel (epoll) still watches it -/
structure Entry where
  fd : Nat
  owner : Nat
  live : Bool
deriving DecidableEq, Repr

structure G where
  invs : List Loc
  tbl : List Entry
deriving DecidableEq, Repr

def Loc.fresh (c : Callee) (big : Bool) : Loc := { callee := c, big := big, st := St.init, rx := none, tx := none, heirs := [] }

def G.init (cs : List (Callee × Bool)) : G := { invs := cs.map (fun c => Loc.fresh c.1 c.2), tbl := [] }

/-- **a new event loop** in the same interpreter (`asyncio.run(..)` once more): its selector map is a new, empty one; the
    invocations of the earlier loops stay what they are (finished, when the earlier `asyncio.run` has returned), the invocations
    made in the new loop are appended.  Nothing else exists that an invocation could find: the module keeps no state
    (`PedVerif.Gen.SubprocModule`, proved empty in Props/C17). -/
def G.newLoop (g : G) (cs : List (Callee × Bool)) : G :=
  { invs := g.invs ++ cs.map (fun c => Loc.fresh c.1 c.2), tbl := [] }

def usedFds (invs : List Loc) : List Nat := invs.flatMap (fun l => l.rx.toList ++ l.tx.toList)

def maxOf : List Nat → Nat
  | [] => 0
  | x :: xs => max x (maxOf xs)

/-- lowest fd number not in use (the fallback is never taken; it keeps freshness provable without a pigeonhole argument) -/
def lowestFree (used : List Nat) : Nat :=
  match (List.range (used.length + 1)).find? (fun n => !used.contains n) with
  | some n => n
  | none => maxOf used + 1

/-- the kernel's rule in a process that holds `base` other descriptors open (numbers 0 … base-1: standard streams, files, sockets,
    the event loop's own descriptors, …): the lowest number ≥ base that no invocation uses -/
def allocFd (base : Nat) (used : List Nat) : Nat :=
  base + lowestFree ((used.filter (fun u => base ≤ u)).map (fun u => u - base))

def tblErase (fd : Nat) (t : List Entry) : List Entry := t.filter (fun e => e.fd != fd)

/-- `add_reader`: a new fd is registered with the kernel; an fd that still has a map entry only gets the new callback -/
def tblPut (fd owner : Nat) (t : List Entry) : List Entry :=
  match t.find? (fun e => e.fd == fd) with
  | some old => { fd := fd, owner := owner, live := old.live } :: tblErase fd t
  | none => { fd := fd, owner := owner, live := true } :: t

/-- `close(fd)`: epoll forgets the fd, the selector map does not -/
def tblMarkDead (fd : Nat) (t : List Entry) : List Entry :=
  t.map (fun e => if e.fd == fd then { e with live := false } else e)

/-! ### fork inheritance of OTHER invocations' write ends

`fork()` copies every descriptor of the parent.  If the coroutine of invocation j can be suspended between `Pipe()` and `tx.close()`,
another invocation i can fork its child in that window: that child holds a copy of j's write end for as long as it lives, and j sees
no EOF when its own child dies.  Whether such a window exists is read off the source (`awaitsWhileWriteEndOpen`); it does not
(the three statements follow each other without an `await`), so `inheritOthers = false` and the functions below are the identity —
the theorems about N invocations rest on that fact (they do not re-prove when the list is not empty). -/

def inheritOthers : Bool := !PedVerif.Gen.SubprocModule.awaitsWhileWriteEndOpen.isEmpty

/-- the child of `i` is forked: it inherits the write end of every OTHER invocation that has one open in the parent right now -/
def applyStart (inh : Bool) (i : Nat) (g : G) : G :=
  if inh then
    { g with invs := g.invs.mapIdx (fun j l =>
        if j != i && l.st.parentTx then { l with st := { l.st with foreignTx := true }, heirs := i :: l.heirs } else l) }
  else g

/-- the child of `i` has ended: the copies it held are gone -/
def releaseHeir (inh : Bool) (i : Nat) (g : G) : G :=
  if inh then
    { g with invs := g.invs.map (fun l =>
        if l.heirs.contains i then { l with st := { l.st with foreignTx := !(l.heirs.erase i).isEmpty }, heirs := l.heirs.erase i } else l) }
  else g

/-- after a step of invocation `i` from local state `s` to `t`: if its child ended with this step, release what it had inherited -/
def postExit (inh : Bool) (i : Nat) (s t : St) (g : G) : G :=
  if t.cpc == .exited && s.cpc != .exited then releaseHeir inh i g else g

/-- `r`, `w`: the descriptor numbers `Pipe()` gets if this step makes the pipe (chosen by the environment) -/
def applyEffI (inh : Bool) (r w : Nat) (i : Nat) (l : Loc) (t : St) (eff : Eff) (g : G) : G :=
  postExit inh i l.st t <|
  match eff with
  | .start => applyStart inh i { g with invs := g.invs.set i { l with st := t } }
  | .none => { g with invs := g.invs.set i { l with st := t } }
  | .allocPipe =>
      { g with invs := g.invs.set i { l with st := { t with rxHigh := decide (fdSetSize ≤ r) }, rx := some r, tx := some w } }
  | .freeTx => { g with invs := g.invs.set i { l with st := t, tx := none } }
  | .addReader =>
      { invs := g.invs.set i { l with st := t },
        tbl := match l.rx with | some fd => tblPut fd i g.tbl | none => g.tbl }
  | .removeReader =>
      { invs := g.invs.set i { l with st := t },
        tbl := match l.rx with | some fd => tblErase fd g.tbl | none => g.tbl }
  | .freeRx =>
      { invs := g.invs.set i { l with st := t, rx := none },
        tbl := match l.rx with | some fd => tblMarkDead fd g.tbl | none => g.tbl }

def applyEff (r w : Nat) (i : Nat) (l : Loc) (t : St) (eff : Eff) (g : G) : G := applyEffI inheritOthers r w i l t eff g

/-- parent of invocation `i` takes a step; a new pipe gets the descriptor numbers `r` (read end) and `w` (write end) -/
def gParentAtI (inh : Bool) (P : List Instr) (i r w : Nat) (g : G) : Option G :=
  match g.invs[i]? with
  | none => none
  | some l =>
    match parentStep P l.st with
    | none => none
    | some (t, eff) => some (applyEffI inh r w i l t eff g)

def gParentAt (P : List Instr) (i r w : Nat) (g : G) : Option G := gParentAtI inheritOthers P i r w g

/-- … with the kernel's choice in a process that holds `base` other descriptors: the lowest free numbers from `base` on -/
def gParentBI (inh : Bool) (P : List Instr) (base i : Nat) (g : G) : Option G :=
  gParentAtI inh P i (allocFd base (usedFds g.invs)) (allocFd base (allocFd base (usedFds g.invs) :: usedFds g.invs)) g

def gParentB (P : List Instr) (base i : Nat) (g : G) : Option G :=
  gParentAt P i (allocFd base (usedFds g.invs)) (allocFd base (allocFd base (usedFds g.invs) :: usedFds g.invs)) g

/-- … in a process that holds nothing else -/
def gParent (P : List Instr) (i : Nat) (g : G) : Option G := gParentB P 0 i g

/-- child of invocation `i` takes a step -/
def gChildI (inh : Bool) (i : Nat) (g : G) : Option G :=
  match g.invs[i]? with
  | none => none
  | some l =>
    match childStep (childBeh l.callee) l.big l.st with
    | none => none
    | some t => some (postExit inh i l.st t { g with invs := g.invs.set i { l with st := t } })

def gChild (i : Nat) (g : G) : Option G := gChildI inheritOthers i g

/-- the environment cancels the task that awaits invocation `i` -/
def gCancel (P : List Instr) (i : Nat) (g : G) : Option G :=
  match g.invs[i]? with
  | none => none
  | some l =>
    match cancelStep P l.st with
    | none => none
    | some t => some { g with invs := g.invs.set i { l with st := t } }

/-- the event loop runs the callback of the `k`-th selector entry: the kernel reports the entry's fd readable, the
    callback sets the event *of the entry's owner* -/
def gCallback (k : Nat) (g : G) : Option G :=
  match g.tbl[k]? with
  | none => none
  | some e =>
    if !e.live then none else
    match g.invs.find? (fun l => l.rx == some e.fd) with
    | none => none
    | some p =>
      if !p.st.readable then none else
      match g.invs[e.owner]? with
      | none => none
      | some o => if o.st.event then none else some { g with invs := g.invs.set e.owner { o with st := { o.st with event := true } } }

/-- a prescribed sequence of moves (parent i / child i), with fork inheritance of other invocations' write ends switched on or off:
    used by the witness that shows what the fact `awaitsWhileWriteEndOpen = []` excludes -/
inductive Mv where
  | p (i : Nat) | c (i : Nat)
deriving Repr

def playI (inh : Bool) (P : List Instr) : List Mv → G → Option G
  | [], g => some g
  | .p i :: ms, g => (gParentBI inh P 0 i g).bind (playI inh P ms)
  | .c i :: ms, g => (gChildI inh i g).bind (playI inh P ms)

/-- one step of the global system, labelled by the component that moves -/
inductive GStep (P : List Instr) : G → G → Prop where
  /-- a step of parent `i`; if it makes the pipe, the pipe gets ANY two descriptor numbers that are not in use — whatever else the
      process holds open, however high that pushes the numbers -/
  | parent (i r w : Nat) {g g' : G} : r ∉ usedFds g.invs → w ∉ r :: usedFds g.invs → gParentAt P i r w g = some g' → GStep P g g'
  | child (i : Nat) {g g' : G} : gChild i g = some g' → GStep P g g'
  | callback (k : Nat) {g g' : G} : gCallback k g = some g' → GStep P g g'
  /-- the environment cancels the awaiting task of invocation `i` (possible whenever its coroutine is suspended at an `await`) -/
  | cancel (i : Nat) {g g' : G} : gCancel P i g = some g' → GStep P g g'

inductive GRun (P : List Instr) : G → G → Prop where
  | refl (g : G) : GRun P g g
  | step {g g' g'' : G} : GRun P g g' → GStep P g' g'' → GRun P g g''

/-- runs with their length -/
inductive GRunN (P : List Instr) : Nat → G → G → Prop where
  | refl (g : G) : GRunN P 0 g g
  | step {n : Nat} {g g' g'' : G} : GRunN P n g g' → GStep P g' g'' → GRunN P (n + 1) g g''

/-- the successors of a global state the SYSTEM can take by itself — parent, child and callback steps, with the kernel's choice of
    descriptor numbers (executable; `GStep` has a parent step iff this list has one: which numbers a pipe gets does not decide whether
    the step is enabled).  Cancellations by the environment are not listed. -/
def gsucc (P : List Instr) (g : G) : List G :=
  (List.range g.invs.length).filterMap (fun i => gParent P i g) ++
  (List.range g.invs.length).filterMap (fun i => gChild i g) ++
  (List.range g.tbl.length).filterMap (fun k => gCallback k g)

/-! ## a deterministic scheduler: picks ONE interleaving, the one a single-threaded event loop with the given relative
    callee durations produces (parents run to their next suspension in start order, then ready callbacks, then the
    child that finishes next).  Used by the driver to predict a concrete scenario and by the deadlock witness. -/

/-- scheduling data of an invocation: virtual duration of the callee, and the invocation of the same task that must have
    finished before this one is started (sequential awaits) -/
structure Sched where
  dur : Nat
  pred : Option Nat
  /-- the callee returns / raises / dies only after these invocations have finished (it waits for an event that the caller sets
      then): "arbitrary relative durations" includes a callee that outlives another invocation *by design* -/
  gate : List Nat
  /-- the surrounding program holds this many other descriptors open when the invocation is made (a server with hundreds of
      connections, a parent that opened many files): the pipe gets the lowest free numbers above them -/
  held : Nat
  /-- `some ks`: the environment cancels the task that awaits this invocation (task.cancel(), wait_for timeout) once the coroutine is
      suspended and the invocations `ks` have finished -/
  cancelAfter : Option (List Nat)
deriving Repr

def heldOf (sc : List Sched) (i : Nat) : Nat := match sc[i]? with | some s => s.held | none => 0

def runParent (P : List Instr) (base i : Nat) : Nat → G → G
  | 0, g => g
  | n + 1, g => match gParentB P base i g with
    | some g' => runParent P base i n g'
    | none => g

def runChild (i : Nat) : Nat → G → G
  | 0, g => g
  | n + 1, g => match gChild i g with
    | some g' => runChild i n g'
    | none => g

def isFinalAt (g : G) (i : Nat) : Bool := match g.invs[i]? with | some l => l.st.final | none => true

/-- some coroutine sits in a synchronously blocking call: the event loop is frozen, only children move -/
def frozen (P : List Instr) (g : G) : Bool := g.invs.any (fun l => syncBlocked P l.st)

def startable (g : G) (sc : List Sched) (i : Nat) : Bool :=
  match g.invs[i]?, sc[i]? with
  | some l, some s => l.st.pc != 0 || l.st.final || (match s.pred with | some p => isFinalAt g p | none => true)
  | _, _ => false

/-- parents in start order, each to its next suspension; stops as soon as the loop is frozen -/
def parentPhase (P : List Instr) (sc : List Sched) : List Nat → G → G
  | [], g => g
  | i :: is, g =>
    if frozen P g then g
    else parentPhase P sc is (if startable g sc i then runParent P (heldOf sc i) i 64 g else g)

def callbackPhase : Nat → G → G
  | 0, g => g
  | k + 1, g => let g' := callbackPhase k g
                match gCallback k g' with
                | some g'' => g''
                | none => g'

/-- every invocation the callee of `i` waits for has finished -/
def gateOpen (sc : List Sched) (g : G) (i : Nat) : Bool :=
  match sc[i]? with
  | some s => s.gate.all (isFinalAt g)
  | none => true

/-- can the child of `i` move now?  A running child moves when its virtual duration has elapsed and its gate is open. -/
def childReady (sc : List Sched) (g : G) (rem : List Nat) (i : Nat) : Bool :=
  match g.invs[i]? with
  | some l => (gChild i g).isSome && (l.st.cpc != .running || (rem[i]?.getD 0 == 0 && gateOpen sc g i))
  | none => false

def minRunning (g : G) (rem : List Nat) : Option Nat :=
  ((List.range g.invs.length).filterMap (fun i =>
    match g.invs[i]? with
    | some l => if l.st.cpc == .running && rem[i]?.getD 0 > 0 then some (rem[i]?.getD 0) else none   -- (a callee at its end waits for its gate)
    | none => none)).min?

/-- one iteration of the event loop: runnable coroutines, then ready callbacks -/
def loopPhase (P : List Instr) (sc : List Sched) (g : G) : G :=
  let g1 := parentPhase P sc (List.range g.invs.length) g
  if frozen P g1 then g1 else callbackPhase g1.tbl.length g1

/-- virtual time passes: every running callee gets `d` closer to its end -/
def advance (g : G) (rem : List Nat) (d : Nat) : List Nat :=
  (List.range g.invs.length).map (fun i => match g.invs[i]? with
    | some l => if l.st.cpc == .running then rem[i]?.getD 0 - d else rem[i]?.getD 0
    | none => 0)

/-- the environment is about to cancel invocation `i`: designated, suspended, and everything it waits for has finished -/
def cancelReady (P : List Instr) (sc : List Sched) (g : G) (i : Nat) : Bool :=
  match sc[i]? with
  | some s => (match s.cancelAfter with
      | some ks => ks.all (isFinalAt g) && (gCancel P i g).isSome
      | none => false)
  | none => false

def schedule (P : List Instr) (sc : List Sched) : Nat → List Nat → G → G
  | 0, _, g => g
  | n + 1, rem, g =>
    if loopPhase P sc g != g then schedule P sc n rem (loopPhase P sc g)
    else match (List.range g.invs.length).find? (cancelReady P sc g) with
    | some i => schedule P sc n rem ((gCancel P i g).getD g)
    | none =>
    match (List.range g.invs.length).find? (childReady sc g rem) with
      | some i => schedule P sc n rem (runChild i 8 g)
      | none =>
        match minRunning g rem with
        | some d => if d == 0 then g else schedule P sc n (advance g rem d) g
        | none => g

/-! ## the same scheduler with some children lingering: a child in `hold` has sent its message but its exit step is withheld (a
    non-daemon thread of the callee is still running, an exit handler takes its time) — everything else moves as far as it can.
    Used by the driver to predict behind which invocations the event loop sits frozen inside `join`, and by the negation
    witness `join_blocks_other_tasks`. -/

def lingering (hold : List Nat) (g : G) (i : Nat) : Bool :=
  hold.contains i && (match g.invs[i]? with | some l => l.st.cpc == .sent | none => false)

def scheduleH (hold : List Nat) (P : List Instr) (sc : List Sched) : Nat → List Nat → G → G
  | 0, _, g => g
  | n + 1, rem, g =>
    if loopPhase P sc g != g then scheduleH hold P sc n rem (loopPhase P sc g)
    else match (List.range g.invs.length).find? (cancelReady P sc g) with
    | some i => scheduleH hold P sc n rem ((gCancel P i g).getD g)
    | none =>
    match (List.range g.invs.length).find? (fun i => childReady sc g rem i && !lingering hold g i) with
      | some i => scheduleH hold P sc n rem (runChild i (if hold.contains i then 1 else 8) g)   -- a held child stops after its send
      | none =>
        match minRunning g rem with
        | some d => if d == 0 then g else scheduleH hold P sc n (advance g rem d) g
        | none => g

/-- the invocations of `hold` whose coroutine sits in a synchronously blocking call in `g` -/
def blockedBehind (P : List Instr) (hold : List Nat) (g : G) : List Nat :=
  hold.filter (fun i => match g.invs[i]? with | some l => syncBlocked P l.st | none => false)

end PedVerif.Subproc
