import PedVerif.Gen.Subproc
import PedVerif.Gen.SubprocModule
/-!
# Model of `calculate_in_subprocess` / `_inner` (pedantic/decorators/fn_deco_in_subprocess.py)

A transition system.  The parent side is an *interpreter* for the instruction list that the translator compiles from
the source (`PedVerif.Gen.Subproc.prog`): the order of `Pipe`, `start`, `tx.close`, `add_reader`, the wait, `remove_reader`,
`recv`, `join`, `rx.close`, the EOF handler and the `finally` blocks is whatever the code says now.

* local machine (one invocation): parent program counter, child program counter, the pipe (message, write ends), the
  reader registration, the `asyncio.Event`, the child table entry;
* global machine (any number of invocations): a list of local states + the event loop's selector map **keyed by fd
  number** (environment model: `selectors.EpollSelector` — closing an fd silently drops the kernel registration but
  leaves the map entry; `add_reader` on an fd that still has an entry only replaces the callback) + a lowest-free fd
  allocator.  A step is a step of one component (parent i, child i, one reader callback).
-/
namespace PedVerif.Subproc
open PedVerif.Gen.Subproc

/-! ## what the callee does -/

/-- the points at which the child may end without the callee returning normally to `_inner` -/
inductive Death where
  | beforeRun | osExit | signal
deriving DecidableEq, Repr

/-- abstract behaviour of the decorated function when run in the child (ids stand for the returned object / the raised
    exception) -/
inductive Callee where
  | ret (v : Nat)               -- returns a picklable value
  | raiseExc (e : Nat)          -- raises an `Exception`
  | raiseBase (e : Nat)         -- raises SystemExit / KeyboardInterrupt (BaseException, not Exception)
  | hardDeath (d : Death)       -- the process ends before / while the function runs (os._exit, signal)
  | unpicklable                 -- returns a value that `tx.send` cannot pickle: the child dies inside send
  | afterSendDeath (v : Nat)    -- returns normally, the child is killed after the message is complete
  | midSendDeath (v : Nat)      -- returns a big value, the child is killed while blocked in the write
  | spawns (v : Nat)            -- starts a process of its own (a nested `@in_subprocess` call, `calculate_in_subprocess`, a plain
                                -- `Process`), waits for it and returns a picklable value — as it does when it is run directly
deriving DecidableEq, Repr

/-- what the child process does, as far as the protocol can tell -/
inductive Beh where
  | sendOk        -- sends the value, then exits
  | sendErr       -- sends SubprocessError(ex), then exits
  | die           -- exits without sending
  | dieMidSend    -- starts a big write and dies before the parent drained it (if the parent drains first: like sendOk)
deriving DecidableEq, Repr

/-- `_inner`, by the flags the translator read off its try statement; `daemon`: the child was started as a daemonic process -/
def childBehD (daemon : Bool) : Callee → Beh
  | .ret _ => if innerElseSendsValue then .sendOk else .die
  | .raiseExc _ => if innerCatchesException then (if innerHandlerSendsError then .sendErr else .die) else .die
  | .raiseBase _ => if innerCatchesBaseException then (if innerHandlerSendsError then .sendErr else .die) else .die
  | .hardDeath _ => .die
  | .unpicklable => .die
  | .afterSendDeath _ => if innerElseSendsValue then .sendOk else .die
  | .midSendDeath _ => if innerElseSendsValue then .dieMidSend else .die
  | .spawns _ =>
      -- a daemonic process is not allowed to have children: `Process.start()` inside the callee raises AssertionError, which
      -- `_inner` treats like any exception of the callee
      if daemon then (if innerCatchesException then (if innerHandlerSendsError then .sendErr else .die) else .die)
      else if innerElseSendsValue then .sendOk else .die

/-- … with the `daemon` flag the translator read off the `Process(..)` call -/
def childBeh (c : Callee) : Beh := childBehD processDaemon c

/-! ## local state -/

inductive CPc where
  | notStarted | running | sending | sent | exited
deriving DecidableEq, Repr

/-- contents of the pipe: nothing, the beginning of a message larger than the pipe capacity (the writer is blocked),
    a complete message.  The flag says whether it is a `SubprocessError`. -/
inductive Buf where
  | empty | partialMsg (isErr : Bool) | full (isErr : Bool)
deriving DecidableEq, Repr

/-- the parent's `result` variable -/
inductive Res where
  | unset | ok | err | cpe | foreign
deriving DecidableEq, Repr

inductive Exc where
  | eof | err
deriving DecidableEq, Repr

/-- how the awaiting caller sees the invocation end -/
inductive Outcome where
  | retOk            -- returns the object the child sent
  | retForeign       -- returns something else (None, the SubprocessError wrapper, …)
  | raisedCallee     -- raises the exception object the child sent
  | raisedCPE        -- raises ChildProcessError
  | raisedEof        -- EOFError escapes
  | raisedErr        -- another error escapes (OSError "got end of file during message", closed handle, …)
deriving DecidableEq, Repr

structure St where
  pc : Nat
  parked : Bool            -- suspended in `await event.wait()`
  res : Res
  exc : Option Exc         -- exception in flight (set while a handler / exceptional finally copy runs)
  out : Option Outcome     -- `some _`: the coroutine has finished
  cpc : CPc
  buf : Buf
  parentTx : Bool          -- the parent's copy of the write end is open
  childTx : Bool           -- the child's copy of the write end is open
  rxOpen : Bool
  reader : Bool            -- the selector map has an entry for rx with this invocation's `event.set`
  event : Bool
  reaped : Bool            -- `process.join()` returned
deriving DecidableEq, Repr

def St.init : St :=
  { pc := 0, parked := false, res := .unset, exc := none, out := none, cpc := .notStarted, buf := .empty,
    parentTx := false, childTx := false, rxOpen := false, reader := false, event := false, reaped := false }

def Buf.isEmpty : Buf → Bool
  | .empty => true
  | _ => false

/-- `rx.poll()` / the selector reports the fd readable: data, or EOF (no write end left) -/
def St.readable (s : St) : Bool := !s.buf.isEmpty || (!s.parentTx && !s.childTx)

def St.final (s : St) : Bool := s.out.isSome

/-- nothing is left behind: both pipe ends closed in the parent, the child's end gone (child exited), no reader entry,
    child reaped -/
def St.released (s : St) : Bool :=
  !s.rxOpen && !s.parentTx && !s.childTx && !s.reader && s.reaped && s.cpc == .exited

/-! ## parent: interpreter for the generated program -/

/-- effect of a parent step on the shared tables -/
inductive Eff where
  | none | allocPipe | freeTx | addReader | removeReader | freeRx
deriving DecidableEq, Repr

/-- raise `e` at an instruction whose handlers are `i.onEof` / `i.onErr` -/
def raiseAt (i : Instr) (e : Exc) (s : St) : St :=
  let tgt := match e with | .eof => i.onEof | .err => i.onErr
  match tgt with
  | some pc => { s with pc := pc, exc := some e, parked := false }
  | none => { s with out := some (match e with | .eof => .raisedEof | .err => .raisedErr), exc := some e, parked := false }

def St.adv (s : St) : St := { s with pc := s.pc + 1 }

/-- one step of the parent coroutine (deterministic); `none`: finished, or blocked -/
def parentStep (P : List Instr) (s : St) : Option (St × Eff) :=
  if s.out.isSome then none else
  match P[s.pc]? with
  | none => some ({ s with out := some .retForeign }, .none)      -- falls off the end: returns None
  | some i =>
    match i.op with
    | .pipe => if s.rxOpen || s.parentTx then some (raiseAt i .err s, .none)
               else some ({ s.adv with rxOpen := true, parentTx := true }, .allocPipe)
    | .start =>
        if s.cpc != .notStarted then some (raiseAt i .err s, .none)      -- "cannot start a process twice"
        else some ({ s.adv with cpc := .running, childTx := s.parentTx }, .none)   -- fork copies the write end if it is open
    | .closeTx => if s.parentTx then some ({ s.adv with parentTx := false }, .freeTx) else some (s.adv, .none)
    | .addReader => if s.rxOpen then some ({ s.adv with reader := true }, .addReader) else some (raiseAt i .err s, .none)
    | .pollWait =>
        if !s.rxOpen then some (raiseAt i .err s, .none)
        else if s.parked then (if s.event then some ({ s.adv with parked := false }, .none) else none)
        else if s.readable then some (s.adv, .none)
        else if s.event then some (s.adv, .none)                  -- `event.wait()` returns at once when the event is set
        else some ({ s with parked := true }, .none)
    | .wait =>
        if s.event then some ({ s.adv with parked := false }, .none)
        else if s.parked then none else some ({ s with parked := true }, .none)
    | .removeReader =>
        if s.rxOpen then some ({ s.adv with reader := false }, .removeReader) else some (raiseAt i .err s, .none)
    | .clearEvent => some ({ s.adv with event := false }, .none)
    | .recv =>
        if !s.rxOpen then some (raiseAt i .err s, .none) else
        match s.buf with
        | .full e => some ({ s.adv with buf := .empty, res := if e then .err else .ok }, .none)
        | .partialMsg e =>
            if s.cpc == .sending then     -- rendezvous: the parent drains while the child writes the rest
              some ({ s.adv with buf := .empty, res := if e then .err else .ok, cpc := .sent }, .none)
            else if !s.parentTx && !s.childTx then some (raiseAt i .err s, .none)   -- "got end of file during message"
            else none
        | .empty => if !s.parentTx && !s.childTx then some (raiseAt i .eof s, .none) else none   -- blocks synchronously
    | .setChildProcessError => some ({ s.adv with res := .cpe }, .none)
    | .setForeign => some ({ s.adv with res := .foreign }, .none)
    | .join =>
        if s.cpc == .notStarted then some (raiseAt i .err s, .none)      -- "can only join a started process"
        else if s.cpc == .exited then some ({ s.adv with reaped := true }, .none)
        else none                                                         -- blocks synchronously
    | .joinTimeout =>
        if s.cpc == .notStarted then some (raiseAt i .err s, .none)
        else if s.cpc == .exited then some ({ s.adv with reaped := true }, .none)
        else some (s.adv, .none)      -- the time is up (how long a child needs from the end of `send` to its exit is not bounded:
                                      -- exit handlers, non-daemon threads): the coroutine goes on, the child is neither gone nor reaped
    | .closeRx => if s.rxOpen then some ({ s.adv with rxOpen := false }, .freeRx) else some (s.adv, .none)
    | .raiseIfError =>
        match s.res with
        | .err => some ({ s with out := some .raisedCallee }, .none)
        | .cpe => some ({ s with out := some .raisedCPE }, .none)
        | _ => some (s.adv, .none)
    | .ret => some ({ s with out := some (if s.res == .ok then .retOk else .retForeign) }, .none)
    | .caught => some ({ s.adv with exc := none }, .none)
    | .jump t => some ({ s with pc := t }, .none)
    | .reraise =>
        match s.exc with
        | some e => some (raiseAt i e s, .none)
        | none => some (s.adv, .none)

/-! ## child -/

/-- one step of the child process -/
def childStep (b : Beh) (big : Bool) (s : St) : Option St :=
  match s.cpc with
  | .notStarted => none
  | .running =>
      if !s.childTx then some { s with cpc := .exited }         -- no usable write end: `send` fails, the child ends
      else match b with
        | .die => some { s with cpc := .exited, childTx := false }
        | .sendOk => if big then some { s with cpc := .sending, buf := .partialMsg false } else some { s with cpc := .sent, buf := .full false }
        | .sendErr => if big then some { s with cpc := .sending, buf := .partialMsg true } else some { s with cpc := .sent, buf := .full true }
        | .dieMidSend => some { s with cpc := .sending, buf := .partialMsg false }
  | .sending =>
      match b with
      | .dieMidSend => some { s with cpc := .exited, childTx := false }   -- killed while blocked in write
      | _ => none                                                          -- blocked until the parent drains (rendezvous in `recv`)
  | .sent => some { s with cpc := .exited, childTx := false }
  | .exited => none

/-! ## event loop (local view) -/

/-- the reader callback `event.set` runs when the fd is registered and readable -/
def loopStep (s : St) : Option St :=
  if s.reader && s.rxOpen && s.readable && !s.event then some { s with event := true } else none

/-- all successors of a local state -/
def next (P : List Instr) (b : Beh) (big : Bool) (s : St) : List St :=
  ((parentStep P s).map (·.1)).toList ++ (childStep b big s).toList ++ (loopStep s).toList

/-! ## reachable set of the local machine (finite; computed, then proved closed) -/

/-- worklist closure with fuel: every state is expanded once -/
def bfs (P : List Instr) (b : Beh) (big : Bool) : Nat → List St → List St → List St
  | 0, _, acc => acc
  | _ + 1, [], acc => acc
  | n + 1, s :: todo, acc =>
    let new := (next P b big s).foldl (fun nw t => if acc.contains t || nw.contains t then nw else nw ++ [t]) []
    bfs P b big n (todo ++ new) (acc ++ new)

def reach (P : List Instr) (b : Beh) (big : Bool) : List St := bfs P b big 256 [St.init] [St.init]

/-- progress measure: every step strictly decreases it on the reachable set (checked per configuration) -/
def rank (R : List Nat) (s : St) : Nat :=
  (if s.out.isSome then 0 else 16 * (R[s.pc]?.getD 0 + 1)) +
  3 * (match s.cpc with | .notStarted => 4 | .running => 3 | .sending => 2 | .sent => 1 | .exited => 0) +
  2 * (if s.parked then 0 else 1) + (if s.event then 0 else 1)

/-! ## what the parent is doing right now (for `other_tasks_run`) -/

/-- the coroutine sits in a *synchronously* blocking call that cannot return yet: nothing else runs in the event loop -/
def syncBlocked (P : List Instr) (s : St) : Bool :=
  !s.out.isSome && (parentStep P s).isNone && !s.parked

/-- the coroutine is suspended at an `await` (a yield point: other tasks run) -/
def suspended (s : St) : Bool := !s.out.isSome && s.parked

/-! ## global machine -/

structure Loc where
  callee : Callee
  big : Bool
  st : St
  rx : Option Nat      -- fd number of the read end while open
  tx : Option Nat      -- fd number of the parent's write end while open
deriving DecidableEq, Repr

/-- selector map entry: `fd ↦ (callback = event.set of invocation owner)`; `live` = the kernel (epoll) still watches it -/
structure Entry where
  fd : Nat
  owner : Nat
  live : Bool
deriving DecidableEq, Repr

structure G where
  invs : List Loc
  tbl : List Entry
deriving DecidableEq, Repr

def Loc.fresh (c : Callee) (big : Bool) : Loc := { callee := c, big := big, st := St.init, rx := none, tx := none }

def G.init (cs : List (Callee × Bool)) : G := { invs := cs.map (fun c => Loc.fresh c.1 c.2), tbl := [] }

/-- **a new event loop** in the same interpreter (`asyncio.run(..)` once more): its selector map is a new, empty one; the
    invocations of the earlier loops stay what they are (finished, when the earlier `asyncio.run` has returned), the invocations
    made in the new loop are appended.  Nothing else exists that an invocation could find: the module keeps no state
    (`PedVerif.Gen.SubprocModule`, proved empty in Props/C17). -/
def G.newLoop (g : G) (cs : List (Callee × Bool)) : G :=
  { invs := g.invs ++ cs.map (fun c => Loc.fresh c.1 c.2), tbl := [] }

def usedFds (invs : List Loc) : List Nat := invs.flatMap (fun l => l.rx.toList ++ l.tx.toList)

def maxOf : List Nat → Nat
  | [] => 0
  | x :: xs => max x (maxOf xs)

/-- lowest fd number not in use (the fallback is never taken; it keeps freshness provable without a pigeonhole argument) -/
def lowestFree (used : List Nat) : Nat :=
  match (List.range (used.length + 1)).find? (fun n => !used.contains n) with
  | some n => n
  | none => maxOf used + 1

def tblErase (fd : Nat) (t : List Entry) : List Entry := t.filter (fun e => e.fd != fd)

/-- `add_reader`: a new fd is registered with the kernel; an fd that still has a map entry only gets the new callback -/
def tblPut (fd owner : Nat) (t : List Entry) : List Entry :=
  match t.find? (fun e => e.fd == fd) with
  | some old => { fd := fd, owner := owner, live := old.live } :: tblErase fd t
  | none => { fd := fd, owner := owner, live := true } :: t

/-- `close(fd)`: epoll forgets the fd, the selector map does not -/
def tblMarkDead (fd : Nat) (t : List Entry) : List Entry :=
  t.map (fun e => if e.fd == fd then { e with live := false } else e)

def applyEff (i : Nat) (l : Loc) (t : St) (eff : Eff) (g : G) : G :=
  match eff with
  | .none => { g with invs := g.invs.set i { l with st := t } }
  | .allocPipe =>
      let used := usedFds g.invs
      let r := lowestFree used
      let w := lowestFree (r :: used)
      { g with invs := g.invs.set i { l with st := t, rx := some r, tx := some w } }
  | .freeTx => { g with invs := g.invs.set i { l with st := t, tx := none } }
  | .addReader =>
      { invs := g.invs.set i { l with st := t },
        tbl := match l.rx with | some fd => tblPut fd i g.tbl | none => g.tbl }
  | .removeReader =>
      { invs := g.invs.set i { l with st := t },
        tbl := match l.rx with | some fd => tblErase fd g.tbl | none => g.tbl }
  | .freeRx =>
      { invs := g.invs.set i { l with st := t, rx := none },
        tbl := match l.rx with | some fd => tblMarkDead fd g.tbl | none => g.tbl }

/-- parent of invocation `i` takes a step -/
def gParent (P : List Instr) (i : Nat) (g : G) : Option G :=
  match g.invs[i]? with
  | none => none
  | some l =>
    match parentStep P l.st with
    | none => none
    | some (t, eff) => some (applyEff i l t eff g)

/-- child of invocation `i` takes a step -/
def gChild (i : Nat) (g : G) : Option G :=
  match g.invs[i]? with
  | none => none
  | some l =>
    match childStep (childBeh l.callee) l.big l.st with
    | none => none
    | some t => some { g with invs := g.invs.set i { l with st := t } }

/-- the event loop runs the callback of the `k`-th selector entry: the kernel reports the entry's fd readable, the
    callback sets the event *of the entry's owner* -/
def gCallback (k : Nat) (g : G) : Option G :=
  match g.tbl[k]? with
  | none => none
  | some e =>
    if !e.live then none else
    match g.invs.find? (fun l => l.rx == some e.fd) with
    | none => none
    | some p =>
      if !p.st.readable then none else
      match g.invs[e.owner]? with
      | none => none
      | some o => if o.st.event then none else some { g with invs := g.invs.set e.owner { o with st := { o.st with event := true } } }

/-- one step of the global system, labelled by the component that moves -/
inductive GStep (P : List Instr) : G → G → Prop where
  | parent (i : Nat) {g g' : G} : gParent P i g = some g' → GStep P g g'
  | child (i : Nat) {g g' : G} : gChild i g = some g' → GStep P g g'
  | callback (k : Nat) {g g' : G} : gCallback k g = some g' → GStep P g g'

inductive GRun (P : List Instr) : G → G → Prop where
  | refl (g : G) : GRun P g g
  | step {g g' g'' : G} : GRun P g g' → GStep P g' g'' → GRun P g g''

/-- runs with their length -/
inductive GRunN (P : List Instr) : Nat → G → G → Prop where
  | refl (g : G) : GRunN P 0 g g
  | step {n : Nat} {g g' g'' : G} : GRunN P n g g' → GStep P g' g'' → GRunN P (n + 1) g g''

/-- all successors of a global state (executable form of `GStep`) -/
def gsucc (P : List Instr) (g : G) : List G :=
  (List.range g.invs.length).filterMap (fun i => gParent P i g) ++
  (List.range g.invs.length).filterMap (fun i => gChild i g) ++
  (List.range g.tbl.length).filterMap (fun k => gCallback k g)

/-! ## a deterministic scheduler: picks ONE interleaving, the one a single-threaded event loop with the given relative
    callee durations produces (parents run to their next suspension in start order, then ready callbacks, then the
    child that finishes next).  Used by the driver to predict a concrete scenario and by the deadlock witness. -/

/-- scheduling data of an invocation: virtual duration of the callee, and the invocation of the same task that must have
    finished before this one is started (sequential awaits) -/
structure Sched where
  dur : Nat
  pred : Option Nat
  /-- the callee returns / raises / dies only after these invocations have finished (it waits for an event that the caller sets
      then): "arbitrary relative durations" includes a callee that outlives another invocation *by design* -/
  gate : List Nat
deriving Repr

def runParent (P : List Instr) (i : Nat) : Nat → G → G
  | 0, g => g
  | n + 1, g => match gParent P i g with
    | some g' => runParent P i n g'
    | none => g

def runChild (i : Nat) : Nat → G → G
  | 0, g => g
  | n + 1, g => match gChild i g with
    | some g' => runChild i n g'
    | none => g

def isFinalAt (g : G) (i : Nat) : Bool := match g.invs[i]? with | some l => l.st.final | none => true

/-- some coroutine sits in a synchronously blocking call: the event loop is frozen, only children move -/
def frozen (P : List Instr) (g : G) : Bool := g.invs.any (fun l => syncBlocked P l.st)

def startable (g : G) (sc : List Sched) (i : Nat) : Bool :=
  match g.invs[i]?, sc[i]? with
  | some l, some s => l.st.pc != 0 || l.st.final || (match s.pred with | some p => isFinalAt g p | none => true)
  | _, _ => false

/-- parents in start order, each to its next suspension; stops as soon as the loop is frozen -/
def parentPhase (P : List Instr) (sc : List Sched) : List Nat → G → G
  | [], g => g
  | i :: is, g =>
    if frozen P g then g
    else parentPhase P sc is (if startable g sc i then runParent P i 64 g else g)

def callbackPhase : Nat → G → G
  | 0, g => g
  | k + 1, g => let g' := callbackPhase k g
                match gCallback k g' with
                | some g'' => g''
                | none => g'

/-- every invocation the callee of `i` waits for has finished -/
def gateOpen (sc : List Sched) (g : G) (i : Nat) : Bool :=
  match sc[i]? with
  | some s => s.gate.all (isFinalAt g)
  | none => true

/-- can the child of `i` move now?  A running child moves when its virtual duration has elapsed and its gate is open. -/
def childReady (sc : List Sched) (g : G) (rem : List Nat) (i : Nat) : Bool :=
  match g.invs[i]? with
  | some l => (gChild i g).isSome && (l.st.cpc != .running || (rem[i]?.getD 0 == 0 && gateOpen sc g i))
  | none => false

def minRunning (g : G) (rem : List Nat) : Option Nat :=
  ((List.range g.invs.length).filterMap (fun i =>
    match g.invs[i]? with
    | some l => if l.st.cpc == .running && rem[i]?.getD 0 > 0 then some (rem[i]?.getD 0) else none   -- (a callee at its end waits for its gate)
    | none => none)).min?

/-- one iteration of the event loop: runnable coroutines, then ready callbacks -/
def loopPhase (P : List Instr) (sc : List Sched) (g : G) : G :=
  let g1 := parentPhase P sc (List.range g.invs.length) g
  if frozen P g1 then g1 else callbackPhase g1.tbl.length g1

/-- virtual time passes: every running callee gets `d` closer to its end -/
def advance (g : G) (rem : List Nat) (d : Nat) : List Nat :=
  (List.range g.invs.length).map (fun i => match g.invs[i]? with
    | some l => if l.st.cpc == .running then rem[i]?.getD 0 - d else rem[i]?.getD 0
    | none => 0)

def schedule (P : List Instr) (sc : List Sched) : Nat → List Nat → G → G
  | 0, _, g => g
  | n + 1, rem, g =>
    if loopPhase P sc g != g then schedule P sc n rem (loopPhase P sc g)
    else match (List.range g.invs.length).find? (childReady sc g rem) with
      | some i => schedule P sc n rem (runChild i 8 g)
      | none =>
        match minRunning g rem with
        | some d => if d == 0 then g else schedule P sc n (advance g rem d) g
        | none => g

/-! ## the same scheduler with some children lingering: a child in `hold` has sent its message but its exit step is withheld (a
    non-daemon thread of the callee is still running, an exit handler takes its time) — everything else moves as far as it can.
    Used by the driver to predict behind which invocations the event loop sits frozen inside `join`, and by the negation
    witness `join_blocks_other_tasks`. -/

def lingering (hold : List Nat) (g : G) (i : Nat) : Bool :=
  hold.contains i && (match g.invs[i]? with | some l => l.st.cpc == .sent | none => false)

def scheduleH (hold : List Nat) (P : List Instr) (sc : List Sched) : Nat → List Nat → G → G
  | 0, _, g => g
  | n + 1, rem, g =>
    if loopPhase P sc g != g then scheduleH hold P sc n rem (loopPhase P sc g)
    else match (List.range g.invs.length).find? (fun i => childReady sc g rem i && !lingering hold g i) with
      | some i => scheduleH hold P sc n rem (runChild i (if hold.contains i then 1 else 8) g)   -- a held child stops after its send
      | none =>
        match minRunning g rem with
        | some d => if d == 0 then g else scheduleH hold P sc n (advance g rem d) g
        | none => g

/-- the invocations of `hold` whose coroutine sits in a synchronously blocking call in `g` -/
def blockedBehind (P : List Instr) (hold : List Nat) (g : G) : List Nat :=
  hold.filter (fun i => match g.invs[i]? with | some l => syncBlocked P l.st | none => false)

end PedVerif.Subproc
