import PedVerif.Gen.Switch
/-!
Model of the `ENABLE_PEDANTIC` switch (C09): `pedantic/env_var_logic.py`, the early `return` in
`fn_deco_pedantic.pedantic.decorator` and `class_decorators.for_all_methods.decorate`, and the shortcut
decorators that only hand their target on.

Everything that says *where* and *how* the switch is consulted comes from `PedVerif.Gen.Switch`
(`isEnabledE`, `enableWrites`, `disableWrites`, `rows`), which the translator regenerates from the source on
every run.  What is modelled by hand: that a wrapper made by `pedantic` rejects positional / wrongly typed
calls, that `trace`/`timer` wrappers print, that `for_all_methods` returns the class it was given after
replacing its members, and that a required docstring that is missing makes the decoration raise.

The process is a state machine: the value of the environment variable, an append-only table of decoration
results ("handles"), the object each of them was made from ("targets") and a table of decorators obtained earlier and
applied later ("factories": `pedantic()`, `pedantic(require_docstring=True)`, `for_all_methods(d)`, or a plain reference).

A decoration is applied either to a fresh object or — `redecorate` / `reapply` — to the very function object an earlier
decoration was applied to (`f2 = pedantic(f); …; f3 = pedantic(f)`).  The code keeps no per-object state (no cache, no
marker attribute on the function), so in the model the outcome for a function that has been decorated before is the
outcome for a fresh one; the correspondence run checks exactly that against the library.  Classes are changed in place by
`for_all_methods`, so decorating the same class object again is outside the model (`bad`).

Sub classes (`subclass`) and members reached through them (`callm`): `for_all_methods.decorate` replaces every member of the
class *while it runs* (`membersEager` in the generated table — the per-member decorator is applied on the spot, nothing is
kept to be applied on a later attribute access), so whatever was decided at the decoration of the base class sits in the
base class' `__dict__`; a sub class created at any later time — before or after a toggle, used for the first time before or
after a toggle — finds exactly those objects through the MRO.  In the model a sub class handle therefore carries the mode
of its base, and a member call through the sub class or one of its instances is answered from that mode alone.

Objects the checking decorators are not made for (`Target.odd`, and every function handed to a class decorator / class handed
to a function decorator): a function without retrievable source (made with `exec`), a builtin, a `functools.partial`, an instance
with `__call__`, a lambda, a bound method, a function whose docstring contradicts its signature, a class made with `exec`, an
`Enum`, a dataclass, ….  The early `return` of the receiver comes before anything looks at the target, so with the switch off the
outcome is the one of every other target — the row of the generated table decides it (`early`) — whatever the object is.  With the
switch on the model says nothing about such an object (`DecoOut.unspecified`, mode `unknown`, observation `unspecified`): what
`DecoratedFunction` / `for_all_methods` make of it is not part of this model, and the correspondence run compares nothing there.
-/
namespace PedVerif.Switch
open PedVerif.Gen.Switch

/-- the per-member decorator handed to `for_all_methods` -/
inductive Inner where
  | pedantic | pedanticDoc | trace | timer
  | mark                     -- a decorator of the harness that ignores the switch and records every call
deriving DecidableEq, Repr

def Inner.name : Inner → String
  | .pedantic => "pedantic" | .pedanticDoc => "pedantic_require_docstring"
  | .trace => "trace" | .timer => "timer" | .mark => "<mark>"

/-- the seven decorators of the property -/
inductive Deco where
  | pedantic | pedanticDoc | pedanticClass | pedanticClassDoc | traceClass | timerClass
  | forAll (i : Inner)
deriving DecidableEq, Repr

def Deco.name : Deco → String
  | .pedantic => "pedantic" | .pedanticDoc => "pedantic_require_docstring"
  | .pedanticClass => "pedantic_class" | .pedanticClassDoc => "pedantic_class_require_docstring"
  | .traceClass => "trace_class" | .timerClass => "timer_class" | .forAll _ => "for_all_methods"

/-- does the decorator take a class (otherwise a function) -/
def Deco.onClass : Deco → Bool
  | .pedantic | .pedanticDoc => false
  | _ => true

def Deco.innerArg : Deco → String
  | .forAll i => i.name
  | _ => ""

/-- a decoration target: a function or a class whose members are functions; `hasDoc` = every function involved
    carries a complete docstring -/
structure Target where
  isClass : Bool
  hasDoc : Bool
  full : Bool := false       -- a class that, besides the method `m`, has a class method, a static method and a property (getter + setter)
  odd : Bool := false        -- an object the checking decorators are not made for (no source, builtin, partial, callable instance, lambda,
                             -- contradictory docstring, Enum, dataclass, …); `isClass` still says whether it is a class object (changed in
                             -- place by class decorators); `hasDoc` / `full` mean nothing for it
  falsy : Bool := false      -- `bool(obj)` is False (a class whose metaclass defines `__len__`, an empty callable `list` subclass, `__bool__`)
  generic : Bool := false    -- an ordinary class that lists `typing.Generic[T]` among its bases: its instances want type arguments
deriving DecidableEq, Repr

/-- the decorator is made for this target: an ordinary function for a function decorator, an ordinary class for a class decorator -/
def fits (d : Deco) (t : Target) : Bool := !t.odd && d.onClass == t.isClass

/-- a member of a class -/
inductive Member where
  | method | classMethod | staticMethod | propGet | propSet
deriving DecidableEq, Repr

/-- where the member is looked up: on the class object (`S.cm(..)`, `S.m(inst, ..)`, `S.p.fget(inst)`) or on an instance -/
inductive Via where
  | cls | inst
deriving DecidableEq, Repr

def hasMember (t : Target) (m : Member) : Bool := !t.odd && t.isClass && (t.full || m == .method)

inductive CallKind where
  | good          -- keyword call with a conforming value
  | positional    -- positional call
  | wrongType     -- keyword call with a value of the wrong type
  | unparamInst   -- `x = Cls(); x.m(a=1)` written in the module of the class: an instance created WITHOUT type arguments, conforming call
  | paramInst     -- `x = Cls[int](); x.m(a=1)` (for a class that is not generic: `x = Cls()`): conforming call
deriving DecidableEq, Repr

/-- calls that a checking wrapper rejects whatever the class is -/
def CallKind.misuse : CallKind → Bool
  | .positional | .wrongType => true
  | _ => false

/-- reading a property / assigning to it has one form only: `positional` is the same access as `good`
    (`wrongType`: the getter produces / the setter receives a value of the wrong type) -/
def Member.kind (m : Member) (k : CallKind) : CallKind :=
  match m, k with
  | _, .unparamInst => .good          -- members are reached through an instance the harness creates itself: a conforming call
  | _, .paramInst => .good
  | .propGet, .positional => .good
  | .propSet, .positional => .good
  | _, k => k

/-- what an active wrapper does on a call -/
inductive Effect where
  | checks        -- pedantic: positional calls and wrongly typed values raise a PedanticException
  | checksGeneric -- pedantic on a class that lists `Generic[…]`: besides, a call on an instance created without type arguments raises
                  -- PedanticTypeVarMismatchException
  | prints        -- trace / timer: writes to stdout
  | marks         -- the harness decorator: records the call
deriving DecidableEq, Repr

/-- how the callable behind a handle behaves -/
inductive Mode where
  | plain                    -- the original object: nothing imposed
  | frozen (e : Effect)      -- a wrapper whose effect was fixed when it was made
  | dynamic (e : Effect)     -- a wrapper that asks the switch on every call (does not occur in the code as it is)
  | dead                     -- the decoration failed: there is no callable
  | unknown                  -- whatever an enabled decorator made of an object it is not made for: not described by this model
deriving DecidableEq, Repr

inductive DecoOut where
  | ok (same dictSame : Bool) (mode : Mode)   -- result `is` target / target's `__dict__` untouched / behaviour
  | raised                                    -- a PedanticException escapes the decoration (missing docstring)
  | switchError                               -- `is_enabled()` itself raised
  | noRow                                     -- unknown decorator
  | unspecified                               -- the decorator went to work on an object it is not made for: not described by this model
deriving DecidableEq, Repr

def lookup (n : String) : Option Row := rows.find? (fun r => r.name == n)

/-- value of the receiver's `if <test>:` for a given result of `is_enabled()` -/
def guardFires (r : Row) (en : Bool) : Bool := if en then r.guardIfEnabled else r.guardIfDisabled

/-- the guarded early `return`; a hop that accepts both `@d` and `@d(…)` hands the target on only if it tells the two uses apart by
    `is None` — told apart by truth value, an object with `bool(obj) == False` is taken for "no target given" -/
def early (r : Row) (t : Target) : DecoOut :=
  if r.returnsReceived && r.untouchedBefore && r.passThrough && (r.dispatchOnNone || !t.falsy) then .ok true true .plain
  else .ok false false .plain      -- something else comes back, or the target was touched on the way

/-- the rest of `pedantic.decorator`: docstring check, then a wrapper with behaviour `m` -/
def wrapFn (r : Row) (hasDoc : Bool) (m : Mode) : DecoOut :=
  if r.requireDocstring && !hasDoc then .raised else .ok false true m

/-- a function decorator of the table; `enF` = `is_enabled()` when the decorator was obtained, `enD` = when applied -/
def applyFnRow (r : Row) (enF : Option Bool) (enD : Bool) (t : Target) : DecoOut :=
  let hasDoc := t.hasDoc
  let wrapped := if r.wrapperAlsoReads then Mode.dynamic .checks else Mode.frozen .checks
  match r.readAt with
  | .never => wrapFn r hasDoc (.frozen .checks)
  | .wrapper => wrapFn r hasDoc (.dynamic .checks)
  | .decoration => if guardFires r enD then early r t else wrapFn r hasDoc wrapped
  | .factory =>
    match enF with
    | none => .switchError
    | some e => if guardFires r e then early r t else wrapFn r hasDoc wrapped

/-- a member decorator that is not applied while `decorate` runs but kept and applied on a later attribute access reads the
    switch then, not now (does not occur in the code as it is; coarse: "asks the switch when used") -/
def deferred : DecoOut → DecoOut
  | .ok a b (.frozen e) => .ok a b (.dynamic e)
  | o => o

/-- a member of a class: an ordinary function -/
def memberTarget (hasDoc : Bool) : Target := { isClass := false, hasDoc := hasDoc }

/-- `decorator(attr_value)` inside `for_all_methods.decorate`, by the decorator's name; `eager` = applied on the spot -/
def applyInner (eager : Bool) (n : String) (en hasDoc : Bool) : DecoOut :=
  if n == "trace" || n == "timer" then .ok false true (.frozen .prints)
  else if n == "<mark>" then .ok false true (.frozen .marks)
  else match lookup n with
    | some r => if eager then applyFnRow r (some en) en (memberTarget hasDoc) else deferred (applyFnRow r (some en) en (memberTarget hasDoc))
    | none => .noRow

/-- the checking wrappers of a class that lists `Generic[…]` ask, on every call, whether the instance was created with type arguments
    (`_get_type_vars__`, added by `for_all_methods`, → `check_instance_of_generic_class_and_get_type_vars`) — no other wrapper does -/
def onGeneric (generic : Bool) : Mode → Mode
  | .frozen .checks => if generic then .frozen .checksGeneric else .frozen .checks
  | .dynamic .checks => if generic then .dynamic .checksGeneric else .dynamic .checks
  | m => m

/-- the rest of `for_all_methods.decorate`: every member replaced, a method added, the class itself returned -/
def classBody (eager : Bool) (n : String) (en : Bool) (t : Target) : DecoOut :=
  match applyInner eager n en t.hasDoc with
  | .ok _ _ m => .ok true false (onGeneric t.generic m)
  | o => o

def applyClassRow (r : Row) (innerArg : String) (enF : Option Bool) (enD : Bool) (t : Target) : DecoOut :=
  let n := if r.inner == "<arg>" then innerArg else r.inner
  match r.readAt with
  | .never | .wrapper => classBody r.membersEager n enD t
  | .decoration => if guardFires r enD then early r t else classBody r.membersEager n enD t
  | .factory =>
    match enF with
    | none => .switchError
    | some e => if guardFires r e then early r t else classBody r.membersEager n enD t

/-- an object the decorator is not made for: only the early `return` is modelled — it is taken (or not) exactly as for every
    other target, because nothing has looked at the object by then; past it the model is silent -/
def applyOpaqueRow (r : Row) (enF : Option Bool) (enD : Bool) (t : Target) : DecoOut :=
  match r.readAt with
  | .never | .wrapper => .unspecified
  | .decoration => if guardFires r enD then early r t else .unspecified
  | .factory =>
    match enF with
    | none => .switchError
    | some e => if guardFires r e then early r t else .unspecified

def decoOut (d : Deco) (t : Target) (enF : Option Bool) (enD : Bool) : DecoOut :=
  match lookup d.name with
  | none => .noRow
  | some r =>
    if !fits d t then applyOpaqueRow r enF enD t
    else if d.onClass then applyClassRow r d.innerArg enF enD t else applyFnRow r enF enD t

/-! ### the state machine -/

inductive Op where
  | setenv (s : String) | unsetenv | enable | disable
  | factory (d : Deco)                -- obtain the decorator now (`pedantic()`, `for_all_methods(x)`, a reference), apply later
  | decorate (d : Deco) (t : Target)  -- apply the decorator to a fresh target; the result becomes the next handle
  | apply (k : Nat) (t : Target)      -- apply the k-th factory to a fresh target; the result becomes the next handle
  | redecorate (d : Deco) (h : Nat)   -- apply the decorator to the same function object the h-th decoration was applied to
  | reapply (k : Nat) (h : Nat)       -- apply the k-th factory to that same function object
  | call (h : Nat) (k : CallKind)     -- call the h-th decoration result (for a class: a method of a new instance)
  | subclass (h : Nat)                -- `class S(<the class behind handle h>): pass` — S becomes the next handle; nothing is decorated
  | callm (h : Nat) (m : Member) (v : Via) (k : CallKind)
                                      -- reach member m of the class behind handle h (a decorated class or a sub class of one)
                                      -- through the class object / through a new instance, and call it
deriving DecidableEq, Repr

structure Factory where
  deco : Deco
  enAt : Option Bool                  -- what `is_enabled()` would have said when the factory was made
deriving DecidableEq, Repr

structure St where
  env : Option String
  handles : List Mode
  factories : List Factory
  targets : List (Option Target) := []   -- the object the i-th handle was made from (`none`: there was none)
deriving DecidableEq, Repr

inductive Obs where
  | none
  | decorated (same dictSame : Bool)
  | decoRaised
  | called (rejected printed marked : Bool)
  | bad                               -- no such handle / factory / member, dead handle, kind mismatch
  | switchError
  | derived                           -- a sub class was created
  | callError                         -- the call raised something that is not a PedanticException (a TypeError)
  | unspecified                       -- the model does not describe this (an enabled decorator met an object it is not made for)
deriving DecidableEq, Repr

def init (e : Option String) : St := ⟨e, [], [], []⟩

def effObs (e : Effect) (k : CallKind) : Obs :=
  match e with
  | .checks => .called k.misuse false false
  | .checksGeneric => .called (k.misuse || k == .unparamInst) false false
  | .prints => .called false true false
  | .marks => .called false false true

def callObs (m : Mode) (enNow : Option Bool) (k : CallKind) : Obs :=
  match m with
  | .dead => .bad
  | .unknown => .unspecified
  | .plain => .called false false false
  | .frozen e => effObs e k
  | .dynamic e =>
    match enNow with
    | none => .switchError
    | some true => effObs e k
    | some false => .called false false false

/-- `for_all_methods` stores `decorator(getattr(cls, name))` back as a plain function: a class method / static method whose
    wrapper does not strip the extra argument (trace, timer, a foreign decorator) gets the instance as an extra first argument
    when it is reached through an instance (recorded finding of C18, not a matter of the switch) -/
def rebound (m : Member) (v : Via) : Bool := (m == .classMethod || m == .staticMethod) && v == .inst

/-- a member of a class decorated with effect `e`, reached through the class or an instance -/
def effObsM (e : Effect) (m : Member) (v : Via) (k : CallKind) : Obs :=
  match e with
  | .checks | .checksGeneric => .called (m.kind k).misuse false false
  | .prints => if rebound m v then .callError else .called false true false
  | .marks => if rebound m v then .callError else .called false false true

def callObsM (md : Mode) (enNow : Option Bool) (m : Member) (v : Via) (k : CallKind) : Obs :=
  match md with
  | .dead => .bad
  | .unknown => .unspecified
  | .plain => .called false false false
  | .frozen e => effObsM e m v k
  | .dynamic e =>
    match enNow with
    | none => .switchError
    | some true => effObsM e m v k
    | some false => .called false false false

/-- what a plain sub class inherits: the members as they were decided — but the sub class is no generic class itself -/
def derivedMode : Mode → Mode
  | .frozen .checksGeneric => .frozen .checks
  | .dynamic .checksGeneric => .dynamic .checks
  | m => m

def push (s : St) (m : Mode) : St := { s with handles := s.handles ++ [m] }

def finish (s : St) : DecoOut → St × Obs
  | .ok same ds m => (push s m, .decorated same ds)
  | .raised => (push s .dead, .decoRaised)
  | .switchError => (push s .dead, .switchError)
  | .noRow => (push s .dead, .bad)
  | .unspecified => (push s .unknown, .unspecified)

/-- remember which object the newest handle was made from -/
def record (t : Option Target) (p : St × Obs) : St × Obs := ({ p.1 with targets := p.1.targets ++ [t] }, p.2)

/-- the object the h-th decoration was applied to, if it can be decorated again within this model: a function (decorating it
    made a new wrapper object and left the function as it was); not a class (changed in place) -/
def again (targets : List (Option Target)) (h : Nat) : Option Target :=
  match targets[h]? with
  | some (some t) => if t.isClass then none else some t
  | _ => none

/-- the decorator is applied now, directly -/
def decorateNow (s : St) (d : Deco) (t : Target) : St × Obs :=
  match isEnabledE s.env with
  | none => finish s .switchError
  | some en => finish s (decoOut d t (some en) en)

/-- the k-th decorator obtained earlier is applied now -/
def applyNow (s : St) (k : Nat) (t : Target) : St × Obs :=
  match s.factories[k]? with
  | none => finish s .noRow
  | some f =>
    match isEnabledE s.env with
    | none => finish s .switchError
    | some en => finish s (decoOut f.deco t f.enAt en)

def step (s : St) : Op → St × Obs
  | .setenv v => ({ s with env := some v }, .none)
  | .unsetenv => ({ s with env := none }, .none)
  | .enable => ({ s with env := enableWrites }, .none)
  | .disable => ({ s with env := disableWrites }, .none)
  | .factory d => ({ s with factories := s.factories ++ [⟨d, isEnabledE s.env⟩] }, .none)
  | .decorate d t => record (some t) (decorateNow s d t)
  | .apply k t => record (some t) (applyNow s k t)
  | .redecorate d h =>
    -- nothing in the code remembers that the function was decorated before: the same as for a fresh function
    match again s.targets h with
    | none => record none (finish s .noRow)
    | some t => record (some t) (decorateNow s d t)
  | .reapply k h =>
    match again s.targets h with
    | none => record none (finish s .noRow)
    | some t => record (some t) (applyNow s k t)
  | .call h k =>
    match s.handles[h]? with
    | none => (s, .bad)
    | some m => (s, callObs m (isEnabledE s.env) k)
  | .subclass h =>
    -- the sub class owns no member: every lookup ends in the base class' `__dict__`, where `decorate` left what it decided
    match s.handles[h]?, s.targets[h]? with
    | some md, some (some t) =>
      if t.isClass && !t.odd then
        -- `class S(Base): pass` does not list `Generic[…]` itself: its instances are not asked for type arguments
        record (some { t with generic := false }) (match md with
          | .dead => (push s .dead, .bad)                 -- no class came out of the decoration
          | .unknown => (push s .unknown, .unspecified)   -- not described
          | md => (push s (derivedMode md), .derived))
      else record none (push s .dead, .bad)                                                                    -- a function has no sub class
    | _, _ => record none (push s .dead, .bad)
  | .callm h m v k =>
    match s.handles[h]?, s.targets[h]? with
    | some md, some (some t) => if hasMember t m then (s, callObsM md (isEnabledE s.env) m v k) else (s, .bad)
    | _, _ => (s, .bad)

def run (s : St) : List Op → List Obs
  | [] => []
  | op :: rest => (step s op).2 :: run (step s op).1 rest

/-- the state after a history -/
def exec (s : St) : List Op → St
  | [] => s
  | op :: rest => exec (step s op).1 rest

end PedVerif.Switch
