import PedVerif.Model.CallLayer
import PedVerif.Gen.CallLayerIR
/-!
Interpreter of the statement-by-statement translation (`Gen/CallLayerIR.lean`, regenerated from the source on every run)
of `FunctionCall`, the predicates of `DecoratedFunction` and the wrapper bodies of `pedantic` / `require_kwargs`, over the
data types of the hand-written model (`Model/CallLayer.lean`).

* `interp` executes one translated function body: statements in the order they are written, `if` by evaluating the guard
  that is written, loops over the list the source iterates, `raise` / `return` ending the function.  A call of another
  translated function goes through the table `Callees`; the functions are tied bottom-up (`clazz`, `args_without_self`,
  the two assertions, `__init__`, `_get_return_value` first, the wrappers last), so every definition is structurally
  recursive on the statement and nothing is assumed about the call graph except that it has no cycle.
* what the interpreter takes from the hand model is the *environment*: `checkType` (one `assert_value_matches_type`),
  `Fn.binds` (Python's own argument binding), `Fn.nPositional` (what `bind_partial` leaves for `*args`), the data types.
* every executed statement pushes its id on `Obj.trace` (function entries push `n * 100`): the path that the harness
  compares with the lines CPython executes (`harness/props/_calltrace_common.py`).

`Lemmas/CallLayerIR.lean` proves that `runCallIR` (the interpretation of the wrapper that `decorator` selects) equals the
hand model's `runCall` for all inputs.
-/
namespace PedVerif.CallIR
open PedVerif.Checker PedVerif.Call PedVerif.Gen.CallLayerIR PedVerif.Gen.TypeTables

/-- what the hand model does not describe: is the receiver a `GenericMixin` (has the TypeVar method), and do its bindings
    already contain `Self` -/
structure World where
  tvm : Bool
  selfBound : Bool
deriving Repr

structure Ctx where
  env : Env
  orc : Nat → Val → Raw
  f : Fn
  args : List Val
  kw : List (NameId × Val)
  body : BodyOut
  w : World
  up : Val → Bool                              -- the value cannot be formatted: `str()` / `repr()` / `format()` of it raise
  tracing : Bool                               -- record the path (the theorems are about `tracing := false`; the driver checks that the result is the same)

/-- what the caller of the decorated callable will observe, and the path -/
structure Obs where
  bodyCalls : Nat := 0                         -- how many times the function was invoked ("exactly once" cannot be said with a Bool)
  bodyRan : Bool := false
  fwdPos : List Nat := []
  fwdKw : List NameId := []
  trace : List Nat := []                       -- most recent first
deriving Repr

/-- the `FunctionCall` object: which attributes `__init__` has set so far -/
structure Obj where
  hasFunc : Bool := false
  hasArgs : Bool := false
  hasKwargs : Bool := false
  hasTypeVars : Bool := false
  hasGetter : Bool := false
  ctxSrcs : Option (List CtxSrc) := none       -- `_context`: merged from these, later ones override
  inst : Option Bool := none                   -- `_instance`: none = not set; some b = set, b: is not None
  paramsWS : Option (List Param) := none       -- `_params_without_self`
  checked : Option (List NameId) := none       -- `_already_checked_kwargs`
  resolved : Option Bool := none               -- `_resolved_type_vars`: some false = None
  obs : Obs := {}
deriving Repr

/-- locals of the running function; locals are numbered per type by the translator -/
structure Loc where
  n0 : Nat := 0
  n1 : Nat := 0
  b0 : Bool := false
  v0 : Option Val := none
  a0 : Option (Option Ann) := none             -- outer none: unbound; inner none: inspect._empty
  item : Option Val := none                    -- loop variable over values
  p : Option Param := none                     -- `param`
  k : Option NameId := none                    -- `key` / `name` / `kwarg`
  params : List Param := []                    -- the `params` argument
  starVals : Option (List Val) := none         -- `values`
  result : Option Val := none                  -- the `result` argument
  annArg : Option (Option Ann) := none         -- the `annotation` argument
  lazyFmt : Option (List FmtArg) := none       -- a text that is built by a function (`def msg(): …`): what it interpolates
  nm0 : Option (Option String) := none         -- a local that holds a parameter name or None
  kwKey : Option NameId := none                -- the key of `self._kwargs` a comprehension looks at
deriving Repr

structure St where
  obj : Obj
  loc : Loc
deriving Repr

inductive RetV where
  | none | vals (l : List Val) | clazz | typeVars | bodyVal (v : Val) | theResult | genWrapper
  | bool (b : Bool) | nat (n : Nat) | wrapper (async : Bool) | keys (l : List NameId)
deriving Repr

/-- how a translated function ends -/
inductive Out where
  | done (v : RetV) (o : Obj)
  | fail (c : Caller) (b : Obs)
deriving Repr
def Out.obs : Out → Obs | .done _ o => o.obs | .fail _ b => b

inductive Res where
  | cont (s : St)
  | raised (c : Caller) (b : Obs)
  | returned (v : RetV) (o : Obj)
deriving Repr

/-- sequencing: `raise` / `return` end the function -/
def Res.bind (r : Res) (k : St → Res) : Res :=
  match r with
  | .cont s => k s
  | .raised c b => .raised c b
  | .returned v o => .returned v o
def Res.toOut : Res → Out
  | .cont s => .done .none s.obj
  | .raised cl b => .fail cl b
  | .returned v o => .done v o

/-- `return <call of another translated function>` -/
def Out.toRes : Out → Res
  | .done v o => .returned v o
  | .fail cl b => .raised cl b

structure Callees where
  clazz : Obj → Out
  argsWithoutSelf : Obj → Out
  typeVars : Obj → Out
  assertHasAnnotation : Param → Obj → Out
  assertComplete : Option Ann → Obj → Out
  checkFn : CheckFn → List Param → Obj → Out
  checkArguments : Obj → Out
  getReturnValue : Bool → Obj → Out             -- async variant?
  checkTypesReturn : Val → Obj → Out
  init : Obj → Out
  assertUsesKwargs : Obj → Out
  checkTypes : Bool → Obj → Out                 -- async variant?
  notYetChecked : Obj → Out

def stuck (o : Obj) : Out := .fail (.escape "IR:call-cycle") o.obs
/-- no callee is available yet -/
def noCallees : Callees :=
  { clazz := stuck, argsWithoutSelf := stuck, typeVars := stuck, assertHasAnnotation := fun _ => stuck, assertComplete := fun _ => stuck,
    checkFn := fun _ _ => stuck, checkArguments := stuck, getReturnValue := fun _ => stuck, checkTypesReturn := fun _ => stuck,
    init := stuck, assertUsesKwargs := stuck, checkTypes := fun _ => stuck, notYetChecked := stuck }

def Obj.tr (t : Bool) (o : Obj) (id : Nat) : Obj := if t then { o with obs := { o.obs with trace := id :: o.obs.trace } } else o
def Obj.trs (t : Bool) (o : Obj) (ids : List Nat) : Obj := if t then { o with obs := { o.obs with trace := ids ++ o.obs.trace } } else o     -- `ids`: most recent first
def St.tr (t : Bool) (s : St) (id : Nat) : St := { s with obj := s.obj.tr t id }
def St.setObj (s : St) (o : Obj) : St := { s with obj := o }
def St.getN (s : St) : Nat → Nat | 0 => s.loc.n0 | _ => s.loc.n1
def St.setN (s : St) (i v : Nat) : St := match i with
  | 0 => { s with loc := { s.loc with n0 := v } }
  | _ => { s with loc := { s.loc with n1 := v } }

/-! ### the predicates of DecoratedFunction -/
/-- what a predicate of `DecoratedFunction` reads: the name, the source text, the other predicates, what `inspect` reports -/
structure DFView where
  name : String
  text : Bool → List Char               -- true: the decorator lines; false: the whole source
  rawHeader : List Char                  -- `self.source.split('def')[0]`
  isSetter : Bool
  wantsArgs : Bool
  isBound : Bool                         -- inspect.ismethod
  isCoroFn : Bool
  isGenFn : Bool
  specArgsNonEmpty : Bool
  firstSpecArg : String

def dfAtom (v : DFView) : Atom → Bool
  | .isPropertySetter => v.isSetter
  | .wantsArgs => v.wantsArgs
  | .nameStartsWith s => startsWithS v.name s
  | .nameEndsWith s => endsWithS v.name s
  | .nameInList l => l.contains v.name
  | .needleIn n h => isInfixL n.toList (v.text h)
  | .setterNeedleIn pre suf h => isInfixL (pre ++ v.name ++ suf).toList (v.text h)
  | .funcIsBoundMethod => v.isBound
  | .funcIsCoroutineFunction => v.isCoroFn
  | .funcIsGeneratorFunction => v.isGenFn
  | .argSpecArgsNonEmpty => v.specArgsNonEmpty
  | .firstArgSpecArgIs s => v.specArgsNonEmpty && v.firstSpecArg == s
  | _ => false
mutual
def dfNat (v : DFView) : NatE → Nat
  | .lit n => n
  | .add a b => dfNat v a + dfNat v b
  | .cond g a b => if dfGuard v g then dfNat v a else dfNat v b
  | .countOcc m h => countOccL m.toList (if h then v.text true else v.rawHeader)
  | _ => 0
def dfGuard (v : DFView) : Guard → Bool
  | .tt => true
  | .ff => false
  | .atom a => dfAtom v a
  | .not g => !dfGuard v g
  | .and a b => dfGuard v a && dfGuard v b
  | .or a b => dfGuard v a || dfGuard v b
  | .cmp op a b =>
    match op with
    | .lt => decide (dfNat v a < dfNat v b) | .le => decide (dfNat v a ≤ dfNat v b) | .gt => decide (dfNat v a > dfNat v b)
    | .ge => decide (dfNat v a ≥ dfNat v b) | .eq => decide (dfNat v a = dfNat v b) | .ne => decide (dfNat v a ≠ dfNat v b)
end
/-- a predicate body: `if` / `return <bool>` / `return <number>`; the path is returned with the value -/
def dfRun (v : DFView) : Stmt → List Nat → Option RetV × List Nat
  | .skip, tr => (none, tr)
  | .seq a b, tr => match dfRun v a tr with
    | (some r, tr') => (some r, tr')
    | (none, tr') => dfRun v b tr'
  | .ite id g t e, tr => if dfGuard v g then dfRun v t (id :: tr) else dfRun v e (id :: tr)
  | .ret id (.bool g), tr => (some (.bool (dfGuard v g)), id :: tr)
  | .ret id (.nat n), tr => (some (.nat (dfNat v n)), id :: tr)
  | .ret id _, tr => (some .none, id :: tr)
  | .act id _, tr => (none, id :: tr)
  | .forParams id _, tr => (none, id :: tr)
  | .forStarValues id _, tr => (none, id :: tr)
  | .forUncheckedKwargs id _, tr => (none, id :: tr)
def dfBool (v : DFView) (ir : Stmt) : Bool := match (dfRun v ir []).1 with | some (.bool b) => b | _ => false
def dfNatOf (v : DFView) (ir : Stmt) : Nat := match (dfRun v ir []).1 with | some (.nat n) => n | _ => 0

/-- the view of the source text (`_decorator_lines`, `source`) -/
def srcView (name source : String) : DFView :=
  { name := name, text := fun h => scopeOf h source, rawHeader := rawHeaderOf source, isSetter := false, wantsArgs := false, isBound := false,
    isCoroFn := false, isGenFn := false, specArgsNonEmpty := false, firstSpecArg := "" }
/-- the source-text predicates, by interpretation of their translated bodies -/
def flagsIR (name source : String) : SrcFlags :=
  let v := srcView name source
  { wantsArgs := dfBool v wantsArgsIR, isStatic := dfBool v isStaticMethodIR, isSetter := dfBool v isPropertySetterIR,
    isPedantic := dfBool v isPedanticIR, numDecorators := dfNatOf v numOfDecoratorsIR }
/-- the view of an `Fn` (whose source-text flags are already computed) -/
def fnView (f : Fn) : DFView :=
  { name := f.name, text := fun _ => [], rawHeader := [], isSetter := f.isSetter, wantsArgs := f.wantsArgs, isBound := f.isBound,
    isCoroFn := f.flavour == .coroutine, isGenFn := f.flavour == .generator, specArgsNonEmpty := f.firstIsSelf, firstSpecArg := "self" }
def shouldHaveKwargsOf (f : Fn) : Bool := dfBool (fnView f) shouldHaveKwargsIR
/-- `is_instance_method` from what introspection reports -/
def isInstanceMethodIRof (firstParamIsSelf isBound : Bool) : Bool :=
  dfBool { name := "", text := fun _ => [], rawHeader := [], isSetter := false, wantsArgs := false, isBound := isBound, isCoroFn := false,
           isGenFn := false, specArgsNonEmpty := firstParamIsSelf, firstSpecArg := "self" } isInstanceMethodIR

/-! ### FunctionCall -/
/-- `_has_required_type_arguments(annotation)` -/
def hasRequiredArgs : Ann → Bool
  | .bare o => requiredArgsOk o.name 0
  | .seq sp o _ => requiredArgsOk (seqName sp o) 1
  | .map sp o _ _ => requiredArgsOk (mapName sp o) 2
  | .tuple sp items => requiredArgsOk (tupleName sp) items.length
  | .tupleVar sp _ => requiredArgsOk (tupleName sp) 2
  | .union sp ms => requiredArgsOk (unionName sp) ms.length
  | _ => true

def paramStartsWith (p : Param) (s : String) : Bool :=
  if s == "*" then isStar p.kind else if s == "**" then p.kind == .varKw else if s == "" then true else false

def evalA (c : Ctx) (cs : Callees) (s : St) : Atom → Bool
  | .shouldHaveKwargs => shouldHaveKwargsOf c.f
  | .isInstanceMethod => c.f.firstIsSelf
  | .isStaticMethod => c.f.isStatic
  | .isClassMethod => c.f.isBound
  | .isPedantic => c.f.isPedantic
  | .isGenerator => c.f.flavour == .generator
  | .isCoroutine => c.f.flavour == .coroutine
  | .isPropertySetter => c.f.isSetter
  | .wantsArgs => c.f.wantsArgs
  | .argsWithoutSelfNonEmpty => match cs.argsWithoutSelf s.obj with | .done (.vals l) _ => !l.isEmpty | _ => false
  | .argsNonEmpty => !c.args.isEmpty
  | .instanceIsNotNone => s.obj.inst == some true
  | .resolvedTypeVarsIsNone => !(s.obj.resolved == some true)
  | .instanceHasTypeVarMethod => s.obj.inst == some true && c.w.tvm
  | .selfTypeVarUnbound => !(s.obj.inst == some true && c.w.tvm && c.w.selfBound)
  | .returnAnnotationEmpty => c.f.retAnn.isNone
  | .defaultIsEmpty => match s.loc.p with | some p => p.dflt.isNone | none => false
  | .annotationIsEmpty => match s.loc.p with | some p => p.ann.isNone | none => false
  | .keyInKwargs => match s.loc.k with | some k => (lookup c.kw k).isSome | none => false
  | .paramNameIs n => match s.loc.p with | some p => n == "self" && p.name == c.f.selfName | none => false
  | .paramStrStartsWith x => match s.loc.p with | some p => paramStartsWith p x | none => false
  | .paramsEmpty => s.loc.params.isEmpty
  | .annotationInBareList names => match s.loc.annArg with | some (some (.bare o)) => o.isBuiltin && names.contains o.name | _ => false
  | .hasRequiredTypeArguments => match s.loc.annArg with | some (some a) => hasRequiredArgs a | _ => true
  | .locB _ => s.loc.b0
  | .kwKeyChecked => match s.loc.kwKey, s.obj.checked with | some k, some l => l.contains k | _, _ => false
  | .kwKeyIsLocalName => match s.loc.kwKey, s.loc.nm0 with | some k, some (some n) => n == "self" && k == c.f.selfName | _, _ => false
  | .kwKeyIs n => match s.loc.kwKey with | some k => n == "self" && k == c.f.selfName | none => false
  | _ => false
mutual
def evalN (c : Ctx) (cs : Callees) (s : St) : NatE → Nat
  | .lit n => n
  | .loc i => s.getN i
  | .lenArgs => c.args.length
  | .numDecorators => c.f.numDecorators
  | .add a b => evalN c cs s a + evalN c cs s b
  | .cond g a b => if evalG c cs s g then evalN c cs s a else evalN c cs s b
  | .countOcc _ _ => 0
def evalG (c : Ctx) (cs : Callees) (s : St) : Guard → Bool
  | .tt => true
  | .ff => false
  | .atom a => evalA c cs s a
  | .not g => !evalG c cs s g
  | .and a b => evalG c cs s a && evalG c cs s b
  | .or a b => evalG c cs s a || evalG c cs s b
  | .cmp op a b =>
    match op with
    | .lt => decide (evalN c cs s a < evalN c cs s b) | .le => decide (evalN c cs s a ≤ evalN c cs s b)
    | .gt => decide (evalN c cs s a > evalN c cs s b) | .ge => decide (evalN c cs s a ≥ evalN c cs s b)
    | .eq => decide (evalN c cs s a = evalN c cs s b) | .ne => decide (evalN c cs s a ≠ evalN c cs s b)
end
/-- the statements of `args_without_self` that evaluating the guard executes (`and` / `or` short-circuit), most recent first -/
def traceG (c : Ctx) (cs : Callees) (s : St) : Guard → List Nat
  | .atom .argsWithoutSelfNonEmpty => (cs.argsWithoutSelf { s.obj with obs := { s.obj.obs with trace := [] } }).obs.trace
  | .not g => traceG c cs s g
  | .and a b => if evalG c cs s a then traceG c cs s b ++ traceG c cs s a else traceG c cs s a
  | .or a b => if evalG c cs s a then traceG c cs s a else traceG c cs s b ++ traceG c cs s a
  | _ => []

def evalV (c : Ctx) (cs : Callees) (s : St) : ValSrc → Except String Val
  | .kwargsAtKey => match s.loc.k with
    | some k => (match lookup c.kw k with | some v => .ok v | none => .error "KeyError")
    | none => .error "UnboundLocalError"
  | .argsAt i => match c.args[evalN c cs s i]? with | some v => .ok v | none => .error "IndexError"
  | .paramDefault => match s.loc.p with
    | some p => (match p.dflt with | some d => .ok d | none => .error "IR:default-is-empty")
    | none => .error "UnboundLocalError"
  | .local => match s.loc.v0 with | some v => .ok v | none => .error "UnboundLocalError"
  | .loopItem => match s.loc.item with | some v => .ok v | none => .error "UnboundLocalError"
  | .result => match s.loc.result with | some v => .ok v | none => .error "UnboundLocalError"
def evalAnn (c : Ctx) (s : St) : AnnSrc → Except String (Option Ann)
  | .paramAnnotation => match s.loc.p with | some p => .ok p.ann | none => .error "UnboundLocalError"
  | .returnAnnotationEntry => match c.f.retAnn with | some a => .ok (some a) | none => .error "KeyError"
  | .local => match s.loc.a0 with | some a => .ok a | none => .error "UnboundLocalError"
  | .argument => match s.loc.annArg with | some a => .ok a | none => .error "UnboundLocalError"

/-- evaluating `type_vars=self.type_vars` (when it is passed) -/
def withTypeVars (cs : Callees) (wtv : Bool) (o : Obj) : Except (Caller × Obs) Obj :=
  if wtv then (match cs.typeVars o with | .fail cl b => .error (cl, b) | .done _ o' => .ok o') else .ok o
def envFor (c : Ctx) (withContext : Bool) : Env := if withContext then c.env else { c.env with ctx := fun _ => none }
def ofCallee (s : St) : Out → Res
  | .done _ o => .cont (s.setObj o)
  | .fail cl b => .raised cl b
def esc (k : String) (s : St) : Res := .raised (.escape k) s.obj.obs

/-- the values a message interpolates at one place -/
def fmtVals (c : Ctx) (cs : Callees) (s : St) : FmtSrc → List Val
  | .result => s.loc.result.toList
  | .local => s.loc.v0.toList
  | .loopItem => s.loc.item.toList
  | .args => c.args
  | .argsWithoutSelf => match cs.argsWithoutSelf s.obj with | .done (.vals l) _ => l | _ => []
  | .kwargs => c.kw.map (·.2)
/-- building the message raises: some interpolated value cannot be formatted and does not go through `_describe` -/
def fmtRaises (c : Ctx) (cs : Callees) (s : St) (l : List FmtArg) : Bool :=
  l.any fun a => !a.2 && (fmtVals c cs s a.1).any c.up
/-- `self._instance = …` : is the receiver an object (not None)? -/
def evalInst (c : Ctx) (cs : Callees) (s : St) : InstE → Except String Bool
  | .none => .ok false
  | .firstArg => match c.args with | [] => .error "IndexError" | _ :: _ => .ok true
  | .kwargsGet n => .ok (n == "self" && (lookup c.kw c.f.selfName).isSome)
  | .cond g a b => if evalG c cs s g then evalInst c cs s a else evalInst c cs s b

/-- the check said no: `assert_value_matches_type` puts the value into its message, and a `msg` that is a function is called now -/
def failFmt (c : Ctx) (cs : Callees) (s : St) (x : Val) (msg : MsgArg) : Bool :=
  (!assertMsgSafe && c.up x) ||
    (match msg with | .lazy => assertMsgMayBeLazy && fmtRaises c cs s (s.loc.lazyFmt.getD []) | _ => false)

/-- what `assert_value_matches_type` raises: the verdict of the checker; for a plain "does not match" the message is built first -/
def checkOutcome (fails : Bool) : PedVerif.Checker.Out → Option Caller
  | .reject => some (if fails then .escape "format" else .pedTypeCheck)
  | out => ofOut out      -- (a handler of `_check_type` built the message: not modelled for values that cannot be formatted)

def doAct (c : Ctx) (cs : Callees) (s : St) : Action → Res
  | .assignN i e => .cont (s.setN i (evalN c cs s e))
  | .assignB _ g => .cont { s with loc := { s.loc with b0 := evalG c cs s g } }
  | .assignV v => match evalV c cs s v with
    | .ok x => .cont { s with loc := { s.loc with v0 := some x } }
    | .error k => esc k s
  | .assignA a => match evalAnn c s a with
    | .ok x => .cont { s with loc := { s.loc with a0 := some x } }
    | .error k => esc k s
  | .assignText fmt => if fmtRaises c cs s fmt then esc "format" s else .cont s
  | .defineLazyText fmt => .cont { s with loc := { s.loc with lazyFmt := some fmt } }
  | .assignName g n => .cont { s with loc := { s.loc with nm0 := some (if evalG c cs s g then some n else none) } }
  | .markChecked => match s.obj.checked, s.loc.k with
    | some l, some k => .cont (s.setObj { s.obj with checked := some (l ++ [k]) })
    | _, _ => esc "AttributeError" s
  | .raisePed fmt => if fmtRaises c cs s fmt then esc "format" s else .raised .pedTypeCheck s.obj.obs
  | .raiseCallWithArgs fmt => if fmtRaises c cs s fmt then esc "format" s else .raised .pedCallWithArgs s.obj.obs
  | .raiseOther n => esc n s
  | .assertHasAnnotation => match s.loc.p with
    | some p => ofCallee s (cs.assertHasAnnotation p s.obj)
    | none => esc "UnboundLocalError" s
  | .assertComplete a => match evalAnn c s a with
    | .ok x => ofCallee s (cs.assertComplete x s.obj)
    | .error k => esc k s
  | .checkValue v a _ wtv wctx msg => match evalV c cs s v, evalAnn c s a with
    | .ok x, .ok ann =>
      (match withTypeVars cs wtv s.obj with
       | .error (cl, b) => .raised cl b
       | .ok o =>
         match checkOutcome (failFmt c cs s x msg) (match ann with
             | none => PedVerif.Checker.Out.reject                                   -- inspect._empty: nothing is an instance
             | some an => checkType (envFor c wctx) c.orc an x) with
         | some cl => .raised cl o.obs
         | none => .cont (s.setObj o))
    | .error k, _ => esc k s
    | _, .error k => esc k s
  | .bindFirstParam => match s.loc.params with
    | p :: _ => .cont { s with loc := { s.loc with p := some p } }
    | [] => esc "IndexError" s
  | .bindFirstName => match s.loc.params with
    | p :: _ => .cont { s with loc := { s.loc with k := some p.name } }
    | [] => esc "IndexError" s
  | .bindStarValues => .cont { s with loc := { s.loc with starVals := some (c.args.drop c.f.nPositional) } }
  | .bindParamItems => match s.obj.paramsWS with
    | some _ => .cont s
    | none => esc "AttributeError" s
  | .callCheckArguments => ofCallee s (cs.checkArguments s.obj)
  | .callCheck which flt => match s.obj.paramsWS with
    | some ps => ofCallee s (cs.checkFn which (ps.filter fun p => evalG c cs { s with loc := { s.loc with p := some p } } flt) s.obj)
    | none => esc "AttributeError" s
  | .callAssertUsesKwargs => ofCallee s (cs.assertUsesKwargs s.obj)
  | .construct _ => ofCallee s (cs.init s.obj)
  | .describeFunc => .cont s
  | .storeFunc => .cont (s.setObj { s.obj with hasFunc := true })
  | .storeArgs => .cont (s.setObj { s.obj with hasArgs := true })
  | .storeKwargs => .cont (s.setObj { s.obj with hasKwargs := true })
  | .setContext srcs => .cont (s.setObj { s.obj with ctxSrcs := some srcs })
  | .setInstance e =>
    if !s.obj.hasFunc || !s.obj.hasArgs || !s.obj.hasKwargs then esc "AttributeError" s else
    match evalInst c cs s e with
    | .ok b => .cont (s.setObj { s.obj with inst := some b })
    | .error k => esc k s
  | .initTypeVars => .cont (s.setObj { s.obj with hasTypeVars := true })
  | .setParamsWithoutSelf flt =>
    if !s.obj.hasFunc then esc "AttributeError" s else
    .cont (s.setObj { s.obj with paramsWS := some (c.f.params.filter fun p => evalG c cs { s with loc := { s.loc with p := some p } } flt) })
  | .initChecked => .cont (s.setObj { s.obj with checked := some [] })
  | .initTypeVarGetter => .cont (s.setObj { s.obj with hasGetter := true })
  | .initResolved => .cont (s.setObj { s.obj with resolved := some false })
  | .useInstanceTypeVarGetter => .cont (s.setObj { s.obj with hasGetter := true })
  | .callTypeVarGetter => if s.obj.hasGetter then .cont s else esc "AttributeError" s
  | .bindSelfTypeVarToClazz => ofCallee s (cs.clazz s.obj)
  | .storeResolved => .cont (s.setObj { s.obj with resolved := some true })
  | .splitQualname n =>
    if n ≤ 1 || (n == 2 && c.f.qualDotted) then .cont s
    else if n == 2 then esc "IndexError" s else esc "IR:unsupported" s

/-- `self.func.func(...)` / `func(*args, **kwargs)`: Python binds the forwarded arguments, then the body runs -/
def callBody (c : Ctx) (o : Obj) (kwargsOnly awaited : Bool) : Res :=
  let fp := if kwargsOnly then [] else List.range c.args.length
  let fk := c.kw.map (·.1)
  let b1 : Obs := { o.obs with fwdPos := fp, fwdKw := fk }
  if !c.f.binds fp.length fk then .raised .bindTypeError b1 else
  if awaited != (c.f.flavour == .coroutine) then .raised (.escape "IR:await-mismatch") b1 else
  match c.body with
  | .raises e => .raised (.bodyExc e) { b1 with bodyRan := true, bodyCalls := b1.bodyCalls + 1 }
  | .ret v => .returned (.bodyVal v) { o with obs := { b1 with bodyRan := true, bodyCalls := b1.bodyCalls + 1 } }

def doRet (c : Ctx) (cs : Callees) (s : St) : RetE → Res
  | .none => .returned .none s.obj
  | .args => .returned (.vals c.args) s.obj
  | .argsFrom n => .returned (.vals (c.args.drop n)) s.obj
  | .typeOfInstance => .returned .clazz s.obj
  | .boundSelf => .returned .clazz s.obj
  | .forwardRef => .returned .clazz s.obj
  | .typeOfFirstArg => match c.args with | [] => esc "IndexError" s | _ :: _ => .returned .clazz s.obj
  | .resolvedTypeVars => .returned .typeVars s.obj
  | .wrapGenerator a wtv _ => match evalAnn c s a with
    | .error k => esc k s
    | .ok _ =>
      match withTypeVars cs wtv s.obj with
      | .error (cl, b) => .raised cl b
      | .ok o => match c.f.genRet with             -- GeneratorWrapper.__init__ takes the annotation apart (GenWrap model)
        | .one _ => .returned .genWrapper o
        | .three _ _ _ => .returned .genWrapper o
        | _ => .raised .pedTypeCheck o.obs
  | .result => match s.loc.result with | some _ => .returned .theResult s.obj | none => esc "UnboundLocalError" s
  | .callFunc kwOnly awaited => callBody c s.obj kwOnly awaited
  | .callRaw awaited =>
    -- not awaited: for a coroutine function the coroutine object is handed to the caller, who awaits it (the body runs then)
    match callBody c s.obj false (if awaited then true else c.f.flavour == .coroutine) with
    | .returned (.bodyVal _) o => .returned .theResult o
    | r => r
  | .checkReturnOfBody asyncGetter awaitedGetter _ =>
    if asyncGetter != awaitedGetter then esc "IR:await-mismatch" s else
    match cs.getReturnValue asyncGetter s.obj with
    | .fail cl b => .raised cl b
    | .done (.bodyVal v) o => (cs.checkTypesReturn v o).toRes
    | .done _ o => .raised (.escape "IR:no-result") o.obs
  | .checkTypes async awaited =>
    if async != awaited then esc "IR:await-mismatch" s else
    (cs.checkTypes async s.obj).toRes
  | .wrapperFn b => .returned (.wrapper b) s.obj
  | .bool g => .returned (.bool (evalG c cs s g)) s.obj
  | .nat n => .returned (.nat (evalN c cs s n)) s.obj
  | .kwargsWhere g =>
    .returned (.keys ((c.kw.filter fun kv => evalG c cs { s with loc := { s.loc with kwKey := some kv.1 } } g).map (·.1))) s.obj

/-- a `for` loop: the header is executed before every iteration and once more when the iterable is exhausted -/
def iterList {α} (t : Bool) (hdr : Nat) (step : α → St → Res) : List α → St → Res
  | [], s => .cont (s.tr t hdr)
  | x :: rest, s => (step x (s.tr t hdr)).bind (iterList t hdr step rest)


def interp (c : Ctx) (cs : Callees) : Stmt → St → Res
  | .skip, s => .cont s
  | .seq a b, s => (interp c cs a s).bind (interp c cs b)
  | .act id a, s => doAct c cs (s.tr c.tracing id) a
  | .ite id g t e, s =>
    let s' := { s with obj := (s.obj.tr c.tracing id).trs c.tracing (if c.tracing then traceG c cs s g else []) }
    if evalG c cs s g then interp c cs t s' else interp c cs e s'
  | .forParams id b, s =>
    iterList c.tracing id (fun p s' => interp c cs b { s' with loc := { s'.loc with p := some p, k := some p.name } }) s.loc.params s
  | .forStarValues id b, s => match s.loc.starVals with
    | some vs => iterList c.tracing id (fun v s' => interp c cs b { s' with loc := { s'.loc with item := some v } }) vs s
    | none => esc "UnboundLocalError" (s.tr c.tracing id)
  | .forUncheckedKwargs id b, s =>
    -- `self.not_yet_check_kwargs` is evaluated once, when the loop starts
    match cs.notYetChecked (s.obj.tr c.tracing id) with
    | .done (.keys ks) o => iterList c.tracing id (fun k s' => interp c cs b { s' with loc := { s'.loc with k := some k } }) ks (s.setObj o)
    | .done _ o => .raised (.escape "IR:no-keys") o.obs
    | .fail cl b => .raised cl b
  | .ret id r, s => doRet c cs (s.tr c.tracing id) r

/-- one invocation of a translated function: fresh locals, the entry is recorded -/
def runFn (c : Ctx) (cs : Callees) (ir : Stmt) (entry : Nat) (loc : Loc) (o : Obj) : Out :=
  (interp c cs ir ⟨o.tr c.tracing entry, loc⟩).toOut

/-! ### the functions, bottom-up (entry ids: `<function number> * 100`, as the translator numbers them) -/
def fnClazz (c : Ctx) : Obj → Out := runFn c noCallees clazzIR 300 {}
def fnArgsWithoutSelf (c : Ctx) : Obj → Out := runFn c noCallees argsWithoutSelfIR 400 {}
def fnAssertHasAnnotation (c : Ctx) (p : Param) : Obj → Out := runFn c noCallees assertHasAnnotationIR 1300 { p := some p }
def fnAssertComplete (c : Ctx) (a : Option Ann) : Obj → Out := runFn c noCallees assertCompleteIR 1400 { annArg := some a }
def fnInit (c : Ctx) : Obj → Out := runFn c noCallees initIR 100 {}
def fnNotYetChecked (c : Ctx) : Obj → Out := runFn c noCallees notYetCheckedIR 3100 {}
def fnGetReturnValue (c : Ctx) (async : Bool) (o : Obj) : Out :=
  if async then runFn c noCallees asyncGetReturnValueIR 1600 {} o else runFn c noCallees getReturnValueIR 1500 {} o
def cs0 (c : Ctx) : Callees :=
  { noCallees with clazz := fnClazz c, argsWithoutSelf := fnArgsWithoutSelf c, assertHasAnnotation := fnAssertHasAnnotation c,
                   assertComplete := fnAssertComplete c, init := fnInit c, getReturnValue := fnGetReturnValue c,
                   notYetChecked := fnNotYetChecked c }
def fnTypeVars (c : Ctx) : Obj → Out := runFn c (cs0 c) typeVarsIR 200 {}
def fnAssertUsesKwargs (c : Ctx) : Obj → Out := runFn c (cs0 c) assertUsesKwargsIR 500 {}
def cs1 (c : Ctx) : Callees := { cs0 c with typeVars := fnTypeVars c, assertUsesKwargs := fnAssertUsesKwargs c }
def fnCheckTypeParam (c : Ctx) (ps : List Param) : Obj → Out := runFn c (cs1 c) checkTypeParamIR 900 { params := ps }
def fnCheckTypesArgs (c : Ctx) (ps : List Param) : Obj → Out := runFn c (cs1 c) checkTypesArgsIR 1000 { params := ps }
def fnCheckTypesKwargs (c : Ctx) (ps : List Param) : Obj → Out := runFn c (cs1 c) checkTypesKwargsIR 1100 { params := ps }
def fnCheckTypesReturn (c : Ctx) (v : Val) : Obj → Out := runFn c (cs1 c) checkTypesReturnIR 1200 { result := some v }
def fnCheck (c : Ctx) : CheckFn → List Param → Obj → Out
  | .typeParam => fnCheckTypeParam c
  | .starArgs => fnCheckTypesArgs c
  | .starKwargs => fnCheckTypesKwargs c
def cs2 (c : Ctx) : Callees := { cs1 c with checkFn := fnCheck c, checkTypesReturn := fnCheckTypesReturn c }
def fnCheckArguments (c : Ctx) : Obj → Out := runFn c (cs2 c) checkArgumentsIR 800 {}
def cs3 (c : Ctx) : Callees := { cs2 c with checkArguments := fnCheckArguments c }
def fnCheckTypes (c : Ctx) (async : Bool) (o : Obj) : Out :=
  if async then runFn c (cs3 c) asyncCheckTypesIR 700 {} o else runFn c (cs3 c) checkTypesIR 600 {} o
def cs4 (c : Ctx) : Callees := { cs3 c with checkTypes := fnCheckTypes c }

/-- which wrapper `decorator` hands out -/
def selectsAsync (c : Ctx) : Bool :=
  match interp c noCallees pedSelectIR ⟨{}, {}⟩ with
  | .returned (.wrapper b) _ => b
  | _ => false

def toResult : Out → Result
  | .done .theResult o => ⟨.ret, o.obs.bodyRan, o.obs.fwdPos, o.obs.fwdKw⟩
  | .done .genWrapper o => ⟨.retGen, o.obs.bodyRan, o.obs.fwdPos, o.obs.fwdKw⟩
  | .done _ o => ⟨.escape "IR:other-result", o.obs.bodyRan, o.obs.fwdPos, o.obs.fwdKw⟩
  | .fail cl b => ⟨cl, b.bodyRan, b.fwdPos, b.fwdKw⟩

/-- the decorated callable is called: the interpretation of the wrapper body -/
def runWrapper (c : Ctx) : Out :=
  match c.f.mode with
  | .requireKwargs => runFn c (cs4 c) rkWrapperIR 2900 {} {}
  | .pedantic => if selectsAsync c then runFn c (cs4 c) pedAsyncWrapperIR 2800 {} {} else runFn c (cs4 c) pedWrapperIR 2700 {} {}

def runCallIR (env : Env) (orc : Nat → Val → Raw) (f : Fn) (args : List Val) (kw : List (NameId × Val)) (body : BodyOut) (w : World)
    (up : Val → Bool := fun _ => false) : Result :=
  toResult (runWrapper ⟨env, orc, f, args, kw, body, w, up, false⟩)
/-- the same interpretation with the path recorded: (result, ids of the executed statements, oldest first) -/
def runCallTraced (env : Env) (orc : Nat → Val → Raw) (f : Fn) (args : List Val) (kw : List (NameId × Val)) (body : BodyOut) (w : World)
    (up : Val → Bool := fun _ => false) : Result × List Nat :=
  let out := runWrapper ⟨env, orc, f, args, kw, body, w, up, true⟩
  (toResult out, out.obs.trace.reverse)

end PedVerif.CallIR
