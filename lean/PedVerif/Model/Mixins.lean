import PedVerif.Gen.Mixins
import PedVerif.Gen.MixinsShape
/-!
Model of `pedantic/mixins/generic_mixin.py` (`GenericMixin._get_types`, `get_generic_base`, `type_var`, `type_vars`)
and of `pedantic/mixins/with_decorated_methods.py` (`create_decorator`, `WithDecoratedMethods.get_decorated_functions`).

A program is a *class table*: every class is the list of its bases **as written in the class statement**
(`Generic[T…]`, a subscripted class `A[X…]`, or a plain class) plus its namespace.  CPython's part is modelled as
environment: a class has its own `__orig_bases__` iff one of its bases is subscripted; attribute lookup walks the MRO
(C3 linearisation, computed here); `Cls[X…]()` stores `__orig_class__`; a bound method forwards attribute reads to its
function; `dir()` is the union of the namespaces along the MRO.

The straight-line facts of the Python code (attribute names tested, exception classes, the order inside the `zip`, the
index into `generic_bases`, the filter `__origin__ == Generic`, the assertion of `type_var`, the `startswith` prefix,
the initialisation of the result, the arguments of `setattr` and of the transformation, the bases and members of the
library classes) are taken from `PedVerif.Gen.Mixins`, regenerated from the source on every run.
-/
namespace PedVerif.Mixins
open PedVerif.Gen.Mixins

/-! ## Class tables -/

/-- a type argument: an opaque type (class, `Optional[..]`, `List[int]`, …) or a type variable -/
inductive TArg where
  | ty (i : Nat)
  | tv (i : Nat)
deriving DecidableEq, Repr

inductive BaseRef where
  | generic (tvs : List Nat)                 -- Generic[T1, …]
  | param (c : Nat) (args : List TArg)       -- A[X1, …]
  | plain (c : Nat)                          -- a class, not subscripted
deriving DecidableEq, Repr

abbrev Key := Nat      -- an attribute name (e.g. the value of a DecoratorType member), interned by the harness
abbrev Val := Nat      -- identity of a decorator argument / attribute value

/-- attribute name: number of leading underscores + the rest -/
structure Name where
  unders : Nat
  stem : String
deriving DecidableEq, Repr

/-- what the `transformation` of `create_decorator` does with the function it receives -/
inductive Tr where
  | none      -- no transformation given
  | ident     -- returns the function it received
  | wraps     -- returns a new function made with functools.wraps (copies `__dict__`)
  | fresh     -- returns a new function without the attributes
deriving DecidableEq, Repr

/-- one application `create_decorator(ty, tr)(val)(f)` -/
structure App where
  ty : Key
  val : Val
  tr : Tr
deriving DecidableEq, Repr

inductive FKind where
  | inst | static | cls
deriving DecidableEq, Repr

inductive MemberDef where
  | func (kind : FKind) (apps : List App)          -- `def` / `async def`, decorators listed innermost first
  | other (oid : Nat) (attrs : List (Key × Val))   -- getattr yields some other object (class attribute, property value)
  | raising (exc : String)                         -- a property whose getter raises
  | typeVarProp                                    -- the library property `type_var` (its value: the enum class)
  | typeVarsProp                                   -- the library property `type_vars` (its value: a dict — not hashable)
  | classNameProp                                  -- the library property `class_name` (its value: a str)
deriving DecidableEq, Repr

structure Cls where
  bases : List BaseRef
  ns : List (Name × MemberDef) := []
deriving Repr

abbrev Table := List Cls

def BaseRef.cls? : BaseRef → Option Nat
  | .generic _ => none
  | .param c _ => some c
  | .plain c => some c

def BaseRef.isAlias : BaseRef → Bool
  | .plain _ => false
  | _ => true

def basesOf (t : Table) (c : Nat) : List BaseRef :=
  match t[c]? with
  | some k => k.bases
  | none => []

def nsOf (t : Table) (c : Nat) : List (Name × MemberDef) :=
  match t[c]? with
  | some k => k.ns
  | none => []

/-- a class has its own `__orig_bases__` iff one of its bases is a subscripted alias (types.resolve_bases) -/
def ownOrigBases (t : Table) (c : Nat) : Option (List BaseRef) :=
  if (basesOf t c).any BaseRef.isAlias then some (basesOf t c) else none

/-- class id of `typing.Generic` (it has no bases, no `__orig_bases__`, no public names; it only takes part in the MRO) -/
def genericId : Nat := 0

/-- `__bases__` after `__mro_entries__`: `Generic[…]` stands for `Generic` unless a later base is subscripted as well
    (then typing drops it); `A[…]` stands for `A` -/
def parentsOfBases : List BaseRef → List Nat
  | [] => []
  | .generic _ :: rest => if rest.any BaseRef.isAlias then parentsOfBases rest else genericId :: parentsOfBases rest
  | .param c _ :: rest => c :: parentsOfBases rest
  | .plain c :: rest => c :: parentsOfBases rest

def parents (t : Table) (c : Nat) : List Nat := parentsOfBases (basesOf t c)

/-! ### C3 linearisation (the interpreter's MRO) -/

def c3good (seqs : List (List Nat)) (h : Nat) : Bool := seqs.all fun s => !(s.tail.contains h)

def c3pop (h : Nat) : List Nat → List Nat
  | [] => []
  | x :: r => if x = h then r else x :: r

def c3merge : Nat → List (List Nat) → List Nat
  | 0, _ => []
  | fuel + 1, seqs =>
    let live := seqs.filter fun s => !s.isEmpty
    match (live.filterMap List.head?).find? (c3good live) with
    | none => []                  -- nothing left, or an inconsistent hierarchy (the interpreter refuses to create such a class)
    | some h => h :: c3merge fuel (live.map (c3pop h))

def lin (t : Table) : Nat → Nat → List Nat
  | 0, c => [c]
  | d + 1, c =>
    let seqs := (parents t c).map (lin t d) ++ [parents t c]
    c :: c3merge ((seqs.map List.length).sum + 1) seqs

/-- `obj.__orig_bases__` through the MRO -/
def lookupOrigBases (t : Table) (d c : Nat) : Option (List BaseRef) := (lin t d c).findSome? (ownOrigBases t)

/-! ## `GenericMixin` -/

inductive Site where
  | nonGeneric | unparam | noneArgs | originBases | multiple | notIterable | keyError | member
deriving DecidableEq, Repr

inductive Res (α : Type) where
  | ok (a : α)
  | raised (site : Site) (exc : String)
deriving DecidableEq, Repr

/-- `d[k] = v` on an insertion-ordered dict -/
def dictInsert {κ ν : Type} [DecidableEq κ] (k : κ) (v : ν) : List (κ × ν) → List (κ × ν)
  | [] => [(k, v)]
  | (k', v') :: r => if k' = k then (k', v) :: r else (k', v') :: dictInsert k v r

def dictGet {κ ν : Type} [DecidableEq κ] (k : κ) : List (κ × ν) → Option ν
  | [] => none
  | (k', v') :: r => if k' = k then some v' else dictGet k r

def dictOfPairs {κ ν : Type} [DecidableEq κ] (l : List (κ × ν)) : List (κ × ν) :=
  l.foldl (fun d kv => dictInsert kv.1 kv.2 d) []

/-- `hasattr(self, name)` for the two attributes the code tests -/
def selfHas (name : String) (obs : Option (List BaseRef)) (orig : Option (List TArg)) : Bool :=
  (name == "__orig_bases__" && obs.isSome) || (name == "__orig_class__" && orig.isSome)

/-- `[c for c in obj.__orig_bases__ if hasattr(c, '__origin__') and c.__origin__ == Generic]`, as `__args__` -/
def genericBases (bs : List BaseRef) : List (List TArg) :=
  bs.filterMap fun b =>
    match b with
    | .generic tvs => some (tvs.map TArg.tv)
    | .param _ args => if genericFilterChecksOrigin then none else some args
    | .plain _ => none

def pickIdx {α : Type} (i : Int) (l : List α) : Option α :=
  if 0 ≤ i then l[i.toNat]? else l[l.length - i.natAbs]?

/-- `get_generic_base(obj)` given `obj.__orig_bases__` (absent: AttributeError) -/
def getGenericBase (obs : Option (List BaseRef)) : Res (Option (List TArg)) :=
  match obs with
  | none => .raised .originBases "AttributeError"
  | some bs =>
    match genericBases bs with
    | [] => .ok none
    | l => .ok (pickIdx genericBaseIndex l)

inductive LoopRes where
  | found (gb types : List TArg)
  | notFound
  | raised (site : Site) (exc : String)
deriving DecidableEq, Repr

/-- `issubclass(c, a)`: `a` is `c` or is reached from `c` through `__bases__` (for a class the interpreter created the MRO consists
    of exactly these classes; the linearisation itself is compared with `__mro__` on every case) -/
def derives (t : Table) (a : Nat) : Nat → Nat → Bool
  | 0, c => c == a
  | d + 1, c => c == a || (parents t c).any (derives t a d)

/-- id of a library class in a class table (`libTable` below) -/
def libClassId (n : String) : Nat :=
  if n = "Generic" then 0 else if n = "GenericMixin" then 1 else if n = "ABC" then 2 else 3

/-- origin of a subscripted base (`Generic[…]`: `typing.Generic`) -/
def BaseRef.origin : BaseRef → Nat
  | .generic _ => genericId
  | .param c _ => c
  | .plain c => c

/-- `subscripted_bases`: the bases that have an `__origin__` -/
def subscriptedBases (bs : List BaseRef) : List BaseRef := bs.filter BaseRef.isAlias

/-- `mixin_bases`: the subscripted bases whose origin is a class derived from library class `n`
    (`isinstance(b.__origin__, type) and issubclass(b.__origin__, <Class>)`; every origin here is a class) -/
def mixinBases (t : Table) (d : Nat) (n : String) (bs : List BaseRef) : List BaseRef :=
  (subscriptedBases bs).filter fun b => derives t (libClassId n) d b.origin

/-- the bases the loop runs over: all subscripted bases; with a preferred origin class only the subscripted bases of that kind
    (a `continue` test or the list `mixin_bases`), and — `mixin_bases or subscripted_bases` — all of them again when there is none -/
def loopCandidates (t : Table) (d : Nat) (bs : List BaseRef) : List BaseRef :=
  match loopPrefersOriginsDerivedFrom with
  | none => subscriptedBases bs
  | some n =>
    if loopFallsBackToAll && (mixinBases t d n bs).isEmpty then subscriptedBases bs else mixinBases t d n bs

/-- the loop `for base in …` (first origin that shows a `Generic[…]` wins: `break`) -/
def loopBases (t : Table) (d : Nat) : List BaseRef → LoopRes
  | [] => .notFound
  | .plain _ :: rest => loopBases t d rest                            -- no `__origin__` (never among the candidates)
  | .generic _ :: rest =>
    if loopSkipsOriginsWithoutOrigBases then loopBases t d rest       -- typing.Generic has no `__orig_bases__`: continue
    else .raised .originBases "AttributeError"
  | .param o args :: rest =>
    if loopSkipsOriginsWithoutOrigBases && (lookupOrigBases t d o).isNone then loopBases t d rest else
    match getGenericBase (lookupOrigBases t d o) with
    | .raised s e => .raised s e
    | .ok (some gb) => .found gb args
    | .ok none => loopBases t d rest

/-- `{v: t for v, t in zip(type_vars, types)}` with the roles the source gives the two lists -/
def mkDict (gb types : List TArg) : List (TArg × TArg) :=
  dictOfPairs ((if keysFromGenericBase then gb else types).zip (if valsFromActualTypes then types else gb))

/-- `_get_types(self)` for an instance of class `c`; `orig` = arguments of `__orig_class__` (none: created as `Cls()`) -/
def getTypes (t : Table) (d c : Nat) (orig : Option (List TArg)) : Res (List (TArg × TArg)) :=
  let obs := lookupOrigBases t d c
  if !(selfHas nonGenericGuardAttr obs orig) then .raised .nonGeneric nonGenericExc else
  match getGenericBase obs with
  | .raised s e => .raised s e
  | .ok (some gb) =>
    if !(selfHas unparamGuardAttr obs orig) then .raised .unparam unparamExc else
    (match orig with
     | some types => .ok (mkDict gb types)
     | none => .raised .noneArgs "AttributeError")
  | .ok none =>
    match obs with
    | none => .raised .noneArgs "AttributeError"
    | some bs =>
      match loopBases t d (loopCandidates t d bs) with
      | .found gb types => .ok (mkDict gb types)
      | .notFound => .raised .noneArgs "AttributeError"            -- `generic_base.__args__` on None
      | .raised s e => .raised s e

/-- a history of queries `inst.type_vars` on several instances (class, arguments of `__orig_class__`), one after the other: the
    code keeps nothing between two queries (no decorator on the helpers, no module state — `getTypesDecorators`,
    `getGenericBaseDecorators` in the generated facts) and never compares or hashes an instance, so every answer is the answer
    to that query alone -/
def runQueries (t : Table) (d : Nat) (qs : List (Nat × Option (List TArg))) : List (Res (List (TArg × TArg))) :=
  qs.map fun q => getTypes t d q.1 q.2

/-! ### what a query can leave behind for the next one

`runQueries` answers every query from the declarations alone.  That is the code only as long as the code keeps nothing between two
queries.  The generated facts list every place where it could: statements of generic_mixin.py that write into an object (`gmStores`:
`type(self)._memo = …` — found through the MRO by the instances of every SUB class —, `self._memo = …`, `memo[key] = …` on a container
that outlives the call), the builtins / dunders that write without a store statement (`gmStateCalls`), parameter defaults created once
(`gmMutableDefaults`), names assigned at class / module level, `global` / `nonlocal`, decorators on the helpers other than `property`.
A world records what the library has written so far; in a world in which something was written the model makes **no** prediction
(`none`): what such a memo does to later answers is not modelled, it is ruled out (`Props/C20.lean`: `queries_leave_nothing_behind`). -/

/-- everything in the library source through which `_get_types` / `get_generic_base` / `type_var` / `type_vars` could keep something
    between two queries -/
def leftBehind : List String :=
  PedVerif.Gen.MixinsShape.gmStores ++ PedVerif.Gen.MixinsShape.gmStateCalls ++ PedVerif.Gen.MixinsShape.gmMutableDefaults ++
  PedVerif.Gen.MixinsShape.gmClassState ++ PedVerif.Gen.MixinsShape.gmModuleState ++
  PedVerif.Gen.MixinsShape.gmAttributeStores ++
  (if PedVerif.Gen.MixinsShape.scopeEscapes = 0 then [] else ["global / nonlocal"]) ++
  ((getTypesDecorators ++ getGenericBaseDecorators ++ typeVarDecorators ++ typeVarsDecorators).filter (· != "property"))

/-- what the library has written so far: (class of the instance whose query wrote it, the writing place) -/
abbrev Written := List (Nat × String)

/-- one query in a world -/
def queryW (t : Table) (d : Nat) (w : Written) (q : Nat × Option (List TArg)) :
    Option (Res (List (TArg × TArg))) × Written :=
  (if w.isEmpty then some (getTypes t d q.1 q.2) else none, w ++ leftBehind.map fun s => (q.1, s))

/-- a history of queries, the world threaded through -/
def runQueriesW (t : Table) (d : Nat) : Written → List (Nat × Option (List TArg)) → List (Option (Res (List (TArg × TArg))))
  | _, [] => []
  | w, q :: qs => (queryW t d w q).1 :: runQueriesW t d (queryW t d w q).2 qs

/-- the property `type_var` -/
def typeVar (r : Res (List (TArg × TArg))) : Res TArg :=
  match r with
  | .raised s e => .raised s e
  | .ok m =>
    if typeVarLenOk m.length then
      (match (m.map (·.2))[typeVarIndex]? with
       | some x => .ok x
       | none => .raised .multiple "IndexError")
    else .raised .multiple "AssertionError"

/-! ## `create_decorator` -/

inductive Arg where
  | fn (gen : Nat)      -- the function object: 0 = the `def` itself, k = the k-th wrapper made by a transformation
  | ty (k : Key)
  | val (v : Val)
deriving DecidableEq, Repr

structure FState where
  gen : Nat                        -- identity of the current function object
  dict : List (Key × Val)          -- its `__dict__`
  journal : List (List Arg)        -- arguments every transformation was called with
deriving DecidableEq, Repr

def roleArg (a : App) (gen : Nat) : Role → Arg
  | .f => .fn gen
  | .type => .ty a.ty
  | .value => .val a.val

def roleNat (a : App) (gen : Nat) : Role → Nat
  | .f => gen
  | .type => a.ty
  | .value => a.val

/-- `fun(f)`: `setattr(f, …)`, then the transformation (if any) -/
def applyOne (s : FState) (a : App) : FState :=
  let d := dictInsert (roleNat a s.gen setattrKeyRole) (roleNat a s.gen setattrValRole) s.dict
  let call := transformationArgs.map (roleArg a s.gen)
  match a.tr with
  | .none => { s with dict := d }
  | .ident => { s with dict := d, journal := s.journal ++ [call] }
  | .wraps => { gen := s.gen + 1, dict := d, journal := s.journal ++ [call] }
  | .fresh => { gen := s.gen + 1, dict := [], journal := s.journal ++ [call] }

/-- the configured decorators of a program, in the order in which the factories were called (`get_index = route('/index')`,
    `get_about = route('/about')`, …): `decorator(value)` returns a NEW function `fun` that closes over `value` (and over the factory's
    decorator type / transformation) — calling the factory again makes another closure and leaves the earlier ones alone -/
abbrev Confs := List App

/-- `decorator(value)`: one more configured decorator -/
def configure (confs : Confs) (a : App) : Confs := confs ++ [a]

/-- a configured decorator is a closure over ITS OWN argument — read from the source: `value` is the parameter of the function that
    `create_decorator` returns (`valueIsParameterOf`), `fun` — defined inside it — uses that name and nothing rebinds it
    (`closureRebinds`), and with_decorated_methods.py has no statement that writes into an object (`wdmStores`: a slot like
    `decorator.value = value` / `fun.value = value` would be shared by all configured decorators of one factory — the last call wins),
    no `global` / `nonlocal`.  Where that does not hold the model makes no prediction about stored decorators. -/
def closuresKeepTheirArgument : Bool :=
  valueIsParameterOfReturnedDecorator && closureRebinds.isEmpty &&
  PedVerif.Gen.MixinsShape.wdmStores.isEmpty && PedVerif.Gen.MixinsShape.wdmAttributeStores.isEmpty &&
  PedVerif.Gen.MixinsShape.scopeEscapes == 0

/-- the k-th configured decorator, whenever it is applied -/
def configured (confs : Confs) (k : Nat) : Option App := if closuresKeepTheirArgument then confs[k]? else none

def applyApps (apps : List App) : FState := apps.foldl applyOne ⟨0, [], []⟩

/-! ## `get_decorated_functions` -/

/-- what `getattr(self, name)` returns -/
inductive Attr where
  | bound (c : Nat) (n : Name) (gen : Nat)      -- method bound to the instance; function object (c, n, gen)
  | plainFn (c : Nat) (n : Name) (gen : Nat)    -- staticmethod: the function itself
  | clsBound (c : Nat) (n : Name) (gen : Nat)   -- classmethod: bound to the class
  | obj (oid : Nat)
  | typeArg (x : TArg)                          -- the value of `type_var`
  | typeVars                                    -- the value of `type_vars`: a dict
  | className                                   -- the value of `class_name`: a str
  | instFn (fid : Nat) (gen : Nat)              -- a function stored in the instance `__dict__` (`self.cb = f`): not bound to anything
  | nameStr (n : Name)                          -- the attribute's name (a str), should the code use it as the key
deriving DecidableEq, Repr

/-- can the object be a dictionary key?  (`decorated_functions[t][attribute] = …` raises TypeError for a dict) -/
def Attr.hashable : Attr → Bool
  | .typeVars => false
  | _ => true

inductive Got where
  | value (a : Attr) (dict : List (Key × Val))
  | raises (exc : String)
deriving DecidableEq, Repr

/-- what objects carry BY THEMSELVES, next to what `create_decorator` sets — restricted by the harness to the attribute names that
    matter, the values of the enum's members (`hasattr(attribute, decorator_type)` asks for nothing else); read off the interpreter's
    objects by the harness like the MRO -/
structure Intr where
  cls : List (Key × Val) := []       -- the enum class itself: its member names, and (StrEnum) everything `str` defines: `upper`, …
  str : List (Key × Val) := []       -- a `str` (the value of `class_name`): `upper`, `join`, …
  dict : List (Key × Val) := []      -- a `dict` (the value of `type_vars`): `get`, `keys`, …
  fn : List (Key × Val) := []        -- every function / bound method, beside its `__dict__`: `__doc__`, `__name__`, …
deriving DecidableEq, Repr

structure EnumDesc where
  members : List Key                 -- values of the members, in definition order
  intr : Intr := {}                  -- what the objects the scan meets carry under these names by themselves
deriving Repr

/-- where the scan looks for the decorator types on a function object with `__dict__` = `dict`:
    * `hasattr(attribute, t)` / `getattr(attribute, t)` — whatever the object answers to: its `__dict__` first (what setattr wrote wins),
      then what the type defines by itself;
    * `t in vars(function)` / `vars(function)[t]` — the `__dict__` alone; a name that functions define by themselves (`__doc__`,
      `__name__`) is a slot of the function object: `setattr` writes the slot, the name never shows up in `__dict__` -/
def marksOf (ia : Intr) (dict : List (Key × Val)) : List (Key × Val) :=
  if scanReadsMarksFromFunctionDict then dict.filter fun kv => (dictGet kv.1 ia.fn).isNone else dict ++ ia.fn

def methodAttr (k : FKind) (c : Nat) (n : Name) (gen : Nat) : Attr :=
  match k with
  | .inst => .bound c n gen
  | .static => .plainFn c n gen
  | .cls => .clsBound c n gen

/-- `getattr(self, n)` answered by the class attribute `m` of class `c` -/
def getattrMember (c : Nat) (n : Name) (tvar : TArg) (ia : Intr) : MemberDef → Got
  | .func k apps => let s := applyApps apps; .value (methodAttr k c n s.gen) (marksOf ia s.dict)
  | .other oid attrs => .value (.obj oid) attrs
  | .raising e => .raises e
  | .typeVarProp => .value (.typeArg tvar) ia.cls
  | .typeVarsProp => .value .typeVars ia.dict
  | .classNameProp => .value .className ia.str

/-- an entry of the instance `__dict__` (`self.cb = f` in `__init__`) -/
inductive InstVal where
  | fn (fid : Nat) (apps : List App)               -- a function defined outside the classes, decorated, stored on the instance
  | obj (oid : Nat) (attrs : List (Key × Val))     -- any other object
deriving DecidableEq, Repr

abbrev InstNs := List (Name × InstVal)

def getattrInst (ia : Intr) : InstVal → Got
  | .fn fid apps => let s := applyApps apps; .value (.instFn fid s.gen) (marksOf ia s.dict)
  | .obj oid attrs => .value (.obj oid) attrs

def dedup : List Name → List Name
  | [] => []
  | x :: r => x :: (dedup r).filter (fun y => y ≠ x)

/-- `dir(self)` (order irrelevant): the instance `__dict__` and the namespaces along the MRO -/
def dirNames (t : Table) (mro : List Nat) (inst : InstNs) : List Name :=
  dedup (inst.map (·.1) ++ mro.flatMap fun c => (nsOf t c).map (·.1))

/-- the class along the MRO whose namespace answers `getattr(self, n)` -/
def resolve (t : Table) (mro : List Nat) (n : Name) : Option (Nat × MemberDef) :=
  mro.findSome? fun c => ((nsOf t c).find? (fun p => p.1 = n)).map fun p => (c, p.2)

/-- a data descriptor on the class (a property) is asked before the instance `__dict__` -/
def MemberDef.isDataDescr : MemberDef → Bool
  | .raising _ | .typeVarProp | .typeVarsProp | .classNameProp => true
  | _ => false

/-- the raw attribute behind a name: a class attribute as it stands in the namespace, or an entry of the instance `__dict__` -/
inductive Raw where
  | cls (c : Nat) (m : MemberDef)
  | inst (iv : InstVal)
deriving DecidableEq, Repr

/-- which object answers the name — the same for `getattr(self, n)` and `inspect.getattr_static(self, n)`: data descriptors of the
    classes, then the instance `__dict__`, then the other class attributes -/
def rawSelf (t : Table) (mro : List Nat) (inst : InstNs) (n : Name) : Option Raw :=
  match resolve t mro n, inst.find? (fun p => p.1 = n) with
  | some cm, some p => some (if cm.2.isDataDescr then .cls cm.1 cm.2 else .inst p.2)
  | some cm, none => some (.cls cm.1 cm.2)
  | none, some p => some (.inst p.2)
  | none, none => none

/-- `getattr(self, n)` on that object -/
def getattrRaw (n : Name) (tvar : TArg) (ia : Intr) : Raw → Got
  | .cls c m => getattrMember c n tvar ia m
  | .inst iv => getattrInst ia iv

/-- does the scan unwrap this kind of method (`raw.__func__ if isinstance(raw, (staticmethod, classmethod)) else raw`)?  A wrapper that
    is not unwrapped is no function: passed over -/
def unwrapped : FKind → Bool
  | .inst => true
  | .static => scanUnwraps.contains "staticmethod"
  | .cls => scanUnwraps.contains "classmethod"

/-- what the scan sees of the object behind the name `n` (`none`: passed over without a look at its attributes):
    without the look at the raw attribute, `getattr(self, n)` of whatever is there (properties are evaluated); with it, only functions —
    plain, or wrapped in a staticmethod / classmethod that is unwrapped — and, if the method test is there, only when `getattr(self, n)`
    is a method made from that function (a function in the instance `__dict__` stays a plain function: it is not) -/
def seen (n : Name) (tvar : TArg) (ia : Intr) (r : Raw) : Option Got :=
  if !scanLooksAtRawAttribute then some (getattrRaw n tvar ia r) else
  match r with
  | .cls c (.func k apps) => if unwrapped k then some (getattrMember c n tvar ia (.func k apps)) else none
  | .inst (.fn fid apps) => if scanRequiresMethodOfInstance then none else some (getattrInst ia (.fn fid apps))
  | _ => none

def view (t : Table) (mro : List Nat) (tvar : TArg) (ia : Intr) (inst : InstNs) : List (Name × Got) :=
  (dirNames t mro inst).filterMap fun n => ((rawSelf t mro inst n).bind (seen n tvar ia)).map fun g => (n, g)

/-- `attribute_name.startswith('__')` -/
def skipName (n : Name) : Bool :=
  match skipPrefixUnderscores with
  | some k => decide (k ≤ n.unders)
  | none => false

abbrev Dict := List (Key × List (Attr × Val))

/-- `decorated_functions[t][a] = v` (none: KeyError) -/
def insertOuter (t : Key) (a : Attr) (v : Val) : Dict → Option Dict
  | [] => if initAllMembers then none else some [(t, [(a, v)])]
  | (t', d) :: r =>
    if t' = t then some ((t', dictInsert a v d) :: r)
    else (insertOuter t a v r).map ((t', d) :: ·)

/-- the inner loop `for decorator_type in decorator_types: if hasattr(attribute, decorator_type): …` -/
def scanMembers (a : Attr) (dict : List (Key × Val)) : List Key → Dict → Option Dict
  | [], acc => some acc
  | t :: ts, acc =>
    match dictGet t dict with
    | some v => (insertOuter t a v acc).bind (scanMembers a dict ts)
    | none => scanMembers a dict ts acc

def scanView (members : List Key) : List (Name × Got) → Dict → Res Dict
  | [], acc => .ok acc
  | (n, g) :: rest, acc =>
    if skipName n then scanView members rest acc else
    match g with
    | .raises e => .raised .member e
    | .value a dict =>
      -- `decorated_functions[decorator_type][attribute] = …` with an attribute that cannot be a key (a dict): TypeError at the first
      -- member the attribute answers to
      if !scanValueIsGetattrOfAttribute then .raised .member "<value expression outside the model>" else
      let key := if scanKeyIsAttribute then a else .nameStr n
      if !key.hashable && members.any (fun k => (dictGet k dict).isSome) then .raised .member "TypeError" else
      match scanMembers key dict members acc with
      | none => .raised .keyError "KeyError"
      | some acc' => scanView members rest acc'

def initDict (members : List Key) : Dict := if initAllMembers then members.map (·, []) else []

def getDecorated (t : Table) (d c : Nat) (orig : Option (List TArg)) (enumOf : TArg → Option EnumDesc) (inst : InstNs) :
    Res Dict :=
  match typeVar (getTypes t d c orig) with
  | .raised s e => .raised s e
  | .ok x =>
    match enumOf x with
    | none => .raised .notIterable "TypeError"
    | some en => scanView en.members (view t (lin t d c) x en.intr inst) (initDict en.members)

/-! ## The library classes -/

def libMember (m : Nat × String × LibKind) : Name × MemberDef :=
  (⟨m.1, m.2.1⟩,
   match m.2.2 with
   | .method => .func .inst []
   | .property =>
     if m.1 = 0 ∧ m.2.1 = "type_var" then .typeVarProp
     else if m.1 = 0 ∧ m.2.1 = "type_vars" then .typeVarsProp
     else if m.1 = 0 ∧ m.2.1 = "class_name" then .classNameProp
     else .other 0 [])

def libBase (s : String) : BaseRef :=
  if s = "GenericMixin" then .plain 1 else if s = "ABC" then .plain 2 else .generic [0]

/-- class 0 = typing.Generic, 1 = GenericMixin, 2 = ABC, 3 = WithDecoratedMethods; user classes follow -/
def libTable : Table :=
  [ { bases := [] },
    { bases := [], ns := libGenericMixin.map libMember },
    { bases := [], ns := [(⟨1, "abc_impl"⟩, .other 0 [])] },
    { bases := wdmBases.map libBase, ns := libWithDecoratedMethods.map libMember } ]

end PedVerif.Mixins
