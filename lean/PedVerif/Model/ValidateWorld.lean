import PedVerif.Model.Validate
/-!
`@validate` with *effectful* conversion / validator steps: the same code as `PedVerif.Model.Validate`, but every step of a
chain is user code that reads and changes an arbitrary world `σ` — the journal of a recording validator, a database, the
bodies of other functions … and in particular **other calls of decorated functions, the very same one included**
(re-entrancy: a validator that calls the decorated function again; overlapping calls), which are world-transformers
themselves (`runValidateW` below is one).

What belongs to one call — `result`, `used_parameter_names`, `used_args`, `parameter_dict`, `signature`, `wants_args`,
`bound_args` — are *local variables* of `_wrapper_content` (fact read from the source: `bookkeepingIsPerCall`), i.e.
arguments of the loop functions below and not part of the world; `Parameter.validate` keeps no state on the Parameter
object (`parameterValidateIsStateless`).  The world is threaded through every step in execution order.

`Props/C12.lean` proves that the outcome of a call is that of the pure model — a function of the call's own arguments and of
what its own steps return — whatever the world was before the call (history) and whatever the steps do to it (nesting).
-/
namespace PedVerif.Validate
open PedVerif.Gen.Validate

/-- a conversion / validator step as user code: it returns (or raises) *and* changes the world -/
abbrev StepW (σ : Type) := PV → σ → Except Rej PV × σ

structure VParamW (σ : Type) where
  name : Name
  requiredArg : Bool
  dflt : Option PV
  ext : Option PV
  conv : Option (StepW σ)
  validators : List (StepW σ)
  flaskJson : Bool
  nameNonEmpty : (name != emptyName) = true := by decide

def VParamW.isRequired {σ} (p : VParamW σ) : Bool := isRequiredRule p.dflt.isSome p.requiredArg

/-- the `for validator in self.validators` loop -/
def runValidatorsW {σ} (name : Name) : List (StepW σ) → Nat → PV → σ → Except VExc PV × σ
  | [], _, v, w => (.ok v, w)
  | f :: fs, j, v, w =>
    match f v w with
    | (.ok x, w') => runValidatorsW name fs (j + 1) x w'
    | (.error (.rejected carried), w') => (.error (.parameter (chainHandlerName name carried) (.validator j)), w')
    | (.error (.crash e), w') => (.error (.foreign e), w')

/-- `Parameter.validate` -/
def VParamW.validate {σ} (p : VParamW σ) (v : PV) (w : σ) : Except VExc PV × σ :=
  match v with
  | .none => if p.isRequired then (.error (.parameter p.name .required), w) else (.ok .none, w)
  | .obj i =>
    match p.conv with
    | Option.none => runValidatorsW p.name p.validators 0 (.obj i) w
    | some c =>
      match c (.obj i) w with
      | (.ok x, w') => runValidatorsW p.name p.validators 0 x w'
      | (.error (.rejected _), w') => (.error (.parameter p.name .convert), w')
      | (.error (.crash e), w') => (.error (.foreign e), w')

def findPW {σ} : List (VParamW σ) → Name → Option (VParamW σ)
  | [], _ => Option.none
  | p :: r, k =>
    match findPW r k with
    | some q => some q
    | Option.none => if p.name == k then some p else Option.none

/-- first loop: `for k, v in kwargs.items()`; `res` and `used` are locals of the call -/
def loopKwW {σ} (ps : List (VParamW σ)) (strict : Bool) :
    List (Name × PV) → Assoc → List Name → σ → Except VExc (Assoc × List Name) × σ
  | [], res, used, w => (.ok (res, used), w)
  | (k, v) :: rest, res, used, w =>
    match findPW ps k with
    | some p =>
      match p.validate v w with
      | (.ok v', w') => loopKwW ps strict rest (res.set k v') (used ++ [p.name]) w'
      | (.error e, w') => (.error e, w')
    | Option.none => if kwStrictTest strict k then (.error .tooMany, w) else loopKwW ps strict rest (res.set k v) used w

/-- second loop, the branches `elif k in parameter_dict` / `else` -/
def loopPosW {σ} (ps : List (VParamW σ)) (strict : Bool) (recv : Option Name) :
    List (Name × PV) → Assoc → List Name → List PV → σ → Except VExc (Assoc × List Name × List PV) × σ
  | [], res, used, ua, w => (.ok (res, used, ua), w)
  | (k, v) :: rest, res, used, ua, w =>
    match findPW ps k with
    | some p =>
      match p.validate v w with
      | (.ok v', w') => loopPosW ps strict recv rest (res.set k v') (used ++ [p.name]) (writeRecord posDeclaredWrite ua v) w'
      | (.error e, w') => (.error e, w')
    | Option.none =>
      if posStrictTest strict k recv then (.error .tooMany, w)
      else loopPosW ps strict recv rest (res.set k v) used (writeRecord posUndeclaredWrite ua v) w

/-- second loop, the `zip` branch -/
def loopZipW {σ} : List (PV × VParamW σ) → Assoc → List Name → σ → Except VExc (Assoc × List Name) × σ
  | [], res, used, w => (.ok (res, used), w)
  | (a, p) :: rest, res, used, w =>
    match p.validate a w with
    | (.ok v', w') => loopZipW rest (res.set p.name v') (used ++ [p.name]) w'
    | (.error e, w') => (.error e, w')

def zipPairsW {σ} (ps : List (VParamW σ)) (args extras : List PV) (used : List Name) (ua : List PV) : List (PV × VParamW σ) :=
  (surplusOf args extras ua).zip (ps.filter (fun p => !used.contains p.name))

/-- the strict test in front of the inner loop (generated) -/
def zipRefusesW {σ} (ps : List (VParamW σ)) (strict : Bool) (args extras : List PV) (used : List Name) (ua : List PV) : Bool :=
  zipStrictTest strict (surplusOf args extras ua).length (ps.filter (fun p => !used.contains p.name)).length

/-- third loop: `for parameter in unused_parameters` -/
def loopUnusedW {σ} (sig : Sig) : List (VParamW σ) → Assoc → σ → Except VExc Assoc × σ
  | [], res, w => (.ok res, w)
  | p :: rest, res, w =>
    match p.ext with
    | some v =>
      match p.validate v w with
      | (.ok v', w') => loopUnusedW sig rest (res.set p.name v') w'
      | (.error e, w') => (.error e, w')
    | Option.none =>
      if p.isRequired then (.error (.parameter p.name .required), w) else
      match p.dflt with
      | some d => loopUnusedW sig rest (res.set p.name d) w
      | Option.none =>
        match sig.default? p.name with
        | some d => loopUnusedW sig rest (res.set p.name d) w
        | Option.none => (.error .validate, w)

structure CfgW (σ : Type) where
  ps : List (VParamW σ)
  sig : Sig
  strict : Bool
  ignoreInput : Bool
  req : Req

def flaskCheckW {σ} (ps : List (VParamW σ)) (strict : Bool) (req : Req) (res : Assoc) : Except VExc Assoc :=
  if strict && ps.all (fun p => match findPW ps p.name with | some q => q.flaskJson | Option.none => true) then
    match req with
    | .noContext => .error .flaskOutsideContext
    | .notJson => .ok res
    | .json keys => if keys.any (fun k => (findPW ps k).isNone) then .error .tooMany else .ok res
  else .ok res

def runLoopW {σ} (c : CfgW σ) (args : List PV) (kw : List (Name × PV)) (l : Loop) (st : Assoc × List Name) (w : σ) :
    Except VExc (Assoc × List Name) × σ :=
  match l with
  | .kw => loopKwW c.ps c.strict kw st.1 st.2 w
  | .pos =>
    match bindPartial c.sig args with
    | .error e => (.error e, w)
    | .ok b =>
      match loopPosW c.ps c.strict c.sig.receiver b.named st.1 st.2 [] w with
      | (.error e, w') => (.error e, w')
      | (.ok (r, u, ua), w') =>
        if b.extras.isEmpty then (.ok (r, u), w')
        else if zipRefusesW c.ps c.strict args b.extras u ua then (.error .tooMany, w')
        else loopZipW (zipPairsW c.ps args b.extras u ua) r u w'
  | .unused =>
    match loopUnusedW c.sig (c.ps.filter (fun p => !st.2.contains p.name)) st.1 w with
    | (.error e, w') => (.error e, w')
    | (.ok r, w') => (.ok (r, st.2), w')

/-- the loops in source order (generated `loopOrder`), each under `if not ignore_input` or not (generated) -/
def runLoopsW {σ} (c : CfgW σ) (args : List PV) (kw : List (Name × PV)) :
    List Loop → Assoc × List Name → σ → Except VExc (Assoc × List Name) × σ
  | [], st, w => (.ok st, w)
  | l :: ls, st, w =>
    if underIgnoreInput l && c.ignoreInput then runLoopsW c args kw ls st w else
    match runLoopW c args kw l st w with
    | (.error e, w') => (.error e, w')
    | (.ok st', w') => runLoopsW c args kw ls st' w'

/-- `_wrapper_content(*args, **kwargs)`: `result = {}`, `used_parameter_names = []` are created by the call itself -/
def wrapperContentW {σ} (c : CfgW σ) (args : List PV) (kw : List (Name × PV)) (w : σ) : Except VExc Assoc × σ :=
  match runLoopsW c args kw loopOrder (([], []) : Assoc × List Name) w with
  | (.error e, w') => (.error e, w')
  | (.ok st, w') => (flaskCheckW c.ps c.strict c.req st.1, w')

/-- a call of the decorated function in world `w`; the body is user code too (`body` = its effect on the world) -/
def runValidateW {σ} (c : CfgW σ) (body : Binding → σ → σ) (isAsync : Bool) (m : Mode) (args : List PV) (kw : List (Name × PV))
    (w : σ) : Except VExc Binding × σ :=
  match wrapperContentW c args kw w with
  | (.error e, w') => (.error e, w')
  | (.ok res, w') =>
    match dispatch c.sig isAsync m res with
    | .error e => (.error e, w')
    | .ok b => (.ok b, body b w')

end PedVerif.Validate
