import PedVerif.Gen.Validate
/-!
Model of `pedantic/decorators/fn_deco_validate/fn_deco_validate.py` (`validate`: `_wrapper_content`, `wrapper` /
`async_wrapper`, `_split_by_signature`) and of `Parameter.__init__` / `Parameter.validate`
(`parameters/abstract_parameter.py`), plus Python's own binding of a call `f(*pos, **kw)` to a signature.

Taken from `PedVerif.Gen.Validate` (regenerated from the source on every run): the `is_required` rule, the order of the
three loops and which sit under `if not ignore_input`, the `wants_args` rule and the test of the `zip` branch, how the receiver
of a method is recognised (`receiver_name`: by the signature — or, in the former shape of the source, by the key `'self'`), the
strict tests of the loops, the dispatch programs of `wrapper` and `async_wrapper`, the `if` of the KWARGS_WITHOUT_NONE filter, the decision code of
`_split_by_signature`, and the naming of a rejection: `ParameterException.from_validator_exception` (which of the two names —
the Parameter's own, or the `parameter_name` the `ValidatorException` already carries — ends up in the exception), the
arguments `Parameter.validate` passes to it, and `Validator.validate_param` (which labels the exception of a delegate).

Also generated, statement by statement: the body of `Parameter.validate` (`validateProg`, interpreted by `execV` below), what the
branches of the three loops file and book (`Write` records), where the `zip` branch takes the surplus positionals from and its
strict test (`zipSurplusSource`, `zipStrictTest`), and the decision table of the third loop (`absentAct`).  The hand-readable normal
forms of these definitions are in `PedVerif/Lemmas/ValidateRef.lean`, with the equations that tie them to the generated programs.

Conversion (`convert_value`) and validators are *abstract* functions `PV → Except Rej PV` stored in the parameter, so
every theorem holds for any validator, user-defined ones included.
-/
namespace PedVerif.Validate
open PedVerif.Gen.Validate

abbrev Name := Nat
/-- the name `self` -/
def selfName : Name := 0
/-- the name `args`: the usual spelling of the VAR_POSITIONAL parameter (`*args`); an ordinary parameter may carry this
    name too.  `_wrapper_content` finds the VAR_POSITIONAL parameter in the signature, whatever it is called. -/
def argsName : Name := 1

/-- runtime values: `none` is Python's `None`; every other object is identified by a number.
    Objects with identity `≤ falsyMax` are the falsy ones (`0`, `''`, `[]`, `{}`, `()`, `False`, `0.0`). -/
inductive PV where
  | none
  | obj (id : Nat)
deriving DecidableEq, Repr

def falsyMax : Nat := 7
/-- `bool(v)` -/
def PV.truthy : PV → Bool
  | .none => false
  | .obj i => decide (falsyMax < i)
/-- `v is None` -/
def PV.isNone : PV → Bool
  | .none => true
  | .obj _ => false

/-- a Python dict: insertion order, assignment to an existing key overwrites in place -/
abbrev Assoc := List (Name × PV)

def Assoc.get? : Assoc → Name → Option PV
  | [], _ => Option.none
  | (k, v) :: r, n => if k == n then some v else Assoc.get? r n
def Assoc.set : Assoc → Name → PV → Assoc
  | [], n, v => [(n, v)]
  | (k, x) :: r, n, v => if k == n then (n, v) :: r else (k, x) :: Assoc.set r n v
def Assoc.has (d : Assoc) (k : Name) : Bool := (d.get? k).isSome

/-! `emptyName` (generated constant) is the empty string as a name: the default `parameter_name` of a `ValidatorException`;
    `''` is the only falsy string. -/

/-- how a conversion / validator step can fail -/
inductive Rej where
  /-- `ConversionError` (conversion) / `ValidatorException` (validator).  `carried` is the `parameter_name` attribute the
      `ValidatorException` has when it leaves the step: `emptyName` (`''`) for an ordinary validator, any name at all for a
      validator that sets it itself or that delegates to other validators through `Validator.validate_param(value,
      parameter_name=…)` — the name of a nested field, of *another* Parameter of the same function, … -/
  | rejected (carried : Name)
  | crash (id : Nat)      -- any other exception object
deriving DecidableEq, Repr

abbrev Step := PV → Except Rej PV

/-- `Validator.validate_param(value, parameter_name)` of a validator whose `validate` is `f`: the `ValidatorException` of the
    delegate is labelled (generated rule: `ex.parameter_name = parameter_name`) and re-raised; everything else passes -/
def validateParam (f : Step) (parameterName : Name) : Step := fun v =>
  match f v with
  | .error (.rejected carried) => .error (.rejected (validateParamName parameterName carried))
  | r => r

/-- why a `ParameterException` was raised -/
inductive Why where
  | required              -- value None / missing for a required parameter
  | convert               -- `convert_value` raised `ConversionError`
  | validator (j : Nat)   -- the j-th validator raised `ValidatorException`
deriving DecidableEq, Repr

inductive VExc where
  | parameter (name : Name) (why : Why)   -- `ParameterException` with `parameter_name`
  | tooMany                               -- `TooManyArguments`
  | validate                              -- plain `ValidateException`
  | foreign (id : Nat)                    -- an exception of a validator that is not a `ValidatorException`: propagates
  | flaskOutsideContext                   -- `RuntimeError`: the Flask `request` proxy touched outside a request
  | keyError                              -- `result.pop('self')` / `result[n]` without the key (unreachable in the current code)
  | notCalled                             -- the wrapper fell off its end without calling `func` (unreachable in the current code)
  | bodyTypeError                         -- Python refused the call `func(...)`: TypeError before the body runs
  | unboundLocal                          -- `UnboundLocalError`: the accumulator of `Parameter.validate` read before it is bound (unreachable in the current code)
deriving DecidableEq, Repr

/-- a `Parameter` as passed to `@validate(...)` -/
structure VParam where
  name : Name
  requiredArg : Bool            -- the `required=` argument
  dflt : Option PV              -- `default=`; `none` = NoValue
  ext : Option PV               -- `some v`: an ExternalParameter whose `has_value()` is true and whose `load_value()` is `v`
  conv : Option Step            -- `value_type` given: `convert_value(·, value_type)`
  validators : List Step
  flaskJson : Bool              -- `isinstance(p, FlaskJsonParameter)`
  /-- a Parameter's name is the name of a parameter of the decorated function: a non-empty string -/
  nameNonEmpty : (name != emptyName) = true := by decide

/-- `self.is_required = False if default != NoValue else required` (generated) -/
def VParam.isRequired (p : VParam) : Bool := isRequiredRule p.dflt.isSome p.requiredArg

/-- what a statement of `Parameter.validate` feeds / returns -/
def feedPick (f : Feed) (value : PV) (acc : Option PV) : Option PV :=
  match f with | .acc => acc | .original => some value

/-- the `for validator in self.validators` loop (generated: over all validators or a slice, what each validator is fed, which
    exceptions the handler catches): a `ValidatorException` `e` becomes `self.exception_type.from_validator_exception(exception=e,
    parameter_name=self.name)`, whose `parameter_name` is the generated `chainHandlerName self.name e.parameter_name` -/
def runChain (name : Name) (feed : Feed) (c : Catch) (value : PV) : List Step → Nat → Option PV → Except VExc (Option PV)
  | [], _, acc => .ok acc
  | f :: fs, j, acc =>
    match feedPick feed value acc with
    | Option.none => .error .unboundLocal
    | some x =>
      match f x with
      | .ok w => runChain name feed c value fs (j + 1) (some w)
      | .error (.rejected carried) => .error (.parameter (chainHandlerName name carried) (.validator j))
      | .error (.crash e) =>
        match c with
        | .only => .error (.foreign e)
        | .all => .error (.parameter (chainHandlerName name emptyName) (.validator j))

/-- interpreter of the generated program of `Parameter.validate`: `acc` is the accumulator variable (`none` = not bound yet) -/
def execV (p : VParam) (value : PV) : List VStmt → Option PV → Except VExc PV
  | [], _ => .ok .none                                  -- falls off the end: returns None
  | .noneRule raises returns :: rest, acc =>
    if value.isNone then
      if raises && p.isRequired then .error (.parameter (raiseExceptionName p.name) .required)   -- `self.raise_exception(...)`
      else if returns then .ok .none else execV p value rest acc
    else execV p value rest acc
  | .convert c keeps :: rest, acc =>
    match p.conv with
    | some cv =>
      match cv value with
      | .ok w => execV p value rest (some w)
      | .error (.rejected _) => .error (.parameter (raiseExceptionName p.name) .convert)          -- `return self.raise_exception(...)`
      | .error (.crash e) =>
        match c with
        | .only => .error (.foreign e)
        | .all => .error (.parameter (raiseExceptionName p.name) .convert)
    | Option.none => execV p value rest (if keeps then some value else acc)
  | .chain overAll feed c :: rest, acc =>
    match runChain p.name feed c value (if overAll then p.validators else p.validators.drop 1) 0 acc with
    | .ok acc' => execV p value rest acc'
    | .error e => .error e
  | .ret what :: _, acc =>
    match feedPick what value acc with
    | some v => .ok v
    | Option.none => .error .unboundLocal

/-- `Parameter.validate`: the generated program `validateProg`, statement by statement -/
def VParam.validate (p : VParam) (v : PV) : Except VExc PV := execV p v validateProg Option.none

/-- `parameter_dict = {parameter.name: parameter for parameter in parameters}`: the last declaration of a name wins -/
def findP : List VParam → Name → Option VParam
  | [], _ => Option.none
  | p :: r, k =>
    match findP r k with
    | some q => some q
    | Option.none => if p.name == k then some p else Option.none

structure SParam where
  name : Name
  dflt : Option PV              -- `none` = `inspect.Parameter.empty`

/-- the decorated function's signature: `def f(<pos…>, [*<varName>,] [<kwOnly…>])` (no positional-only, no `**kwargs`) -/
structure Sig where
  pos : List SParam             -- POSITIONAL_OR_KEYWORD, incl. `self` for methods
  varArgs : Bool                -- there is a VAR_POSITIONAL parameter
  kwOnly : List SParam
  varName : Name := argsName    -- its name: `*args`, `*rest`, … (meaningful when `varArgs`)
  /-- the identity of the tuple object that `bind_partial` builds from the surplus positionals -/
  tupleOf : List PV → PV := fun _ => .obj 0

/-- a `wants_args` test on the *text* of the signature (`'*args' in str(signature)`), if the source has one (rule generated
    from the source; `false` when the source looks the VAR_POSITIONAL parameter up in the signature instead) -/
def Sig.wantsArgs (s : Sig) : Bool :=
  wantsArgsRule (s.varArgs && s.varName == argsName)
    ((s.varArgs && s.varName == argsName) || (s.pos ++ s.kwOnly).any (·.name == argsName))

def Sig.named (s : Sig) : List SParam := s.pos ++ s.kwOnly

/-- `inspect.signature(func).parameters.items()` as (name, kind is positional) -/
def sigItems (sig : Sig) : List (Name × Bool) :=
  sig.pos.map (fun s => (s.name, true)) ++ (if sig.varArgs then [(sig.varName, false)] else [])
    ++ sig.kwOnly.map (fun s => (s.name, false))

/-- `receiver_name`: the name under which the receiver of a method arrives, computed once per decorated function from its signature
    (rule generated from the source: `'self' if next(iter(inspect.signature(func).parameters), None) == 'self' else None`);
    `none` = Python's `None`: the function has no receiver -/
def Sig.receiver (s : Sig) : Option Name :=
  receiverName ((sigItems s).head?.map (·.1) == some selfName) ((sigItems s).any (·.1 == selfName))
def Sig.posNames (s : Sig) : List Name := s.pos.map (·.name)
/-- `signature.parameters[name].default` when present and not `empty` -/
def Sig.default? (s : Sig) (n : Name) : Option PV := (s.named.find? (·.name == n)).bind (·.dflt)

/-- a branch of a loop files its result: under which key, and whether the value went through `parameter.validate` (generated) -/
def writeKey (w : Write) (k : Name) (p : VParam) : Name := if w.keyIsParamName then p.name else k
def writeValue (w : Write) (p : VParam) (v : PV) : Except VExc PV := if w.validated then p.validate v else .ok v
/-- `used_parameter_names.append(parameter.name)` / `used_args.append(<raw value>)`, if the branch has them (generated) -/
def writeMark (w : Write) (used : List Name) (p : VParam) : List Name := if w.marksUsed then used ++ [p.name] else used
def writeRecord (w : Write) (ua : List PV) (v : PV) : List PV := if w.recordsArg then ua ++ [v] else ua

/-- first loop: `for k, v in kwargs.items()` -/
def loopKwG (ps : List VParam) (strict : Bool) : List (Name × PV) → Assoc → List Name → Except VExc (Assoc × List Name)
  | [], res, used => .ok (res, used)
  | (k, v) :: rest, res, used =>
    match findP ps k with
    | some p => do
        let v' ← writeValue kwDeclaredWrite p v
        loopKwG ps strict rest (res.set (writeKey kwDeclaredWrite k p) v') (writeMark kwDeclaredWrite used p)
    | Option.none => if kwStrictTest strict k then .error .tooMany else loopKwG ps strict rest (res.set k v) used   -- test generated

/-- `signature.bind_partial(*args).arguments` as the second loop consumes it: `named` are the entries that go through the
    branches `elif k in parameter_dict` / `else` (signature order); `extras` are the surplus positionals when the (generated)
    test of the `zip` branch holds for the key of the VAR_POSITIONAL parameter — `k == var_positional` in the current source.
    Were the test false for that key, the tuple would be an ordinary entry `(<varName>, <the tuple object>)`.
    For the key of an ordinary parameter the test is `zipBranchTest (k == 'args') wants_args false`, which is false
    (`ordinary_key_never_zips`, Props/C12.lean). -/
structure Bound where
  named : List (Name × PV)
  extras : List PV              -- non-empty iff the key of the VAR_POSITIONAL parameter is present and takes the `zip` branch

def bindPartial (sig : Sig) (args : List PV) : Except VExc Bound :=
  if args.length ≤ sig.pos.length then .ok ⟨sig.posNames.zip args, []⟩
  else if sig.varArgs then
    if zipBranchTest (sig.varName == argsName) sig.wantsArgs true then .ok ⟨sig.posNames.zip args, args.drop sig.pos.length⟩
    else .ok ⟨sig.posNames.zip args ++ [(sig.varName, sig.tupleOf (args.drop sig.pos.length))], []⟩
  else .error .validate          -- `except TypeError as ex: raise ValidateException(str(ex))`

/-- second loop, the branches `elif k in parameter_dict` / `else`; `recv` is the value of `receiver_name`; the last component
    is `used_args` (in the current source nothing reads it any more unless the zip branch filters the positionals with it) -/
def loopPosG (ps : List VParam) (strict : Bool) (recv : Option Name) :
    List (Name × PV) → Assoc → List Name → List PV → Except VExc (Assoc × List Name × List PV)
  | [], res, used, ua => .ok (res, used, ua)
  | (k, v) :: rest, res, used, ua =>
    match findP ps k with
    | some p => do
        let v' ← writeValue posDeclaredWrite p v
        loopPosG ps strict recv rest (res.set (writeKey posDeclaredWrite k p) v') (writeMark posDeclaredWrite used p) (writeRecord posDeclaredWrite ua v)
    | Option.none =>
      if posStrictTest strict k recv then .error .tooMany
      else loopPosG ps strict recv rest (res.set k v) used (writeRecord posUndeclaredWrite ua v)   -- test generated

/-- second loop, the branch of the VAR_POSITIONAL parameter: the inner `for arg, parameter in zip(…)` -/
def loopZipG : List (PV × VParam) → Assoc → List Name → Except VExc (Assoc × List Name)
  | [], res, used => .ok (res, used)
  | (a, p) :: rest, res, used => do
    let v' ← writeValue zipWrite p a
    loopZipG rest (res.set p.name v') (writeMark zipWrite used p)

/-- the surplus positionals as the zip branch sees them (generated source): the tuple `bind_partial` bound to the VAR_POSITIONAL
    parameter (`extras`) — or, in the former shape of the source, ALL positionals of the call (the receiver of a method included)
    that are not EQUAL (`==`) to an argument validated so far -/
def surplusOf (args extras ua : List PV) : List PV :=
  match zipSurplusSource with
  | .argsNotUsed => args.filter (fun a => !ua.contains a)
  | .boundTuple => extras

/-- `[p for p in parameters if p.name not in used_parameter_names]` -/
def unusedParams (ps : List VParam) (used : List Name) : List VParam := ps.filter (fun p => !used.contains p.name)

/-- `zip(<surplus>, <unused parameters>)` -/
def zipPairs (ps : List VParam) (args extras : List PV) (used : List Name) (ua : List PV) : List (PV × VParam) :=
  (surplusOf args extras ua).zip (unusedParams ps used)

/-- the test in front of the inner loop (generated; `false` when the source has none): more surplus positionals than Parameters left -/
def zipRefuses (ps : List VParam) (strict : Bool) (args extras : List PV) (used : List Name) (ua : List PV) : Bool :=
  zipStrictTest strict (surplusOf args extras ua).length (unusedParams ps used).length

/-- third loop: `for parameter in unused_parameters` (decision table generated) -/
def loopUnusedG (sig : Sig) : List VParam → Assoc → Except VExc Assoc
  | [], res => .ok res
  | p :: rest, res =>
    match absentAct p.ext.isSome p.ext.isSome p.isRequired p.dflt.isSome (sig.named.any (·.name == p.name)) (sig.default? p.name).isSome with
    | .external =>
      match p.ext with
      | some v => do
          let v' ← p.validate v
          loopUnusedG sig rest (res.set p.name v')
      | Option.none => .error .keyError                     -- `load_value()` of a source without value (unreachable: the table asks `has_value()`)
    | .raiseRequired => .error (.parameter (raiseExceptionName p.name) .required)
    | .paramDefault =>
      match p.dflt with
      | some d => loopUnusedG sig rest (res.set p.name d)
      | Option.none => .error .keyError                     -- `default_value` is `NoValue`: unreachable (the table asks first)
    | .sigDefault =>
      match sig.default? p.name with
      | some d => loopUnusedG sig rest (res.set p.name d)
      | Option.none => .error .keyError                     -- no such default: unreachable (the table asks first)
    | .raiseValidate => .error .validate

/-- what the Flask `request` proxy shows -/
inductive Req where
  | noContext                     -- no request context
  | notJson                       -- `request.is_json` is false
  | json (keys : List Name)       -- the keys of `request.json`
deriving Repr

/-- the trailing block `if strict and IS_FLASK_INSTALLED: …` (Flask is installed in the modelled environment) -/
def flaskCheck (ps : List VParam) (strict : Bool) (req : Req) (res : Assoc) : Except VExc Assoc :=
  if strict && ps.all (fun p => match findP ps p.name with | some q => q.flaskJson | Option.none => true) then
    match req with
    | .noContext => .error .flaskOutsideContext
    | .notJson => .ok res
    | .json keys => if keys.any (fun k => (findP ps k).isNone) then .error .tooMany else .ok res
  else .ok res

structure Cfg where
  ps : List VParam
  sig : Sig
  strict : Bool
  ignoreInput : Bool
  req : Req

def runLoop (c : Cfg) (args : List PV) (kw : List (Name × PV)) (l : Loop) (st : Assoc × List Name) :
    Except VExc (Assoc × List Name) :=
  match l with
  | .kw => loopKwG c.ps c.strict kw st.1 st.2
  | .pos => do
      let b ← bindPartial c.sig args
      let (r, u, ua) ← loopPosG c.ps c.strict c.sig.receiver b.named st.1 st.2 []
      if b.extras.isEmpty then pure (r, u)
      else if zipRefuses c.ps c.strict args b.extras u ua then .error .tooMany
      else loopZipG (zipPairs c.ps args b.extras u ua) r u
  | .unused => do
      let r ← loopUnusedG c.sig (c.ps.filter (fun p => !st.2.contains p.name)) st.1
      pure (r, st.2)

/-- `_wrapper_content(*args, **kwargs)` -/
def wrapperContent (c : Cfg) (args : List PV) (kw : List (Name × PV)) : Except VExc Assoc := do
  let st ← loopOrder.foldlM
    (fun st l => if underIgnoreInput l && c.ignoreInput then pure st else runLoop c args kw l st) (([], []) : Assoc × List Name)
  flaskCheck c.ps c.strict c.req st.1

/-! ### Python's binding of `func(*pos, **kw)` -/

/-- what the body observes: its named parameters in signature order and the tuple `args` -/
structure Binding where
  named : Assoc
  extras : List PV
deriving DecidableEq, Repr

/-- a keyword that Python refuses: already bound positionally, or not a parameter name -/
def badKey (sig : Sig) (posNames : List Name) (kv : Name × PV) : Bool :=
  posNames.contains kv.1 || !(sig.named.any (·.name == kv.1))

/-- one named parameter: the bound argument, else its default, else TypeError -/
def bindOne (bound : Assoc) (s : SParam) : Except VExc (Name × PV) :=
  match Assoc.get? bound s.name with
  | some v => .ok (s.name, v)
  | Option.none =>
    match s.dflt with
    | some d => .ok (s.name, d)
    | Option.none => .error .bodyTypeError

def bindCall (sig : Sig) (pos : List PV) (kw : Assoc) : Except VExc Binding :=
  if pos.length > sig.pos.length && !sig.varArgs then .error .bodyTypeError else
  if kw.any (badKey sig (sig.posNames.take pos.length)) then .error .bodyTypeError else do
  let named ← sig.named.mapM (bindOne ((sig.posNames.take pos.length).zip pos ++ kw))
  pure ⟨named, pos.drop sig.pos.length⟩

/-! ### The hand-over (`wrapper` / `async_wrapper` / `_split_by_signature`) -/

/-- the prefix loop of `_split_by_signature` (test generated) -/
def prefixNames (sig : Sig) (res : Assoc) : List Name :=
  ((sigItems sig).takeWhile (fun it => !prefixStops (res.has it.1) it.2)).map (·.1)

def lookupAll (res : Assoc) : List Name → Except VExc (List PV)
  | [] => .ok []
  | n :: r =>
    match res.get? n with
    | some v => do let vs ← lookupAll res r; pure (v :: vs)
    | Option.none => .error .keyError

/-- `_split_by_signature(result)` -/
def splitBySig (sig : Sig) (res : Assoc) : Except VExc (List PV × Assoc) :=
  if varPosShortcut && sig.varArgs then .ok (res.map (·.2), []) else
  match splitReturn with
  | .prefixRest => do
      let vs ← lookupAll res (prefixNames sig res)
      pure (vs, res.filter (fun kv => !(prefixNames sig res).contains kv.1))
  | .allValues => .ok (res.map (·.2), [])

/-- `<key> in result`, where the key is a name or `None` (never a key of the dict) -/
def Assoc.hasKey (d : Assoc) : Option Name → Bool
  | some k => d.has k
  | Option.none => false

/-- `rk` is the key under which the wrapper looks the receiver up (generated: the value of `receiver_name`) -/
def callWith (sig : Sig) (rk : Option Name) (f : CallForm) (res : Assoc) : Except VExc Binding :=
  match f with
  | .selfKw =>       -- `func(result.pop(<rk>), **result)`
    match rk with
    | some k =>
      match res.get? k with
      | some s => bindCall sig [s] (res.filter (fun kv => kv.1 != k))
      | Option.none => .error .keyError
    | Option.none => .error .keyError
  | .split => do
      let (p, k) ← splitBySig sig res
      bindCall sig p k
  | .kw => bindCall sig [] res
  | .values => bindCall sig (res.map (·.2)) []

/-- the conditions that enclose a statement hold -/
def guardHolds (s : GStmt) (m : Mode) (rk : Option Name) (res : Assoc) : Bool :=
  (match s.mode with | some m' => m' == m | Option.none => true) && (!s.ifSelf || res.hasKey rk)

/-- interpreter of the generated dispatch program -/
def exec (keep : Bool → Bool → Bool) (rk : Option Name) : List GStmt → Mode → Assoc → Option (CallForm × Assoc)
  | [], _, _ => Option.none
  | s :: rest, m, res =>
    if guardHolds s m rk res then
      match s.act with
      | .filter => exec keep rk rest m (res.filter (fun kv => keep kv.2.isNone kv.2.truthy))
      | .ret f => some (f, res)
    else exec keep rk rest m res

/-- the key under which `wrapper` / `async_wrapper` looks the receiver up (generated) -/
def receiverKey (sig : Sig) (isAsync : Bool) : Option Name :=
  if isAsync then asyncWrapperReceiverKey sig.receiver else wrapperReceiverKey sig.receiver

def dispatch (sig : Sig) (isAsync : Bool) (m : Mode) (res : Assoc) : Except VExc Binding :=
  let rk := receiverKey sig isAsync
  match (if isAsync then exec asyncWrapperKeep rk asyncWrapperProg m res else exec wrapperKeep rk wrapperProg m res) with
  | some (f, r) => callWith sig rk f r
  | Option.none => .error .notCalled

/-- a call of the decorated function: `.ok b` = the body runs and observes `b`; `.error e` = the body does not run -/
def runValidate (c : Cfg) (isAsync : Bool) (m : Mode) (args : List PV) (kw : List (Name × PV)) : Except VExc Binding := do
  let res ← wrapperContent c args kw
  dispatch c.sig isAsync m res

end PedVerif.Validate
