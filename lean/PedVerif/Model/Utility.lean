import PedVerif.Gen.Wrappers
import PedVerif.Gen.CallTables
/-!
Model of the utility decorators (C18): `trace`, `timer`, `count_calls`, `deprecated`, `trace_if_returns`,
`does_same_as_function`, `rename_kwargs`, `mock`, `unimplemented`, `overrides`, `require_kwargs`, and the member loop of
`for_all_methods` behind `trace_class` / `timer_class`.

The *text* of every wrapper (which statements, in which order, what is awaited, what is returned, which wrapper the
`iscoroutinefunction` dispatch returns, which wrapper carries `@wraps`) comes from `PedVerif.Gen.Wrappers`, regenerated
from the source on every run.  This file is the **interpreter** of that effect language plus the environment it
needs: Python's argument binding, coroutine objects, `==` vs `is`, and decorator stacks.

* a decorated function is a stack `Fn` of decorator layers over a *body*; a body is a script (outcome of its i-th
  invocation) with a signature;
* calling a callable yields a result, the events it emitted (write-only) and the new `World` (the invocation counters
  the scripts read) — decorators cannot influence the functions below them except through the calls they make;
* calling a coroutine function runs nothing and returns a coroutine object (`Val.coro`), awaiting it runs the body;
* the class argument of `overrides` is a `ClassDesc` (class bodies along the MRO, bodies along the metaclass' MRO, the
  metaclass hooks `__getattr__` / `__dir__`); the tests the generated text makes on it (`name in dir(base)`, `hasattr`,
  `name in base.__dict__`, `getattr(base, name, None)` is None / truthy / callable) are computed by a model of CPython's
  attribute lookup on class objects.
-/
namespace PedVerif.Utility
open PedVerif.Gen.Wrappers

/-- an object a body can return: identity and equality class (`a == b` ⇔ same class, `a is b` ⇔ same identity) -/
structure Obj where
  id : Nat
  cls : Nat
deriving DecidableEq, Repr

/-- the arguments of a call: identities of the positional objects; keyword name (interned) ↦ identity, caller's order -/
structure Args where
  pos : List Nat
  kw : List (Nat × Nat)
deriving DecidableEq, Repr

/-- a signature as `inspect.signature` lists it -/
structure Sig where
  posParams : List Nat      -- positional-or-keyword parameters in order (`self` included)
  kwOnly : List Nat
  defaults : List Nat       -- parameters that have a default (the default is `None`, identity 0)
  varPos : Bool             -- `*args`
  varKw : Bool              -- `**kwargs`
deriving DecidableEq, Repr

/-- what the body sees after binding -/
structure Bound where
  named : List (Nat × Nat)
  extraPos : List Nat
  extraKw : List (Nat × Nat)
deriving DecidableEq, Repr

def kwGet? (k : Nat) : List (Nat × Nat) → Option Nat
  | [] => none
  | (k', v) :: r => if k' = k then some v else kwGet? k r

def hasKey (k : Nat) (d : List (Nat × Nat)) : Bool := (kwGet? k d).isSome

/-- `d[k] = v` on an insertion-ordered dict -/
def dictSet (k v : Nat) : List (Nat × Nat) → List (Nat × Nat)
  | [] => [(k, v)]
  | (k', v') :: r => if k' = k then (k, v) :: r else (k', v') :: dictSet k v r

/-- parameters take the positional arguments in order: (bound, unfilled parameters, surplus arguments) -/
def bindPos : List Nat → List Nat → List (Nat × Nat) × List Nat × List Nat
  | p :: ps, a :: as => let r := bindPos ps as; ((p, a) :: r.1, r.2.1, r.2.2)
  | ps, [] => ([], ps, [])
  | [], as => ([], [], as)

/-- Python's argument binding; `none` = `TypeError` (surplus / unknown / doubly given / missing argument) -/
def bind (s : Sig) (a : Args) : Option Bound :=
  let bp := bindPos s.posParams a.pos
  let unfilled := bp.2.1 ++ s.kwOnly
  if !bp.2.2.isEmpty && !s.varPos then none
  else if a.kw.any (fun kv => hasKey kv.1 bp.1) then none
  else
    let toNamed := a.kw.filter (fun kv => unfilled.contains kv.1)
    let extra := a.kw.filter (fun kv => !unfilled.contains kv.1)
    if !extra.isEmpty && !s.varKw then none
    else
      let rest := unfilled.filter (fun p => !hasKey p toNamed)
      if rest.any (fun p => !s.defaults.contains p) then none
      else some ⟨bp.1 ++ toNamed ++ rest.map (fun p => (p, 0)), bp.2.2, extra⟩

/-- outcome of one invocation of a body -/
inductive Outc where
  | ret (v : Obj)
  | exc (e : Nat) (base : Bool)      -- raises the exception object `e`; `base`: a BaseException that is not an Exception
deriving DecidableEq, Repr

structure Body where
  isCoro : Bool                       -- `async def`
  sig : Sig
  script : Nat → Outc                 -- outcome of the i-th invocation

inductive Exc where
  | body (e : Nat) (base : Bool)      -- the object a body raised
  | lib (cls : String)                -- raised by a decorator or by the interpreter (class name)
deriving DecidableEq, Repr

inductive Res (α : Type) where
  | ret (v : α)
  | exc (e : Exc)
deriving Repr

/-! ### The generator protocol (environment: CPython's generator / async generator objects)

A generator function hands out a generator object and runs nothing; the caller drives the object with `next` / `send` / `throw` /
`close` (`__anext__` / `asend` / `athrow` / `aclose` for an async generator; `yield from` forwards all four and hands the `return`
value on). -/

/-- one operation of the caller on a generator object; `send 0` = `send(None)` = `next` -/
inductive GenOp where
  | next
  | send (v : Nat)
  | throw (e : Nat) (base : Bool)
  | close
deriving DecidableEq, Repr

/-- what the generator body notes down when it is resumed: the value `yield` evaluated to, the exception raised at the `yield`,
    `GeneratorExit` -/
inductive GenEv where
  | got (v : Nat)
  | thrown (e : Nat)
  | closed
deriving DecidableEq, Repr

inductive Ev where
  | body (c : Callee) (i : Nat) (b : Bound)     -- i-th invocation of the body of `c` with these bound arguments
  | print (layer : Nat)
  | warn (layer : Nat) (cat : String)
  | incr (layer : Nat) (k : Int)                -- `wrapper.num_calls += k` of the decorator at depth `layer`
  | gen (i : Nat) (what : GenEv)                -- what the i-th generator of the decorated generator function received
deriving DecidableEq, Repr

/-- what the scripts read: how often each body has run so far -/
structure World where
  inv : Nat
  oinv : Nat
deriving DecidableEq, Repr

def World.count (w : World) : Callee → Nat
  | .wrapped => w.inv
  | .other => w.oinv

def World.bump (w : World) : Callee → World
  | .wrapped => { w with inv := w.inv + 1 }
  | .other => { w with oinv := w.oinv + 1 }

/-- what the caller sees per operation on a generator object -/
inductive GenObs where
  | yielded (v : Nat)          -- identity of the object `yield` handed out
  | stop (v : Nat)             -- StopIteration / StopAsyncIteration; identity of the `return` value (0 = None)
  | raised (e : Exc)
  | closed                     -- `close()` / `aclose()` returned
  | nothing                    -- `athrow()` on a finished async generator returns None
deriving DecidableEq, Repr

inductive Val where
  | obj (o : Obj)
  | none
  | opaque                 -- the value of some other pure expression
  | spent                  -- a local whose coroutine has been awaited
  | coro (run : World → Res Val × List Ev × World)
  /-- a generator / async generator object: what driving it with a list of operations shows and does -/
  | gen (drive : List GenOp → World → List GenObs × List Ev × World)

abbrev Out := Res Val × List Ev × World
abbrev Sem := Args → World → Out

def outcRes : Outc → Res Val
  | .ret v => .ret (.obj v)
  | .exc e b => .exc (.body e b)

def runBody (c : Callee) (b : Body) (bd : Bound) (w : World) : Out :=
  (outcRes (b.script (w.count c)), [.body c (w.count c) bd], w.bump c)

/-- calling a plain function: bind, then run (or, for `async def`, hand out the coroutine) -/
def callBody (c : Callee) (b : Body) : Sem := fun a w =>
  match bind b.sig a with
  | none => (.exc (.lib "TypeError"), [], w)
  | some bd => if b.isCoro then (.ret (.coro (runBody c b bd)), [], w) else runBody c b bd w

/-- a generator function (`def` / `async def` with `yield`): its i-th generator yields the objects `yields i` one after the other —
    noting down what every `yield` evaluates to (`send`), which exception arrives there (`throw`; an `Exception` is swallowed and the
    generator goes on, a `BaseException` is re-raised) and `GeneratorExit` (`close`) — and ends as `script i` says: `return v`
    (an async generator cannot return a value: it just ends) or raise -/
structure GenBody where
  isAsync : Bool
  sig : Sig
  yields : Nat → List Obj
  script : Nat → Outc

inductive GenSt where
  | fresh                               -- not started
  | susp (i : Nat) (rest : List Obj)    -- suspended at a `yield`; `rest`: the objects still to be yielded
  | done
deriving DecidableEq, Repr

/-- the body goes on after a `yield` (or starts): to the next `yield`, or to its end -/
def genAdvance (g : GenBody) (i : Nat) : List Obj → GenSt × GenObs
  | y :: rest => (.susp i rest, .yielded y.id)
  | [] =>
    (.done, match g.script i with
      | .ret v => .stop (if g.isAsync then 0 else v.id)
      | .exc e b => .raised (.body e b))

/-- one operation on the generator object -/
def genStep (g : GenBody) (c : Callee) (bd : Bound) (st : GenSt) (op : GenOp) (w : World) : GenSt × GenObs × List Ev × World :=
  match st, op with
  | .fresh, .send (_ + 1) => (.fresh, .raised (.lib "TypeError"), [], w)          -- non-None value into a just-started generator
  | .fresh, .throw e b => (.done, .raised (.body e b), [], w)                      -- raised at the `def` line: the body never runs
  | .fresh, .close => (.done, .closed, [], w)
  | .fresh, _ =>
    let i := w.count c
    let r := genAdvance g i (g.yields i)
    (r.1, r.2, [.body c i bd], w.bump c)
  | .susp i rest, .next => let r := genAdvance g i rest; (r.1, r.2, [.gen i (.got 0)], w)
  | .susp i rest, .send v => let r := genAdvance g i rest; (r.1, r.2, [.gen i (.got v)], w)
  | .susp i rest, .throw e b =>
    if b then (.done, .raised (.body e b), [.gen i (.thrown e)], w)
    else let r := genAdvance g i rest; (r.1, r.2, [.gen i (.thrown e)], w)
  | .susp i _, .close => (.done, .closed, [.gen i .closed], w)
  | .done, .throw e b => (.done, if g.isAsync then .nothing else .raised (.body e b), [], w)
  | .done, .close => (.done, .closed, [], w)
  | .done, _ => (.done, .stop 0, [], w)

def genRun (g : GenBody) (c : Callee) (bd : Bound) : GenSt → List GenOp → World → List GenObs × List Ev × World
  | _, [], w => ([], [], w)
  | st, op :: rest, w =>
    let r := genStep g c bd st op w
    let r2 := genRun g c bd r.1 rest r.2.2.2
    (r.2.1 :: r2.1, r.2.2.1 ++ r2.2.1, r2.2.2)

/-- calling a generator function: bind, hand out the generator object; nothing runs -/
def callGen (c : Callee) (g : GenBody) : Sem := fun a w =>
  match bind g.sig a with
  | none => (.exc (.lib "TypeError"), [], w)
  | some bd => (.ret (.gen (genRun g c bd .fresh)), [], w)

/-- what `DecoratedFunction` reads off the source text of the function `require_kwargs` wraps -/
structure Guard where
  wantsArgs : Bool          -- `'*args' in source`
  selfFirst : Bool          -- `inspect.getfullargspec(func).args[0] == 'self'`
  isStatic : Bool           -- `'@staticmethod' in source`
  nDecorators : Nat         -- number of `@` before the first `def`
  marker : Bool             -- `'@pedantic' in source or '@require_kwargs' in source`
  isMethodObj : Bool := false   -- `inspect.ismethod(func)`: a bound method object was handed to the decorator (`is_class_method`)
  notFunction : Bool := false   -- `not isinstance(func, (FunctionType, MethodType))`: a staticmethod / classmethod object was handed
                                -- to the decorator (`@require_kwargs` above `@staticmethod`); `DecoratedFunction(func)` raises
deriving DecidableEq, Repr

/-- `should_have_kwargs` (generated: `PedVerif.Gen.CallTables.shouldHaveKwargs`, translated from `DecoratedFunction.should_have_kwargs`)
    for a function that is no property setter and whose name is no dunder -/
def Guard.shouldHaveKwargs (g : Guard) : Bool := PedVerif.Gen.CallTables.shouldHaveKwargs false g.wantsArgs false false false

/-- `DecoratedFunction.is_instance_method`: the first parameter `getfullargspec` lists is spelled `self` — and, when the source says so
    (`instanceMethodExcludesBound`, read by the translator), the callable is not a bound method object, whose instance is not among
    the arguments of a call -/
def Guard.isInstanceMethod (g : Guard) : Bool := g.selfFirst && !(instanceMethodExcludesBound && g.isMethodObj)

/-- does `args_without_self` drop the first positional argument (generated: `stripsFirst`, `usesMultiple`, translated from
    `FunctionCall.args_without_self` / `DecoratedFunction`) -/
def Guard.strips (g : Guard) : Bool :=
  PedVerif.Gen.CallTables.stripsFirst g.isInstanceMethod g.isStatic (PedVerif.Gen.CallTables.usesMultiple g.nDecorators g.marker)

/-- length of `args_without_self` -/
def Guard.argsWithoutSelf (g : Guard) (n : Nat) : Nat :=
  if g.strips then n - PedVerif.Gen.CallTables.stripFrom else n

/-- `args_without_self`: what the refusal message formats -/
def Guard.messageArgs (g : Guard) (a : Args) : List Nat := if g.strips then a.pos.drop PedVerif.Gen.CallTables.stripFrom else a.pos

/-- `assert_uses_kwargs` raises -/
def Guard.trips (g : Guard) (a : Args) : Bool := g.shouldHaveKwargs && decide (g.argsWithoutSelf a.pos.length > 0)

/-- what the statements `DecoratedFunction(func)` … `call.assert_uses_kwargs()` raise, if anything.  The constructor runs two pure
    statements before the guard; nothing observable happens in between, so its exception is raised by the guard statement here. -/
def Guard.rejects (g : Guard) (a : Args) : Option String :=
  if g.notFunction then some "PedanticTypeCheckException"
  -- `FunctionCall.__init__`: `self._instance = self.args[0] if self.func.is_instance_method else None` — what counts as an instance
  -- method is called without any positional argument: the FUNCTION of a method reached through the class with the instance passed as
  -- `self=…` (before fix 86bfec9 also: a bound method handed to the decorator and called by keyword)
  else if g.isInstanceMethod && a.pos.isEmpty then some "IndexError"
  else if g.trips a then some PedVerif.Gen.CallTables.assertUsesKwargsRaises else none

/-- `FunctionCall._get_return_value` calls `func(**kwargs)` for these and `func(*args, **kwargs)` otherwise -/
def Guard.staticOrClassMethod (g : Guard) : Bool := PedVerif.Gen.CallTables.kwargsOnlyInvocation g.isStatic g.isMethodObj

/-! ### Classes as `overrides` sees them (environment model: CPython's attribute lookup on a class object)

A class is described by what its class body and the bodies of its ancestors bind (in MRO order), what the bodies along the
MRO of its *metaclass* bind, and the two hooks a metaclass can install (`__getattr__`, `__dir__`).  From this description
the model computes what the tests a decorator could make on the class evaluate to:
`dir(cls)`, `cls.__dict__`, `hasattr(cls, n)`, `getattr(cls, n, None)`.
The harness derives the description from the raw `__mro__` / `__dict__` of the generated classes and compares every one of
these computed observations with the real `dir` / `hasattr` / `getattr` on every case. -/

/-- how class attribute access shows the object bound to a name (after the descriptor protocol): is it `None`, is it
    truthy, is it callable -/
structure Seen where
  isNone : Bool
  truthy : Bool
  callable : Bool
deriving DecidableEq, Repr

structure Member where
  name : Nat            -- interned attribute name
  seen : Seen
deriving DecidableEq, Repr

structure ClassDesc where
  /-- the class bodies along `cls.__mro__`: the class itself first, `object` last -/
  mro : List (List Member)
  /-- the bodies along `type(cls).__mro__` (non-data descriptors and plain values; the harness never binds a data descriptor there) -/
  metaMro : List (List Member)
  /-- the metaclass defines `__getattr__`, which answers every missing name with this object -/
  metaGetattr : Option Seen
  /-- the metaclass overrides `__dir__`: the names it returns -/
  dirOverride : Option (List Nat)
deriving DecidableEq, Repr

/-- the first body along an MRO that binds `n` -/
def findMember (n : Nat) : List (List Member) → Option Seen
  | [] => none
  | body :: rest =>
    match body.find? (fun m => m.name == n) with
    | some m => some m.seen
    | none => findMember n rest

/-- `dir(cls)` (`type.__dir__`): the keys of the `__dict__` of the class and of every class on its MRO — values and the
    metaclass play no role — unless the metaclass overrides `__dir__` -/
def ClassDesc.dir (c : ClassDesc) : List Nat :=
  match c.dirOverride with
  | some l => l
  | none => c.mro.flatten.map (·.name)

/-- `getattr(cls, n)` (`type.__getattribute__` without data descriptors on the metaclass): the MRO of the class, then the MRO
    of the metaclass, then the metaclass' `__getattr__`; `none`: AttributeError -/
def ClassDesc.getattr (c : ClassDesc) (n : Nat) : Option Seen :=
  match findMember n c.mro with
  | some s => some s
  | none =>
    match findMember n c.metaMro with
    | some s => some s
    | none => c.metaGetattr

/-- `n in cls.__dict__` -/
def ClassDesc.owns (c : ClassDesc) (n : Nat) : Bool :=
  match c.mro with
  | [] => false
  | body :: _ => body.any (fun m => m.name == n)

/-- what the methods a wrapper may call on an object of the USER do: `__repr__` / `__str__` (formatting in `print` and in messages),
    `__eq__` / `__ne__` (comparisons) — raise, or answer.  (The answer of `==` is the equality class of `Obj`.) -/
structure Traits where
  reprRaises : Bool
  strRaises : Bool
  eqRaises : Bool
  neRaises : Bool
deriving DecidableEq, Repr

def Traits.total : Traits := ⟨false, false, false, false⟩

/-- the arguments a decorator factory was applied to -/
structure Params where
  param : Obj                    -- `return_value` of mock / trace_if_returns
  renames : List (Nat × Nat)     -- `Rename(from_, to)` rules of rename_kwargs, in order
  other : Body                   -- `other_func` of does_same_as_function
  base : ClassDesc               -- overrides: `base_class`
  fname : Nat                    -- overrides: the (interned) name of the decorated function
  guard : Guard
  /-- the objects of the run (arguments, results) by identity: which of their methods raise (environment, the same for every layer) -/
  traits : Nat → Traits := fun _ => Traits.total

inductive Fn where
  | body (b : Body)
  | gen (g : GenBody)                              -- a generator function / async generator function (no coroutine function)
  | bound (self : Nat) (inner : Fn)               -- attribute access on an instance / class binds the first argument
  | deco (d : Deco) (p : Params) (inner : Fn)

inductive Sel where
  | wrapper (w : Wrapper)
  | identity
  | missing

def findWrapper (d : Deco) (n : String) : Sel :=
  match d.wrappers.find? (fun w => w.name == n) with
  | some w => .wrapper w
  | none => .missing

/-- what the decorator returns for a (non-)coroutine function -/
def select (d : Deco) (coro : Bool) : Sel :=
  match d.dispatch with
  | .always n => findWrapper d n
  | .byCoroutine a b => findWrapper d (if coro then a else b)
  | .identity => .identity
  | .unknown => .missing

def Fn.depth : Fn → Nat
  | .body _ => 0
  | .gen _ => 0
  | .bound _ i => i.depth
  | .deco _ _ i => i.depth + 1

/-- `inspect.iscoroutinefunction` -/
def Fn.isCoro : Fn → Bool
  | .body b => b.isCoro
  | .gen _ => false
  | .bound _ i => i.isCoro
  | .deco d _ i =>
    match select d i.isCoro with
    | .wrapper w => w.isAsync && !w.isGenerator
    | .identity => i.isCoro
    | .missing => false

/-- `__name__`, `__qualname__`, `__doc__`, `__module__` are those of the body: every wrapper in the stack copies them -/
def Fn.metaOk : Fn → Bool
  | .body _ => true
  | .gen _ => true
  | .bound _ i => i.metaOk
  | .deco d _ i =>
    match select d i.isCoro with
    | .wrapper w => w.wraps && i.metaOk
    | .identity => i.metaOk
    | .missing => false

/-- a field of a `Rename` rule by attribute name -/
def renameField (attr : String) (r : Nat × Nat) : Option Nat :=
  if attr = "from_" then some r.1 else if attr = "to" then some r.2 else none

/-- `{p.<key>: p.<value> for p in params}`, filled left to right (`none`: AttributeError) -/
def paramDictFrom (key value : String) : List (Nat × Nat) → List (Nat × Nat) → Option (List (Nat × Nat))
  | acc, [] => some acc
  | acc, r :: rest =>
    match renameField key r, renameField value r with
    | some k, some v => paramDictFrom key value (dictSet k v acc) rest
    | _, _ => none

def paramDict (key value : String) (rules : List (Nat × Nat)) : Option (List (Nat × Nat)) :=
  paramDictFrom key value [] rules

/-- the static context of one wrapper invocation -/
structure Frame where
  callee : Sem
  calleeIsCoro : Bool
  nameOk : Bool
  p : Params
  dict : List (Nat × Nat)        -- `param_dict`
  layer : Nat
  args : Args

structure Locals where
  vars : List (String × Val)
  renamed : List (Nat × Nat)

def lookup (x : String) : List (String × Val) → Option Val
  | [] => none
  | (y, v) :: r => if y = x then some v else lookup x r

def bindVar (x : Option String) (v : Val) (l : Locals) : Locals :=
  match x with
  | none => l
  | some x => { l with vars := (x, v) :: l.vars }

def Val.pyEq : Val → Val → Bool
  | .obj a, .obj b => a.cls == b.cls
  | .none, .none => true
  | _, _ => false

def Val.pyIs : Val → Val → Bool
  | .obj a, .obj b => a.id == b.id
  | .none, .none => true
  | _, _ => false

def evalExpr (fr : Frame) (l : Locals) : Expr → Option Val
  | .var x => lookup x l.vars
  | .param => some (.obj fr.p.param)
  | .none => some .none
  | .opaque => some .opaque

def evalCmp (fr : Frame) (l : Locals) (f : Val → Val → Bool) (a b : Expr) : Option Bool :=
  match evalExpr fr l a, evalExpr fr l b with
  | some x, some y => some (f x y)
  | _, _ => none

def evalCond (fr : Frame) (l : Locals) : Cond → Option Bool
  | .eq a b => evalCmp fr l Val.pyEq a b
  | .ne a b => (evalCmp fr l Val.pyEq a b).map (!·)
  | .is_ a b => evalCmp fr l Val.pyIs a b
  | .isNot a b => (evalCmp fr l Val.pyIs a b).map (!·)
  | .wrappedIsCoroutine => some fr.calleeIsCoro
  | .otherIsCoroutine => some fr.p.other.isCoro
  -- `fr.nameOk`: the callable handed to the decorator still carries the decorated function's own `__name__`; a wrapper
  -- without `@wraps` is called `wrapper` / `async_wrapper`, which no generated class binds or answers
  | .baseHasName => some (fr.nameOk && fr.p.base.dir.contains fr.p.fname)
  | .baseHasAttr => some (fr.nameOk && (fr.p.base.getattr fr.p.fname).isSome)
  | .baseOwnsName => some (fr.nameOk && fr.p.base.owns fr.p.fname)
  | .baseAttrIsNone => some (match (if fr.nameOk then fr.p.base.getattr fr.p.fname else none) with | some s => s.isNone | none => true)
  | .baseAttrTruthy => some (match (if fr.nameOk then fr.p.base.getattr fr.p.fname else none) with | some s => s.truthy | none => false)
  | .baseAttrCallable => some (match (if fr.nameOk then fr.p.base.getattr fr.p.fname else none) with | some s => s.callable | none => false)
  | .not c => (evalCond fr l c).map (!·)
  | .and_ a b =>
    match evalCond fr l a with
    | some true => evalCond fr l b
    | r => r
  | .or_ a b =>
    match evalCond fr l a with
    | some false => evalCond fr l b
    | r => r

/-- formatting one value: `repr(v)` / `str(v)` runs the object's own method (coroutines, generators, None format without user code) -/
def valFmtRaises (t : Nat → Traits) (rep : Bool) : Val → Option String
  | .obj o => if rep then (if (t o.id).reprRaises then some "ReprErr" else none) else (if (t o.id).strRaises then some "StrErr" else none)
  | _ => none

/-- `repr` of a tuple / dict: `repr` of every element, in order -/
def idsReprRaise (t : Nat → Traits) (ids : List Nat) : Option String :=
  if ids.any (fun i => (t i).reprRaises) then some "ReprErr" else none

def fmtOneRaises (fr : Frame) (l : Locals) : Fmt → Option String
  | .args => idsReprRaise fr.p.traits fr.args.pos
  | .kwargs => idsReprRaise fr.p.traits (fr.args.kw.map (·.2))
  | .reprOf e =>
    match evalExpr fr l e with
    | none => some "UnboundLocalError"
    | some v => valFmtRaises fr.p.traits true v
  | .strOf e =>
    match evalExpr fr l e with
    | none => some "UnboundLocalError"
    | some v => valFmtRaises fr.p.traits false v

/-- building the text of a `print` / of an exception message: the first formatting operation that raises decides -/
def fmtRaises (fr : Frame) (l : Locals) : List Fmt → Option String
  | [] => none
  | f :: rest =>
    match fmtOneRaises fr l f with
    | some c => some c
    | none => fmtRaises fr l rest

def objCmpRaises (t : Nat → Traits) (ne : Bool) (o : Obj) : Option String :=
  if ne then (if (t o.id).neRaises then some "NeErr" else none) else (if (t o.id).eqRaises then some "EqErr" else none)

/-- `a == b` / `a != b` runs `__eq__` / `__ne__` of the LEFT operand when that is an object of the user (all of them are of one class,
    so the reflected method is never tried first, and the method answers with a bool); a left operand that is none of them (a coroutine
    object, a generator, `None`) answers `NotImplemented`, and the reflected method of the RIGHT operand runs -/
def cmpRaises (fr : Frame) (l : Locals) (ne : Bool) (a b : Expr) : Option String :=
  match evalExpr fr l a with
  | some (.obj o) => objCmpRaises fr.p.traits ne o
  | some _ =>
    match evalExpr fr l b with
    | some (.obj o) => objCmpRaises fr.p.traits ne o
    | _ => none
  | none => none

/-- the exception evaluating a test raises, if any (short-circuit: the right operand only when the left one does not decide) -/
def condRaises (fr : Frame) (l : Locals) : Cond → Option String
  | .eq a b => cmpRaises fr l false a b
  | .ne a b => cmpRaises fr l true a b
  | .not c => condRaises fr l c
  | .and_ a b =>
    match condRaises fr l a with
    | some c => some c
    | none => if evalCond fr l a = some true then condRaises fr l b else none
  | .or_ a b =>
    match condRaises fr l a with
    | some c => some c
    | none => if evalCond fr l a = some false then condRaises fr l b else none
  | _ => none

mutual
/-- what the statement makes Python format of the user's objects WITHOUT the never-raising display wrapper, nested blocks included -/
def stmtRawFormats : Stmt → List Fmt
  | .print u => u
  | .raise _ u => u
  | .ite _ t e => stmtsRawFormats t ++ stmtsRawFormats e
  | .tryCatch b _ h => stmtsRawFormats b ++ stmtsRawFormats h
  | _ => []
def stmtsRawFormats : List Stmt → List Fmt
  | [] => []
  | s :: rest => stmtRawFormats s ++ stmtsRawFormats rest
end

/-- everything the decorator (its wrappers and its decoration-time statements) formats of the user's objects without the display wrapper -/
def decoRawFormats (d : Deco) : List Fmt :=
  (d.wrappers.map (fun w => match w.body with | some ss => stmtsRawFormats ss | none => [])).flatten ++
    (match d.decoTime with | some ss => stmtsRawFormats ss | none => [])

/-- the keyword arguments of a call site -/
def mkKw (fr : Frame) (l : Locals) : KwSrc → List (Nat × Nat)
  | .kwargs => fr.args.kw
  | .renamed => l.renamed
  | .empty => []

def mkArgs (fr : Frame) (l : Locals) : PosSrc → KwSrc → Args
  | .args, .kwargs => fr.args
  | .args, .renamed => { pos := fr.args.pos, kw := l.renamed }
  | .args, .empty => { pos := fr.args.pos, kw := [] }
  | .empty, .kwargs => { pos := [], kw := fr.args.kw }
  | .empty, .renamed => { pos := [], kw := l.renamed }
  | .empty, .empty => { pos := [], kw := [] }
  -- `FunctionCall._get_return_value`: `func(**kwargs)` for what is classified as a static / class method, else `func(*args, **kwargs)`
  | .argsUnlessStaticOrClassMethod, kw =>
    { pos := if fr.p.guard.staticOrClassMethod then [] else fr.args.pos, kw := mkKw fr l kw }

def keyOf (d : List (Nat × Nat)) (k : Nat) : KeyExpr → Option Nat
  | .same => some k
  | .mapped => kwGet? k d

/-- one iteration of the rename loop (`none`: KeyError) -/
def renameStep (rule : RenameRule) (d : List (Nat × Nat)) (acc : List (Nat × Nat)) (kv : Nat × Nat) : Option (List (Nat × Nat)) :=
  match (if hasKey kv.1 d then rule.onListed else rule.onOther) with
  | none => some acc
  | some ke =>
    match keyOf d kv.1 ke with
    | none => none
    | some t => some (dictSet t kv.2 acc)

def renameLoop (rule : RenameRule) (d : List (Nat × Nat)) : List (Nat × Nat) → List (Nat × Nat) → Option (List (Nat × Nat))
  | acc, [] => some acc
  | acc, kv :: rest =>
    match renameStep rule d acc kv with
    | none => none
    | some acc' => renameLoop rule d acc' rest

def awaitVal (v : Val) (w : World) : Out :=
  match v with
  | .coro run => run w
  | .spent => (.exc (.lib "RuntimeError"), [], w)
  | _ => (.exc (.lib "TypeError"), [], w)

def catches : Catch → Exc → Bool
  | .all, _ => true
  | .exception, .body _ base => !base
  | .exception, .lib _ => true

inductive Flow where
  | next (l : Locals)
  | done (r : Res Val)

abbrev Step := Flow × List Ev × World

def unbound (w : World) : Step := (.done (.exc (.lib "UnboundLocalError")), [], w)

def calleeSem (fr : Frame) : Callee → Sem
  | .wrapped => fr.callee
  | .other => callBody .other fr.p.other

/-- `[x =] [await] f(…)` -/
def execCall (fr : Frame) (x : Option String) (c : Callee) (a : Args) (aw : Bool) (l : Locals) (w : World) : Step :=
  let o := calleeSem fr c a w
  match o.1 with
  | .exc e => (.done (.exc e), o.2.1, o.2.2)
  | .ret v =>
    if aw then
      let o2 := awaitVal v o.2.2
      match o2.1 with
      | .exc e => (.done (.exc e), o.2.1 ++ o2.2.1, o2.2.2)
      | .ret v2 => (.next (bindVar x v2 l), o.2.1 ++ o2.2.1, o2.2.2)
    else (.next (bindVar x v l), o.2.1, o.2.2)

mutual
/-- one statement of a wrapper body -/
def exec (fr : Frame) (s : Stmt) (l : Locals) (w : World) : Step :=
  match s with
  | .print uses =>
    match fmtRaises fr l uses with
    | some c => (.done (.exc (.lib c)), [], w)          -- `__repr__` / `__str__` of an argument / a result raised: nothing is printed
    | none => (.next l, [.print fr.layer], w)
  | .warn c => (.next l, [.warn fr.layer c], w)
  | .incr k => (.next l, [.incr fr.layer k], w)
  | .pure x => (.next (bindVar (some x) .opaque l), [], w)
  | .call x c pos kw aw => execCall fr x c (mkArgs fr l pos kw) aw l w
  | .await x y =>
    match lookup y l.vars with
    | none => unbound w
    | some v =>
      let o := awaitVal v w
      match o.1 with
      | .exc e => (.done (.exc e), o.2.1, o.2.2)
      | .ret v2 => (.next (bindVar x v2 (bindVar (some y) .spent l)), o.2.1, o.2.2)
  | .rename r =>
    match renameLoop r fr.dict [] fr.args.kw with
    | none => (.done (.exc (.lib "KeyError")), [], w)
    | some d => (.next { l with renamed := d }, [], w)
  | .kwargsGuard =>
    match fr.p.guard.rejects fr.args with
    | some cls =>
      -- the refusal message of `assert_uses_kwargs` formats `args_without_self`
      if cls == PedVerif.Gen.CallTables.assertUsesKwargsRaises && refusalMessageFormatsRawArguments then
        match idsReprRaise fr.p.traits (fr.p.guard.messageArgs fr.args) with
        | some c => (.done (.exc (.lib c)), [], w)
        | none => (.done (.exc (.lib cls)), [], w)
      else (.done (.exc (.lib cls)), [], w)
    | none => (.next l, [], w)
  | .ret e =>
    match evalExpr fr l e with
    | none => unbound w
    | some v => (.done (.ret v), [], w)
  | .raise c uses =>
    match fmtRaises fr l uses with
    | some c' => (.done (.exc (.lib c')), [], w)        -- building the message failed
    | none => (.done (.exc (.lib c)), [], w)
  | .ite c t e =>
    match condRaises fr l c with
    | some cls => (.done (.exc (.lib cls)), [], w)      -- `__eq__` / `__ne__` of the left operand raised
    | none =>
      match evalCond fr l c with
      | none => unbound w
      | some true => execL fr t l w
      | some false => execL fr e l w
  | .tryCatch b k h =>
    let r := execL fr b l w
    match r.1 with
    | .done (.exc e) =>
      if catches k e then
        let r2 := execL fr h l r.2.2
        (r2.1, r.2.1 ++ r2.2.1, r2.2.2)
      else r
    | _ => r
def execL (fr : Frame) (ss : List Stmt) (l : Locals) (w : World) : Step :=
  match ss with
  | [] => (.next l, [], w)
  | s :: rest =>
    let r := exec fr s l w
    match r.1 with
    | .done x => (.done x, r.2.1, r.2.2)
    | .next l' =>
      let r2 := execL fr rest l' r.2.2
      (r2.1, r.2.1 ++ r2.2.1, r2.2.2)
end

/-- a whole wrapper body; falling off the end returns `None` -/
def runWrapper (fr : Frame) (ss : List Stmt) (w : World) : Out :=
  let r := execL fr ss ⟨[], []⟩ w
  match r.1 with
  | .next _ => (.ret .none, r.2.1, r.2.2)
  | .done x => (x, r.2.1, r.2.2)

def gap : Sem := fun _ w => (.exc (.lib "ModelGap"), [], w)

def dictOf (d : Deco) (p : Params) : List (Nat × Nat) :=
  match d.renameDict with
  | none => []
  | some (k, v) =>
    match paramDict k v p.renames with
    | some dict => dict
    | none => []        -- not reachable through `decorate`, which fails with AttributeError in this case

def mkFrame (d : Deco) (p : Params) (inner : Fn) (callee : Sem) (a : Args) : Frame :=
  { callee := callee, calleeIsCoro := inner.isCoro, nameOk := inner.metaOk, p := p, dict := dictOf d p,
    layer := inner.depth, args := a }

/-- one decorator layer around a callable whose meaning is `callee` -/
def callLayer (d : Deco) (p : Params) (inner : Fn) (callee : Sem) : Sem :=
  match select d inner.isCoro with
  | .identity => callee
  | .missing => gap
  | .wrapper wr =>
    match wr.body with
    | none => gap
    | some ss => fun a w =>
      if wr.isAsync then (.ret (.coro (runWrapper (mkFrame d p inner callee a) ss)), [], w)
      else runWrapper (mkFrame d p inner callee a) ss w

/-- calling a (decorated) function -/
def call : Fn → Sem
  | .body b => callBody .wrapped b
  | .gen g => callGen .wrapped g
  | .bound s inner => fun a w => call inner { a with pos := s :: a.pos } w
  | .deco d p inner => callLayer d p inner (call inner)

/-- what the caller does: call, and await the result if it is a coroutine -/
def invoke (f : Fn) : Sem := fun a w =>
  let o := call f a w
  match o.1 with
  | .ret (.coro run) =>
    let o2 := run o.2.2
    (o2.1, o.2.1 ++ o2.2.1, o2.2.2)
  | _ => o

/-- what the caller of a generator function does: call, and drive the generator object that comes back with `ops` (a coroutine is
    awaited, anything else is the outcome) -/
def invokeG (ops : List GenOp) (f : Fn) (a : Args) (w : World) : (Res Val × List GenObs) × List Ev × World :=
  let o := call f a w
  match o.1 with
  | .ret (.gen drive) =>
    let r := drive ops o.2.2
    ((o.1, r.1), o.2.1 ++ r.2.1, r.2.2)
  | .ret (.coro run) =>
    let o2 := run o.2.2
    ((o2.1, []), o.2.1 ++ o2.2.1, o2.2.2)
  | _ => ((o.1, []), o.2.1, o.2.2)

/-! ### Re-entrant calls: a call of the decorated callable that starts while another call of the SAME callable is still open

The body of the decorated function calls the decorated callable again (recursion through the module-level name, re-entrance through
a callback argument): invocation `i` of the body binds its arguments, then calls the callable once for every argument tuple of
`plan i` (results and exceptions of those calls are dropped), then produces the outcome `script i`.  `callWith none` is `call`;
`callFuel top plan n` lets the re-entered callable re-enter again, `n` levels deep (a plan is finite, so `plan.length + 1` levels
are all there are). -/

/-- the re-entrance a body performs: which argument tuples per invocation index, and what calling the callable means -/
structure Reent where
  plan : Nat → List Args
  sem : Sem

/-- call and, if a coroutine comes back, await it -/
def invokeSem (s : Sem) : Sem := fun a w =>
  let o := s a w
  match o.1 with
  | .ret (.coro run) =>
    let o2 := run o.2.2
    (o2.1, o.2.1 ++ o2.2.1, o2.2.2)
  | _ => o

/-- the nested calls of one body invocation, one after the other -/
def runPlan (s : Sem) : List Args → World → List Ev × World
  | [], w => ([], w)
  | a :: rest, w =>
    let o := invokeSem s a w
    let r := runPlan s rest o.2.2
    (o.2.1 ++ r.1, r.2)

def runBodyRe (re : Option Reent) (c : Callee) (b : Body) (bd : Bound) (w : World) : Out :=
  let i := w.count c
  let nested := match re with
    | none => ([], w.bump c)
    | some r => runPlan r.sem (r.plan i) (w.bump c)
  (outcRes (b.script i), .body c i bd :: nested.1, nested.2)

def callBodyRe (re : Option Reent) (c : Callee) (b : Body) : Sem := fun a w =>
  match bind b.sig a with
  | none => (.exc (.lib "TypeError"), [], w)
  | some bd => if b.isCoro then (.ret (.coro (runBodyRe re c b bd)), [], w) else runBodyRe re c b bd w

def callWith (re : Option Reent) : Fn → Sem
  | .body b => callBodyRe re .wrapped b
  | .gen g => callGen .wrapped g
  | .bound s inner => fun a w => callWith re inner { a with pos := s :: a.pos } w
  | .deco d p inner => callLayer d p inner (callWith re inner)

def callFuel (top : Fn) (plan : Nat → List Args) : Nat → Sem
  | 0 => callWith none top
  | n + 1 => callWith (some ⟨plan, callFuel top plan n⟩) top

/-- applying the decorator (decoration time) -/
def decorate (d : Deco) (p : Params) (inner : Fn) : Except Exc Fn :=
  match d.renameDict with
  | some (k, v) =>
    match paramDict k v p.renames with
    | none => .error (.lib "AttributeError")
    | some _ => .ok (.deco d p inner)
  | none =>
    match d.decoTime with
    | none => .ok (.deco d p inner)
    | some ss =>
      match (execL (mkFrame d p inner gap ⟨[], []⟩) ss ⟨[], []⟩ ⟨0, 0⟩).1 with
      | .done (.exc e) => .error e
      | _ => .ok (.deco d p inner)

/-- a sequence of calls of the same decorated function -/
def runHistory (f : Fn) : List Args → World → List Out
  | [], _ => []
  | a :: rest, w =>
    let o := invoke f a w
    o :: runHistory f rest o.2.2

def incrOf (layer : Nat) : Ev → Int
  | .incr l k => if l = layer then k else 0
  | _ => 0

def sumIncr (layer : Nat) : List Ev → Int
  | [] => 0
  | e :: r => incrOf layer e + sumIncr layer r

/-- value of `wrapper.num_calls` of the decorator at depth `layer` after a history -/
def counterAfter (init : Int) (layer : Nat) : List Out → Int
  | [] => init
  | o :: r => counterAfter (init + sumIncr layer o.2.1) layer r

/-! ### The `num_calls` entry of a wrapper's `__dict__`

`functools.update_wrapper` (behind `@wraps`) copies the `__dict__` of the decorated callable onto the wrapper — a `num_calls` entry
that callable carries included (an already counted function, or a wraps-based wrapper that copied one earlier).  `count_calls` also
sets `wrapper.num_calls = k`.  Which of the two happens last is read from the source (`counterInitAfterCopy`). -/

/-- does the wrapper the decorator returns for a (non-)coroutine function receive the metadata copy -/
def copiesDict (d : Deco) (coro : Bool) : Bool :=
  match select d coro with
  | .wrapper w => w.wraps
  | _ => false

/-- `wrapper.__dict__.get('num_calls')` right after the decorator returned; `carried`: that entry of the decorated callable's
    `__dict__` at that moment.  (`overrides` returns the callable itself: the entry stays what it is.) -/
def attrAfterDecorate (d : Deco) (coro : Bool) (carried : Option Int) : Option Int :=
  match select d coro with
  | .identity => carried
  | .missing => none
  | .wrapper w =>
    match d.counterInit with
    | some k => if d.counterInitAfterCopy then some k else if w.wraps then some (carried.getD k) else some k
    | none => if w.wraps then carried else none

/-- the entry after a call: a decorator with a counter of its own moves it by its `incr` events, a copied entry is a snapshot -/
def attrAfterCall (d : Deco) (depth : Nat) (evs : List Ev) (v : Option Int) : Option Int :=
  match d.counterInit with
  | some _ => v.map (· + sumIncr depth evs)
  | none => v

/-! ### First-order observations -/

inductive RTag where
  | obj (o : Obj) | none | opaque | spent | coro | gen
  | exc (e : Exc)
deriving DecidableEq, Repr

def Res.tag : Res Val → RTag
  | .ret (.obj o) => .obj o
  | .ret .none => .none
  | .ret .opaque => .opaque
  | .ret .spent => .spent
  | .ret (.coro _) => .coro
  | .ret (.gen _) => .gen
  | .exc e => .exc e

def isBodyOf (c : Callee) : Ev → Bool
  | .body c' _ _ => c' == c
  | _ => false

/-- the events of the decorated generator function's own body: its start and everything it notes down while it is driven -/
def isGenBodyEv : Ev → Bool
  | .body c _ _ => c == .wrapped
  | .gen _ _ => true
  | _ => false

/-- what the property compares for a generator function: the kind of result, what every operation of the caller shows, the body's
    own journal, and how often the body has started -/
structure GenBodyObs where
  res : RTag
  obs : List GenObs
  evs : List Ev
  inv : Nat
deriving DecidableEq, Repr

def genBodyObs (o : (Res Val × List GenObs) × List Ev × World) : GenBodyObs := ⟨o.1.1.tag, o.1.2, o.2.1.filter isGenBodyEv, o.2.2.inv⟩

def isWarnAt (layer : Nat) : Ev → Bool
  | .warn l _ => l == layer
  | _ => false

/-- what the property compares with the undecorated twin: result / exception identity, the invocations of the decorated
    body with their bound arguments, and how often the body has run -/
structure BodyObs where
  res : RTag
  calls : List Ev
  inv : Nat
deriving DecidableEq, Repr

def bodyObs (o : Out) : BodyObs := ⟨o.1.tag, o.2.1.filter (isBodyOf .wrapped), o.2.2.inv⟩

/-! ### The member loop of `for_all_methods` (hand-written from `class_decorators.py`; the facts it relies on are in
`Gen.Wrappers.membersReadWithGetattr`, `membersStoredAsPlainFunction`, `memberTypes`, `propertiesHandled`) -/

inductive MemberKind where
  | method | static | classm | prop
deriving DecidableEq, Repr

inductive Access where
  | instance | cls
deriving DecidableEq, Repr

/-- the member as the undecorated class exposes it: instance methods and property getters receive the instance, class
    methods the class, static methods nothing -/
def twinMember (k : MemberKind) (_acc : Access) (self cls : Nat) (raw : Fn) : Fn :=
  match k with
  | .method => .bound self raw
  | .prop => .bound self raw
  | .classm => .bound cls raw
  | .static => raw

/-- the member after `for_all_methods(decorator)`: `getattr(cls, attr)` yields the plain function (method, static method),
    the method bound to the class (class method) — `decorator(that)` is stored back as a plain function, so access through
    an instance binds the instance in front of whatever the wrapper passes on; a property is rebuilt around the decorated getter -/
def decoratedMember (d : Deco) (p : Params) (k : MemberKind) (acc : Access) (self cls : Nat) (raw : Fn) : Fn :=
  if membersReadWithGetattr && membersStoredAsPlainFunction then
    match k, acc with
    | .method, _ => .bound self (.deco d p raw)
    | .prop, _ => .bound self (.deco d p raw)
    | .static, .cls => .deco d p raw
    | .static, .instance => .bound self (.deco d p raw)
    | .classm, .cls => .deco d p (.bound cls raw)
    | .classm, .instance => .bound self (.deco d p (.bound cls raw))
  else .deco (⟨"", "", [], .unknown, none, none, true, none, true⟩) p raw      -- a different loop: not modelled

/-! ### Property members under `for_all_methods`

`property(fget, fset, fdel)`: reading the attribute on an instance calls `fget(obj)`, assigning `fset(obj, value)`, deleting
`fdel(obj)`; an empty slot raises AttributeError.  `for_all_methods` replaces a property member by a new property object; which
accessor of the old one lands in which slot of the new one is read from the source (`rebuiltPropertySlots`,
`missingAccessorStaysMissing`). -/

inductive Slot where
  | fget | fset | fdel
deriving DecidableEq, Repr

def Slot.name : Slot → String
  | .fget => "fget"
  | .fset => "fset"
  | .fdel => "fdel"

def Slot.ofName (s : String) : Option Slot :=
  if s = "fget" then some .fget else if s = "fset" then some .fset else if s = "fdel" then some .fdel else none

/-- a property object: the (plain, unbound) function in each slot -/
structure PropObj where
  fget : Option Fn
  fset : Option Fn
  fdel : Option Fn

def PropObj.slot (po : PropObj) : Slot → Option Fn
  | .fget => po.fget
  | .fset => po.fset
  | .fdel => po.fdel

/-- `obj.attr` | `obj.attr = v` | `del obj.attr` -/
inductive PropOp where
  | get | set (v : Nat) | del
deriving DecidableEq, Repr

def PropOp.slot : PropOp → Slot
  | .get => .fget
  | .set _ => .fset
  | .del => .fdel

def PropOp.args (self : Nat) : PropOp → Args
  | .get => ⟨[self], []⟩
  | .set v => ⟨[self, v], []⟩
  | .del => ⟨[self], []⟩

/-- an assignment / a `del` statement has no value: what the accessor returns is dropped -/
def dropValue (op : PropOp) (o : Out) : Out :=
  match op, o.1 with
  | .get, _ => o
  | _, .ret _ => (.ret .none, o.2.1, o.2.2)
  | _, .exc _ => o

/-- the attribute operation on an instance whose class binds the property -/
def propAccess (po : PropObj) (self : Nat) (op : PropOp) (w : World) : Out :=
  match po.slot op.slot with
  | none => (.exc (.lib "AttributeError"), [], w)
  | some f => dropValue op (invoke f (op.args self) w)

/-- the accessor of the OLD property that the slot `s` of the rebuilt one is made of -/
def rebuiltSource (s : Slot) : Option Slot := (rebuiltPropertySlots.lookup s.name).bind Slot.ofName

/-- the property object `for_all_methods(decorator)` stores in place of `old` -/
def rebuildProp (d : Deco) (p : Params) (old : PropObj) : PropObj :=
  if !propertiesHandled then old else        -- no `isinstance(attr_value, property)` branch in the member loop: properties stay what they are
  let mk : Slot → Option Fn := fun s =>
    match rebuiltSource s with
    | none => none
    | some src =>
      match old.slot src with
      | some f => some (.deco d p f)
      | none => if missingAccessorStaysMissing then none else some (.deco d p (.body ⟨false, ⟨[], [], [], false, false⟩, fun _ => .exc 0 false⟩))
  ⟨mk .fget, mk .fset, mk .fdel⟩

/-! ### One decorator object applied to several callables

`stub = mock(0); a = stub(a); b = stub(b)` — or `a = trace(a); b = trace(b)`: the decorator object is the same, the results must be
independent.  Whether they are is a matter of where the wrapper `def`s stand (`Deco.freshWrappers`, read from the source): inside the
function that receives the decorated callable (one wrapper object per application) or in the enclosing factory (one wrapper object
per wrapper name, dressed anew — `update_wrapper` — by every application). -/

/-- the result of one application: which wrapper OBJECT it is (`obj` = index of the application that handed it out first) and whose
    `__name__` / `__qualname__` / `__doc__` / `__wrapped__` it shows once all applications are done (`shows` = index of a callable) -/
structure Applied where
  obj : Nat
  shows : Nat
  fn : Fn

/-- the name of the wrapper the decorator hands out for `f` (`none`: it returns `f` itself / nothing modelled) -/
def wrapperNameFor (d : Deco) (f : Fn) : Option String :=
  match select d f.isCoro with
  | .wrapper w => some w.name
  | _ => none

def firstIdx (p : Fn → Bool) : List Fn → Nat → Option Nat
  | [], _ => none
  | f :: rest, i => if p f then some i else firstIdx p rest (i + 1)

def lastIdx (p : Fn → Bool) : List Fn → Nat → Option Nat
  | [], _ => none
  | f :: rest, i =>
    match lastIdx p rest (i + 1) with
    | some j => some j
    | none => if p f then some i else none

def applyOne (d : Deco) (p : Params) (fs : List Fn) (i : Nat) (f : Fn) : Applied :=
  match wrapperNameFor d f with
  | none => ⟨i, i, .deco d p f⟩                     -- the callable itself comes back
  | some n =>
    if d.freshWrappers then ⟨i, i, .deco d p f⟩
    else
      let same : Fn → Bool := fun g => wrapperNameFor d g == some n
      ⟨(firstIdx same fs 0).getD i, (lastIdx same fs 0).getD i, .deco d p f⟩

def applyFrom (d : Deco) (p : Params) (all : List Fn) : List Fn → Nat → List Applied
  | [], _ => []
  | f :: rest, i => applyOne d p all i f :: applyFrom d p all rest (i + 1)

/-- `[deco(f) for f in fs]` with ONE decorator object `deco` -/
def applyShared (d : Deco) (p : Params) (fs : List Fn) : List Applied := applyFrom d p fs fs 0

end PedVerif.Utility
