import PedVerif.Spec.Checker
/-! Well-formedness of environments and values (decidable, evaluated by the driver on every case), and the region
    predicates (complements of the guards of the `_partial` theorems). -/
namespace PedVerif.Checker

def allSeqOrigins : List SeqOrigin :=
  [.list, .set, .frozenset, .deque, .sequence, .iterable, .collection, .container, .abstractSet, .mutableSet, .mutableSequence]
def allMapOrigins : List MapOrigin := [.dict, .defaultDict, .mapping, .mutableMapping]

/-- shape of one value node w.r.t. the class table: instances of `type` are class objects, instances of iterable origins
    have an iteration view, instances of mapping origins an items view, instances of `tuple` are tuples, exactly the
    one-shot iterators are instances of `Iterator`; a NamedTuple instance has as many values as names -/
def Val.shapeB (env : Env) (v : Val) : Bool :=
  (!env.sub (v.typeOf env) env.typeCls || (match v with | .clsObj _ => true | _ => false)) &&
  (allSeqOrigins.all fun o => !env.sub (v.typeOf env) (env.seqCls o) || v.iter.isSome) &&
  (allMapOrigins.all fun o => !env.sub (v.typeOf env) (env.mapCls o) || v.items.isSome) &&
  (!env.sub (v.typeOf env) env.tupleCls || v.tupleItems.isSome) &&
  (env.sub (v.typeOf env) env.iteratorCls == (match v with | .iterator _ _ => true | _ => false)) &&
  (match v with | .ntup _ names xs => names.length == xs.length | _ => true) &&
  (!env.isNT (v.typeOf env) || v.hasAsdict)            -- an instance of a NamedTuple class has `_asdict`

/-- facts about the class table the proofs use: issubclass is reflexive, every class object is an instance of `type`,
    an `int` is well-shaped (elements of a `bytes` value) -/
structure WfEnv (env : Env) : Prop where
  refl : ∀ c, env.sub c c = true
  metaSub : ∀ c, env.sub (env.metaOf c) env.typeCls = true
  intShape : Val.shapeB env (.lit (.int 0)) = true
  ntDown : ∀ c d, env.sub c d = true → env.isNT d = true → env.isNT c = true     -- a subclass of a NamedTuple class inherits `_fields`

mutual
/-- hereditary well-formedness -/
def Val.wf (env : Env) : Val → Bool
  | .coll c xs => Val.shapeB env (.coll c xs) && wfL env xs
  | .tup c xs => Val.shapeB env (.tup c xs) && wfL env xs
  | .ntup c ns xs => Val.shapeB env (.ntup c ns xs) && wfL env xs
  | .iterator c xs => Val.shapeB env (.iterator c xs) && wfL env xs
  | .mapping c kvs => Val.shapeB env (.mapping c kvs) && wfKV env kvs
  | .lit l => Val.shapeB env (.lit l)
  | .inst c => Val.shapeB env (.inst c)
  | .clsObj c => Val.shapeB env (.clsObj c)
def wfL (env : Env) : List Val → Bool
  | [] => true
  | x :: xs => x.wf env && wfL env xs
def wfKV (env : Env) : List (Val × Val) → Bool
  | [] => true
  | (k, v) :: kvs => k.wf env && v.wf env && wfKV env kvs
end

mutual
/-- the value contains no NamedTuple instance and no one-shot iterator (guard of C01/C02: their complements are the
    regions `namedtuple…` and the iterator stream that belongs to C04) -/
def Val.plain : Val → Bool
  | .coll _ xs => plainL xs
  | .tup _ xs => plainL xs
  | .ntup _ _ _ => false
  | .iterator _ _ => false
  | .mapping _ kvs => plainKV kvs
  | _ => true
def plainL : List Val → Bool
  | [] => true
  | x :: xs => x.plain && plainL xs
def plainKV : List (Val × Val) → Bool
  | [] => true
  | (k, v) :: kvs => k.plain && v.plain && plainKV kvs
end

mutual
/-- the value contains no one-shot iterator (guard of C01 since the NamedTuple repair: the only exclusion left; region
    `iteratorItemsUnchecked`).  `iterFree_eq`: `= !v.hasIter`. -/
def Val.iterFree : Val → Bool
  | .coll _ xs => iterFreeL xs
  | .tup _ xs => iterFreeL xs
  | .ntup _ _ xs => iterFreeL xs
  | .iterator _ _ => false
  | .mapping _ kvs => iterFreeKV kvs
  | _ => true
def iterFreeL : List Val → Bool
  | [] => true
  | x :: xs => x.iterFree && iterFreeL xs
def iterFreeKV : List (Val × Val) → Bool
  | [] => true
  | (k, v) :: kvs => k.iterFree && v.iterFree && iterFreeKV kvs
end

mutual
def Val.hasNT : Val → Bool
  | .coll _ xs => hasNTL xs
  | .tup _ xs => hasNTL xs
  | .ntup _ _ _ => true
  | .iterator _ xs => hasNTL xs
  | .mapping _ kvs => hasNTKV kvs
  | _ => false
def hasNTL : List Val → Bool
  | [] => false
  | x :: xs => x.hasNT || hasNTL xs
def hasNTKV : List (Val × Val) → Bool
  | [] => false
  | (k, v) :: kvs => k.hasNT || v.hasNT || hasNTKV kvs
end

mutual
/-- the value contains a one-shot iterator (region `iteratorItemsUnchecked`: its pending items are deliberately not looked at) -/
def Val.hasIter : Val → Bool
  | .coll _ xs => hasIterL xs
  | .tup _ xs => hasIterL xs
  | .ntup _ _ xs => hasIterL xs
  | .iterator _ _ => true
  | .mapping _ kvs => hasIterKV kvs
  | _ => false
def hasIterL : List Val → Bool
  | [] => false
  | x :: xs => x.hasIter || hasIterL xs
def hasIterKV : List (Val × Val) → Bool
  | [] => false
  | (k, v) :: kvs => k.hasIter || v.hasIter || hasIterKV kvs
end

/-- syntactic regions of the annotation -/
def Ann.hasEmptyTuple : Ann → Bool
  | .tuple _ [] => true
  | .tuple _ items => anyL items
  | .clsF _ _ anns => anyL anns
  | .union _ ms => anyL ms
  | .typeOf _ a => a.hasEmptyTuple
  | .seq _ _ a => a.hasEmptyTuple
  | .map _ _ k v => k.hasEmptyTuple || v.hasEmptyTuple
  | .tupleVar _ a => a.hasEmptyTuple
  | _ => false
where anyL : List Ann → Bool
  | [] => false
  | a :: as => a.hasEmptyTuple || anyL as

/-- what may stand inside `Type[..]` on the guarded vocabulary: a class, Any, or a Union of those -/
def classLike : Ann → Bool
  | .any | .cls _ | .clsF _ _ _ => true
  | _ => false
def typeArgOk : Ann → Bool
  | .union _ ms => ms.all classLike
  | a => classLike a

/-- `Type[..]` over something else than a class, Any or a Union of those (outside the vocabulary "Type[C]") -/
def Ann.hasTypeOfNonClass : Ann → Bool
  | .typeOf _ a => !typeArgOk a
  | .tuple _ items => anyL items
  | .clsF _ _ anns => anyL anns
  | .union _ ms => anyL ms
  | .seq _ _ a => a.hasTypeOfNonClass
  | .map _ _ k v => k.hasTypeOfNonClass || v.hasTypeOfNonClass
  | .tupleVar _ a => a.hasTypeOfNonClass
  | _ => false
where anyL : List Ann → Bool
  | [] => false
  | a :: as => a.hasTypeOfNonClass || anyL as

/-- the annotation contains a forward reference that does not name a class of the context (outside the vocabulary of
    C01/C02: "forward references naming a class") -/
def Ann.hasUnresolvedFwd (env : Env) : Ann → Bool
  | .fwd n => (env.ctx n).isNone
  | .strAnn n => (env.ctx n).isNone
  | .tuple _ items => anyL env items
  | .clsF _ _ anns => anyL env anns
  | .union _ ms => anyL env ms
  | .typeOf _ a => a.hasUnresolvedFwd env
  | .seq _ _ a => a.hasUnresolvedFwd env
  | .map _ _ k v => k.hasUnresolvedFwd env || v.hasUnresolvedFwd env
  | .tupleVar _ a => a.hasUnresolvedFwd env
  | _ => false
where anyL (env : Env) : List Ann → Bool
  | [] => false
  | a :: as => a.hasUnresolvedFwd env || anyL env as

/-- no unsupported annotation object (oracle-answered node) at a position the checker evaluates -/
def Ann.noSpecial : Ann → Bool
  | .special _ => false
  | .union _ ms => noSpecialL ms
  | .seq _ _ a => a.noSpecial
  | .map _ _ k v => k.noSpecial && v.noSpecial
  | .tuple _ items => noSpecialL items
  | .tupleVar _ a => a.noSpecial
  | _ => true
where noSpecialL : List Ann → Bool
  | [] => true
  | a :: as => a.noSpecial && noSpecialL as


/-- **Local guard for a top-level string annotation whose name is NOT a class of the context.**  Such a name is compared with the
    class names of the value's MRO, so the guard says that no class in the MRO of *this value* carries the name of *this annotation*.
    It speaks about one annotation and one value and is `true` by definition for every annotation that is not such a string (a
    string annotation that names a class of the context needs no guard either: it is checked with isinstance against that class).
    The complement is outside the vocabulary of C01 ("forward references naming a class"); witness `strAnn_unbound_name_accepted`.
    The driver evaluates the guard on every case (`underC01`). -/
def Ann.strAnnOk (env : Env) (a : Ann) (v : Val) : Bool :=
  match a with
  | .strAnn n => (env.ctx n).isSome || !(env.mroNames (v.typeOf env)).contains n
  | _ => true

mutual
/-- `conforms`, except that an instance of an annotated NamedTuple class also has to carry conforming values in its annotated fields -
    what the repaired `_is_instance` checks.  `conforms ∧ ¬conformsNT` is the region `namedtupleFieldMismatch` (reported by the driver). -/
def conformsNT (env : Env) : Ann → Val → Bool
  | .clsF c names anns, v => env.sub (v.typeOf env) c &&
      (!env.isNT c || (match v with | .ntup _ vn xs => fieldsNT env names anns vn xs | _ => true))
  | .union _ ms, v => anyNT env ms v
  | .seq _ o a, v => env.sub (v.typeOf env) (env.seqCls o) &&
      (match v.iter with | some xs => xs.all (fun x => conformsNT env a x) | Option.none => false)
  | .map _ o k w, v => env.sub (v.typeOf env) (env.mapCls o) &&
      (match v.items with | some kvs => kvs.all (fun kv => conformsNT env k kv.1 && conformsNT env w kv.2) | Option.none => false)
  | .tuple _ items, v => env.sub (v.typeOf env) env.tupleCls &&
      (match v.tupleItems with | some xs => zipNT env items xs | Option.none => false)
  | .tupleVar _ a, v => env.sub (v.typeOf env) env.tupleCls &&
      (match v.tupleItems with | some xs => xs.all (fun x => conformsNT env a x) | Option.none => false)
  | a, v => conforms env a v
def anyNT (env : Env) : List Ann → Val → Bool
  | [], _ => false
  | a :: as, v => conformsNT env a v || anyNT env as v
def zipNT (env : Env) : List Ann → List Val → Bool
  | [], [] => true
  | a :: as, x :: xs => conformsNT env a x && zipNT env as xs
  | _, _ => false
def fieldsNT (env : Env) : List NameId → List Ann → List NameId → List Val → Bool
  | n :: ns, a :: as, vn, xs =>
      (match lookupField vn xs n with | some x => conformsNT env a x | Option.none => true) && fieldsNT env ns as vn xs
  | _, _, _, _ => true
end

/-- all hypotheses of C01 `sound_partial` about one case (the class table is well-formed by construction of the harness) -/
def underSound (env : Env) (a : Ann) (v : Val) : Bool := a.strAnnOk env v && a.noSpecial && v.wf env && v.iterFree

end PedVerif.Checker
