import PedVerif.Gen.TypeTables
/-!
Model of `pedantic/type_checking_logic/check_types.py` on TypeVar-free annotations:
`_check_type`, `_is_instance` (branch order preserved), `_instancecheck_iterable/_mapping/_items_view/_tuple/_union/
_literal/_type`, `_is_subtype` (as used by `Type[...]`), `convert_to_typing_types`, the namedtuple (`_asdict`) branch.

Annotations are an inductive syntax; each constructor stands for the result of the introspection the code performs on
the real typing object (appendix F of DESIGN.md).  Tables and straight-line facts come from `PedVerif.Gen.TypeTables`,
regenerated from the source on every run.  Unsupported annotation objects are `special k`, answered by an oracle that
the theorems quantify over.
-/
namespace PedVerif.Checker
open PedVerif.Gen.TypeTables

abbrev ClsId := Nat
abbrev NameId := Nat

inductive Lit where
  | none | bool (b : Bool) | int (n : Int) | flt (num : Int) (den : Nat)
  | str (cs : List Nat) | bytes (bs : List Nat)
deriving DecidableEq, Repr

inductive LitKind where | none | bool | int | flt | str | bytes
deriving DecidableEq, Repr
def Lit.kind : Lit → LitKind
  | .none => .none | .bool _ => .bool | .int _ => .int | .flt _ _ => .flt | .str _ => .str | .bytes _ => .bytes

inductive SeqOrigin where
  | list | set | frozenset | deque | sequence | iterable | collection | container | abstractSet | mutableSet | mutableSequence
deriving DecidableEq, Repr
inductive MapOrigin where
  | dict | defaultDict | mapping | mutableMapping
deriving DecidableEq, Repr
inductive BareOrigin where
  | list | dict | set | frozenset | tuple | type_         -- the builtin classes themselves
  | tList | tDict | tSet | tFrozenSet | tTuple | tType | tCallable | tIterable | tSequence | tUnion | tOptional
deriving DecidableEq, Repr
/-- `typing.List[int]` vs the PEP 585 spelling on the runtime class (`list[int]`, `collections.deque[int]`,
    `collections.abc.Sequence[int]`) -/
inductive Spell where | typing | pep585
deriving DecidableEq, Repr
inductive USpell where | union | optional | pipe
deriving DecidableEq, Repr

/-- result of `_is_instance`: a verdict or a raised exception -/
inductive Raw where
  | ok (b : Bool) | raisedPed | raisedTV | raisedOther
deriving DecidableEq, Repr

inductive Ann where
  | none                                   -- the annotation `None` (top level)
  | cls (c : ClsId)                        -- a plain class without `__annotations__` attribute (static builtin types)
  | clsF (c : ClsId) (names : List NameId) (anns : List Ann)   -- a plain class with `__annotations__` (every heap class)
  | any
  | union (sp : USpell) (ms : List Ann)
  | literal (ls : List Lit)
  | newType (super : ClsId)
  | typeOf (sp : Spell) (a : Ann)
  | fwd (name : NameId)                    -- typing.ForwardRef nested in a generic
  | strAnn (name : NameId)                 -- top-level string annotation
  | seq (sp : Spell) (o : SeqOrigin) (elem : Ann)
  | map (sp : Spell) (o : MapOrigin) (k v : Ann)
  | tuple (sp : Spell) (items : List Ann)
  | tupleVar (sp : Spell) (elem : Ann)
  | bare (o : BareOrigin)
  | special (k : Nat)
deriving Repr

inductive Val where
  | lit (l : Lit)
  | inst (c : ClsId)
  | coll (c : ClsId) (xs : List Val)
  | mapping (c : ClsId) (kvs : List (Val × Val))
  | tup (c : ClsId) (xs : List Val)                          -- tuple or tuple subclass
  | ntup (c : ClsId) (names : List NameId) (xs : List Val)   -- NamedTuple instance (has `_asdict`)
  | clsObj (c : ClsId)                                       -- a class object (value for Type[C])
  | iterator (c : ClsId) (xs : List Val)                     -- one-shot iterator / generator object, pending items
deriving Repr

structure Env where
  sub : ClsId → ClsId → Bool               -- issubclass, incl. ABC registrations (sent by the harness from the interpreter)
  name : ClsId → NameId                    -- __name__
  baseName : ClsId → Option NameId         -- __base__.__name__ ; none when __base__ is None
  ctx : NameId → Option ClsId              -- context used to resolve forward references (names of classes)
  fieldNames : ClsId → Option (List NameId)  -- keys of cls.__annotations__, none when the class has no such attribute
  litCls : LitKind → ClsId                 -- NoneType, bool, int, float, str, bytes
  tupleCls : ClsId
  typeCls : ClsId
  iteratorCls : ClsId
  seqCls : SeqOrigin → ClsId
  mapCls : MapOrigin → ClsId
  metaOf : ClsId → ClsId                   -- type(C)
  mroNames : ClsId → List NameId := fun _ => []   -- __name__ of every class in C.__mro__ (C itself first)
  isNT : ClsId → Bool := fun _ => false           -- a NamedTuple class: `issubclass(C, tuple) and hasattr(C, '_fields')`

def Val.typeOf (env : Env) : Val → ClsId
  | .lit l => env.litCls l.kind
  | .inst c => c
  | .coll c _ => c
  | .mapping c _ => c
  | .tup c _ => c
  | .ntup c _ _ => c
  | .clsObj c => env.metaOf c
  | .iterator c _ => c

/-- what `for x in v` yields -/
def Val.iter : Val → Option (List Val)
  | .coll _ xs => some xs
  | .tup _ xs => some xs
  | .ntup _ _ xs => some xs
  | .mapping _ kvs => some (kvs.map (·.1))
  | .iterator _ xs => some xs
  | .lit (.str cs) => some (cs.map fun c => .lit (.str [c]))
  | .lit (.bytes bs) => some (bs.map fun b => .lit (.int (Int.ofNat b)))
  | _ => Option.none

def Val.items : Val → Option (List (Val × Val))
  | .mapping _ kvs => some kvs
  | _ => Option.none

def Val.tupleItems : Val → Option (List Val)
  | .tup _ xs => some xs
  | .ntup _ _ xs => some xs
  | _ => Option.none

def Val.isNone : Val → Bool
  | .lit .none => true
  | _ => false

def Val.hasAsdict : Val → Bool
  | .ntup _ _ _ => true
  | _ => false

/-- keys of `obj._asdict()` (only read when `hasAsdict`) -/
def Val.asdictKeys : Val → List NameId
  | .ntup _ names _ => names
  | _ => []

/-- Python `==` between literal values (bool/int/float compare numerically) -/
def Lit.num? : Lit → Option (Int × Nat)
  | .bool b => some (if b then 1 else 0, 1)
  | .int n => some (n, 1)
  | .flt n d => some (n, d)
  | _ => Option.none
def litEq (a b : Lit) : Bool :=
  match a.num?, b.num? with
  | some (n, d), some (n', d') => n * d' == n' * d
  | Option.none, Option.none => a == b
  | _, _ => false

/-! ### names as `_get_name` sees them -/
def SeqOrigin.typingName : SeqOrigin → String
  | .list => "List" | .set => "Set" | .frozenset => "FrozenSet" | .deque => "Deque" | .sequence => "Sequence"
  | .iterable => "Iterable" | .collection => "Collection" | .container => "Container" | .abstractSet => "AbstractSet"
  | .mutableSet => "MutableSet" | .mutableSequence => "MutableSequence"
/-- `__name__` of the runtime class (what `_get_name` returns for the PEP 585 alias) -/
def SeqOrigin.runtimeName : SeqOrigin → String
  | .list => "list" | .set => "set" | .frozenset => "frozenset" | .deque => "deque" | .sequence => "Sequence"
  | .iterable => "Iterable" | .collection => "Collection" | .container => "Container" | .abstractSet => "Set"
  | .mutableSet => "MutableSet" | .mutableSequence => "MutableSequence"
def MapOrigin.typingName : MapOrigin → String
  | .dict => "Dict" | .defaultDict => "DefaultDict" | .mapping => "Mapping" | .mutableMapping => "MutableMapping"
def MapOrigin.runtimeName : MapOrigin → String
  | .dict => "dict" | .defaultDict => "defaultdict" | .mapping => "Mapping" | .mutableMapping => "MutableMapping"
/-- `hasattr(alias, '__annotations__')` for the PEP 585 alias of the runtime class: a `types.GenericAlias` forwards the attribute to
    its origin; the builtin static types have none, `collections.deque`, `collections.defaultdict` and the `collections.abc` classes
    answer `{}` (observed on CPython 3.12, compared on every run by the introspection tie of harness/props/_intro_common.py) -/
def SeqOrigin.aliasAnnotated : SeqOrigin → Bool
  | .list | .set | .frozenset => false
  | _ => true
def MapOrigin.aliasAnnotated : MapOrigin → Bool
  | .dict => false
  | _ => true
def seqName (sp : Spell) (o : SeqOrigin) : String := match sp with | .typing => o.typingName | .pep585 => o.runtimeName
def mapName (sp : Spell) (o : MapOrigin) : String := match sp with | .typing => o.typingName | .pep585 => o.runtimeName
def tupleName : Spell → String | .typing => "Tuple" | .pep585 => "tuple"
def typeName : Spell → String | .typing => "Type" | .pep585 => "type"

def BareOrigin.isBuiltin : BareOrigin → Bool
  | .list | .dict | .set | .frozenset | .tuple | .type_ => true
  | _ => false
/-- `_get_name` of the bare object -/
def BareOrigin.name : BareOrigin → String
  | .list => "list" | .dict => "dict" | .set => "set" | .frozenset => "frozenset" | .tuple => "tuple" | .type_ => "type"
  | .tList => "List" | .tDict => "Dict" | .tSet => "Set" | .tFrozenSet => "FrozenSet" | .tTuple => "Tuple" | .tType => "Type"
  | .tCallable => "Callable" | .tIterable => "Iterable" | .tSequence => "Sequence" | .tUnion => "Union" | .tOptional => "Optional"

/-! ### configuration derived from the generated facts -/
def lookupS (t : List (String × String)) (k : String) : Option String :=
  match t with
  | [] => Option.none
  | (k', v) :: rest => if k' == k then some v else lookupS rest k

def originIs (path checker : String) : Bool := lookupS originCheckers path == some checker
def specialIs (name checker : String) : Bool := lookupS specialCheckers name == some checker
/-- the last `except` arm catches every `Exception` -/
def catchesAll : Bool := catchAll.contains "Exception" || catchAll.contains "BaseException"
def convGuardIsAlias : Bool := convertGuard == "isGenericAlias"
def originConvertible (runtimeName : String) : Bool :=
  (lookupS convertOrigins runtimeName).isSome || convertAliasFallback

/-- the three `except` arms of `_check_type` -/
inductive Out where
  | accept | reject | pedErr | tvMismatch | escape
deriving DecidableEq, Repr

def wrap : Raw → Out
  | .ok true => .accept
  | .ok false => .reject
  | .raisedPed => .pedErr
  | .raisedTV => .tvMismatch
  | .raisedOther => if catchesAll then .pedErr else .escape

/-- Python `all(f(x) for x in xs)`: stops at the first result that is not `True`; exceptions propagate -/
def allRaw {α} (f : α → Raw) : List α → Raw
  | [] => .ok true
  | x :: xs => match f x with
      | .ok true => allRaw f xs
      | r => r
/-- Python `any(f(x) for x in xs)`: stops at the first `True`; exceptions propagate -/
def anyLazyRaw {α} (f : α → Raw) : List α → Raw
  | [] => .ok false
  | x :: xs => match f x with
      | .ok false => anyLazyRaw f xs
      | r => r
/-- the element loop of `_instancecheck_iterable` with the quantifier the source uses -/
def elemQuant {α} (f : α → Raw) (xs : List α) : Raw :=
  if iterableQuantifier == "all" then allRaw f xs else anyLazyRaw f xs

def Raw.and2 (a : Raw) (b : Unit → Raw) : Raw :=       -- `a and b`
  match a with
  | .ok true => b ()
  | r => r

/-- `convert_to_typing_types` succeeds on this (argument of a) PEP 585 alias -/
def convOk : Ann → Bool
  | .bare o => !(o.isBuiltin && convertBare.contains o.name)
  | .union sp _ => sp == .pipe || convGuardIsAlias
  | .literal _ => convGuardIsAlias
  | .typeOf .pep585 a => originConvertible "type" && convOk a
  | .seq .pep585 o a => originConvertible o.runtimeName && convOk a
  | .map .pep585 o k v => originConvertible o.runtimeName && convOk k && convOk v
  | .tuple .pep585 items => originConvertible "tuple" && convOkL items
  | .tupleVar .pep585 a => originConvertible "tuple" && convOk a
  | .typeOf .typing _ | .seq .typing _ _ | .map .typing _ _ _ | .tuple .typing _ | .tupleVar .typing _ => convGuardIsAlias
  | _ => true
where convOkL : List Ann → Bool
  | [] => true
  | a :: as => convOk a && convOkL as

/-- `_is_subtype(sub=value_class, super=a)` as used by `_instancecheck_type` -/
def memberExact (c : ClsId) : Ann → Bool
  | .cls d => c == d
  | .clsF d _ _ => c == d
  | _ => false
/-- one member of a Union super type (repaired `_is_subtype`): a class by issubclass, Any is a top type, a typing generic by its
    origin class (its arguments are not looked at), everything else (forward reference, NewType, Literal, PEP 585 alias) False -/
def memberSub (env : Env) (c : ClsId) : Ann → Bool
  | .cls d => env.sub c d
  | .clsF d _ _ => env.sub c d
  | .any => true
  | .seq .typing o _ => env.sub c (env.seqCls o)
  | .map .typing o _ _ => env.sub c (env.mapCls o)
  | .tuple .typing _ => env.sub c env.tupleCls
  | .tupleVar .typing _ => env.sub c env.tupleCls
  | .typeOf .typing _ => env.sub c env.typeCls
  | _ => false
def isSubtypeCls (env : Env) (c : ClsId) : Ann → Raw
  | .cls d => .ok (env.sub c d)
  | .clsF d _ _ => .ok (env.sub c d)
  | .union _ ms => .ok (if unionSuperBySubtype then ms.any (memberSub env c) else ms.any (memberExact c))
  | .fwd _ => if classOfGuardsOrigin then .ok false else .raisedOther     -- issubclass(c, ForwardRef(..)): TypeError, caught
  | _ => .raisedOther

def lookupField (names : List NameId) (xs : List Val) (k : NameId) : Option Val :=
  match names, xs with
  | n :: ns, x :: xs => if n == k then some x else lookupField ns xs k
  | _, _ => Option.none

def sameKeys (a b : List NameId) : Bool := a.all b.contains && b.all a.contains

/-! ### one non-recursive function per annotation node: the recursive results come in as arguments, so that the
    induction principle of `isInstance` has one case per constructor and every node has its own lemmas -/

/-- the NamedTuple block of `_is_instance` (the annotation is a NamedTuple class `c`): the value has to be an instance of it, then
    every annotated field that the value has is checked (`fields`: names and values of the value ↦ result of the `all([...])`) -/
def ntNode (env : Env) (c : ClsId) (v : Val) (fields : List NameId → List Val → Raw) : Raw :=
  if !env.sub (v.typeOf env) c then .ok false else
  match v with
  | .ntup _ vnames xs => fields vnames xs
  | _ => .raisedOther                                      -- `obj._asdict()`: AttributeError (excluded by `Val.wf`)

def clsNode (env : Env) (c : ClsId) (v : Val) : Raw :=
  if env.isNT c then ntNode env c v (fun _ _ => .ok true)   -- no `__annotations__` of its own: `all([])`
  else .ok (env.sub (v.typeOf env) c)

def clsFNode (env : Env) (c : ClsId) (_names : List NameId) (v : Val) (fields : List NameId → List Val → Raw) : Raw :=
  if env.isNT c then ntNode env c v fields
  else .ok (env.sub (v.typeOf env) c)                      -- any other class: isinstance, whatever the value is

def anyNode : Raw := if specialIs "Any" "const_true" then .ok true else .raisedOther

def unionName : USpell → String | .union => "Union" | .optional => "Optional" | .pipe => "nionType"

def unionCheckerName : USpell → String | .optional => "Optional" | _ => "Union"
/-- `X | Y` goes through the `types.UnionType` branch, the typing spellings through the special checker registered by name -/
def unionDispatchOk (sp : USpell) : Bool := sp == .pipe || specialIs (unionCheckerName sp) "_instancecheck_union"

def unionNode (sp : USpell) (n : Nat) (members : Raw) : Raw :=
  if !requiredArgsOk (unionName sp) n then .raisedPed else
  if !unionDispatchOk sp then .raisedOther else
  members

def literalNode (ls : List Lit) (v : Val) : Raw :=
  if !specialIs "Literal" "_instancecheck_literal" then .raisedOther else
  (match v with | .lit l => .ok (ls.any (litEq l)) | _ => .ok false)

/-- the spelling `_is_instance` sees: `convert_to_typing_types` converts a PEP 585 alias and, recursively, every PEP 585 alias
    among its arguments (it does not descend into typing constructs), so a node has already been converted (`pc`) exactly
    when its parent is spelled PEP 585 - whatever happened above the parent -/
def effSpell (pc : Bool) (sp0 : Spell) : Spell := if pc then .typing else sp0

def typeOfNode (env : Env) (pc : Bool) (sp0 : Spell) (a : Ann) (v : Val) : Raw :=
  let sp := effSpell pc sp0
  if !requiredArgsOk (typeName sp) 1 then .raisedPed else
  if sp == .pep585 && !(originConvertible "type" && convOk a) then .raisedOther else
  if !requiredArgsOk "Type" 1 then .raisedPed else
  if genericChecksOrigin && !env.sub (v.typeOf env) env.typeCls then .ok false else
  if !originIs "typing.Type" "_instancecheck_type" then .raisedOther else
  (match a with
   | .any => .ok true
   | a => (match v with | .clsObj c => isSubtypeCls env c a | _ => .raisedOther))

def fwdNode (env : Env) (n : NameId) (v : Val) : Raw :=
  match env.ctx n with
  | some c =>
      if env.isNT c then
        ntNode env c v (fun vnames _ =>                     -- field annotations of the resolved class: not modelled
          if ((env.fieldNames c).getD []).any vnames.contains then .raisedOther else .ok true)
      else .ok (env.sub (v.typeOf env) c)
  | Option.none => .raisedOther                            -- NameError from eval

def seqNode (env : Env) (pc : Bool) (sp0 : Spell) (o : SeqOrigin) (a : Ann) (v : Val) (elem : Bool → Val → Raw) : Raw :=
  let sp := effSpell pc sp0
  if !requiredArgsOk (seqName sp o) 1 then .raisedPed else
  if sp == .pep585 && !(originConvertible o.runtimeName && convOk a) then .raisedOther else
  if !requiredArgsOk o.typingName 1 then .raisedPed else
  if genericChecksOrigin && !env.sub (v.typeOf env) (env.seqCls o) then .ok false else
  if !originIs ("typing." ++ o.typingName) "_instancecheck_iterable" then .raisedOther else
  if iteratorSkip && env.sub (v.typeOf env) env.iteratorCls then .ok true else
  (match v.iter with
   | some xs => elemQuant (elem (sp0 == .pep585)) xs
   | Option.none => .raisedOther)                          -- TypeError: not iterable

def mapNode (env : Env) (pc : Bool) (sp0 : Spell) (o : MapOrigin) (k w : Ann) (v : Val) (key val : Bool → Val → Raw) : Raw :=
  let sp := effSpell pc sp0
  if !requiredArgsOk (mapName sp o) 2 then .raisedPed else
  if sp == .pep585 && !(originConvertible o.runtimeName && convOk k && convOk w) then .raisedOther else
  if !requiredArgsOk o.typingName 2 then .raisedPed else
  if genericChecksOrigin && !env.sub (v.typeOf env) (env.mapCls o) then .ok false else
  if !originIs ("typing." ++ o.typingName) "_instancecheck_mapping" then .raisedOther else
  (match v.items with
   | some kvs => allRaw (fun kv =>
       (if itemsChecksKey then key (sp0 == .pep585) kv.1 else .ok true).and2 fun _ =>
         (if itemsChecksValue then val (sp0 == .pep585) kv.2 else .ok true)) kvs
   | Option.none => .raisedOther)

def tupleNode (env : Env) (pc : Bool) (sp0 : Spell) (items : List Ann) (v : Val) (zip : Bool → List Val → Raw) : Raw :=
  let sp := effSpell pc sp0
  if !requiredArgsOk (tupleName sp) items.length then .raisedPed else
  if sp == .pep585 && !(originConvertible "tuple" && convOk.convOkL items) then .raisedOther else
  if !requiredArgsOk "Tuple" items.length then .raisedPed else          -- Tuple[()] : "misses some type arguments"
  if genericChecksOrigin && !env.sub (v.typeOf env) env.tupleCls then .ok false else
  if !originIs "typing.Tuple" "_instancecheck_tuple" then .raisedOther else
  (match v.tupleItems with
   | some xs => if tupleLengthTest && xs.length != items.length then .ok false else zip (sp0 == .pep585) xs
   | Option.none => .raisedOther)

def tupleVarNode (env : Env) (pc : Bool) (sp0 : Spell) (a : Ann) (v : Val) (elem : Bool → Val → Raw) : Raw :=
  let sp := effSpell pc sp0
  if !requiredArgsOk (tupleName sp) 2 then .raisedPed else
  if sp == .pep585 && !(originConvertible "tuple" && convOk a) then .raisedOther else
  if !requiredArgsOk "Tuple" 2 then .raisedPed else
  if genericChecksOrigin && !env.sub (v.typeOf env) env.tupleCls then .ok false else
  if !originIs "typing.Tuple" "_instancecheck_tuple" then .raisedOther else
  (match v.tupleItems with
   | some xs => allRaw (elem (sp0 == .pep585)) xs
   | Option.none => .raisedOther)

def bareNode (env : Env) (o : BareOrigin) (v : Val) : Raw :=
  if !requiredArgsOk o.name 0 then .raisedPed else
  if o.isBuiltin then
    (if bareBuiltins.contains o.name then .raisedPed       -- 'Missing type arguments'
     else .ok (match o with
        | .list => env.sub (v.typeOf env) (env.seqCls .list) | .set => env.sub (v.typeOf env) (env.seqCls .set)
        | .frozenset => env.sub (v.typeOf env) (env.seqCls .frozenset) | .dict => env.sub (v.typeOf env) (env.mapCls .dict)
        | .tuple => env.sub (v.typeOf env) env.tupleCls | _ => env.sub (v.typeOf env) env.typeCls))
  else (match o with                                      -- a bare typing generic that passed the table test
    | .tUnion | .tOptional => .ok false
    | .tCallable => if v.isNone then .ok false else .raisedOther
    | .tTuple => if !env.sub (v.typeOf env) env.tupleCls then .ok false else
                  (match v.tupleItems with | some xs => .ok xs.isEmpty | Option.none => .raisedOther)
    | .tType => if !env.sub (v.typeOf env) env.typeCls then .ok false else .raisedOther      -- `type_[0]` on ()
    | .tDict => if !env.sub (v.typeOf env) (env.mapCls .dict) then .ok false else .raisedOther
    | .tList => if !env.sub (v.typeOf env) (env.seqCls .list) then .ok false else .raisedOther
    | .tSet => if !env.sub (v.typeOf env) (env.seqCls .set) then .ok false else .raisedOther
    | .tFrozenSet => if !env.sub (v.typeOf env) (env.seqCls .frozenset) then .ok false else .raisedOther
    | .tIterable => if !env.sub (v.typeOf env) (env.seqCls .iterable) then .ok false else .raisedOther
    | _ => if !env.sub (v.typeOf env) (env.seqCls .sequence) then .ok false else .raisedOther)

/-- `any([...])` step: both the head and the rest have been evaluated -/
def anyStep (h : Raw) (rest : Raw) : Raw :=
  match h with
  | .ok b => (match rest with | .ok b' => .ok (b || b') | r => r)
  | r => r
/-- `all([...])` step (a list: every element is evaluated) -/
def allStep (h : Raw) (rest : Raw) : Raw :=
  match h with
  | .ok b => (match rest with | .ok b' => .ok (b && b') | r => r)
  | r => r

mutual
/-- `_is_instance`.  The Boolean says whether the annotation is an argument of a PEP 585 alias that has already been
    translated by `convert_to_typing_types` (then it behaves like its typing spelling). -/
def isInstance (env : Env) (orc : Nat → Val → Raw) : Bool → Ann → Val → Raw
  | _, .none, _ => .raisedOther                                  -- None.__module__
  | _, .cls c, v => clsNode env c v
  | _, .clsF c names anns, v => clsFNode env c names v (fun vnames xs => fieldsRaw env orc false names anns vnames xs)
  | _, .any, _ => anyNode
  | _, .union sp ms, v => unionNode sp ms.length (anyRaw env orc false ms v)
  | _, .literal ls, v => literalNode ls v
  | _, .newType s, v => .ok (env.sub (v.typeOf env) s)
  | pc, .typeOf sp0 a, v => typeOfNode env pc sp0 a v
  | _, .fwd n, v => fwdNode env n v
  | _, .strAnn _, _ => .raisedOther                               -- a string is only handled at top level (`_check_type`)
  | pc, .seq sp0 o a, v => seqNode env pc sp0 o a v (fun pc' x => isInstance env orc pc' a x)
  | pc, .map sp0 o k w, v => mapNode env pc sp0 o k w v (fun pc' x => isInstance env orc pc' k x) (fun pc' x => isInstance env orc pc' w x)
  | pc, .tuple sp0 items, v => tupleNode env pc sp0 items v (fun pc' xs => zipRaw env orc pc' items xs)
  | pc, .tupleVar sp0 a, v => tupleVarNode env pc sp0 a v (fun pc' x => isInstance env orc pc' a x)
  | _, .bare o, v => bareNode env o v
  | _, .special k, v => orc k v
/-- `any([_is_instance(value, typ) for typ in args])`: every member is evaluated, exceptions propagate -/
def anyRaw (env : Env) (orc : Nat → Val → Raw) : Bool → List Ann → Val → Raw
  | _, [], _ => .ok false
  | pc, a :: as, v => anyStep (isInstance env orc pc a v) (anyRaw env orc pc as v)
/-- `all(_is_instance(val, type_) for val, type_ in zip(tup, type_args))` -/
def zipRaw (env : Env) (orc : Nat → Val → Raw) : Bool → List Ann → List Val → Raw
  | pc, a :: as, x :: xs => (isInstance env orc pc a x).and2 fun _ => zipRaw env orc pc as xs
  | _, _, _ => .ok true
/-- `all([_is_instance(as_dict[k], v) for k, v in field_types.items() if k in as_dict])`: a list, every present field is evaluated -/
def fieldsRaw (env : Env) (orc : Nat → Val → Raw) : Bool → List NameId → List Ann → List NameId → List Val → Raw
  | pc, n :: ns, a :: as, vnames, xs =>
      match lookupField vnames xs n with
      | Option.none => fieldsRaw env orc pc ns as vnames xs    -- `if k in as_dict`: an annotation the value has no field for is skipped
      | some x => allStep (isInstance env orc pc a x) (fieldsRaw env orc pc ns as vnames xs)
  | _, _, _, _, _ => .ok true
end

/-- the string branch of `_check_type` when the name is compared with class names (no class of the context has that name, or
    - before the repair - always): the names of the whole MRO, or - before the repair - of the class and its first base -/
def strAnnByName (env : Env) (n : NameId) (v : Val) : Out :=
  if strBranchComparesMro then (if (env.mroNames (v.typeOf env)).contains n then .accept else .reject)
  else
    match env.baseName (v.typeOf env) with
    | Option.none =>
        if strBranchGuardsNoneBase then (if env.name (v.typeOf env) == n then .accept else .reject)
        else .escape                                         -- object().__class__.__base__ is None
    | some bn => if env.name (v.typeOf env) == n || bn == n then .accept else .reject

/-- `_check_type` -/
def checkType (env : Env) (orc : Nat → Val → Raw) (a : Ann) (v : Val) : Out :=
  match a with
  | .none => if v.isNone then .accept else .reject             -- `value == type_`
  | .strAnn n =>                                               -- outside the try
      match (if strBranchResolvesInContext then env.ctx n else Option.none) with
      | some c => if env.sub (v.typeOf env) c then .accept else .reject      -- the name is a class of the context: isinstance
      | Option.none => strAnnByName env n v
  | a => wrap (isInstance env orc false a v)

end PedVerif.Checker
