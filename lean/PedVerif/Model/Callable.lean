import PedVerif.Gen.Callable
/-!
Model of the `Callable[...]` part of the runtime type checker
(`pedantic/type_checking_logic/check_types.py`: `_instancecheck_callable`, `_is_lambda`, `_is_subtype`,
`_get_class_of_type_annotation`, and the route `_is_instance` takes to them), for values that are functions.

The main checker model (`PedVerif.Checker`) treats a `Callable[...]` annotation as an oracle node; this file is the
separate model of that node on the *simple fragment*:

* expected / declared types `TA`: classes, `Any`, `None` (= the class `NoneType`), unions of classes (either spelling),
  one-parameter generics `G[t]` (`List[t]`, `Sequence[t]`, `Awaitable[t]`, …), and `G[Any, Any, t]` (`Coroutine[Any, Any, t]`);
* values: `None`, non-callables, callables described by what `inspect` reports about them (is there a `__name__`, is it
  `'<lambda>'`, does `inspect.signature` succeed and with which parameters / annotations / defaults, is it a coroutine function);
* annotations `Callable[[A1..An], R]`, `Callable[..., R]` in the `typing` and the `collections.abc` spelling, alone or one
  level inside `Optional[·]`, `List[·]`, `Dict[str, ·]`.

Decision points, constants, comparison operators and exception lists come from `PedVerif.Gen.Callable`, which the translator
(`harness/gen/callable.py`) regenerates from the source on every run.  Facts about the *environment* (CPython) that the model
relies on are marked `[env]`; they are exercised by the correspondence check, not proved.
-/
namespace PedVerif.Callable
open PedVerif.Gen.Callable

abbrev ClsId := Nat
/-- identifies a generic alias of the `typing` module; one-parameter and three-parameter generics have separate id spaces -/
abbrev GenId := Nat

/-- a type as it appears inside `Callable[...]` or as an annotation of a function -/
inductive TA where
  | cls (c : ClsId)                        -- a class (also `NoneType`, `object`, `list`)
  | any                                    -- typing.Any
  | union (pep604 : Bool) (cs : List ClsId) -- Union[c1, .., cn] / Optional[c] (pep604 = false) or c1 | .. | cn (true)
  | gen1 (g : GenId) (t : TA)              -- G[t] for a one-parameter generic alias of `typing`
  | gen3 (g : GenId) (t : TA)              -- G[Any, Any, t] for a three-parameter generic alias of `typing` (Coroutine)
deriving DecidableEq, Repr, Inhabited

/-- what `inspect` reports as the annotation of a parameter / as the return annotation -/
inductive Ann where
  | empty                                  -- `inspect._empty`: no annotation
  | none                                   -- the literal `None` (as in `-> None`)
  | ty (t : TA)
deriving DecidableEq, Repr, Inhabited

structure FParam where
  ann : Ann
  hasDefault : Bool                        -- `*args`, `**kwargs` and keyword-only parameters without default: false
deriving DecidableEq, Repr, Inhabited

/-- `obj.__name__` -/
inductive NameR where
  | missing                                -- AttributeError (functools.partial, instances with `__call__`)
  | lambda                                 -- '<lambda>'
  | other
deriving DecidableEq, Repr, Inhabited

/-- `inspect.signature(obj)` -/
inductive SigR where
  | ok (ps : List FParam) (ret : Ann)
  | typeError                              -- "… is not a callable object" / unsupported callable
  | valueError                             -- "no signature found for builtin type <class 'int'>"
deriving DecidableEq, Repr, Inhabited

/-- a value, seen through `is None`, `callable`, `__name__`, `inspect.signature`, `inspect.iscoroutinefunction` -/
inductive CVal where
  | none
  | nonCallable
  | callable (name : NameR) (sig : SigR) (coro : Bool)
deriving DecidableEq, Repr, Inhabited

/-- values for the one-level wrappers: a leaf, a `list` of leaves, a `dict` (key is a `str`?, leaf) -/
inductive Val where
  | leaf (v : CVal)
  | list (xs : List CVal)
  | dict (kvs : List (Bool × CVal))
deriving DecidableEq, Repr, Inhabited

/-- the type arguments of a `Callable[...]`: `ps = none` is `...` -/
structure Exp where
  ps : Option (List TA)
  ret : TA
deriving DecidableEq, Repr, Inhabited

inductive Spelling where
  | typing                                 -- typing.Callable[...]
  | abc                                    -- collections.abc.Callable[...]
deriving DecidableEq, Repr, Inhabited

inductive Wrap where
  | bare                                   -- Callable[...]
  | optional                               -- Optional[Callable[...]]
  | listOf                                 -- List[Callable[...]]
  | dictStrOf                              -- Dict[str, Callable[...]]
deriving DecidableEq, Repr, Inhabited

structure Expected where
  wrap : Wrap
  sp : Spelling
  e : Exp
deriving DecidableEq, Repr, Inhabited

/-- exceptions raised inside `_is_instance` -/
inductive Exc where
  | attributeError | typeError | valueError | indexError
deriving DecidableEq, Repr, Inhabited

/-- what `_is_instance` / a checker does: returns a bool or raises -/
inductive Raw where
  | ok (b : Bool)
  | raised (x : Exc)
deriving DecidableEq, Repr, Inhabited

/-- facts about the classes in use, read from the live interpreter by the harness -/
structure Env where
  sub : ClsId → ClsId → Bool               -- issubclass
  object : ClsId
  noneCls : ClsId                          -- NoneType
  origin1 : GenId → ClsId                  -- `__origin__` of a one-parameter generic (List ↦ list, Awaitable ↦ collections.abc.Awaitable)
  origin3 : GenId → ClsId                  -- `__origin__` of a three-parameter generic (Coroutine ↦ collections.abc.Coroutine)
  awaitableGen : GenId                     -- the one-parameter generic that is `typing.Awaitable`
  coroutineGen : GenId                     -- the three-parameter generic that is `typing.Coroutine`
  bareBuiltin : ClsId → Bool               -- the class is one of `list set dict frozenset tuple type` (`convert_to_typing_types` refuses them)

/-! ### `_get_class_of_type_annotation` and `_is_subtype` -/

/-- `_get_class_of_type_annotation` for a type that is not a Union: `Any ↦ object`, a typing generic ↦ its `__origin__`,
    a class ↦ itself -/
def clsOf (env : Env) : TA → ClsId
  | .cls c => c
  | .any => env.object
  | .gen1 g _ => env.origin1 g
  | .gen3 g _ => env.origin3 g
  | .union _ _ => env.object               -- never used: unions are classified by `supHead` before

/-- how `_is_subtype` classifies its super type: the first two tests of the function -/
inductive SupHead where
  | object                                 -- `python_super is object`
  | union (cs : List ClsId)                -- `python_super == typing.Union or isinstance(python_super, types.UnionType)`
  | cls (sc : ClsId)                       -- everything else: `python_super` is the class `sc`
deriving DecidableEq, Repr

def supHead (env : Env) : TA → SupHead
  | .union _ cs => .union cs
  | t => if objectShortcut && clsOf env t == env.object then .object else .cls (clsOf env t)

/-- `try: return issubclass(python_sub, python_super) except TypeError: return False` when `python_sub` is not a class
    (a PEP 604 union) -/
def notAClass : Raw :=
  if nonGenericCatchesTypeError then .ok nonGenericCatchResult else .raised .typeError

/-! #### a sub type against a super type that is the *class* `d` (what `_is_subtype` is called with for every member of a Union
super type once the Union branch asks `_is_subtype` instead of `in`).  None of these can raise: both sides are classes. -/

/-- `_is_subtype(<class c>, <class d>)` -/
def clsVsCls (env : Env) (c d : ClsId) : Bool :=
  if objectShortcut && d == env.object then objectShortcutResult else env.sub c d

/-- `_is_subtype(Any, <class d>)`: `python_sub = object` -/
def anyVsCls (env : Env) (d : ClsId) : Bool :=
  if objectShortcut && d == env.object then objectShortcutResult else env.sub env.object d

/-- `_is_subtype(inspect._empty, <class d>)`.  [env] `class _empty` has no base but `object` -/
def emptyVsCls (env : Env) (d : ClsId) : Bool :=
  if objectShortcut && d == env.object then objectShortcutResult else d == env.object

/-- what the generic path answers once the origins are related and the super type has no type arguments:
    `if not super_args: return …` (new) / the argument-count test (`n` sub arguments against 0) and `all(())` -/
def rawSuper (n : Nat) : Bool :=
  if rawSuperShortcut then rawSuperResult else if argLenMismatch n 0 then argLenMismatchResult else true

/-- `_is_subtype(G[…] with origin o and n type arguments, <class d>)` -/
def genVsCls (env : Env) (o : ClsId) (n : Nat) (d : ClsId) : Bool :=
  if objectShortcut && d == env.object then objectShortcutResult
  else if !env.sub o d then genericOriginFailResult else rawSuper n

/-- sub type is a class `c` (not generic) -/
def isSubtypeClsB (env : Env) (c : ClsId) (sup : TA) : Bool :=
  match supHead env sup with
  | .object => objectShortcutResult
  | .union cs => if unionSuperBySubtype then cs.any (clsVsCls env c)    -- `any(_is_subtype(sub_type, ta) for ta in type_args)`
                 else cs.contains c                                      -- `sub_type in type_args`
  | .cls sc => env.sub c sc

def isSubtypeCls (env : Env) (c : ClsId) (sup : TA) : Raw := .ok (isSubtypeClsB env c sup)

/-- sub type is `Any`: `python_sub = object`; `Any in type_args` is False for a union of classes -/
def isSubtypeAny (env : Env) (sup : TA) : Raw :=
  match supHead env sup with
  | .object => .ok objectShortcutResult
  | .union cs => .ok (if unionSuperBySubtype then cs.any (anyVsCls env) else false)
  | .cls sc => .ok (env.sub env.object sc)

/-- sub type is `inspect._empty` (no annotation).  [env] `class _empty` has no base but `object` and is no member of a Union -/
def isSubtypeEmpty (env : Env) (sup : TA) : Raw :=
  match supHead env sup with
  | .object => .ok objectShortcutResult
  | .union cs => .ok (if unionSuperBySubtype then cs.any (emptyVsCls env) else false)
  | .cls sc => .ok (sc == env.object)

/-- sub type is a Union.
    Old shape: only a Union super type looks at the members (`all([x in type_args …])`); against a class `typing.Union[...]`
    is a `typing._GenericAlias`, so it takes the *generic* path, where `issubclass(typing.Union, cls)` raises a TypeError outside
    every `try`, and `X | Y` is not generic for `_is_generic`, so it takes the guarded path.
    New shapes: `all(_is_subtype(sub_type=x, super_type=super_type) for x in members)` — inside the Union-super-type branch
    (`subUnionByMembers`) or, hoisted, against every super type (`subUnionHoisted`).  The members are classes: no raise. -/
def isSubtypeUnion (env : Env) (pep604 : Bool) (ds : List ClsId) (sup : TA) : Raw :=
  let byMembers : Bool := if unionSubQuantAll then ds.all (fun c => isSubtypeClsB env c sup) else ds.any (fun c => isSubtypeClsB env c sup)
  match supHead env sup with
  | .object => .ok objectShortcutResult
  | .union cs =>
    if subUnionHoisted || subUnionByMembers then .ok byMembers
    else .ok (if unionSubQuantAll then ds.all cs.contains else ds.any cs.contains)
  | .cls _ =>
    if subUnionHoisted then .ok byMembers
    else if pep604 then notAClass else .raised .typeError

/-- `all(<generator>)`: the second check only runs when the first returned True -/
def Raw.andThen (a : Raw) (b : Raw) : Raw :=
  match a with
  | .ok true => b
  | r => r

/-- `_is_subtype(sub_type=sub, super_type=sup)` for a sub type that is a `TA` -/
def isSubtypeT (env : Env) : TA → TA → Raw
  | .cls c, sup => isSubtypeCls env c sup
  | .any, sup => isSubtypeAny env sup
  | .union p ds, sup => isSubtypeUnion env p ds sup
  | .gen1 g s, sup =>
    match supHead env sup with
    | .object => .ok objectShortcutResult
    | .union cs => .ok (if unionSuperBySubtype then cs.any (genVsCls env (env.origin1 g) 1) else false)   -- old: `List[..] in type_args`
    | .cls sc =>
      if !env.sub (env.origin1 g) sc then .ok genericOriginFailResult else
      match sup with                                       -- sub_args = (s,)
      | .gen1 _ t => if argLenMismatch 1 1 then .ok argLenMismatchResult else isSubtypeT env s t
      | .gen3 _ _ => if argLenMismatch 1 3 then .ok argLenMismatchResult else isSubtypeT env s .any
      | _ => .ok (rawSuper 1)                              -- super_args = ()
  | .gen3 g s, sup =>
    match supHead env sup with
    | .object => .ok objectShortcutResult
    | .union cs => .ok (if unionSuperBySubtype then cs.any (genVsCls env (env.origin3 g) 3) else false)
    | .cls sc =>
      if !env.sub (env.origin3 g) sc then .ok genericOriginFailResult else
      match sup with                                       -- sub_args = (Any, Any, s)
      | .gen3 _ t => if argLenMismatch 3 3 then .ok argLenMismatchResult
                     else (isSubtypeAny env .any).andThen ((isSubtypeAny env .any).andThen (isSubtypeT env s t))
      | .gen1 _ t => if argLenMismatch 3 1 then .ok argLenMismatchResult else isSubtypeAny env t
      | _ => .ok (rawSuper 3)

/-- `_is_subtype(sub_type=<annotation reported by inspect>, super_type=sup)` -/
def isSubtype (env : Env) : Ann → TA → Raw
  | .empty, sup => isSubtypeEmpty env sup
  | .none, sup => if subNoneNormalised then isSubtypeCls env env.noneCls sup else .raised .attributeError
  | .ty t, sup => isSubtypeT env t sup

/-! ### `_instancecheck_callable` -/

/-- `non_optional_params` -/
def required (ps : List FParam) : List FParam := ps.filter (fun p => !p.hasDefault)

/-- the `for param, expected_type in zip(...)` loop: `none` = the loop ran to its end, `some r` = the function returned / raised -/
def paramsLoop (env : Env) : List FParam → List TA → Option Raw
  | p :: ps, t :: ts =>
    match isSubtype env p.ann t with
    | .ok true => paramsLoop env ps ts
    | .ok false => some (.ok paramFailResult)
    | .raised x => some (.raised x)
  | _, _ => none

/-- does an `except <names>:` clause catch the exception -/
def catches (names : List String) : Exc → Bool
  | .attributeError => names.contains "AttributeError" || names.contains "Exception" || names.contains "BaseException"
  | .typeError => names.contains "TypeError" || names.contains "Exception" || names.contains "BaseException"
  | .valueError => names.contains "ValueError" || names.contains "Exception" || names.contains "BaseException"
  | .indexError => names.contains "IndexError" || names.contains "LookupError" || names.contains "Exception" || names.contains "BaseException"

/-- `get_type_arguments(ret_type)[i]` followed by the return-type test of a coroutine function -/
def pickArg (env : Env) (ret : Ann) (args : List TA) (i : Nat) : Raw :=
  match args[i]? with
  | some a => if coroReturnChecked then isSubtype env ret a else .ok true
  | none => .raised .indexError

/-- a coroutine function against an expected return type that is neither Awaitable[..] nor Coroutine[..]:
    `return _get_class_of_type_annotation(ret_type) is object` (a Union is `typing.Union` / a `types.UnionType`, never `object`),
    or the constant the source returns -/
def coroOther (env : Env) (eret : TA) : Raw :=
  if coroOtherTopTest then
    (match eret with
     | .union _ _ => .ok false
     | t => .ok (clsOf env t == env.object))
  else .ok coroOtherResult

/-- the tail of `_instancecheck_callable` after the parameter block -/
def retCheck (env : Env) (coro : Bool) (ret : Ann) (eret : TA) : Raw :=
  if !(coroTest && coro) then
    (if syncReturnChecked then isSubtype env ret eret else .ok syncReturnConst)
  else
    match eret with                                        -- base = get_base_generic(ret_type)
    | .gen1 g t => if g == env.awaitableGen then pickArg env ret [t] awaitableArgIndex else coroOther env eret
    | .gen3 g t => if g == env.coroutineGen then pickArg env ret [.any, .any, t] coroutineArgIndex else coroOther env eret
    | _ => coroOther env eret

/-- `_is_lambda(obj)`: `callable(obj) and obj.__name__ == '<lambda>'` -/
def isLambda (isCallable : Bool) (name : NameR) : Raw :=
  if !isCallable then .ok false else
  match name with
  | .missing => if lambdaNameGuarded then .ok false else .raised .attributeError
  | .lambda => .ok true
  | .other => .ok false

def sigFails (x : Exc) : Raw := if catches sigCaught x then .ok sigHandlerResult else .raised x

/-- `_instancecheck_callable` from `inspect.signature` on -/
def checkSig (env : Env) (sig : SigR) (coro : Bool) (e : Exp) : Raw :=
  match sig with
  | .typeError => sigFails .typeError
  | .valueError => sigFails .valueError
  | .ok ps ret =>
    let pre : Option Raw :=
      match e.ps with
      | none => none                                       -- `param_types is Ellipsis`
      | some ts =>
        if arityMismatch ts.length (required ps).length then some (.ok arityMismatchResult)
        else paramsLoop env (if zipAllParams then ps else required ps) ts
    match pre with
    | some r => r
    | none => retCheck env coro ret e.ret

/-- `_instancecheck_callable` after the `None` test -/
def checkObj (env : Env) (isCallable : Bool) (name : NameR) (sig : SigR) (coro : Bool) (e : Exp) : Raw :=
  match (if lambdaShortcut then isLambda isCallable name else .ok false) with
  | .raised x => .raised x
  | .ok true => .ok lambdaResult
  | .ok false => checkSig env sig coro e

/-- `_instancecheck_callable(value, type_, …)`.  [env] `inspect.signature` of a non-callable raises TypeError. -/
def checkCallable (env : Env) (v : CVal) (e : Exp) : Raw :=
  match v with
  | .none => if noneGuard then .ok noneResult else checkObj env false .missing .typeError false e
  | .nonCallable => checkObj env false .missing .typeError false e
  | .callable name sig coro => checkObj env true name sig coro e

/-! ### the route from `_is_instance` -/

/-- [env] `typing.Callable[(a, r)]` is `Callable[[a], r]`, `typing.Callable[(..., r)]` is `Callable[..., r]`, a tuple of any
    other length raises TypeError ("Callable must be used as Callable[[arg, ...], result]"). -/
def abcConvertible (e : Exp) : Bool :=
  match e.ps with
  | none => true
  | some ts => ts.length == 1

def isBareArg (env : Env) : TA → Bool
  | .cls c => env.bareBuiltin c
  | _ => false

/-- `collections.abc.Callable[...]` is a `types.GenericAlias`: `_is_instance` sends it through `convert_to_typing_types`,
    which (1) converts every element of the flat `__args__` — a bare `list` / `dict` / … there raises
    ValueError('Missing type arguments'), typing constructs are returned unchanged — and (2) re-subscripts `typing.Callable`
    with the *flat* tuple (old shape).  `none` = the conversion yields the same annotation in the typing spelling. -/
def abcRoute (env : Env) (e : Exp) : Option Exc :=
  if convertAbcCallable then
    -- new shape: `if origin is collections.abc.Callable:` rebuilds `typing.Callable[flat[:-1], flat[-1]]` for every arity
    (if !convertAbcBareTolerated && ((e.ps.getD []) ++ [e.ret]).any (isBareArg env) then some .valueError else none)
  else if ((e.ps.getD []) ++ [e.ret]).any (isBareArg env) then some .valueError
  else if abcConvertible e then none
  else some .typeError

/-- `_is_instance(obj, <Callable[...] in the given spelling>)` -/
def leafCheck (env : Env) (sp : Spelling) (e : Exp) (v : CVal) : Raw :=
  match sp with
  | .typing => checkCallable env v e                      -- `_SPECIAL_INSTANCE_CHECKERS['Callable']`
  | .abc =>
    match abcRoute env e with
    | none => checkCallable env v e
    | some x => .raised x

/-- a container value seen as an argument of `_instancecheck_callable`: not callable -/
def Val.asLeaf : Val → CVal
  | .leaf v => v
  | _ => .nonCallable

def Val.isNone : Val → Bool
  | .leaf .none => true
  | _ => false

/-- `_instancecheck_iterable`: `all(_is_instance(val, type_) for val in iterable)` — stops at the first False / raise -/
def checkList (env : Env) (sp : Spelling) (e : Exp) : List CVal → Raw
  | [] => .ok true
  | v :: vs =>
    match leafCheck env sp e v with
    | .ok true => checkList env sp e vs
    | r => r

/-- `_instancecheck_items_view`: `all(key ok and value ok for key, val in items)`; the key type is `str` -/
def checkDict (env : Env) (sp : Spelling) (e : Exp) : List (Bool × CVal) → Raw
  | [] => .ok true
  | (k, v) :: kvs =>
    if !k then .ok false else
    match leafCheck env sp e v with
    | .ok true => checkDict env sp e kvs
    | r => r

/-- `_is_instance(obj, annotation)` for the annotations of this model -/
def check (env : Env) (x : Expected) (v : Val) : Raw :=
  match x.wrap with
  | .bare => leafCheck env x.sp x.e v.asLeaf
  | .optional =>
    -- `_check_union`: `any([_is_instance(value, typ) for typ in (Callable[...], NoneType)])` — a list, so both members are
    -- evaluated and an exception of the first one wins
    match leafCheck env x.sp x.e v.asLeaf with
    | .raised ex => .raised ex
    | .ok b => .ok (b || v.isNone)
  | .listOf =>
    match v with
    | .list xs => checkList env x.sp x.e xs
    | _ => .ok false                                       -- `not isinstance(obj, list)`
  | .dictStrOf =>
    match v with
    | .dict kvs => checkDict env x.sp x.e kvs
    | _ => .ok false

/-! ### `_check_type` / `assert_value_matches_type` -/

/-- what the caller of `assert_value_matches_type` observes -/
inductive Out where
  | accept                                 -- returns normally
  | typeCheck (inner : Option Exc)         -- PedanticTypeCheckException; `inner` = the exception it replaced, if any
  | escape (x : Exc)                       -- anything else leaves the library
deriving DecidableEq, Repr, Inhabited

/-- the exception an arm of `_check_type`'s `try` raises for `x`, if an arm catches it (arms in source order) -/
def handledBy : List (List String × String) → Exc → Option String
  | [], _ => none
  | (names, raises) :: rest, x => if catches names x then some raises else handledBy rest x

def assertValue (env : Env) (x : Expected) (v : Val) : Out :=
  match check env x v with
  | .ok true => .accept
  | .ok false => if falseRaisesTypeCheck then .typeCheck none else .accept
  | .raised ex =>
    match handledBy checkTypeHandlers ex with
    | some "PedanticTypeCheckException" => .typeCheck (some ex)
    | _ => .escape ex

end PedVerif.Callable
