import PedVerif.Gen.Validators
/-!
Model of `pedantic/decorators/fn_deco_validate/validators/*.py` and `convert_value.py` (C14).

* `Min`, `Max`, `MinLength`, `MaxLength`, `NotEmpty`: the *generated* translations in `PedVerif.Gen.Validators`
  (regenerated from the source on every run), lifted to `Val`.
* `Email`, `IsUuid`, `IsEnum`, `MatchPattern`, `DatetimeIsoFormat`, `DateTimeUnixTimestamp`: the *generated* translations of their
  bodies as well; the stdlib callees (`re`, `uuid.UUID(str(·))`, `isinstance(·, str)`, `str.upper`, `int`, `Enum(·)`,
  `datetime.fromisoformat`, `float`, `timedelta`) are opaque function parameters whose answers (`Orc`) travel with the case.
  For `Email` with the default pattern the `re` callee is a hand-written matcher for exactly the generated `REGEX_EMAIL` under
  `re.fullmatch`; for `DateTimeUnixTimestamp` the date arithmetic `datetime(y, m, d) + timedelta` is computed here.
* `ForEach` / `Composite`: trees over abstract leaf validators (`sem`).
* `convert_value`: its structure tables are generated; `str()` of bool/int/None/str, `strip`, `lower`, `split`, `int(str)` are
  computed here, `str()` of other values and `float(str)` are oracle answers.
-/
namespace PedVerif.Validators
open PedVerif.Gen.Validators

/-! ### Min / Max / MinLength / MaxLength / NotEmpty (generated bodies) -/

/-- the translated code returns a number: the argument itself (then the caller gets the same object back) or another one -/
def liftNum (v : Val) (x : Num) : VRes Num → VRes Val
  | .ok n => if n = x then .ok v else .ok (.float n false)
  | .raises e => .raises e

/-- `Min(bound, incl).validate(v)`; comparing a number with a non-number is Python's `TypeError` (outside the domain) -/
def vMin (bound : Val) (incl : Bool) (v : Val) : VRes Val :=
  match bound.toNum, v.toNum with
  | some b, some x => liftNum v x (minValidate b incl x)
  | _, _ => .raises .typeError

def vMax (bound : Val) (incl : Bool) (v : Val) : VRes Val :=
  match bound.toNum, v.toNum with
  | some b, some x => liftNum v x (maxValidate b incl x)
  | _, _ => .raises .typeError

def vMinLength (n : Int) (v : Val) : VRes Val := minLengthValidate n v
def vMaxLength (n : Int) (v : Val) : VRes Val := maxLengthValidate n v
def vNotEmpty (isSpace : Char → Bool) (strp : Bool) (v : Val) : VRes Val := notEmptyValidate isSpace strp v

/-! ### Email: the default pattern `[^@\s]+@[^@\s]+\.[a-zA-Z0-9]+$` under `re.fullmatch` -/

/-- `[a-zA-Z0-9]` (ASCII only) -/
def isA (c : Char) : Bool := (c ≥ 'a' && c ≤ 'z') || (c ≥ 'A' && c ≤ 'Z') || (c ≥ '0' && c ≤ '9')
/-- `[^@\s]` -/
def isC (isSpace : Char → Bool) (c : Char) : Bool := c != '@' && !isSpace c

/-- split at the last occurrence of `d` -/
def splitLast (d : Char) (s : List Char) : Option (List Char × List Char) :=
  match s.reverse.dropWhile (· != d) with
  | _ :: dRev => some (dRev.reverse, (s.reverse.takeWhile (· != d)).reverse)
  | [] => none

/-- the matcher: split at the first `@`, split the remainder at its last `.`, check the three parts -/
def emailMatch (isSpace : Char → Bool) (s : List Char) : Bool :=
  match s.dropWhile (· != '@') with
  | _ :: rest =>
      !(s.takeWhile (· != '@')).isEmpty && (s.takeWhile (· != '@')).all (isC isSpace) &&
      (match splitLast '.' rest with
       | some (d, t) => !d.isEmpty && d.all (isC isSpace) && !t.isEmpty && t.all isA
       | none => false)
  | [] => false

/-- what `re.fullmatch(REGEX_EMAIL, x)` answers: the hand-written matcher on a str, `TypeError` on anything else
    (outside the domain) -/
def emailFullmatch (isSpace : Char → Bool) : Val → Orc Bool
  | .str s => .ok (emailMatch isSpace s)
  | _ => .raises .typeError

/-- `Email().validate(v)` with the default pattern; `post` is the `post_processor`: the generated translation of the body,
    with the matcher of the default pattern as its `re` callee -/
def vEmail (isSpace : Char → Bool) (post : Val → Val) (v : Val) : VRes Val :=
  emailValidate (emailFullmatch isSpace) post v

/-- `Email(email_pattern=p).validate(v)` for another pattern: `reMatch x` is the answer of `re.fullmatch(p, x)` -/
def vEmailCustom (reMatch : Val → Orc Bool) (post : Val → Val) (v : Val) : VRes Val :=
  emailValidate reMatch post v

/-! ### validators that ask the standard library: the generated translations of their bodies; the callees are parameters -/

/-- `MatchPattern(p).validate(v)`: `reMatch x` is the answer of `re.compile(p).search(str(x))` -/
def vMatchPattern (reMatch : Val → Orc Bool) (v : Val) : VRes Val := matchPatternValidate reMatch v

/-- `IsUuid(convert).validate(v)`: `uuidOfStr x` is the answer of `uuid.UUID(str(x))` -/
def vIsUuid (convert : Bool) (uuidOfStr : Val → Orc Val) (v : Val) : VRes Val := isUuidValidate convert uuidOfStr v

/-- what `IsEnum.validate` asks: `isinstance(x, str)` (true also for members of a StrEnum), `x.upper()`,
    `issubclass(enum, IntEnum)`, `int(x)` and `enum(x)` -/
structure EnumEnv where
  isStrInst : Val → Bool
  upperOf : Val → Val
  isIntEnum : Bool
  intOf : Val → Orc Val
  enumOf : Val → Orc Val

def vIsEnum (convert toUpper : Bool) (env : EnumEnv) (v : Val) : VRes Val :=
  isEnumValidate convert toUpper env.isStrInst env.upperOf env.isIntEnum env.intOf env.enumOf v

/-- `DatetimeIsoFormat().validate(v)`: `fromIso x` is the answer of `datetime.fromisoformat(x)` -/
def vIso (fromIso : Val → Orc Val) (v : Val) : VRes Val := datetimeIsoFormatValidate fromIso v

/-- microseconds from 1970-01-01 to `datetime.min` / `datetime.max` -/
def minUs : Int := -62135596800000000
def maxUs : Int := 253402300799999999

/-- a naive datetime, as microseconds since 1970-01-01T00:00:00 -/
def mkDatetime (us : Int) : Val := .ext "datetime_us" (toString us)

/-- days from 1970-01-01 to the civil date `y-m-d` of the proleptic Gregorian calendar (years ≥ 1, as `datetime` has them) -/
def daysFromCivil (y m d : Int) : Int :=
  let y' := if m ≤ 2 then y - 1 else y
  let era := y' / 400
  let yoe := y' - era * 400
  let mp := (m + 9) % 12
  let doy := (153 * mp + 2) / 5 + d - 1
  let doe := yoe * 365 + yoe / 4 - yoe / 100 + doy
  era * 146097 + doe - 719468

/-- the literal date `[y, m, d]` in microseconds since 1970-01-01T00:00:00; `none` when the list is not such a date (the source
    adds the seconds to something that is not a literal date) -/
def epochUsOf : List Int → Option Int
  | [y, m, d] => some (daysFromCivil y m d * 86400 * 1000000)
  | _ => none

/-- the date the source adds the seconds to (generated: the literal `datetime(<y>, <m>, <d>)` of the `return` statement) -/
def epochUs : Option Int := epochUsOf dateTimeUnixTimestampEpoch

/-- `datetime(y, m, d) + <timedelta of us microseconds>`: `OverflowError("date value out of range")` outside
    `[datetime.min, datetime.max]` -/
def datetimePlus (ymd : List Int) (us : Int) : Orc Val :=
  match epochUsOf ymd with
  | some e => if minUs ≤ e + us ∧ e + us ≤ maxUs then .ok (mkDatetime (e + us)) else .raises .overflowError
  | none => .raises (.other "the seconds are not added to a literal date")

/-- `DateTimeUnixTimestamp().validate(v)`: `floatOf x` is the answer of `float(x)`, `timedeltaOf s` that of
    `timedelta(seconds=s)` in whole microseconds; the date arithmetic is computed (`datetimePlus`) -/
def vUnix (floatOf : Val → Orc Num) (timedeltaOf : Num → Orc Int) (v : Val) : VRes Val :=
  dateTimeUnixTimestampValidate floatOf timedeltaOf datetimePlus v

/-! ### what the standard-library callees can raise (environment facts; every class listed here is produced by some
    generated case, and the harness reports any class outside these lists as an internal inconsistency) -/

/-- `uuid.UUID(str(v))` -/
def uuidRaises : List Exc := [.valueError]
/-- `enum(x)`: "x is not a valid E" -/
def enumLookupRaises : List Exc := [.valueError]
/-- `int(x)`: bad literal / NaN, unsupported type, ±inf -/
def intOfRaises : List Exc := [.valueError, .typeError, .overflowError]
/-- `datetime.fromisoformat(v)` -/
def isoRaises : List Exc := [.typeError, .valueError]
/-- `float(v)` for an int, float or str: bad literal, int too large -/
def floatOfRaises : List Exc := [.valueError, .overflowError]
/-- `timedelta(seconds=x)`: magnitude too large / inf, NaN -/
def timedeltaRaises : List Exc := [.overflowError, .valueError]

/-- `str(v)`: an int beyond the interpreter's digit limit -/
def strOfRaises : List Exc := [.valueError]

/-- the oracle answer raises only classes from the list -/
def Orc.raisesWithin {α : Type} (o : Orc α) (l : List Exc) : Prop := ∀ e, o = .raises e → e ∈ l

/-! ### ForEach / Composite over abstract leaves -/

inductive VT where
  | leaf (i : Nat)
  | forEach (chain : List VT)
  | composite (children : List VT)
deriving Repr

/-- `for item in value: … results.append(f(item))`; the first exception ends the loop -/
def eachItem (f : Val → VRes Val) : List Val → VRes (List Val)
  | [] => .ok []
  | x :: xs =>
    match f x with
    | .ok y => (match eachItem f xs with | .ok ys => .ok (y :: ys) | .raises e => .raises e)
    | .raises e => .raises e

mutual
/-- `validator.validate(value)` for a tree; `sem i` is what leaf `i` does -/
def run (sem : Nat → Val → VRes Val) : VT → Val → VRes Val
  | .leaf i, x => sem i x
  | .forEach ch, x =>
    if !x.isIterable then .raises forEachRejects
    else match x.items with
      | some xs => (match eachItem (fun it => runChain sem ch it) xs with | .ok ys => .ok (.list ys) | .raises e => .raises e)
      | none => .raises forEachRejects
  | .composite cs, x =>
    match runAll sem cs x with
    | none => .ok x
    | some e => .raises e
/-- `for validator in self._validators: item = validator.validate(item)` -/
def runChain (sem : Nat → Val → VRes Val) : List VT → Val → VRes Val
  | [], x => .ok x
  | v :: vs, x => match run sem v x with | .ok y => runChain sem vs y | .raises e => .raises e
/-- `for validator in self: validator.validate(value)` (results discarded); the first exception, if any -/
def runAll (sem : Nat → Val → VRes Val) : List VT → Val → Option Exc
  | [], _ => none
  | v :: vs, x => match run sem v x with | .ok _ => runAll sem vs x | .raises e => some e
end

/-! ### convert_value -/

inductive Target where
  | bool | int | float | str | list | dict
deriving DecidableEq, Repr

def Target.name : Target → String
  | .bool => "bool" | .int => "int" | .float => "float" | .str => "str" | .list => "list" | .dict => "dict"

/-- `isinstance(r, t)` for a result -/
def Val.isOfTarget (v : Val) (t : Target) : Bool := v.isInstanceOf t.name

/-- what `convert_value` needs from the interpreter beyond the ASCII range -/
structure CEnv where
  spaceTab : Char → Bool                 -- non-ASCII whitespace (for the characters in use)
  lowerTab : Char → List Char            -- `c.lower()` for non-ASCII characters
  digitTab : Char → Option Nat           -- decimal value of non-ASCII characters that `int()` accepts as digits
  maxStrDigits : Nat                     -- sys.get_int_max_str_digits()
  strOf : Val → Orc (List Char)          -- `str(v)` for floats, containers, other objects
  floatOf : List Char → Orc Val          -- `float(s)`

def CEnv.isSpace (env : CEnv) : Char → Bool := mkSpace env.spaceTab

def asciiLower (c : Char) : Char := if 'A' ≤ c ∧ c ≤ 'Z' then Char.ofNat (c.toNat + 32) else c
def lowerChar (env : CEnv) (c : Char) : List Char := if c.toNat < 128 then [asciiLower c] else env.lowerTab c
/-- `s.lower()` (character-wise; the harness only uses strings for which that is what Python does) -/
def lowerStr (env : CEnv) (s : List Char) : List Char := s.flatMap (lowerChar env)

def digitVal (env : CEnv) (c : Char) : Option Nat :=
  if c.toNat < 128 then (if '0' ≤ c ∧ c ≤ '9' then some (c.toNat - 48) else none) else env.digitTab c

def digitChar (d : Nat) : Char := Char.ofNat (48 + d)

/-- decimal digits of a natural number, most significant first -/
def natDigitsAcc : Nat → List Char → List Char
  | n, acc => if h : n < 10 then digitChar n :: acc else natDigitsAcc (n / 10) (digitChar (n % 10) :: acc)
decreasing_by omega

def natDigits (n : Nat) : List Char := natDigitsAcc n []

/-- `str(v)`: computed for None / bool / int / str, asked for otherwise.  `str(int)` raises ValueError beyond the
    interpreter's digit limit. -/
def pyStr (env : CEnv) : Val → Orc (List Char)
  | .none => .ok "None".toList
  | .bool b => .ok (if b then "True".toList else "False".toList)
  | .int i =>
    let ds := natDigits i.natAbs
    if ds.length > env.maxStrDigits then .raises .valueError
    else .ok (if i < 0 then '-' :: ds else ds)
  | .str s => .ok s
  | v => env.strOf v

/-- digits with single underscores between them: (value, number of digits) -/
def parseNatAcc (env : CEnv) : List Char → Bool → Nat → Nat → Option (Nat × Nat)
  | [], prev, acc, cnt => if prev then some (acc, cnt) else none
  | c :: cs, prev, acc, cnt =>
    if c = '_' then (if prev then parseNatAcc env cs false acc cnt else none)
    else match digitVal env c with
      | some d => parseNatAcc env cs true (acc * 10 + d) (cnt + 1)
      | none => none

/-- the sign of an int literal and the literal without it -/
def signNeg : List Char → Bool
  | '-' :: _ => true
  | _ => false
def unsign : List Char → List Char
  | '-' :: r => r
  | '+' :: r => r
  | r => r

/-- `int(s)` for a stripped string -/
def parseInt (env : CEnv) (s : List Char) : Orc Val :=
  match parseNatAcc env (unsign s) false 0 0 with
  | some (n, cnt) =>
    if cnt > env.maxStrDigits then .raises .valueError
    else .ok (.int (if signNeg s then -(n : Int) else (n : Int)))
  | none => .raises .valueError

/-- `s.split(d)` -/
def splitOn (d : Char) : List Char → List (List Char)
  | [] => [[]]
  | c :: cs =>
    if c = d then [] :: splitOn d cs
    else match splitOn d cs with
      | p :: ps => (c :: p) :: ps
      | [] => [[c]]

/-- `item.split(':')[0]` and `item.partition(':')[-1]` -/
def beforeColon (s : List Char) : List Char := s.takeWhile (· != ':')
def afterColon (s : List Char) : List Char := match s.dropWhile (· != ':') with | _ :: r => r | [] => []

/-- dict display semantics: a later duplicate key overwrites the value, the key keeps its position -/
def dictInsert (k v : List Char) : List (List Char × List Char) → List (List Char × List Char)
  | [] => [(k, v)]
  | (k', v') :: r => if k' = k then (k', v) :: r else (k', v') :: dictInsert k v r

def normalise (env : CEnv) (s : List Char) : List Char :=
  convertNormalise.foldl (fun acc m => if m = "strip" then strip env.isSpace acc else if m = "lower" then lowerStr env acc else acc) s

/-- `target_type(value)` for the normalised string `s`: what every target WITHOUT a branch of its own gets
    (`bool(s)` is the truthiness of the string, `list(s)` its characters, `dict(s)` of a non-empty string is
    `ValueError: dictionary update sequence element #0 has length 1; 2 is required`) -/
def construct (env : CEnv) (s : List Char) : Target → Orc Val
  | .bool => .ok (.bool (!s.isEmpty))
  | .int => parseInt env s
  | .float => env.floatOf s
  | .str => .ok (.str s)
  | .list => .ok (.list (s.map fun c => .str [c]))
  | .dict => if s.isEmpty then .ok (.dict []) else .raises .valueError

/-- the branch of its own that the source has for a target (for the targets it can have one for): the bool literals
    (outside the try block), the comma-separated list, the `key:value` dict (`value = {…}`, then `return dict(value)`: a copy) -/
def ownBranch (env : CEnv) (s : List Char) : Target → Option (VRes Val)
  | .bool => some (
      if convertBoolTrue.contains (String.ofList s) then .ok (.bool true)
      else if convertBoolFalse.contains (String.ofList s) then .ok (.bool false)
      else .raises convertBoolFail)
  | .list => some (.ok (.list ((splitOn ',' s).map fun it => .str (strip env.isSpace it))))
  | .dict => some (.ok (.dict ((splitOn ',' s).foldl
      (fun d it => dictInsert (strip env.isSpace (beforeColon it)) (strip env.isSpace (afterColon it)) d) [])))
  | _ => none

/-- `convert_value(value, target_type)`.  Which targets have a branch of their own is read from the generated
    `convertSpecialTargets`; every other target goes through `target_type(value)` inside the try block. -/
def convert (env : CEnv) (v : Val) (t : Target) : VRes Val :=
  if convertShortcut && v.isOfTarget t then .ok v
  else
    match pyStr env v with
    | .raises e =>                               -- `try: value = str(value)… except <convertStrCaught>: raise …`
      if catches convertStrCaught e then .raises convertStrHandlerRaises else .raises e
    | .ok s0 =>
      let s := normalise env s0
      match (if convertSpecialTargets.contains t.name then ownBranch env s t else none) with
      | some r => r
      | none => tryExcept convertCaught (.raises convertHandlerRaises) (construct env s t) (fun r => .ok r)

/-! ### the exception classes by name (links the generated `excBases` to `Exc.base`) -/

def excOfName : String → Exc
  | "ValidatorException" => .validator | "ConversionError" => .conversion | "ValidateException" => .validate
  | "ValueError" => .valueError | "TypeError" => .typeError | "OverflowError" => .overflowError
  | "AttributeError" => .attributeError | "KeyError" => .keyError | "IndexError" => .indexError
  | "ArithmeticError" => .arithmeticError | "LookupError" => .lookupError | "Exception" => .exception
  | "BaseException" => .baseException
  | n => .other n

/-- a class the model has a constructor for (its place in the hierarchy is `Exc.base`) -/
def Exc.isModelled : Exc → Bool
  | .other _ => false
  | _ => true

end PedVerif.Validators
