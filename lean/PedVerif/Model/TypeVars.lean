import PedVerif.Gen.TypeVars
import PedVerif.Gen.TypeTables
/-!
Model of TypeVar handling (C07): the TypeVar branch of `_is_instance` (check_types.py), `_check_union`'s treatment of
bound / unbound TypeVars, the containers that thread the binding dict (`List`, `Dict`, `Tuple`, `Tuple[x, ...]`, `Type`),
the three binding stores of the call layer (`FunctionCall.type_vars`, the accessor `pedantic_class` adds to a class) and
call histories over several instances.

Own small syntax (namespace `PedVerif.TypeVars`; the TypeVar-free checker with the full vocabulary is `PedVerif.Checker`,
not imported).  The statement order and the decisions of the TypeVar branch, of `_check_union`, of `FunctionCall` and of
the accessor come from `PedVerif.Gen.TypeVars`, regenerated from the source on every run.
-/
namespace PedVerif.TypeVars
open PedVerif.Gen.TypeVars

abbrev ClsId := Nat
abbrev TVId := Nat

/-- annotations.  `None` / `NoneType` is `cls noneCls`; `Optional[a]` is `union [a, cls noneCls]`. -/
inductive A where
  | cls (c : ClsId)
  | any
  | tv (t : TVId)
  | listOf (a : A)
  | dictOf (k v : A)
  | tupleOf (items : List A)
  | tupleVar (a : A)               -- Tuple[a, ...]
  | union (ms : List A)
  | typeOf (a : A)                 -- Type[a]
deriving Repr, Inhabited

inductive Val where
  | inst (c : ClsId)               -- an object that is not one of the containers below (None, 1, 'a', True, P(), ...)
  | list (xs : List Val)
  | dict (kvs : List (Val × Val))
  | tuple (xs : List Val)
  | clsObj (c : ClsId)             -- a class object
deriving Repr, Inhabited

/-- a binding: `type(obj)` (then `cls c`) or an argument of `__orig_class__` (any TypeVar-free annotation) -/
abbrev TBind := A

abbrev TVMap := List (TVId × TBind)
def TVMap.get? : TVMap → TVId → Option TBind
  | [], _ => none
  | (k, b) :: r, t => if k == t then some b else TVMap.get? r t
def TVMap.set : TVMap → TVId → TBind → TVMap
  | [], t, b => [(t, b)]
  | (k, x) :: r, t, b => if k == t then (t, b) :: r else (k, x) :: TVMap.set r t b
/-- `{**a, **b}` -/
def TVMap.merge (a b : TVMap) : TVMap := b.foldl (fun acc kv => acc.set kv.1 kv.2) a

inductive Variance where | inv | co | contra
deriving DecidableEq, Repr

structure TVInfo where
  constraints : List ClsId         -- `__constraints__` (classes)
  bound : Option ClsId             -- `__bound__` (a class), after resolution when it is spelled as a string
  boundFwd : Bool                  -- `__bound__` is a ForwardRef (`bound='P'`)
  variance : Variance

structure Env where
  sub : ClsId → ClsId → Bool       -- issubclass
  noneCls : ClsId
  listCls : ClsId
  dictCls : ClsId
  tupleCls : ClsId
  typeCls : ClsId
  objectCls : ClsId
  bareBuiltin : ClsId → Bool       -- list, set, dict, frozenset, tuple, type
  tv : TVId → TVInfo

def Val.typeOf (env : Env) : Val → ClsId
  | .inst c => c
  | .list _ => env.listCls
  | .dict _ => env.dictCls
  | .tuple _ => env.tupleCls
  | .clsObj _ => env.typeCls

/-- result of `_is_instance` -/
inductive R where
  | ok (b : Bool) | raisedTV | raisedPed | raisedOther
deriving DecidableEq, Repr

/-- a class used as annotation: the bare-builtin test precedes `isinstance` -/
def clsAnn (env : Env) (c : ClsId) (v : Val) : R :=
  if env.bareBuiltin c then .raisedPed else .ok (env.sub (v.typeOf env) c)

/-- `Type[a]`: origin test, then `_instancecheck_type` (`Any` / a TypeVar: True; a class: `_is_subtype`) -/
def typeNode (env : Env) (a : A) (v : Val) : R :=
  if !env.sub (v.typeOf env) env.typeCls then .ok false else
  match a with
  | .any => .ok true
  | .tv _ => .ok true
  | .cls d => (match v with | .clsObj c => .ok (env.sub c d) | _ => .raisedOther)
  | _ => .raisedOther                                     -- outside the modelled vocabulary

def A.isTV : A → Bool
  | .tv _ => true
  | _ => false

/-! ### `_is_instance` on TypeVar-free annotations (what a binding taken from `__orig_class__` is compared with) -/
/-- `all(f(x) for x in xs)`: lazy, stops at the first result that is not True; exceptions propagate -/
def closedAllWith (f : Val → R) : List Val → R
  | [] => .ok true
  | x :: xs => match f x with
      | .ok true => closedAllWith f xs
      | r => r
/-- `all(fk(key) and fw(val) for key, val in items)` -/
def closedPairsWith (fk fw : Val → R) : List (Val × Val) → R
  | [] => .ok true
  | (x, y) :: rest => match fk x with
      | .ok true => (match fw y with
          | .ok true => closedPairsWith fk fw rest
          | r => r)
      | r => r

mutual
def closedInst (env : Env) : A → Val → R
  | .cls c, v => clsAnn env c v
  | .any, _ => .ok true
  | .tv _, _ => .raisedOther                              -- not TypeVar-free: outside the modelled vocabulary
  | .listOf a, v => (match v with | .list xs => closedAllWith (closedInst env a) xs | _ => .ok false)
  | .dictOf k w, v => (match v with | .dict kvs => closedPairsWith (closedInst env k) (closedInst env w) kvs | _ => .ok false)
  | .tupleOf items, v =>
      if !PedVerif.Gen.TypeTables.requiredArgsOk "Tuple" items.length then .raisedPed else
      (match v with
       | .tuple xs => if xs.length != items.length then .ok false else closedZip env items xs
       | _ => .ok false)
  | .tupleVar a, v => (match v with | .tuple xs => closedAllWith (closedInst env a) xs | _ => .ok false)
  | .union ms, v => closedAny env ms v
  | .typeOf a, v => typeNode env a v
/-- `all(_is_instance(val, type_) for val, type_ in zip(tup, type_args))` -/
def closedZip (env : Env) : List A → List Val → R
  | a :: as, x :: xs => match closedInst env a x with
      | .ok true => closedZip env as xs
      | r => r
  | _, _ => .ok true
/-- `any([_is_instance(v, m) for m in members])`: a list, every member is evaluated, an exception propagates -/
def closedAny (env : Env) : List A → Val → R
  | [], _ => .ok false
  | a :: as, v => match closedInst env a v with
      | .ok b => (match closedAny env as v with | .ok b' => .ok (b || b') | r => r)
      | r => r
end

/-! ### the TypeVar branch -/

/-- `_is_subtype(sub_type=other, super_type=obj.__class__)` (contravariant TypeVar) -/
def contraCheck (env : Env) (other : TBind) (v : Val) : R :=
  match other with
  | .cls c => .ok (env.sub c (v.typeOf env))
  | .any => .ok (env.sub env.objectCls (v.typeOf env))
  | _ => .raisedOther                                     -- outside the modelled vocabulary

/-- the covariant / invariant re-check against the stored binding -/
def covCheck (env : Env) (other : TBind) (v : Val) : R :=
  match other with
  | .cls c => if covIsinstanceForClass then .ok (env.sub (v.typeOf env) c) else clsAnn env c v
  | .any => if covIsinstanceForClass && anyCountsAsClass then .raisedOther else .ok true   -- isinstance(obj, Any): TypeError
  | a => closedInst env a v

inductive Step where
  | done (r : R) (m : TVMap)       -- `return` / `raise`
  | next (m : TVMap)               -- fall through to the next statement

def inConstraints (env : Env) (cs : List ClsId) (c : ClsId) : Bool :=
  if constraintsExactClass then cs.contains c else cs.any (env.sub c)

def tvArm (env : Env) (info : TVInfo) (t : TVId) (v : Val) (m : TVMap) : Arm → Step
  | .constraints =>
      if !info.constraints.isEmpty && !inConstraints env info.constraints (v.typeOf env) then .done (.ok false) m else .next m
  | .fwdBoundReturn =>
      (match info.bound with
       | some b => if info.boundFwd then .done (clsAnn env b v) m else .next m
       | none => .next m)
  | .fwdBoundTest =>
      (match info.bound with
       | some b => if info.boundFwd then
            (match clsAnn env b v with
             | .ok true => .next m
             | .ok false => .done (.ok false) m
             | r => .done r m)
           else .next m
       | none => .next m)
  | .bound =>
      (match info.bound with
       | some b => if !info.boundFwd && !env.sub (v.typeOf env) b then .done (.ok false) m else .next m
       | none => .next m)
  | .prevBound =>
      (match m.get? t with
       | none => .next m
       | some other =>
          match (if varianceDispatch && info.variance == .contra then contraCheck env other v else covCheck env other v) with
          | .ok true => .next m
          | .ok false => .done (if mismatchRaisesTypeVarMismatch then .raisedTV else .raisedPed) m
          | r => .done r m)
  | .bind =>
      if bindOnlyWhenUnbound && (m.get? t).isSome then .next m else .next (m.set t (.cls (v.typeOf env)))

def tvRun (env : Env) (info : TVInfo) (t : TVId) (v : Val) : List Arm → TVMap → R × TVMap
  | [], m => (.ok true, m)                                -- `return True`
  | arm :: rest, m =>
      match tvArm env info t v m arm with
      | .done r m' => (r, m')
      | .next m' => tvRun env info t v rest m'

/-- `_is_instance(obj, T, type_vars)` for a TypeVar `T` -/
def tvBranch (env : Env) (t : TVId) (v : Val) (m : TVMap) : R × TVMap :=
  tvRun env (env.tv t) t v tvArms m

/-! ### `_check_union`: the part after the non-TypeVar members -/

def swallows : R → Bool
  | .ok _ => false
  | .raisedTV => unionSwallows == "PedanticException" || unionSwallows == "PedanticTypeVarMismatchException"
                 || unionSwallows == "Exception" || unionSwallows == "BaseException"
  | .raisedPed => unionSwallows == "PedanticException" || unionSwallows == "PedanticTypeCheckException"
                 || unionSwallows == "Exception" || unionSwallows == "BaseException"
  | .raisedOther => unionSwallows == "Exception" || unionSwallows == "BaseException"

/-- `for bounded_type_var in args_type_vars_bounded: try: if _is_instance(...): return True  except <swallowed>: pass`.
    `some r`: the loop was left with `r`; `none`: it ran to its end. -/
def tryBounded (env : Env) : List TVId → Val → TVMap → Option R × TVMap
  | [], _, m => (none, m)
  | t :: ts, v, m =>
      match tvBranch env t v m with
      | (.ok true, m') => (some (.ok true), m')
      | (.ok false, m') => if unionBoundedTestsVerdict then tryBounded env ts v m' else (some (.ok true), m')
      | (r, m') => if swallows r then tryBounded env ts v m' else (some r, m')

def tvMembers : List A → List TVId
  | [] => []
  | .tv t :: rest => t :: tvMembers rest
  | _ :: rest => tvMembers rest

/-- `m0`: the dict when `_check_union` was entered (the bounded / unbounded split is computed first);
    `m`: the dict after the non-TypeVar members have been evaluated -/
def unionTVs (env : Env) (tvs : List TVId) (v : Val) (m0 m : TVMap) : R × TVMap :=
  let bounded := tvs.filter (fun t => (m0.get? t).isSome)
  let unbounded := tvs.filter (fun t => !bounded.contains t)
  match tryBounded env bounded v m with
  | (some r, m') => (r, m')
  | (none, m') =>
      match unbounded with
      | [] => (.ok (!unionNoUnboundRejects), m')
      | [t] => if unionSingleUnboundChecked then tvBranch env t v m' else (.ok true, m')
      | _ => (.ok true, m')                               -- "impossible to figure out": accepted

/-! ### `_is_instance` with the binding dict threaded through (the dict is mutated in place in Python).
    Recursion is on the annotation only: the element loops take the checker of the element annotation as a function.
    WHICH dict every container hands to its elements, and whether `_check_union` evaluates every member, is generated
    (`iterablePass`, `mappingPass`, `tupleVarPass`, `tuplePass`, `unionMembersPass`, `unionMembersEager`, `dispatchPass`). -/

/-- the dict the next element (and in the end the caller) sees: `m` is what the loop handed to the element, `m'` what the element left -/
def passNext : Pass → TVMap → TVMap → TVMap
  | .same, _, m' => m'
  | .copy, m, _ => m

/-- `all(f(x) for x in xs)` with ONE dict: lazy, stops at the first result that is not True; exceptions propagate -/
def allWith (f : Val → TVMap → R × TVMap) : List Val → TVMap → R × TVMap
  | [], m => (.ok true, m)
  | x :: xs, m => match f x m with
      | (.ok true, m') => allWith f xs m'
      | r => r
/-- `all(fk(key) and fw(val) for key, val in items)` with one dict -/
def pairsWith (fk fw : Val → TVMap → R × TVMap) : List (Val × Val) → TVMap → R × TVMap
  | [], m => (.ok true, m)
  | (x, y) :: rest, m => match fk x m with
      | (.ok true, m') => (match fw y m' with
          | (.ok true, m'') => pairsWith fk fw rest m''
          | r => r)
      | r => r

/-- the same loops with the generated choice of the dict handed on -/
def allWithP (p : Pass) (f : Val → TVMap → R × TVMap) : List Val → TVMap → R × TVMap
  | [], m => (.ok true, m)
  | x :: xs, m => match f x m with
      | (.ok true, m') => allWithP p f xs (passNext p m m')
      | (r, m') => (r, passNext p m m')
def pairsWithP (p : Pass) (fk fw : Val → TVMap → R × TVMap) : List (Val × Val) → TVMap → R × TVMap
  | [], m => (.ok true, m)
  | (x, y) :: rest, m => match fk x m with
      | (.ok true, m') => (match fw y (passNext p m m') with
          | (.ok true, m'') => pairsWithP p fk fw rest (passNext p m m'')
          | (r, m'') => (r, passNext p m m''))
      | (r, m') => (r, passNext p m m')

/-- a container checker called by `_is_instance`: it works on the dict `_is_instance` hands it -/
def dispatch (m : TVMap) (res : R × TVMap) : R × TVMap := (res.1, passNext dispatchPass m res.2)

mutual
def isInst (env : Env) : A → Val → TVMap → R × TVMap
  | .cls c, v, m => (clsAnn env c v, m)
  | .any, _, m => (.ok true, m)
  | .tv t, v, m => tvBranch env t v m
  | .listOf a, v, m => (match v with | .list xs => dispatch m (allWithP iterablePass (isInst env a) xs m) | _ => (.ok false, m))
  | .dictOf k w, v, m =>
      (match v with | .dict kvs => dispatch m (pairsWithP mappingPass (isInst env k) (isInst env w) kvs m) | _ => (.ok false, m))
  | .tupleOf items, v, m =>
      if !PedVerif.Gen.TypeTables.requiredArgsOk "Tuple" items.length then (.raisedPed, m) else
      (match v with
       | .tuple xs => if xs.length != items.length then (.ok false, m) else dispatch m (zipInst env items xs m)
       | _ => (.ok false, m))
  | .tupleVar a, v, m => (match v with | .tuple xs => dispatch m (allWithP tupleVarPass (isInst env a) xs m) | _ => (.ok false, m))
  | .union ms, v, m =>
      dispatch m (match membersInst env ms v m with
       | (.ok true, m') => (.ok true, m')                  -- `if matches_non_type_var: return True`
       | (.ok false, m') => unionTVs env (tvMembers ms) v m m'
       | r => r)
  | .typeOf a, v, m => (typeNode env a v, m)
/-- `all(_is_instance(val, type_) for val, type_ in zip(tup, type_args))` -/
def zipInst (env : Env) : List A → List Val → TVMap → R × TVMap
  | a :: as, x :: xs, m => match isInst env a x m with
      | (.ok true, m') => zipInst env as xs (passNext tuplePass m m')
      | (r, m') => (r, passNext tuplePass m m')
  | _, _, m => (.ok true, m)
/-- `any([_is_instance(value, typ) for typ in args_non_type_vars])`: a list — every non-TypeVar member is evaluated in
    order, an exception propagates at once (`unionMembersEager = false`: a generator, `any` stops at the first True) -/
def membersInst (env : Env) : List A → Val → TVMap → R × TVMap
  | [], _, m => (.ok false, m)
  | a :: rest, v, m =>
      if a.isTV then membersInst env rest v m else
      match isInst env a v m with
      | (.ok b, m') =>
          if b && !unionMembersEager then (.ok true, passNext unionMembersPass m m') else
          (match membersInst env rest v (passNext unionMembersPass m m') with
          | (.ok b', m'') => (.ok (b || b'), m'')
          | r => r)
      | (r, m') => (r, passNext unionMembersPass m m')
end

/-! ### the call layer: stores -/

inductive StoreKind where
  | perCall                              -- plain function / static / class method / `@pedantic` directly on a method
  | resetEachAccess                      -- instance of a non-generic `@pedantic_class` class (the accessor installs a fresh dict)
  | genericInstance (params : List TVId) (g : TVMap)
      -- `Generic ∈ __bases__`; params = `type(self).__parameters__`; g from `__orig_class__` ([] when absent, e.g. inside `__init__`)
deriving Repr

inductive Out where
  | ok | pedTypeCheck | pedTVMismatch | escape
deriving DecidableEq, Repr

/-- the last `except` arm of `_check_type` catches every `Exception` -/
def catchesAll : Bool :=
  PedVerif.Gen.TypeTables.catchAll.contains "Exception" || PedVerif.Gen.TypeTables.catchAll.contains "BaseException"

/-- `assert_value_matches_type` / `_check_type`: `none` = the value was accepted -/
def failure : R → Option Out
  | .ok true => none
  | .ok false => some .pedTypeCheck
  | .raisedTV => some .pedTVMismatch
  | .raisedPed => some .pedTypeCheck
  | .raisedOther => some (if catchesAll then .pedTypeCheck else .escape)

/-- `{k: v for k, v in old.items() if k in class_params}` -/
def TVMap.only (m : TVMap) (params : List TVId) : TVMap := m.filter (fun kv => params.contains kv.1)

def srcMap (params : List TVId) (fifo g : TVMap) : Src → TVMap
  | .fifo => if fifoOnlyClassParams then fifo.only params else fifo
  | .generics => g
  | .self => []                          -- TYPE_VAR_SELF is a key of its own; it never occurs in a modelled annotation

/-- the dict the accessor stores on a generic instance: `{**fifo, **generics, **{Self: cls}}` in the order of the source -/
def rebuild (params : List TVId) (fifo g : TVMap) : TVMap :=
  genericMergeOrder.foldl (fun acc s => acc.merge (srcMap params fifo g s)) []

/-- the dict one resolution of `FunctionCall.type_vars` yields: `callMap` is `FunctionCall._type_vars`,
    `attr` the instance attribute `__pedantic_a42__` -/
def accessMap (k : StoreKind) (callMap attr : TVMap) : TVMap :=
  match k with
  | .perCall => callMap
  | .resetEachAccess => if instanceAccessorSwitch then (if nonGenericFresh then [] else attr) else callMap
  | .genericInstance params g => if instanceAccessorSwitch then rebuild params attr g else callMap

def usesAttr (k : StoreKind) : Bool :=
  match k with
  | .perCall => false
  | _ => instanceAccessorSwitch

/-- one `assert_value_matches_type(value, annotation, type_vars=self.type_vars)` when every access resolves the store anew:
    (failure?, callMap', attr') -/
def oneCheck (env : Env) (k : StoreKind) (callMap attr : TVMap) (a : A) (v : Val) : Option Out × TVMap × TVMap :=
  let r := isInst env a v (accessMap k callMap attr)
  if usesAttr k then (failure r.1, callMap, r.2) else (failure r.1, r.2, attr)

/-- the store resolved on every access: the parameter checks in order, then the return check; the first failure ends the call -/
def runChecksPerAccess (env : Env) (k : StoreKind) : List (A × Val) → TVMap → TVMap → Out × TVMap × TVMap
  | [], cm, attr => (.ok, cm, attr)
  | (a, v) :: rest, cm, attr =>
    match oneCheck env k cm attr a v with
    | (some o, cm', attr') => (o, cm', attr')
    | (none, cm', attr') => runChecksPerAccess env k rest cm' attr'

/-- the checks of a call with ONE dict handed from check to check -/
def runFrom (env : Env) : List (A × Val) → TVMap → Out × TVMap
  | [], m => (.ok, m)
  | (a, v) :: rest, m =>
    match failure (isInst env a v m).1 with
    | some o => (o, (isInst env a v m).2)
    | none => runFrom env rest (isInst env a v m).2

/-- a call: (outcome, callMap', attr').  With the store resolved once per call the dict of the first access is used for the
    whole call (every call has at least the return check) and is what the accessor left on the instance. -/
def runChecks (env : Env) (k : StoreKind) (checks : List (A × Val)) (cm attr : TVMap) : Out × TVMap × TVMap :=
  if resolveOncePerCall then
    let r := runFrom env checks (accessMap k cm attr)
    if usesAttr k then (r.1, cm, r.2) else (r.1, r.2, attr)
  else runChecksPerAccess env k checks cm attr

/-! ### histories over several instances -/

structure Call where
  inst : Nat                             -- identity of the instance the method is called on (ignored for `perCall`)
  fn : Nat                               -- identity of the decorated function (matters only if the per-call map is not fresh)
  kind : StoreKind
  scanFails : Bool                       -- the caller's source contains `=Cls(` without `[`: the accessor raises
  checks : List (A × Val)

abbrev Table := List (Nat × TVMap)
def Table.get (s : Table) (k : Nat) : TVMap :=
  match s with
  | [] => []
  | (k', m) :: r => if k' == k then m else Table.get r k
def Table.put (s : Table) (k : Nat) (m : TVMap) : Table :=
  match s with
  | [] => [(k, m)]
  | (k', x) :: r => if k' == k then (k, m) :: r else (k', x) :: Table.put r k m

structure Stores where
  attrs : Table                          -- `__pedantic_a42__` per instance
  fns : Table                            -- what a `FunctionCall` inherits from earlier calls of the same function (nothing when fresh)

def Stores.empty : Stores := ⟨[], []⟩

def attrKey (c : Call) : Nat := if storeOnInstance then c.inst else 0

def runCall (env : Env) (c : Call) (s : Stores) : Out × Stores :=
  match c.kind, c.scanFails with
  | .genericInstance _ _, true => (if instanceAccessorSwitch then .pedTVMismatch else (runChecks env c.kind c.checks [] []).1, s)
  | _, _ =>
    let cm0 := if perCallFreshMap then [] else s.fns.get c.fn
    let r := runChecks env c.kind c.checks cm0 (s.attrs.get (attrKey c))
    (r.1, { attrs := if usesAttr c.kind then s.attrs.put (attrKey c) r.2.2 else s.attrs,
            fns := if perCallFreshMap then s.fns else s.fns.put c.fn r.2.1 })

def runHistory (env : Env) : List Call → Stores → List Out
  | [], _ => []
  | c :: cs, s => let r := runCall env c s; r.1 :: runHistory env cs r.2

/-! ### nested calls: a method body that calls other checked functions before it returns

A call together with the calls its body makes.  The body catches and journals whatever a nested call raises, so the
outcome of a nested call never becomes the outcome of its caller through the exception path.  `nPre` is the number of
checks made BEFORE the body runs (the parameters); the remaining checks (the result) follow the body.

What the code does (`FunctionCall.type_vars`, the accessor of `pedantic_class`):
* the store is resolved at the FIRST check of the call — before the body if the function has a parameter, after the body
  if it has none — and the dict obtained then is used by every check of this call;
* for a method of a `@pedantic_class` instance that dict is the very object the accessor left in the instance attribute,
  so while the body runs the attribute shows the bindings made by the parameter checks; a nested call on the same instance
  reads it (only the type parameters of the class are carried over) and REPLACES the attribute with a dict of its own;
* after the body the result is checked with the dict of this call; the attribute keeps what the last nested call on the
  instance left there, or — when there was none — is still the dict of this call.
-/
inductive Tree where
  | node (c : Call) (nPre : Nat) (body : List Tree)

instance : Inhabited Tree := ⟨.node ⟨0, 0, .perCall, false, []⟩ 0 []⟩

mutual
def Tree.count : Tree → Nat
  | .node _ _ body => 1 + Tree.countL body
def Tree.countL : List Tree → Nat
  | [] => 0
  | t :: ts => t.count + Tree.countL ts
end

/-- journal entries of calls that were never made (the body did not run) -/
def skipped (body : List Tree) : List (Option Out) := List.replicate (Tree.countL body) none

def isScanFail (c : Call) : Bool :=
  match c.kind, c.scanFails with
  | .genericInstance _ _, true => true
  | _, _ => false

/-- the stores after a call left `cm` in its `FunctionCall` and `attr` in the attribute of its instance -/
def writeBack (c : Call) (s : Stores) (cm attr : TVMap) : Stores :=
  { attrs := if usesAttr c.kind then s.attrs.put (attrKey c) attr else s.attrs,
    fns := if perCallFreshMap then s.fns else s.fns.put c.fn cm }

/-- the stores when the ONE dict `m` of a call is (also) what the attribute of its instance refers to -/
def expose (c : Call) (s : Stores) (cm0 m : TVMap) : Stores :=
  writeBack c s (if usesAttr c.kind then cm0 else m) m

structure TRes where
  out : Out                              -- outcome of the call
  st : Stores
  touched : List Nat                     -- instances whose attribute was replaced by this call or a call below it
  log : List (Option Out)                -- outcomes of the calls below it, pre-order; `none`: never made

structure BRes where
  st : Stores
  touched : List Nat
  log : List (Option Out)

mutual
def runTree (env : Env) : Tree → Stores → TRes
  | .node c n body, s =>
    let key := attrKey c
    let pre := c.checks.take n
    let post := c.checks.drop n
    let me := if usesAttr c.kind then [key] else []
    let cm0 := if perCallFreshMap then [] else s.fns.get c.fn
    if pre.isEmpty then
      -- nothing is checked before the body: the store is first read by the check of the result
      let b := runBody env body s
      let r := runCall env c b.st
      ⟨r.1, r.2, b.touched ++ me, b.log⟩
    else if isScanFail c then ⟨(runCall env c s).1, s, [], skipped body⟩
    else if resolveOncePerCall then
      let r1 := runFrom env pre (accessMap c.kind cm0 (s.attrs.get key))
      match r1.1 with
      | .ok =>
        let b := runBody env body (expose c s cm0 r1.2)
        let r2 := runFrom env post r1.2
        ⟨r2.1, if usesAttr c.kind && b.touched.contains key then b.st else expose c b.st cm0 r2.2, me ++ b.touched, b.log⟩
      | o => ⟨o, expose c s cm0 r1.2, me, skipped body⟩
    else
      let r1 := runChecksPerAccess env c.kind pre cm0 (s.attrs.get key)
      match r1.1 with
      | .ok =>
        let b := runBody env body (writeBack c s r1.2.1 r1.2.2)
        let r2 := runChecksPerAccess env c.kind post r1.2.1 (b.st.attrs.get key)
        ⟨r2.1, writeBack c b.st r2.2.1 r2.2.2, me ++ b.touched, b.log⟩
      | o => ⟨o, writeBack c s r1.2.1 r1.2.2, me, skipped body⟩
/-- the nested calls of a body, in order; each is caught and journalled -/
def runBody (env : Env) : List Tree → Stores → BRes
  | [], s => ⟨s, [], []⟩
  | t :: ts, s =>
    let r := runTree env t s
    let b := runBody env ts r.st
    ⟨b.st, r.touched ++ b.touched, some r.out :: r.log ++ b.log⟩
end

/-- a history of top-level calls, each with its tree of nested calls: (outcome, journal of the calls below it) per step -/
def runForest (env : Env) : List Tree → Stores → List (Out × List (Option Out))
  | [], _ => []
  | t :: ts, s => let r := runTree env t s; (r.out, r.log) :: runForest env ts r.st

/-! ### calls in flight at the same time: live generators, suspended coroutines

A generator function is checked in pieces: the parameters when the call is made (the `GeneratorWrapper` is created then and
is handed the store of the call), every yielded value (and the `None` sent in / returned) when the consumer asks for the
next item.  A coroutine function checks its parameters when it is first stepped and its result when its body ends.  Between
two pieces of one call, pieces of OTHER calls — of the same function, on the same instance — may run.  `Job`: a call in
flight with the checks of its remaining advances; `Sys`: all jobs of a schedule plus the stores; `advance j`: job `j` runs
its next piece; a schedule is the list of jobs in the order they advance.

The dict of a call is one object from its first check to its last: for a method of a `@pedantic_class` instance it is the
object the accessor stored in the instance attribute, so the attribute REFERS to the dict of the job that resolved last on
that instance (`Ref.job`), later bindings of that job included. -/

structure Job where
  c : Call                              -- the call; at the start `c.checks` is `todo.flatten`
  eager : Bool                          -- generator function: the wrapper is created when the call is made and reads the store then
  todo : List (List (A × Val))          -- the checks of each remaining advance, in order
  started : Bool                        -- the call has been made (first advance done)
  dict : Option TVMap                   -- the resolved store of the call, once it has been read
  priv : TVMap                          -- `FunctionCall._type_vars`, the private dict (used by nothing unless the wrapper is handed it)
  out : Option Out                      -- ended: failed with that outcome, or `.ok` after the last advance

/-- a call about to be made -/
def Job.fresh (c : Call) (eager : Bool) (segs : List (List (A × Val))) : Job := ⟨c, eager, segs, false, none, [], none⟩

/-- the job-local part of an advance; `cm0`: what `FunctionCall._type_vars` starts with, `attr`: what the attribute of the
    instance shows now (read only if the store of the call is resolved by this advance) -/
def Job.step (env : Env) (jb : Job) (cm0 attr : TVMap) : Job :=
  match jb.out, jb.todo with
  | some _, _ => jb
  | none, [] => { jb with out := some .ok }
  | none, seg :: rest =>
    let later := jb.eager && jb.started                       -- a check made by the generator wrapper
    let usePriv := later && !generatorGetsResolvedStore && usesAttr jb.c.kind
    let resolveNow := jb.dict.isNone && (!seg.isEmpty || (jb.eager && !jb.started))
    if resolveNow && isScanFail jb.c then { jb with started := true, out := some (runCall env jb.c Stores.empty).1 } else
    let d : Option TVMap := match jb.dict with
      | some m => some m
      | none => if resolveNow then some (accessMap jb.c.kind cm0 attr) else none
    let fin (o : Out) : Option Out := match o with
      | .ok => if rest.isEmpty then some .ok else none
      | o => some o
    if usePriv then
      let r := runFrom env seg jb.priv
      { jb with todo := rest, started := true, dict := d, priv := r.2, out := fin r.1 }
    else
      match d with
      | none => { jb with todo := rest, started := true, out := fin .ok }          -- nothing to check, nothing read
      | some m =>
        let r := runFrom env seg m
        { jb with todo := rest, started := true, dict := some r.2, out := fin r.1 }

inductive Ref where
  | val (m : TVMap)                     -- a dict no job in flight owns
  | job (j : Nat)                       -- the dict of job `j`

structure Sys where
  jobs : List Job
  attrs : List (Nat × Ref)              -- instance ↦ what its attribute refers to (first entry wins)
  fns : Table

/-- the dict the attribute of instance `key` shows -/
def Sys.attr (s : Sys) (key : Nat) : TVMap :=
  match s.attrs.lookup key with
  | none => []
  | some (.val m) => m
  | some (.job j) =>
    match s.jobs[j]? with
    | some jb => (match jb.dict with | some m => m | none => [])
    | none => []

def advance (env : Env) (j : Nat) (s : Sys) : Sys :=
  match s.jobs[j]? with
  | none => s
  | some jb =>
    let cm0 := if perCallFreshMap then [] else s.fns.get jb.c.fn
    let jb' := jb.step env cm0 (s.attr (attrKey jb.c))
    { jobs := s.jobs.set j jb',
      attrs := if jb.dict.isNone && jb'.dict.isSome && usesAttr jb.c.kind then (attrKey jb.c, .job j) :: s.attrs else s.attrs,
      fns := if perCallFreshMap then s.fns else s.fns.put jb.c.fn (match jb'.dict with | some m => m | none => cm0) }

def runOrder (env : Env) : List Nat → Sys → Sys
  | [], s => s
  | j :: js, s => runOrder env js (advance env j s)

def Sys.ofStores (jobs : List Job) (s : Stores) : Sys := ⟨jobs, s.attrs.map (fun kv => (kv.1, .val kv.2)), s.fns⟩

/-- the stores when no job is in flight any more: every attribute holds the dict it referred to -/
def Sys.toStores (z : Sys) : Stores :=
  { attrs := z.attrs.reverse.foldl (fun t kv => t.put kv.1 (z.attr kv.1)) [], fns := z.fns }

/-- a top-level step of a history: a call with its tree of nested calls, or a (checked, TypeVar-free) function whose body makes
    the calls `jobs` and advances them in the order `order` -/
inductive Top where
  | tree (t : Tree)
  | sched (root : Call) (jobs : List Job) (order : List Nat)

def runTop (env : Env) : Top → Stores → (Out × List (Option Out)) × Stores
  | .tree t, s => let r := runTree env t s; ((r.out, r.log), r.st)
  | .sched root jobs order, s =>
    let z := runOrder env order (Sys.ofStores jobs s)
    let r := runCall env root z.toStores
    ((r.1, z.jobs.map (·.out)), r.2)

def runTops (env : Env) : List Top → Stores → List (Out × List (Option Out))
  | [], _ => []
  | x :: xs, s => let r := runTop env x s; r.1 :: runTops env xs r.2

/-! ### variadic keyword parameters: which keyword arguments are matched against the annotation of `**kwargs`

`_check_types_kwargs` runs over `not_yet_check_kwargs`: the keyword arguments of the call, in call order, minus a set of names
(`kwargsFilter`, generated).  `named`: the names of the named parameters (the loop of `_check_type_param` visits every one of
them, whether or not the call passes it); `vnames`: the names of the `*` / `**` parameters themselves. -/

structure VarKw where
  named : List String
  vnames : List String
  ann : A                               -- annotation of the `**` parameter
  items : List (String × Val)           -- ALL keyword arguments of the call, in call order
  pos : Nat                             -- number of checks of the call made before these (named parameters, `*args` values)

def notYetChecked (k : VarKw) : List (String × Val) :=
  match kwargsFilter with
  | .visitedNamed => k.items.filter (fun kv => !k.named.contains kv.1)
  | .signatureNames => k.items.filter (fun kv => !(k.named ++ k.vnames).contains kv.1)
  | .everyKeyword => k.items

def VarKw.checks (k : VarKw) : List (A × Val) := (notYetChecked k).map (fun kv => (k.ann, kv.2))

/-- the checks of a call: those of the named parameters and of `*args`, then those of `**kwargs`, then the rest (the result) -/
def spliceChecks (checks : List (A × Val)) : Option VarKw → List (A × Val)
  | none => checks
  | some k => checks.take k.pos ++ k.checks ++ checks.drop k.pos

/-! ### class shapes: where the per-instance accessor takes the type parameters of the class from

`is_instance_of_generic_class` (`genericTest`, generated) decides whether the instance is one of a generic class;
`check_instance_of_generic_class_and_get_type_vars` zips the "type variables" of the class (`genericParamsFrom`, generated) with the
arguments of `__orig_class__` BY INDEX (`type_vars[type_var] = actual_types[i]`: an
IndexError when there are fewer arguments than "type variables", raised in the accessor, outside every `try` of the checker).
What typing makes of a class statement — `__bases__`, `__parameters__`, `__orig_bases__` — is observed, not modelled. -/

structure Shape where
  genericInBases : Bool                 -- `Generic in cls.__bases__`
  params : List TVId                    -- `cls.__parameters__`
  origBases : List (Bool × List A)      -- per entry of `cls.__orig_bases__`: is it `Generic[...]`; its type arguments (`get_type_arguments`)
  declared : Option (List A)            -- the type arguments of the creating expression `Cls[X1, ..](...)` (none: `Cls(...)`)
  inInit : Bool                         -- the call is made before `__init__` has returned: CPython has not set `__orig_class__` yet

/-- the arguments of `__orig_class__` as the accessor finds them (none: the attribute is absent — not subscripted, or inside `__init__`) -/
def Shape.actual (sh : Shape) : Option (List A) := if sh.inInit then none else sh.declared

/-- the "type variables" of the class as the accessor reads them, for a given source (the generated one: `Shape.typeVariables`) -/
def Shape.typeVariablesWith (src : ParamSrc) (sh : Shape) : Option (List A) :=
  match src with
  | .firstOrigBase => sh.origBases.head?.map (·.2)
  | .genericEntry => (sh.origBases.find? (·.1)).map (·.2)
  | .parameters => some (sh.params.map A.tv)

def Shape.typeVariables (sh : Shape) : Option (List A) := sh.typeVariablesWith genericParamsFrom

/-- `for i, type_var in enumerate(type_variables): type_vars[type_var] = actual_types[i]`; `none`: IndexError.
    A "type variable" that is no TypeVar (`str` in `Dict[str, T]`) becomes a key no annotation ever asks for. -/
def zipGenerics : List A → List A → TVMap → Option TVMap
  | [], _, m => some m
  | _ :: _, [], _ => none
  | k :: ks, x :: xs, m => zipGenerics ks xs (match k with | .tv t => m.set t x | _ => m)

/-- what `check_instance_of_generic_class_and_get_type_vars` returns; `none`: an exception that is no PedanticException -/
def Shape.genericsWith (src : ParamSrc) (sh : Shape) : Option TVMap :=
  match sh.actual with
  | none => some []
  | some acts => (match sh.typeVariablesWith src with
      | none => none
      | some tvs => zipGenerics tvs acts [])

def Shape.generics (sh : Shape) : Option TVMap := sh.genericsWith genericParamsFrom

/-- `is_instance_of_generic_class(instance)` for a given test (the generated one: `Shape.isGeneric`) -/
def Shape.isGenericWith (t : GenericTest) (sh : Shape) : Bool :=
  match t with
  | .directBase => sh.genericInBases
  | .directBaseOrParameters => sh.genericInBases || !sh.params.isEmpty
  | .parameters => !sh.params.isEmpty

def Shape.isGeneric (sh : Shape) : Bool := sh.isGenericWith genericTest

/-- the store of a method call on an instance of the class; `none`: the accessor raises (every call ends with that exception).
    `src`, `t`: where the accessor takes the type parameters from / what makes a class generic for it — `Shape.kind` is this function at
    the facts translated from the current source; the witnesses of repaired findings evaluate it at the former facts. -/
def Shape.kindWith (src : ParamSrc) (t : GenericTest) (sh : Shape) : Option StoreKind :=
  if genericsFromOrigClass then
    (if sh.isGenericWith t then (sh.genericsWith src).map (StoreKind.genericInstance sh.params) else some .resetEachAccess)
  else some (if sh.isGenericWith t then .genericInstance sh.params [] else .resetEachAccess)

def Shape.kind (sh : Shape) : Option StoreKind := sh.kindWith genericParamsFrom genericTest

/-- a top-level step on an instance whose accessor raises: the first check of the call lets the exception through -/
def runTopE (env : Env) (escapes : Bool) (t : Top) (s : Stores) : (Out × List (Option Out)) × Stores :=
  if escapes then ((.escape, []), s) else runTop env t s

def runTopsE (env : Env) : List (Bool × Top) → Stores → List (Out × List (Option Out))
  | [], _ => []
  | (e, x) :: xs, s => let r := runTopE env e x s; r.1 :: runTopsE env xs r.2

end PedVerif.TypeVars
